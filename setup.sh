#!/bin/bash
# Builds the framework from files on disk only: the whole Coq development (full .vo
# build), the extraction, the OCaml model executor and the Rust implementation executor.
cd "$(dirname "$0")"
export CARGO_NET_OFFLINE=true
python3 - <<'PY'
import sys, os
sys.path.insert(0, 'py')
import lib
rc, out = lib.coq_build(None, timeout=3400)
print(out[-3000:])
if rc != 0:
    print('SETUP: coq build failed (individual checks rebuild their own cone)')
lib.extract_model()
lib.build_driver()
lib.build_harness()
# warm the source-tie caches (tables, translated functions, linked regenerated decoder): keyed by content
try:
    import srcfacts, srctie2
    w = os.path.join(lib.CACHE, 'work', 'setup')
    r1 = srcfacts.check(lib.REPO, srcfacts.ALL_TIES, os.path.join(w, 'a'))
    r2 = srctie2.check(lib.REPO, srctie2.ALL, os.path.join(w, 'b'))
    r3 = srctie2.linked_check(lib.REPO, os.path.join(w, 'c'))
    r4 = srctie2.linked_vec_check(lib.REPO, os.path.join(w, 'd'))
    print('SETUP: regenerated reader / hide / reveal:', r4.get('status'))
    print('SETUP: source ties', sum(v == 'tied' for v in r1.values()), '/', len(r1), ';', sum(v.startswith('tied') for v in r2.values()), '/', len(r2), ';', r3.get('status'))
except Exception as e:
    print('SETUP: source ties not warmed:', repr(e)[:200])
print('SETUP: ok')
PY
