#!/bin/bash
# Builds the framework from files on disk only: the whole Coq development (full .vo
# build), the extraction, the OCaml model executor and the Rust implementation executor.
cd "$(dirname "$0")"
export CARGO_NET_OFFLINE=true
python3 - <<'PY'
import sys, os
sys.path.insert(0, 'py')
import lib
rc, out = lib.coq_build(None, timeout=3400)
print(out[-3000:])
if rc != 0:
    print('SETUP: coq build failed (individual checks rebuild their own cone)')
lib.extract_model()
lib.build_driver()
lib.build_harness()
print('SETUP: ok')
PY
