(* Model executor: reads one case per line (tab-separated), runs the extracted
   Coq model, prints one canonical result line per case.  Generates nothing,
   decides nothing.  Text syntax is shared with the Rust executor. *)
module M = Model

exception Bad of string
let bad s = raise (Bad s)

(* ---------- numbers ---------- *)
let rec pos_of_int (i : int) : M.positive =
  if i = 1 then M.XH
  else if i land 1 = 0 then M.XO (pos_of_int (i lsr 1))
  else M.XI (pos_of_int (i lsr 1))
let n_of_int (i : int) : M.n = if i = 0 then M.N0 else M.Npos (pos_of_int i)
let byte_tab = Array.init 256 n_of_int
let n_of_byte i = byte_tab.(i)
let rec int_of_pos (p : M.positive) : int =
  match p with M.XH -> 1 | M.XO q -> 2 * int_of_pos q | M.XI q -> 2 * int_of_pos q + 1
let rec pos_bits = function M.XH -> 1 | M.XO q | M.XI q -> 1 + pos_bits q
let int_of_n = function M.N0 -> 0 | M.Npos p -> int_of_pos p
let ten = n_of_int 10
let n_of_dec (s : string) : M.n =
  if s = "" then bad "empty number";
  let acc = ref M.N0 in
  String.iter (fun c ->
      if c < '0' || c > '9' then bad ("number: " ^ s);
      acc := M.N.add (M.N.mul !acc ten) (n_of_int (Char.code c - 48))) s;
  !acc
let dec_of_n (x : M.n) : string =
  match x with
  | M.N0 -> "0"
  | M.Npos p when pos_bits p <= 60 -> string_of_int (int_of_pos p)
  | _ ->
    let b = Buffer.create 24 in
    let rec go x acc =
      match x with
      | M.N0 -> acc
      | _ -> let (q, r) = M.N.div_eucl x ten in go q (Char.chr (48 + int_of_n r) :: acc) in
    List.iter (Buffer.add_char b) (go x []); Buffer.contents b
let rec nat_to_int = function M.O -> 0 | M.S k -> 1 + nat_to_int k

(* ---------- hex ---------- *)
let hexval c =
  match c with
  | '0'..'9' -> Char.code c - 48
  | 'a'..'f' -> Char.code c - 87
  | 'A'..'F' -> Char.code c - 55
  | _ -> bad "hex digit"
let bytes_of_hex (s : string) : M.n list =
  let n = String.length s in
  if n land 1 = 1 then bad "odd hex";
  let rec go i acc = if i < 0 then acc
    else go (i - 2) (n_of_byte (16 * hexval s.[i] + hexval s.[i+1]) :: acc) in
  go (n - 2) []
let hexdig = "0123456789abcdef"
let hex_of_bytes (l : M.n list) : string =
  let b = Buffer.create 64 in
  List.iter (fun x -> let i = int_of_n x in
              if i > 255 then bad "octet > 255";
              Buffer.add_char b hexdig.[i lsr 4]; Buffer.add_char b hexdig.[i land 15]) l;
  Buffer.contents b

(* ---------- coq strings ---------- *)
let char_of_ascii (M.Ascii (b0,b1,b2,b3,b4,b5,b6,b7)) =
  let v b k = if b then k else 0 in
  Char.chr (v b0 1 + v b1 2 + v b2 4 + v b3 8 + v b4 16 + v b5 32 + v b6 64 + v b7 128)
let ocaml_string (s : M.string) : string =
  let b = Buffer.create 32 in
  let rec go = function M.EmptyString -> () | M.String (c, t) -> Buffer.add_char b (char_of_ascii c); go t in
  go s; Buffer.contents b

(* ---------- splitting ---------- *)
let split_top (delim : char) (s : string) : string list =
  if s = "" then [] else begin
    let parts = ref [] and depth = ref 0 and start = ref 0 in
    String.iteri (fun i c ->
        if c = '(' || c = '[' then incr depth
        else if c = ')' || c = ']' then decr depth
        else if c = delim && !depth = 0 then begin
          parts := String.sub s !start (i - !start) :: !parts; start := i + 1 end) s;
    parts := String.sub s !start (String.length s - !start) :: !parts;
    List.rev !parts
  end
(* "Name(args)" -> (Name, args) ; "Name" -> (Name, "") *)
let head_args (s : string) : string * string =
  match String.index_opt s '(' with
  | None -> (s, "")
  | Some i ->
    if s.[String.length s - 1] <> ')' then bad ("paren: " ^ s);
    (String.sub s 0 i, String.sub s (i + 1) (String.length s - i - 2))
let unbracket (s : string) : string =
  let n = String.length s in
  if n < 2 || s.[0] <> '[' || s.[n-1] <> ']' then bad ("bracket: " ^ s);
  String.sub s 1 (n - 2)

(* ---------- enum names ---------- *)
let mt_names = M.[
  StartControlConnectionRequest, "StartControlConnectionRequest";
  StartControlConnectionReply, "StartControlConnectionReply";
  StartControlConnectionConnected, "StartControlConnectionConnected";
  StopControlConnectionNotification, "StopControlConnectionNotification";
  Hello, "Hello"; OutgoingCallRequest, "OutgoingCallRequest";
  OutgoingCallReply, "OutgoingCallReply"; OutgoingCallConnected, "OutgoingCallConnected";
  IncomingCallRequest, "IncomingCallRequest"; IncomingCallReply, "IncomingCallReply";
  IncomingCallConnected, "IncomingCallConnected"; CallDisconnectNotify, "CallDisconnectNotify";
  WanErrorNotify, "WanErrorNotify"; SetLinkInfo, "SetLinkInfo" ]
let et_names = M.[
  EtOk, "Ok"; NoControlConnectionExists, "NoControlConnectionExists";
  WrongLength, "WrongLength"; OutOfRangeOrBadReserved, "OutOfRangeOrBadReserved";
  InsufficientResources, "InsufficientResources"; InvalidSessionId, "InvalidSessionId";
  Generic, "Generic"; TryAnotherDestination, "TryAnotherDestination";
  UnknownMandatoryAvp, "UnknownMandatoryAvp" ]
let pa_names = M.[
  PaReserved, "Reserved"; TextualUserNamePasswordExchange, "TextualUserNamePasswordExchange";
  PppChap, "PppChap"; PppPap, "PppPap"; NoAuthentication, "NoAuthentication";
  MicrosoftChapVersion1, "MicrosoftChapVersion1" ]
let sc_names = M.[
  ScReserved, "Reserved";
  GeneralRequestToClearControlConnection, "GeneralRequestToClearControlConnection";
  GeneralError, "GeneralError"; ControlChannelAlreadyExists, "ControlChannelAlreadyExists";
  RequesterNotAuthorizedToEstablishControlChannel, "RequesterNotAuthorizedToEstablishControlChannel";
  RequesterProtocolVersionUnsupported, "RequesterProtocolVersionUnsupported";
  RequesterShutdown, "RequesterShutdown"; FsmError, "FsmError" ]
let cd_names = M.[
  CdReserved, "Reserved"; CallDisconnectedLossOfCarrier, "CallDisconnectedLossOfCarrier";
  CallDisconnectedWithErrorCode, "CallDisconnectedWithErrorCode";
  CallDisconnectedAdministrative, "CallDisconnectedAdministrative";
  CallFailedTemporarilyUnavailable, "CallFailedTemporarilyUnavailable";
  CallFailedPermanentlyUnavailable, "CallFailedPermanentlyUnavailable";
  InvalidDestination, "InvalidDestination"; CallFailedNoCarrier, "CallFailedNoCarrier";
  CallFailedBusySignal, "CallFailedBusySignal"; CallFailedNoDialTone, "CallFailedNoDialTone";
  CallEstablishTimeout, "CallEstablishTimeout"; CallNoFramingDetected, "CallNoFramingDetected" ]
let k16_names = M.[ FirmwareRevision, "FirmwareRevision"; AssignedTunnelId, "AssignedTunnelId";
  ReceiveWindowSize, "ReceiveWindowSize"; AssignedSessionId, "AssignedSessionId" ]
let k32_names = M.[ FramingCapabilities, "FramingCapabilities"; BearerCapabilities, "BearerCapabilities";
  CallSerialNumber, "CallSerialNumber"; MinimumBps, "MinimumBps"; MaximumBps, "MaximumBps";
  BearerType, "BearerType"; FramingType, "FramingType"; TxConnectSpeed, "TxConnectSpeed";
  RxConnectSpeed, "RxConnectSpeed" ]
let kbytes_names = M.[ HostName, "HostName"; Challenge, "Challenge";
  InitialReceivedLcpConfReq, "InitialReceivedLcpConfReq"; LastSentLcpConfReq, "LastSentLcpConfReq";
  LastReceivedLcpConfReq, "LastReceivedLcpConfReq"; ProxyAuthenName, "ProxyAuthenName";
  ProxyAuthenChallenge, "ProxyAuthenChallenge"; ProxyAuthenResponse, "ProxyAuthenResponse";
  PrivateGroupId, "PrivateGroupId" ]
let kstr_names = M.[ VendorName, "VendorName"; CalledNumber, "CalledNumber";
  CallingNumber, "CallingNumber"; SubAddress, "SubAddress" ]
let kfix_names = M.[ RandomVector, "RandomVector"; ChallengeResponse, "ChallengeResponse";
  PhysicalChannelId, "PhysicalChannelId" ]
let name_of tbl v = List.assoc v tbl
let of_name what tbl s =
  match List.find_opt (fun (_, n) -> n = s) tbl with
  | Some (v, _) -> v
  | None -> bad (what ^ " name: " ^ s)
let find_name tbl s = List.find_opt (fun (_, n) -> n = s) tbl

(* ---------- values <-> text ---------- *)
let opt_hex_print = function None -> "-" | Some b -> "x" ^ hex_of_bytes b
let opt_hex_parse s =
  if s = "-" then None
  else if String.length s >= 1 && s.[0] = 'x' then Some (bytes_of_hex (String.sub s 1 (String.length s - 1)))
  else bad ("opt hex: " ^ s)

(* printing goes through the extracted Gallina printers of Model/Show.v *)
let print_avp (a : M.avp) : string = ocaml_string (M.show_avp a)

let parse_avp (s : string) : M.avp =
  let (hd, args) = head_args s in
  let a = Array.of_list (String.split_on_char ',' args) in
  let arg i = if i < Array.length a then a.(i) else bad ("missing arg: " ^ s) in
  let num i = n_of_dec (arg i) and hx i = bytes_of_hex (arg i) in
  match hd with
  | "MessageType" -> M.AMessageType (of_name "mt" mt_names (arg 0))
  | "ResultCode" ->
    if Array.length a = 2 then (if arg 1 <> "-" then bad s; M.AResultCode (num 0, None))
    else M.AResultCode (num 0, Some (of_name "et" et_names (arg 1), opt_hex_parse (arg 2)))
  | "ProtocolVersion" -> M.AProtocolVersion (num 0, num 1)
  | "TieBreaker" -> M.ATieBreaker (num 0)
  | "Q931CauseCode" -> M.AQ931CauseCode (num 0, num 1, opt_hex_parse (arg 2))
  | "ProxyAuthenType" -> M.AProxyAuthenType (of_name "pa" pa_names (arg 0))
  | "ProxyAuthenId" -> M.AProxyAuthenId (num 0)
  | "CallErrors" -> M.ACallErrors (num 0, num 1, num 2, num 3, num 4, num 5)
  | "Accm" -> M.AAccm (hx 0, hx 1)
  | "SequencingRequired" -> M.ASequencingRequired
  | "Hidden" -> M.AHidden (num 0, hx 1)
  | _ ->
    (match find_name k16_names hd with Some (k, _) -> M.A16 (k, num 0) | None ->
     match find_name k32_names hd with Some (k, _) -> M.A32 (k, num 0) | None ->
     match find_name kbytes_names hd with Some (k, _) -> M.ABytes (k, hx 0) | None ->
     match find_name kstr_names hd with Some (k, _) -> M.AStr (k, hx 0) | None ->
     match find_name kfix_names hd with Some (k, _) -> M.AFix (k, hx 0) | None ->
     bad ("avp kind: " ^ hd))

let print_err (e : M.derr) : string = ocaml_string (M.show_err e)

let parse_err (s : string) : M.derr =
  let (hd, args) = head_args s in
  let x () = n_of_dec args in
  match hd with
  | "IncompleteAVP" -> M.IncompleteAVP (x ()) | "UnknownMessageType" -> M.UnknownMessageType (x ())
  | "InvalidUtf8" -> M.InvalidUtf8 (x ()) | "InvalidResultCodeErrorType" -> M.InvalidResultCodeErrorType (x ())
  | "AVPReadError" -> M.AVPReadError (x ()) | "InvalidAVPLength" -> M.InvalidAVPLength (x ())
  | "UnknownAvp" -> M.UnknownAvp (x ()) | "EmptyHiddenAVP" -> M.EmptyHiddenAVP
  | "MisalignedHiddenAVP" -> M.MisalignedHiddenAVP
  | "InvalidOriginalAVPLength" -> M.InvalidOriginalAVPLength (x ())
  | "UnsupportedVendorId" -> M.UnsupportedVendorId (x ()) | "InvalidVersion" -> M.InvalidVersion (x ())
  | "InvalidReservedBits" -> M.InvalidReservedBits | "IncompleteFlags" -> M.IncompleteFlags
  | "InvalidOffset" -> M.InvalidOffset (x ())
  | "IncompleteDataMessageHeader" -> M.IncompleteDataMessageHeader
  | "IncompleteDataMessagePayload" -> M.IncompleteDataMessagePayload
  | "EmptyDataMessagePayload" -> M.EmptyDataMessagePayload
  | "MessageReadError" -> M.MessageReadError
  | "ForbiddenControlMessagePriority" -> M.ForbiddenControlMessagePriority
  | "ForbiddenControlMessageOffset" -> M.ForbiddenControlMessageOffset
  | "ControlMessageWithoutLength" -> M.ControlMessageWithoutLength
  | "ControlMessageWithoutNsNr" -> M.ControlMessageWithoutNsNr
  | "IncompleteControlMessageHeader" -> M.IncompleteControlMessageHeader
  | "IncompleteControlMessagePayload" -> M.IncompleteControlMessagePayload
  | "ControlMessageTypeNotFirst" -> M.ControlMessageTypeNotFirst
  | _ -> bad ("error name: " ^ s)

let print_avps l = "[" ^ String.concat ";" (List.map print_avp l) ^ "]"
let parse_avps s = List.map parse_avp (split_top ';' (unbracket s))

let print_msg (m : M.message) : string = ocaml_string (M.show_msg m)

let parse_msg (s : string) : M.message =
  let (hd, args) = head_args s in
  let a = Array.of_list (split_top ',' args) in
  let arg i = if i < Array.length a then a.(i) else bad ("missing arg: " ^ s) in
  match hd with
  | "C" ->
    M.Control { M.c_length = n_of_dec (arg 0); c_tunnel = n_of_dec (arg 1); c_session = n_of_dec (arg 2);
                c_ns = n_of_dec (arg 3); c_nr = n_of_dec (arg 4); c_avps = parse_avps (arg 5) }
  | "D" ->
    let opt f s = if s = "-" then None else Some (f s) in
    let nsnr s = match String.split_on_char ':' s with
      | [x; y] -> (n_of_dec x, n_of_dec y) | _ -> bad "nsnr" in
    M.Data { M.d_prio = (arg 0 = "1"); d_length = opt n_of_dec (arg 1); d_tunnel = n_of_dec (arg 2);
             d_session = n_of_dec (arg 3); d_nsnr = opt nsnr (arg 4); d_offset = opt n_of_dec (arg 5);
             d_data = bytes_of_hex (if Array.length a > 6 then a.(6) else "") }
  | _ -> bad ("message: " ^ s)

let opts_of (s : string) : M.opts =
  let i = int_of_string s in
  { M.v_reserved = i land 1 <> 0; v_version = i land 2 <> 0; v_unused = i land 4 <> 0 }

let outcome (f : 'a -> string) (o : 'a M.outcome) : string =
  match o with
  | M.Val a -> f a
  | M.Panic _ -> "PANIC"
  | M.UB -> "UB"
  | M.OutOfFuel -> "NOFUEL"

let print_mres x = ocaml_string (M.show_mres x)
let print_dres f = function M.Ok a -> "Ok(" ^ f a ^ ")" | M.Err e -> "Err(" ^ print_err e ^ ")"
let print_avpres x = ocaml_string (M.show_avpres x)

(* ---------- reader / writer op sequences ---------- *)
let rec parse_rop (s : string) : M.rop =
  match s with
  | "len" -> M.RLen | "empty" -> M.RIsEmpty | "u8" -> M.RU8 | "u16" -> M.RU16
  | "u32" -> M.RU32 | "u64" -> M.RU64
  | _ ->
    (match String.index_opt s ':' with
     | None -> bad ("rop: " ^ s)
     | Some i ->
       let k = String.sub s 0 i and r = String.sub s (i + 1) (String.length s - i - 1) in
       match k with
       | "bytes" -> M.RBytes (n_of_dec r)
       | "skip" -> M.RSkip (n_of_dec r)
       | "sub" ->
         (match String.index_opt r '[' with
          | None -> bad "sub"
          | Some j ->
            M.RSub (n_of_dec (String.sub r 0 j),
                    parse_rops (String.sub r j (String.length r - j))))
       | _ -> bad ("rop: " ^ s))
and parse_rops (s : string) : M.rop list = List.map parse_rop (split_top ',' (unbracket s))

let rec print_obs (o : M.obs) : string =
  match o with
  | M.ONum n -> dec_of_n n
  | M.OBool b -> if b then "true" else "false"
  | M.OBytes None -> "None"
  | M.OBytes (Some b) -> "x" ^ hex_of_bytes b
  | M.OUnit -> "()"
  | M.OSub l -> print_obs_list l
and print_obs_list l = "[" ^ String.concat "," (List.map print_obs l) ^ "]"

let parse_wop (s : string) : M.wop =
  match String.split_on_char ':' s with
  | ["len"] -> M.WLen | ["empty"] -> M.WIsEmpty
  | ["u8"; x] -> M.WU8 (n_of_dec x) | ["u16"; x] -> M.WU16 (n_of_dec x)
  | ["u32"; x] -> M.WU32 (n_of_dec x) | ["u64"; x] -> M.WU64 (n_of_dec x)
  | ["bytes"; h] -> M.WBytes (bytes_of_hex h)
  | ["at"; off; h] -> M.WBytesAt (bytes_of_hex h, n_of_dec off)
  | _ -> bad ("wop: " ^ s)

let print_log (l : ((M.n * M.n) * M.n) list) : string =
  "[" ^ String.concat "," (List.map (fun ((o, n), t) -> dec_of_n o ^ ":" ^ dec_of_n n ^ ":" ^ dec_of_n t) l) ^ "]"

let bm_kind_of = function
  | "FramingCapabilities" -> M.BmFramingCapabilities | "BearerCapabilities" -> M.BmBearerCapabilities
  | "BearerType" -> M.BmBearerType | "FramingType" -> M.BmFramingType
  | s -> bad ("bm kind: " ^ s)
let b01 b = if b then "1" else "0"

(* ---------- channels ---------- *)
let run_case (line : string) : string =
  let f = Array.of_list (String.split_on_char '\t' line) in
  let arg i = if i < Array.length f then f.(i) else "" in
  match arg 0 with
  | "DEC" -> ocaml_string (M.ch_dec (opts_of (arg 1)) (bytes_of_hex (arg 2)))
  | "DEC0" -> ocaml_string (M.ch_dec M.default_opts (bytes_of_hex (arg 1)))
  | "DECR" ->
    outcome (fun x -> ocaml_string (M.show_mres x) ^ " viol=0") (M.m_decode (opts_of (arg 1)) (bytes_of_hex (arg 2)))
  | "DECC" -> "cost=" ^ dec_of_n (M.m_decode_cost (opts_of (arg 1)) (bytes_of_hex (arg 2)))
  | "AVPSC" -> "cost=" ^ dec_of_n (M.m_avps_cost (bytes_of_hex (arg 1)))
  | "DECSEQ" ->
    let o = opts_of (arg 1) in
    let rec go b k acc =
      if b = [] || k = 0 then String.concat " | " (List.rev acc)
      else match M.m_decode o b with
        | M.Val ((M.Ok _, rest) as x) -> go rest (k - 1) (print_mres x :: acc)
        | other -> String.concat " | " (List.rev (outcome print_mres other :: acc)) in
    go (bytes_of_hex (arg 2)) 64 []
  | "DECS" -> ocaml_string (M.ch_dec_seam (n_of_dec (arg 1)) (opts_of (arg 2)) (bytes_of_hex (arg 3)))
  | "AVPSS" -> ocaml_string (M.ch_avps_seam (n_of_dec (arg 1)) (bytes_of_hex (arg 2)))
  | "DECL" -> ocaml_string (M.ch_dec_lim (n_of_dec (arg 1)) (opts_of (arg 2)) (bytes_of_hex (arg 3)))
  | "AVPSL" -> ocaml_string (M.ch_avps_lim (n_of_dec (arg 1)) (bytes_of_hex (arg 2)))
  | "AVPS" -> ocaml_string (M.ch_avps (bytes_of_hex (arg 1)))
  | "AVPSR" -> outcome (fun x -> ocaml_string (M.show_avpres x) ^ " viol=0") (M.m_avps (bytes_of_hex (arg 1)))
  | "TYPE" -> ocaml_string (M.ch_type (n_of_dec (arg 1)) (bytes_of_hex (arg 2)))
  | "TYPER" ->
    outcome (fun (r, rest) -> print_dres print_avp r ^ " rem=" ^ dec_of_n (M.len rest) ^ " viol=0")
      (M.m_decode_avp (n_of_dec (arg 1)) (bytes_of_hex (arg 2)))
  | "ENC" -> ocaml_string (M.ch_enc (parse_msg (arg 1)) (bytes_of_hex (arg 2)))
  | "ENCA" ->
    ocaml_string (M.ch_enca (parse_avp (arg 1)) (bytes_of_hex (arg 2)))
  | "ENCS" | "ENCW" ->
    let msgs = List.map parse_msg (List.tl (List.tl (Array.to_list f))) in
    let r = M.m_encode_all_w msgs (M.writer_of (bytes_of_hex (arg 1))) in
    outcome (fun w -> "Ok " ^ hex_of_bytes w.M.w_data
                      ^ (if arg 0 = "ENCW" then " log=" ^ print_log w.M.w_log else "")) r
  | "ENCAW" ->
    let avps = List.map parse_avp (List.tl (List.tl (Array.to_list f))) in
    let r = List.fold_left (fun acc a -> M.obind acc (M.m_enc_avp_w a))
        (M.Val (M.writer_of (bytes_of_hex (arg 1)))) avps in
    outcome (fun w -> "Ok " ^ hex_of_bytes w.M.w_data ^ " log=" ^ print_log w.M.w_log) r
  | "HIDE" ->
    ocaml_string (M.ch_hide (parse_avp (arg 1)) (bytes_of_hex (arg 2)) (bytes_of_hex (arg 3)) (bytes_of_hex (arg 4)) (bytes_of_hex (arg 5)))
  | "REVEAL" -> ocaml_string (M.ch_reveal (parse_avp (arg 1)) (bytes_of_hex (arg 2)) (bytes_of_hex (arg 3)))
  | "MD5" -> ocaml_string (M.ch_md5 (bytes_of_hex (arg 1)))
  | "RDOPS" ->
    outcome (fun (obs, rest) -> print_obs_list obs ^ " rem=" ^ dec_of_n (M.len rest))
      (M.run_rops (parse_rops (arg 2)) (bytes_of_hex (arg 1)))
  | "WROPS" ->
    let ops = List.map parse_wop (split_top ',' (unbracket (arg 1))) in
    (* a refused overwrite must leave the buffer as it was: report its content *)
    let rec go w obs = function
      | [] -> hex_of_bytes w.M.w_data ^ " " ^ print_obs_list (List.rev obs)
      | o :: t ->
        (match M.wop_step w o with
         | M.Val (w', None) -> go w' obs t
         | M.Val (w', Some x) -> go w' (x :: obs) t
         | M.Panic _ -> "PANIC " ^ hex_of_bytes w.M.w_data
         | M.UB -> "UB" | M.OutOfFuel -> "NOFUEL") in
    go (M.writer_of []) [] ops
  | "BITS" ->
    let k = bm_kind_of (arg 1) in
    let w = M.bm_new k (arg 2 = "1") (arg 3 = "1") in
    "w=" ^ dec_of_n w ^ " first=" ^ b01 (M.acc_first k w) ^ " second=" ^ b01 (M.acc_second k w)
  | "BITW" ->
    let k = bm_kind_of (arg 1) in
    let w = n_of_dec (arg 2) in
    "first=" ^ b01 (M.acc_first k w) ^ " second=" ^ b01 (M.acc_second k w)
  | "CODE" ->
    let x = n_of_dec (arg 1) in
    "stop=" ^ (match M.sc_of_code x with Some c -> name_of sc_names c | None -> "-")
    ^ " cdn=" ^ (match M.cd_of_code x with Some c -> name_of cd_names c | None -> "-")
    ^ " raw=" ^ dec_of_n x
  | "CODEN" ->
    (match arg 1 with
     | "stop" -> dec_of_n (M.sc_code (of_name "stop" sc_names (arg 2)))
     | "cdn" -> dec_of_n (M.cd_code (of_name "cdn" cd_names (arg 2)))
     | _ -> bad "CODEN")
  | "SHOW" -> ocaml_string (M.render (parse_err (arg 1)))
  | "UTF8" -> if M.utf8_valid (bytes_of_hex (arg 1)) then "1" else "0"
  | c -> bad ("channel: " ^ c)

let () =
  let out = Buffer.create 65536 in
  (try
     while true do
       let line = input_line stdin in
       let r = try run_case line with
         | Bad s -> "BADCASE " ^ s
         | Not_found -> "BADCASE not_found"
         | Failure s -> "BADCASE " ^ s
         | Stack_overflow -> "MODEL_STACK_OVERFLOW" in
       Buffer.add_string out r; Buffer.add_char out '\n';
       if Buffer.length out > 60000 then (print_string (Buffer.contents out); Buffer.clear out)
     done
   with End_of_file -> ());
  print_string (Buffer.contents out)
