"""Search of the regenerated model for concrete failing inputs.

When a translated function no longer ties to the Model (py/srctie2.py: 'differs'), the failed equality proof leaves
residual goals: each is a path on which the program regenerated from the source and the Model produce different
results, and its hypotheses are the path condition (reads performed, guards taken).  This module re-runs the tie
script with a goal dumper, parses the hypotheses, solves the arithmetic part with z3 (SMT-LIB over integers) and
builds octet strings that drive the decoder down that path.  The inputs are handed to the ordinary checks as extra
corpus entries: whether a property is violated is still decided by running the implementation (and the Model) on them."""
import os, re, subprocess
import lib

# ---------------------------------------------------------------------------- parsing Coq terms (small subset)
TOK = re.compile(r'\s*(<=\?|<\?|=\?|&&|\|\||::|:=|\{\||\|\}|[()\[\];,=+\-*/%]|[A-Za-z_][\w.\']*|\d+)')


class PErr(Exception):
    pass


def toks(s):
    out, i = [], 0
    s = s.strip()
    while i < len(s):
        m = TOK.match(s, i)
        if not m:
            raise PErr('token at %r' % s[i:i + 20])
        out.append(m.group(1))
        i = m.end()
    return out


INFIX = {'||': 1, '&&': 2, '=': 3, '<?': 4, '<=?': 4, '=?': 4, '::': 5, '+': 6, '-': 6, '*': 7, '/': 7, 'mod': 7}


class TP:
    def __init__(self, t):
        self.t, self.i = t, 0

    def peek(self):
        return self.t[self.i] if self.i < len(self.t) else None

    def eat(self, v):
        if self.peek() == v:
            self.i += 1
            return True
        return False

    def expr(self, minp=0):
        lhs = self.app()
        while True:
            op = self.peek()
            if op in INFIX and INFIX[op] >= minp:
                self.i += 1
                rhs = self.expr(INFIX[op] + 1)
                lhs = (op, lhs, rhs)
            else:
                return lhs

    def app(self):
        f = self.atom()
        args = []
        while True:
            p = self.peek()
            if p is None or p in INFIX or p in (')', ']', ';', ',', '|}', ':=', 'then', 'else', 'with', 'end', '|', '=>'):
                break
            args.append(self.atom())
        return ('app', f, args) if args else f

    def atom(self):
        p = self.peek()
        if p is None:
            raise PErr('eof')
        self.i += 1
        if p == '(':
            e = self.expr()
            if self.eat(','):
                e2 = self.expr()
                e = ('pair', e, e2)
            if not self.eat(')'):
                raise PErr('expected )')
            return e
        if p == '[':
            es = []
            while not self.eat(']'):
                es.append(self.expr())
                self.eat(';')
            return ('list', es)
        if p == '{|':
            d = 0
            while self.i < len(self.t) and self.t[self.i] != '|}':
                self.i += 1
            self.i += 1
            return ('record',)
        if p.isdigit():
            return ('num', int(p))
        if p == 'if':
            c = self.expr()
            if not self.eat('then'):
                raise PErr('then')
            a = self.expr()
            if not self.eat('else'):
                raise PErr('else')
            b = self.expr()
            return ('if', c, a, b)
        if re.match(r'[A-Za-z_]', p):
            return ('id', p)
        raise PErr('atom %r' % p)


def parse_term(s):
    p = TP(toks(s))
    e = p.expr()
    if p.peek() is not None:
        raise PErr('trailing %r' % p.peek())
    return e


# ---------------------------------------------------------------------------- residual goals
def dump_script(tie_text):
    """the tie lemma with its proof turned into a dump of the goals it leaves"""
    t = tie_text.replace(' all: bool_close.', ' all: try bool_close.')
    # expose the reads of the small callees on both sides, so that conditions on header fields are conditions on octets
    t = t.replace(' run_eq2.', ' cbv [header_read flags_read]. run_eq2.').replace(' loop_eq IH.', ' cbv [header_read]. loop_eq IH.')
    i = t.rfind('Qed.')
    return 'Set Printing Width 100000.\nSet Printing Depth 100000.\n' + t[:i] + ' all: [> dump_residual .. ].\nAbort.\n'


def residuals(defn, tie_text, workdir, name):
    """-> list of {'hyps': [str], 'goal': str}"""
    from rs2v import build
    os.makedirs(workdir, exist_ok=True)
    p = os.path.join(workdir, 'Res_%s.v' % name)
    open(p, 'w').write(build.HEADER + defn + dump_script(tie_text))
    try:
        r = subprocess.run(['coqc', '-noglob', '-Q', os.path.join(lib.COQ, 'theories'), 'RL', p], capture_output=True, text=True, timeout=600)
        out = r.stdout
    except subprocess.TimeoutExpired:
        out = ''
    for ext in ('.v', '.vo', '.vok', '.vos', '.glob'):
        try:
            os.remove(p[:-2] + ext)
        except OSError:
            pass
    res, hyps, buf, kind = [], [], [], None

    def flush():
        nonlocal buf, kind, hyps
        if kind:
            s_ = ' '.join(' '.join(buf).split())
            if kind == 'HYP':
                hyps.append(s_)
            else:
                res.append({'hyps': hyps, 'goal': s_})
                hyps = []
        buf, kind = [], None
    for line in out.splitlines():
        if line.startswith('RESIDUAL'):
            flush()
        elif line.startswith('HYP '):
            flush()
            kind, buf = 'HYP', [line[4:]]
        elif line.startswith('GOAL'):
            flush()
            kind, buf = 'GOAL', [line[4:]]
        elif kind:
            buf.append(line)
    flush()
    return res


# ---------------------------------------------------------------------------- path condition -> SMT-LIB
class Unsolvable(Exception):
    pass


def smt(e, vars_):
    """integer / boolean expression -> SMT-LIB text (raises Unsolvable for what is not arithmetic)"""
    k = e[0]
    if k == 'num':
        return str(e[1])
    if k == 'id':
        n = e[1]
        if n in ('true', 'false'):
            return n
        vars_.add(n)
        return 'v_' + n.replace("'", '_q').replace('.', '_')
    if k in ('+', '*'):
        return '(%s %s %s)' % (k, smt(e[1], vars_), smt(e[2], vars_))
    if k == '-':
        a, b = smt(e[1], vars_), smt(e[2], vars_)
        return '(ite (>= %s %s) (- %s %s) 0)' % (a, b, a, b)
    if k == '/':
        return '(div %s %s)' % (smt(e[1], vars_), smt(e[2], vars_))
    if k == 'mod':
        return '(mod %s %s)' % (smt(e[1], vars_), smt(e[2], vars_))
    if k == '<?':
        return '(< %s %s)' % (smt(e[1], vars_), smt(e[2], vars_))
    if k == '<=?':
        return '(<= %s %s)' % (smt(e[1], vars_), smt(e[2], vars_))
    if k == '=?':
        return '(= %s %s)' % (smt(e[1], vars_), smt(e[2], vars_))
    if k == '&&':
        return '(and %s %s)' % (smt(e[1], vars_), smt(e[2], vars_))
    if k == '||':
        return '(or %s %s)' % (smt(e[1], vars_), smt(e[2], vars_))
    if k == 'if':
        return '(ite %s %s %s)' % (smt(e[1], vars_), smt(e[2], vars_), smt(e[3], vars_))
    if k == 'app' and e[1][0] == 'id':
        f, a = e[1][1], e[2]
        if f == 'negb' and len(a) == 1:
            return '(not %s)' % smt(a[0], vars_)
        if f in ('h_vendor', 'h_type', 'h_flags', 'h_payload_length') and len(a) == 1 and a[0][0] == 'id':
            # a field of the AVP header read at the start of the input (py: inputs_of_residual lays the six octets out)
            vars_.add('HDR_' + f[2:])
            return 'v_HDR_' + f[2:]
        if f == 'len' and len(a) == 1 and a[0][0] == 'id':
            vars_.add('len_' + a[0][1])
            return 'v_len_' + a[0][1].replace("'", '_q')
        if f == 'N.testbit' and len(a) == 2 and a[1][0] == 'num':
            return '(= (mod (div %s %d) 2) 1)' % (smt(a[0], vars_), 2 ** a[1][1])
        if f == 'N.shiftr' and len(a) == 2 and a[1][0] == 'num':
            return '(div %s %d)' % (smt(a[0], vars_), 2 ** a[1][1])
        if f == 'N.shiftl' and len(a) == 2 and a[1][0] == 'num':
            return '(* %s %d)' % (smt(a[0], vars_), 2 ** a[1][1])
        if f == 'N.land' and len(a) == 2 and a[1][0] == 'num' and (a[1][1] + 1) & a[1][1] == 0:
            return '(mod %s %d)' % (smt(a[0], vars_), a[1][1] + 1)
        if f == 'N.lor' and len(a) == 2:
            return '(+ %s %s)' % (smt(a[0], vars_), smt(a[1], vars_))   # disjoint bit fields in this code base
        if f in ('N.min', 'N.max') and len(a) == 2:
            x, y = smt(a[0], vars_), smt(a[1], vars_)
            return '(ite (%s %s %s) %s %s)' % ('<=' if f == 'N.min' else '>=', x, y, x, y)
    raise Unsolvable(str(e)[:80])


def solve(constraints, vars_, extra=''):
    """-> {var: int} or None"""
    decl = ''.join('(declare-const v_%s Int)(assert (>= v_%s 0))' % (v.replace("'", '_q').replace('.', '_'), v.replace("'", '_q').replace('.', '_'))
                   for v in sorted(vars_))
    q = '(set-option :timeout 4000)' + decl + ''.join('(assert %s)' % c for c in constraints) + extra + '(check-sat)(get-model)'
    try:
        r = subprocess.run(['z3', '-in'], input=q, capture_output=True, text=True, timeout=20)
    except (subprocess.TimeoutExpired, OSError):
        return None
    if not r.stdout.startswith('sat'):
        return None
    m = {}
    for mm in re.finditer(r'\(define-fun v_(\w+) \(\) Int\s+(\d+)\)', r.stdout):
        m[mm.group(1)] = int(mm.group(2))
    return m


def inputs_of_residual(res, params):
    """One residual goal -> list of (params dict, octets of the reader input `l`).
    Reads `lr_read k li = Val (x, lj)` give the layout of `l`; `len` facts its size; everything else is solved as
    integer arithmetic when possible and dropped otherwise."""
    reads, cons, vars_, tails = {}, [], set(), {}
    for h in res['hyps']:
        m = re.match(r'^\(?lr_read (\d+) (\w+\'*) = Val \((\w+\'*), (.*?)\)\)?$', h)
        if m:
            tail = m.group(4).strip()
            if re.fullmatch(r"\w+'*", tail):
                reads[m.group(2)] = (int(m.group(1)), m.group(3), tail)
            else:
                # the rest was destructed: [] (nothing left) or x :: y (something left)
                tn = '_tail_of_' + m.group(2)
                reads[m.group(2)] = (int(m.group(1)), m.group(3), tn)
                tails[tn] = 0 if tail == '[]' else 1
            continue
        m = re.match(r'^\(?(.*) = (true|false)\)?$', h)
        if not m:
            continue
        try:
            e = parse_term(m.group(1))
            c = smt(e, vars_)
        except (PErr, Unsolvable, RecursionError):
            continue
        cons.append(c if m.group(2) == 'true' else '(not %s)' % c)
    # the chain of fixed-width reads from l
    chain, cur, off = [], 'l', 0
    lens = {'l': 0}
    while cur in reads:
        k, x, nxt = reads[cur]
        chain.append((off, k, x))
        off += k
        lens[nxt] = off
        cur = nxt
    for name, o in lens.items():
        vars_.add('len_' + name)
        if name != 'l':
            cons.append('(= v_len_%s (ite (>= v_len_l %d) (- v_len_l %d) 0))' % (name.replace("'", '_q'), o, o))
        if name in tails:
            cons.append('(= v_len_l %d)' % o if tails[name] == 0 else '(> v_len_l %d)' % o)
    for (o, k, x) in chain:
        vars_.add(x)
        cons.append('(< v_%s %d)' % (x.replace("'", '_q'), 256 ** k))
    hdr = any(v.startswith('HDR_') for v in vars_)
    if hdr and not chain:
        # the input starts with an AVP header: LL..HM | length low | vendor | attribute type
        for v in ('HDR_vendor', 'HDR_type', 'HDR_flags', 'HDR_payload_length', 'HDR_o1', 'HDR_o2'):
            vars_.add(v)
        cons += ['(< v_HDR_o1 256)', '(< v_HDR_o2 256)', '(< v_HDR_vendor 65536)', '(< v_HDR_type 65536)',
                 '(= v_HDR_flags (mod v_HDR_o1 64))', '(>= (+ (* (div v_HDR_o1 64) 256) v_HDR_o2) 6)',
                 '(= v_HDR_payload_length (- (+ (* (div v_HDR_o1 64) 256) v_HDR_o2) 6))']
        off = 6
        for v in list(vars_):
            if v.startswith('len_') and v[4:] not in lens:
                cons.append('(= v_%s (ite (>= v_len_l 6) (- v_len_l 6) 0))' % v.replace("'", '_q'))
    cons.append('(>= v_len_l %d)' % off)
    cons.append('(<= v_len_l 70000)')
    out = []
    # a few solutions: smallest input, and a roomier one
    for extra in ('(minimize v_len_l)', '(assert (>= v_len_l %d))(minimize v_len_l)' % (off + 9), ''):
        m = solve(cons, vars_, extra)
        if m is None:
            continue
        n = m.get('len_l', off)
        data = bytearray(n)
        for (o, k, x) in chain:
            v = m.get(x.replace("'", '_q'), 0)
            data[o:o + k] = (v % (256 ** k)).to_bytes(k, 'big')
        if hdr and not chain and n >= 6:
            data[0:6] = bytes([m.get('HDR_o1', 0) & 255, m.get('HDR_o2', 6) & 255]) + (m.get('HDR_vendor', 0) & 0xffff).to_bytes(2, 'big') \
                + (m.get('HDR_type', 0) & 0xffff).to_bytes(2, 'big')
        ps = {p: m.get(p, 0) for p in params}
        item = (ps, bytes(data))
        if item not in out:
            out.append(item)
    return out


# ---------------------------------------------------------------------------- from a function's reader input to whole inputs
def _ctrl(body, flags=0x1320):
    import gen
    return gen.ctrl_bytes(body, flags)


def inputs_for(repo, functions, workdir, limit=60):
    """-> {'dec': [(tag, octets of a whole message)], 'avps': [(tag, octets of an AVP list)]} for the translated decoder
    functions listed (those that no longer tie).  Cached by the content of the generated definitions."""
    import hashlib, json
    from rs2v import build
    import gen
    out = {'dec': [], 'avps': []}
    if not functions:
        return out
    try:
        defs, ties, fails = build.translate_all(repo)
    except Exception:
        return out
    key = hashlib.sha1(json.dumps([(f, defs.get(f), ties.get(f)) for f in sorted(functions)], sort_keys=True).encode()).hexdigest()[:20]
    cp = os.path.join(lib.CACHE, 'srctie', 'sym-' + key + '.json')
    if os.path.exists(cp):
        d = json.load(open(cp))
        return {k: [(t, bytes.fromhex(h)) for t, h in v] for k, v in d.items()}
    for f in functions:
        if f not in defs or f not in ties or f in build.HEADERS:
            continue      # (the slice/Vec functions are not reader programs: no path conditions over an input to solve)
        obs = [t for lvl, t in ties[f] if lvl != 'terms equal']
        if not obs:
            continue
        params = {'gen_ctrl_read': ['w'], 'gen_data_read': ['w']}.get(f, [])
        try:
            rs = residuals(defs[f], obs[-1], workdir, f)
        except Exception:
            continue
        n = 0
        for r in rs:
            if n >= limit:
                break
            try:
                sols = inputs_of_residual(r, params)
            except Exception:
                continue
            for ps, l in sols:
                if len(l) > 70000:
                    continue
                n += 1
                tag = 'symbolic_' + f
                if f in ('gen_msg_read', 'gen_flags_read', 'gen_try_read'):
                    out['dec'].append((tag, l))
                elif f in ('gen_ctrl_read', 'gen_data_read'):
                    w = ps.get('w', 0) & 0xffff
                    out['dec'].append((tag, w.to_bytes(2, 'big') + l))
                    # the same with the version nibble the strict options demand
                    out['dec'].append((tag, ((w & ~0xf0) | 0x20).to_bytes(2, 'big') + l))
                elif f in ('gen_header_read', 'gen_greedy'):
                    out['avps'].append((tag, l))
                    out['dec'].append((tag, _ctrl(l)))
                elif f.startswith('gen_dec_'):
                    t = gen.KINDS.get(f[8:], (None,))[0]
                    if t is None:
                        continue
                    if len(l) <= 1017:
                        rec = gen.avp_rec(t, l)
                        out['avps'].append((tag, rec))
                        out['dec'].append((tag, _ctrl(gen.avp_rec(0, (1).to_bytes(2, 'big')) + rec)))
    os.makedirs(os.path.dirname(cp), exist_ok=True)
    json.dump({k: [(t, b.hex()) for t, b in v] for k, v in out.items()}, open(cp, 'w'))
    return out
