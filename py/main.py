#!/usr/bin/env python3
"""./check <property> quick|thorough   |   ./check <property> --replay <file>"""
import json, os, random, sys, time, traceback
sys.path.insert(0, os.path.dirname(os.path.abspath(__file__)))
import lib
from lib import VERIF, REPO
import props
import meta

TRUSTED_BASE = [
    'Coq 8.16.1 kernel (coqc), including vm_compute for the finite sweeps and Examples; no native_compute',
    'axioms: none declared; Print Assumptions of every property theorem is expected to be "Closed under the global context" (checked on every run from the compiler output)',
    'extraction: ExtrOcamlBasic only (Extract Inductive bool/option/unit/list/prod/sumbool/sumor to OCaml natives), no Extract Constant; ocamlfind ocamlopt 4.13.1; ocaml/driver.ml (text parsing/printing)',
    'correspondence check: harness/ (Rust executor, CheckedReader, RecordingWriter, text serialisers), py/ (generators, differ), cargo/rustc debug+release',
    'modelled not verified: md5 crate (Base/Md5.v), core::str::from_utf8 (Base/Utf8.v), slice/Vec operations, integer casts, proc-macro expansions (enum_dispatch, num_enum, phf, thiserror)',
]


def load_known():
    p = os.path.join(VERIF, 'known_findings.json')
    try:
        return [f for f in json.load(open(p))['findings']]
    except Exception:
        return []


def proof_step(prop, tier='quick'):
    """Build the property's cone with a full .vo make; audit it. -> dict"""
    vfile = 'theories/Properties/%s.v' % prop
    info = {'file': vfile, 'ok': False, 'obligations': 0, 'discharged': 0, 'assumptions': [], 'log': ''}
    if not os.path.exists(os.path.join(lib.COQ, vfile)):
        info['log'] = 'no property file'
        return info
    rc, out = lib.coq_build(vfile + 'o')
    cone = lib.coq_cone(vfile)
    bad, nthm, nqed = lib.coq_audit(cone)
    info['cone'] = cone
    import re as _re
    try:
        info['theorems'] = _re.findall(r'^(?:Theorem|Corollary)\s+(\w+)', lib.strip_comments(open(os.path.join(lib.COQ, vfile)).read()), _re.M)
    except OSError:
        info['theorems'] = []
    info['obligations'] = nthm
    info['log'] = out[-4000:]
    # Print Assumptions output is produced only when the property file is (re)compiled: keep a copy
    # keyed by the content of the whole cone, and force a recompilation when there is none for it
    import hashlib
    h = hashlib.sha1()
    for f in cone:
        try:
            h.update(open(os.path.join(lib.COQ, f), 'rb').read())
        except OSError:
            pass
    ap = os.path.join(lib.CACHE, 'assumptions', '%s-%s.txt' % (prop, h.hexdigest()[:16]))
    os.makedirs(os.path.dirname(ap), exist_ok=True)
    if rc == 0:
        if 'COQC ' + vfile in out:
            open(ap, 'w').write(out)
        elif not os.path.exists(ap):
            with lib.Lock('coq'):
                try:
                    os.remove(os.path.join(lib.COQ, vfile + 'o'))
                except OSError:
                    pass
            rc, out = lib.coq_build(vfile + 'o')
            if rc == 0:
                open(ap, 'w').write(out)
    if rc != 0:
        info['broken'] = 'coq build failed for %s' % vfile
        return info
    txt = open(ap).read() if os.path.exists(ap) else ''
    closed = txt.count('Closed under the global context')
    axioms = [l for l in txt.splitlines() if l.strip().startswith('Axioms:')]
    info['assumptions'] = ['%d x Closed under the global context' % closed] + axioms
    if axioms:
        info['broken'] = 'Print Assumptions reports axioms: %s' % axioms
        return info
    nprint = len(__import__('re').findall(r'^Print Assumptions ', lib.strip_comments(open(os.path.join(lib.COQ, vfile)).read()), __import__('re').M))
    if closed == 0 or closed != nprint:
        info['broken'] = 'Print Assumptions: %d commands in %s but %d "Closed under the global context" captured' % (nprint, vfile, closed)
        return info
    if bad:
        info['broken'] = 'forbidden tokens: %s' % bad[:5]
        return info
    if tier == 'thorough':
        # independent re-check of the compiled files and everything they depend on
        with lib.Lock('coq'):
            rc2, out2 = lib.sh(['coqchk', '-o', '-silent', '-Q', 'theories', 'RL', 'RL.Properties.' + prop], cwd=lib.COQ, timeout=3000)
        summary = out2[out2.find('CONTEXT SUMMARY'):] if 'CONTEXT SUMMARY' in out2 else out2[-1500:]
        info['coqchk'] = ' '.join(summary.split())
        want = ['Axioms: <none>', 'type-in-type: <none>', 'unsafe (co)fixpoints: <none>', 'positivity is assumed: <none>']
        if rc2 != 0 or not all(w in info['coqchk'] for w in want):
            info['broken'] = 'coqchk: ' + info['coqchk'][:600]
            return info
    info['ok'] = True
    info['discharged'] = nthm
    return info


def main():
    args = sys.argv[1:]
    prop = args[0]
    replay = None
    tier = os.environ.get('VERIF_TIER', 'quick')
    if len(args) >= 3 and args[1] == '--replay':
        replay = args[2]
    elif len(args) >= 2:
        tier = args[1]
    seed = int(os.environ.get('VERIF_SEED', '20260929'))
    t0 = time.time()
    spec = props.PROPS[prop]
    level = meta.META[prop]['level']
    evidence = {'property_id': prop, 'tier': tier, 'seed': seed, 'level': level, 'wall_s': 0.0,
                'coverage': {}, 'assumptions': [], 'violations': 0}
    workdir = os.path.join(lib.CACHE, 'work', '%s-%d' % (prop, os.getpid()))
    out_lines = []
    violations = []   # (replay_doc, found_input: bool)

    def finish(code):
        import shutil
        try:
            shutil.rmtree(workdir, ignore_errors=True)
        except NameError:
            pass
        evidence['wall_s'] = round(time.time() - t0, 2)
        evidence['violations'] = len(violations)
        if not replay:
            lib.write_evidence(prop, evidence)
        for l in out_lines:
            print(l)
        sys.stdout.flush()
        sys.exit(code)

    def report_violation(doc, found):
        os.makedirs(os.path.join(lib.OUT_DIR, 'replays'), exist_ok=True)
        path = os.path.join(lib.OUT_DIR, 'replays', '%s-%d-%d.json' % (prop, seed, len(violations)))
        doc = dict(doc, property=prop, seed=seed, tier=tier, repo=REPO)
        json.dump(doc, open(path, 'w'), indent=1)
        violations.append(path)
        out_lines.append('VIOLATION property=%s replay=%s%s' % (prop, path, '' if found else ' no-failing-input-found'))

    # 1. the proof
    pinfo = proof_step(prop, tier)
    cov = evidence['coverage']
    cov.update({'obligations': max(1, pinfo['obligations']), 'discharged': pinfo['discharged'],
                'checker_cmd': 'make -C coq %so  (coqc 8.16.1, full .vo build) + Print Assumptions + forbidden-token scan' % pinfo['file'],
                'trusted_base': TRUSTED_BASE, 'proof_cone': pinfo.get('cone', []), 'property_theorems': pinfo.get('theorems', []),
                'print_assumptions': pinfo['assumptions'], 'coqchk': pinfo.get('coqchk', 'not run in the quick tier')})
    evidence['assumptions'] = list(spec.get('assumes', []))

    # 2. executors, rebuilt from the repository's current working tree
    try:
        lib.extract_model()
        lib.build_driver()
    except lib.BuildFailure as e:
        report_violation({'kind': 'model-build', 'what': e.what, 'log': e.log[-3000:]}, False)
        finish(1)
    try:
        bins = lib.build_harness()
    except lib.BuildFailure as e:
        report_violation({'kind': 'build', 'what': e.what, 'log': e.log[-6000:],
                          'note': 'the implementation (or the harness against it) does not build; correspondence cannot be established'}, False)
        finish(1)

    # literals that are new in the current source become likely field values / sizes / payload contents
    import gen as _gen
    _gen.DICT[:], _gen.DICT_BYTES[:] = lib.new_literals()
    cov['new_source_literals'] = {'integers': _gen.DICT[:40], 'strings': [b.decode('latin-1') for b in _gen.DICT_BYTES[:10]]}
    runner = lib.Runner(bins, workdir, chunk_timeout=120 if tier == 'quick' else 600)
    ctx = props.Ctx(prop, tier, random.Random(seed), runner, seed)
    # 2a. source tie by regeneration: the tables and constants this property rests on are re-extracted from the
    # source text and the kernel checks that the Model uses exactly those (py/srcfacts.py)
    try:
        import srcfacts
        st = srcfacts.check(REPO, srcfacts.RELEVANT.get(prop, []), os.path.join(workdir, 'srctie')) if not replay else {}
    except Exception:
        st = {'internal': traceback.format_exc()[-400:]}
    cov['source_tie'] = st
    # ... and the control flow: the decoder functions of the current source, translated to programs over the Reader
    # trait (py/rs2v), must be the Model's programs -- as terms, or on every input of the list reader (py/srctie2.py)
    try:
        import srctie2
        sf = srctie2.check(REPO, srctie2.RELEVANT.get(prop, []), os.path.join(workdir, 'srctie2')) if not replay else {}
    except Exception:
        sf = {'internal': traceback.format_exc()[-400:]}
    cov['source_tie_functions'] = sf
    if prop in ('C01', 'C02', 'C03', 'C04', 'C05', 'C06', 'C07', 'C08', 'C09', 'C10', 'C14', 'C15', 'C20') and not replay:
        try:
            cov['regenerated_codec'] = srctie2.linked_check(REPO, os.path.join(workdir, 'linked'))
            if cov['regenerated_codec'].get('status') != 'holds':
                ctx.boost = max(ctx.boost, 4)
        except Exception:
            cov['regenerated_codec'] = {'status': 'internal: ' + traceback.format_exc()[-300:]}
    if prop in ('C01', 'C02', 'C05', 'C11', 'C12', 'C13', 'C17', 'C18') and not replay:
        try:
            cov['regenerated_reader_and_hiding'] = srctie2.linked_vec_check(REPO, os.path.join(workdir, 'linkedvec'))
            if cov['regenerated_reader_and_hiding'].get('status') != 'holds':
                ctx.boost = max(ctx.boost, 4)
        except Exception:
            cov['regenerated_reader_and_hiding'] = {'status': 'internal: ' + traceback.format_exc()[-300:]}
    cov['source_tie_note'] = ('tables/constants (source_tie) and decoder control flow (source_tie_functions) are regenerated from '
                              'the source text on every run and checked against the Model by the kernel; a tie that no longer holds '
                              'is not a violation by itself (the differential correspondence decides), it multiplies the search budget')
    if any(not v.startswith('tied') for v in sf.values()):
        ctx.boost = max(ctx.boost, 4)
        # search the regenerated model: solve the path conditions on which it differs from the Model for concrete inputs
        try:
            import symsearch, corpus as _corpus
            ex = symsearch.inputs_for(REPO, [f for f, v in sf.items() if v.startswith('differs')], os.path.join(workdir, 'sym'))
            _corpus.EXTRA_DEC[:], _corpus.EXTRA_AVPS[:] = ex['dec'], ex['avps']
            cov['symbolic_search'] = {'inputs_from_path_conditions': len(ex['dec']) + len(ex['avps']),
                                      'how': 'residual goals of the failed tie proofs, arithmetic part solved by z3 (py/symsearch.py)'}
        except Exception:
            cov['symbolic_search'] = {'internal': traceback.format_exc()[-300:]}
    if any(v != 'tied' for v in st.values()):
        # a table moved or changed: not a violation by itself (the differential correspondence decides), search harder
        ctx.boost = max(ctx.boost, 4)
    try:
        if replay:
            doc = json.load(open(replay))
            rep = props.replay(ctx, spec, doc)
        else:
            rep = spec['run'](ctx)
            props.extra_pass(ctx, rep, prop)
            if (rep.disagreements or not pinfo['ok']) and not rep.failures and spec.get('search'):
                # correspondence or proof broken: search for an input on which the property itself fails
                ctx.searching = True
                spec['search'](ctx, rep)
    except Exception:
        traceback.print_exc()
        evidence['coverage'].update({'evaluations': 0, 'distinct_nontrivial': 0, 'internal_error': traceback.format_exc()[-2000:]})
        finish(2)

    cov.update(rep.coverage())
    # 2b. the executor itself: a sample of this run's cases re-evaluated inside the Coq kernel (vm_compute of the same
    # Gallina definitions, printed by the same Gallina printers) must equal what the extracted OCaml executor answered
    ks = getattr(rep, 'ksample', [])
    if ks and not replay:
        import kexec
        kr = kexec.run_kernel([c for (c, _) in ks], os.path.join(workdir, 'kernel'))
        if 'error' in kr:
            # another check may have been rebuilding the .vo files under us: once more, holding the build lock
            with lib.Lock('coq'):
                kr = kexec.run_kernel([c for (c, _) in ks], os.path.join(workdir, 'kernel'))
        agree = sum(1 for i, (c, mres) in enumerate(ks) if kr.get(i) == mres)
        done = sum(1 for i in range(len(ks)) if i in kr)
        bad = [(c[:300], mres[:300], kr[i][:300]) for i, (c, mres) in enumerate(ks) if i in kr and kr[i] != mres][:3]
        cov['kernel_crosscheck'] = {'sampled': len(ks), 'evaluated_in_kernel': done, 'agree_with_extracted_executor': agree,
                                    'how': 'coqc: Eval vm_compute in (ch_dec/ch_avps/ch_type/ch_enc/ch_enca/ch_hide/ch_reveal/ch_md5 ...) over Model/Show.v'}
        if 'error' in kr:
            cov['kernel_crosscheck']['coqc_error'] = kr['error'][-600:]
        if bad:
            print('INTERNAL: extracted executor and in-kernel evaluation differ: %s' % (bad,))
            evidence['coverage'].update({'internal_error': 'kernel cross-check failed: %s' % (bad,)})
            finish(2)
    cov['source_differs_from_validated_tree'] = lib.source_changed()
    cov['budget_multiplier'] = ctx.boost
    # 3. verdict
    known = [k for k in load_known() if k.get('status') == 'known' and k.get('property') == prop]
    fails = []
    for f in rep.failures:
        k = next((k for k in known if props.matches_known(k, f)), None)
        if k:
            line = 'KNOWN-FINDING: property=%s %s' % (prop, k['what'])
            if line not in out_lines:
                out_lines.append(line)
        else:
            fails.append(f)
    if fails:
        try:
            f = props.shrink(ctx, spec, fails[0])
        except Exception:
            traceback.print_exc()
            f = fails[0]
        report_violation({'kind': 'property-fails-on-implementation', 'failure': f,
                          'other_failures': fails[1:6], 'count': len(fails)}, True)
    elif rep.disagreements:
        report_violation({'kind': 'correspondence', 'what': 'implementation and model disagree on a channel this property rests on',
                          'disagreement': rep.disagreements[0], 'others': rep.disagreements[1:6],
                          'count': len(rep.disagreements),
                          'searched': rep.search_evals}, False)
    elif not pinfo['ok']:
        report_violation({'kind': 'proof', 'what': pinfo.get('broken', 'proof step failed'),
                          'theorem_file': pinfo['file'], 'log': pinfo['log'][-3000:],
                          'searched': rep.search_evals}, False)
    finish(1 if violations else 0)


if __name__ == '__main__':
    main()
