#!/usr/bin/env python3
"""Regenerates MANIFEST.json from the per-property metadata below (run after changing a level)."""
import json, os, sys
sys.path.insert(0, os.path.dirname(os.path.abspath(__file__)))
import meta

checks = []
for pid in sorted(meta.META):
    m = meta.META[pid]
    checks.append({
        'property_id': pid,
        'quick_cmd': './check %s quick' % pid,
        'thorough_cmd': './check %s thorough' % pid,
        'evidence_file': 'evidence/%s.json' % pid,
        'replay_cmd_template': './check %s --replay {path}' % pid,
        'engine': 'rocq-proof+correspondence',
        'level_claimed': {'category': m['level'], 'text': m['text'], 'design_ref': m['design_ref']},
        'level_note': m['note'],
        'technique': m['technique'],
    })
doc = {
    'version': 1,
    'setup_cmd': './setup.sh',
    'hooks': {
        'guard': 'rl2tp_verif',
        'enable': 'none needed: the harness uses only the public API of rl2tp (Reader/Writer traits, SliceReader, VecWriter, Message, AVP, per-type try_read, hide/reveal, DecodeError Display); no source hooks exist',
        'baseline_off_cmd': 'cd /repo && cargo test --workspace --no-fail-fast --offline',
        'source_commits': [],
        'add_only': True,
    },
    'engines': [{
        'name': 'rocq-proof+correspondence',
        'path': 'coq/ ocaml/ harness/ py/',
        'serves_properties': sorted(meta.META),
        'kind_free_text': 'Coq 8.16 theorems about a hand-written executable model (coq/theories), tied to /repo on every run by a differential '
                          'correspondence check: the extracted model (OCaml) and the crate (Rust harness, debug+release) run the same generated cases',
    }],
    'checks': checks,
    'not_applicable': meta.NOT_APPLICABLE,
    'notes': 'Repairs of genuine defects D1-D9 are fix: commits in /repo, recorded in known_findings.json as fixed (they suppress nothing). See DESIGN.md.',
}
json.dump(doc, open(os.path.join(os.path.dirname(os.path.dirname(os.path.abspath(__file__))), 'MANIFEST.json'), 'w'), indent=1)
print('MANIFEST.json written: %d checks' % len(checks))
