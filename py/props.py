"""Per-property checks: generators -> cases -> executors -> observation comparison + direct predicate."""
import collections, json, os
from gen import *
import corpus
import lib

IMPLS = ('debug', 'release')
KCHANNELS = ('DEC', 'DEC0', 'AVPS', 'TYPE', 'ENC', 'ENCA', 'HIDE', 'REVEAL', 'MD5')


class Ctx:
    def __init__(self, prop, tier, rng, runner, seed):
        self.prop, self.tier, self.rng, self.runner, self.seed = prop, tier, rng, runner, seed
        self.thorough = tier == 'thorough'
        self.searching = False
        self.kbudget = 2400 if tier == 'thorough' else 160
        import random as _r
        self.krng = _r.Random(seed ^ 0x5eed)

        self.boost = 4 if lib.source_changed() else 1
        # the cheap checks get a larger random budget in the quick tier (each stays well under a minute)
        self.quick_mult = {'C01': 4, 'C02': 2, 'C03': 3, 'C04': 4, 'C05': 2, 'C06': 4, 'C08': 2, 'C09': 3, 'C10': 2,
                           'C12': 3, 'C15': 3, 'C17': 3, 'C18': 4, 'C20': 2}.get(prop, 1)

    def scale(self, quick, thorough=None):
        # the source differs from the tree the model was validated against: search harder
        return (thorough if thorough is not None else quick * 10) * 4 if self.thorough else quick * self.boost * self.quick_mult


class Report:
    def __init__(self):
        self.evaluations = 0
        self.distinct = set()
        self.samples = []
        self.failures = []        # property predicate false on the implementation
        self.disagreements = []   # implementation vs model on a channel of this property
        self.dist = collections.Counter()
        self.classes = collections.Counter()
        self.search_evals = 0
        self.notes = {}
        self.exhaustive = None
        self.badcases = 0
        self.ksample = []         # (case, model result) pairs for the in-kernel cross-check of the executor
        self.kseen = 0

    def coverage(self):
        c = {'evaluations': self.evaluations, 'distinct_nontrivial': len(self.distinct),
             'samples': self.samples[:8], 'input_distribution': dict(self.dist),
             'result_classes': dict(self.classes), 'disagreements': len(self.disagreements),
             'predicate_failures': len(self.failures), 'search_evaluations': self.search_evals,
             'badcases_excluded': self.badcases, 'model_executor_unavailable': getattr(self, 'model_unavailable', 0)}
        c.update(self.notes)
        if self.exhaustive is not None:
            c['exhaustive'] = self.exhaustive
        return c

    def fail(self, what, **kw):
        if len(self.failures) < 50:
            self.failures.append(dict(what=what, **kw))

    def disagree(self, case, exe, impl, model, **kw):
        if len(self.disagreements) < 50:
            self.disagreements.append(dict(case=case, executor=exe, implementation=impl[:2000], model=model[:2000], **kw))


def cls(r):
    """result class of a decode-like result line"""
    if r is None:
        return 'MISSING'
    for p in ('PANIC', 'ABORT', 'HANG', 'UB', 'NOFUEL', 'BADCASE', 'MODEL_STACK_OVERFLOW'):
        if r.startswith(p):
            return p
    if r.startswith('Ok'):
        return 'Ok'
    if r.startswith('Err []'):
        return 'ErrEmpty'
    if r.startswith('Err'):
        return 'Err'
    if r.startswith('['):
        return 'List'
    return 'Other'


def returns(r):
    return cls(r) in ('Ok', 'Err', 'List', 'Other')


REFUSED = ['ENCA\tHostName(%s)\t' % ('ab' * 1100),
           'ENC\tC(0,1,2,3,4,[MessageType(Hello);%s])\t' % ';'.join('HostName(%s)' % ('cd' * 1017) for _ in range(65)),
           'ENC\tC(0,1,2,3,4,[MessageType(Hello);Challenge(%s)])\t' % ('ef' * 2000)]


REFUSED_HIDE = ['HIDE\tHostName(%s)\t736563726574\t01020304\t\t%s' % ('ab' * 1100, '00' * 16),
                'HIDE\tChallenge(%s)\t\t0a0b0c0d\t0102\t%s' % ('cd' * 1020, '11' * 16)]


def run_compare(ctx, rep, cases, tags, observe, which=IMPLS, nontrivial=None, rule=None):
    """Run cases on the model and the implementation builds; compare through `observe`.
    -> {executor: results}.  BADCASE on either side excludes the case (and is counted)."""
    if len(cases) >= 40 and sum(1 for c in cases[:400] if c.split('\t', 1)[0] in ('HIDE', 'REVEAL')) >= 10:
        # every ~150 cases a hide() that must be refused (an AVP over 1023 octets: it panics, the harness catches it): whatever the
        # unwinding leaves behind on that thread would show in the hide / reveal calls that follow
        ext, keep = [], []
        for i, c in enumerate(cases):
            if i % 150 == 11:
                ext.append(REFUSED_HIDE[(i // 150) % len(REFUSED_HIDE)])
            keep.append(len(ext))
            ext.append(c)
        full = ctx.runner.run(ext, ('model',) + tuple(which))
        for w in full:
            for j, c in enumerate(ext):
                if c in REFUSED_HIDE and not full[w][j].startswith('PANIC') and w != 'model':
                    rep.fail('hiding an oversize AVP was not refused', case=c[:200], executor=w, result=full[w][j][:200])
        res = {w: [full[w][j] for j in keep] for w in full}
        return _compare(ctx, rep, cases, tags, observe, which, nontrivial, res)
    return _run_compare(ctx, rep, cases, tags, observe, which, nontrivial, rule)


def _run_compare(ctx, rep, cases, tags, observe, which=IMPLS, nontrivial=None, rule=None):
    if len(cases) >= 40 and sum(1 for c in cases[:400] if c.split('\t', 1)[0] in ('ENC', 'ENCA', 'ENCS', 'ENCW', 'ENCAW')) >= 10:
        # every ~120 cases a write the encoder must refuse (it panics, the harness catches it): whatever a caught panic
        # leaves behind on that thread would show in the cases that follow
        ext, keep = [], []
        for i, c in enumerate(cases):
            if i % 120 == 7:
                ext.append(REFUSED[(i // 120) % len(REFUSED)])
            keep.append(len(ext))
            ext.append(c)
        full = ctx.runner.run(ext, ('model',) + tuple(which))
        for w in full:
            for j, c in enumerate(ext):
                if c in REFUSED and not full[w][j].startswith('PANIC') and w != 'model':
                    rep.fail('an oversize value was not refused', case=c[:200], executor=w, result=full[w][j][:200])
        res = {w: [full[w][j] for j in keep] for w in full}
    else:
        res = ctx.runner.run(cases, ('model',) + tuple(which))
    return _compare(ctx, rep, cases, tags, observe, which, nontrivial, res)


def _compare(ctx, rep, cases, tags, observe, which, nontrivial, res):
    mod = res['model']
    for i, c in enumerate(cases):
        rep.evaluations += 1
        rep.dist[tags[i]] += 1
        m = mod[i]
        if cls(m) == 'BADCASE' or any(cls(res[w][i]) == 'BADCASE' for w in which):
            rep.badcases += 1
            continue
        if cls(m) in ('HANG', 'ABORT', 'MISSING', 'MODEL_STACK_OVERFLOW'):
            # the model executor itself did not answer (resource limits of this machine): nothing to compare with
            rep.model_unavailable = getattr(rep, 'model_unavailable', 0) + 1
            continue
        rep.classes[cls(res[which[0]][i])] += 1
        if nontrivial is None or nontrivial(c, m):
            rep.distinct.add(lib.sha(c))
        for w in which:
            r = res[w][i]
            if observe(c, r) != observe(c, m):
                rep.disagree(c, w, r, m, tag=tags[i])
        if c.split('\t', 1)[0] in KCHANNELS and len(c) < 6400:
            rep.kseen += 1
            if len(rep.ksample) < ctx.kbudget:
                rep.ksample.append((c, m))
            else:
                j = ctx.krng.randrange(rep.kseen)
                if j < ctx.kbudget:
                    rep.ksample[j] = (c, m)
        if len(rep.samples) < 8 and (i % max(1, len(cases) // 8) == 0):
            rep.samples.append({'case': c[:300], 'implementation': res[which[0]][i][:300], 'model': m[:300]})
    return res


def hexcases(channel, items, opt=None):
    if opt is None:
        return ['%s\t%s' % (channel, b.hex()) for (_, b) in items]
    return ['%s\t%d\t%s' % (channel, opt, b.hex()) for (_, b) in items]


def matches_known(k, f):
    m = k.get('match')
    return bool(m) and m in json.dumps(f)


def _hex_field(parts):
    for i in range(len(parts) - 1, 0, -1):
        f = parts[i]
        if f and len(f) % 2 == 0 and all(c in '0123456789abcdef' for c in f):
            return i
    return None


def shrink(ctx, spec, failure):
    """delta-debugging on the octet argument of a single-case failure: keep removing chunks
    while the same kind of failure persists (non-return of the implementation, or a result
    that differs from the reference).  Multi-stage predicates are reported unshrunk."""
    case = failure.get('case')
    exe = failure.get('executor')
    if not isinstance(case, str) or exe not in IMPLS or case.endswith('...'):
        return failure
    parts = case.split('\t')
    hi = _hex_field(parts)
    if hi is None:
        return failure
    res0 = str(failure.get('result', failure.get('implementation', '')))
    if cls(res0) in ('PANIC', 'ABORT', 'HANG'):
        kind = 'nonreturn'
    elif 'specification' in failure:
        kind = 'differs'
    else:
        return failure

    def failing(cands):
        lines = ['\t'.join(parts[:hi] + [c.hex()] + parts[hi + 1:]) for c in cands]
        r = ctx.runner.run(lines, ('model', exe))
        out = []
        for i in range(len(cands)):
            a, m = r[exe][i], r['model'][i]
            if cls(m) == 'BADCASE' or cls(a) == 'BADCASE':
                out.append(False)
            elif kind == 'nonreturn':
                out.append(cls(a) in ('PANIC', 'ABORT', 'HANG') and returns(m))
            else:
                out.append(a != m)
        return out, r
    data = bytes.fromhex(parts[hi])
    if len(data) > 4096:
        return failure
    n, rounds = 2, 0
    while len(data) >= 2 and rounds < 40:
        rounds += 1
        size = max(1, len(data) // n)
        cands = [data[:i] + data[i + size:] for i in range(0, len(data), size)]
        ok, _ = failing(cands)
        hit = next((c for c, o in zip(cands, ok) if o), None)
        if hit is not None:
            data = hit
            n = max(n - 1, 2)
        elif size == 1:
            break
        else:
            n = min(len(data), n * 2)
    # then try zeroing octets
    cands = [data[:i] + b'\x00' + data[i + 1:] for i in range(len(data)) if data[i] != 0]
    if cands and len(cands) <= 512:
        for _ in range(3):
            ok, _ = failing(cands)
            hit = next((c for c, o in zip(cands, ok) if o), None)
            if hit is None:
                break
            data = hit
            cands = [data[:i] + b'\x00' + data[i + 1:] for i in range(len(data)) if data[i] != 0]
            if not cands:
                break
    ok, r = failing([data])
    if ok[0]:
        failure = dict(failure, minimized_case='\t'.join(parts[:hi] + [data.hex()] + parts[hi + 1:]),
                       minimized_implementation=r[exe][0][:400], minimized_model=r['model'][0][:400])
    return failure


def replay(ctx, spec, doc):
    rep = Report()
    cases = []
    def collect(o):
        if isinstance(o, dict):
            for k, v in o.items():
                if k == 'case' and isinstance(v, str):
                    cases.append(v)
                else:
                    collect(v)
        elif isinstance(o, list):
            for v in o:
                collect(v)
    collect(doc)
    res = ctx.runner.run(cases, ('model',) + IMPLS)
    for i, c in enumerate(cases):
        print('case     %s' % c[:400])
        for w in ('model',) + IMPLS:
            print('  %-8s %s' % (w, res[w][i][:400]))
        rep.evaluations += 1
        rep.distinct.add(lib.sha(c))
        rep.distinct.add(lib.sha(c + '#'))
        for w in IMPLS:
            if res[w][i] != res['model'][i]:
                rep.disagree(c, w, res[w][i], res['model'][i])
    rep.samples = [{'case': c[:300]} for c in cases[:4]]
    return rep


LIMITS = [0, 1, 2, 3, 15, 16, 17, 255, 1016]


def limited_cases(rng, n):
    """the same kinds of input decoded through a reader that hands out at most k octets per bytes() call and answers None to a
    longer request although the octets are there (harness LimitReader / Model/Show.v LimitReader): the decoders'
    ok_or(AVPReadError / MessageReadError) arms are reachable in no other way"""
    out = []
    for _ in range(n):
        k = rng.choice(LIMITS)
        c = rng.random()
        if rng.random() < 0.4:
            # ... or through a reader with a seam: a bytes() request that would straddle it is refused (DECS / AVPSS)
            if c < 0.6:
                b = corpus.rand_valid_ctrl_bytes(rng, rng.randrange(1, 6))
            elif c < 0.8:
                b = corpus.rand_valid_data_bytes(rng)
            else:
                b = perturb(rng, corpus.rand_valid_ctrl_bytes(rng))
            if rng.random() < 0.75:
                out.append(('DECS\t%d\t%d\t%s' % (rng.randrange(0, len(b) + 2), rng.randrange(8), b.hex()), 'seam_message'))
            else:
                out.append(('AVPSS\t%d\t%s' % (rng.randrange(0, max(1, len(b) - 10)), b[12:].hex()), 'seam_avps'))
            continue
        if c < 0.45:
            out.append(('DECL\t%d\t%d\t%s' % (k, rng.randrange(8), corpus.rand_valid_ctrl_bytes(rng, rng.randrange(1, 6)).hex()), 'limited_ctrl'))
        elif c < 0.65:
            out.append(('DECL\t%d\t%d\t%s' % (k, rng.randrange(8), corpus.rand_valid_data_bytes(rng).hex()), 'limited_data'))
        elif c < 0.85:
            out.append(('AVPSL\t%d\t%s' % (k, b''.join(rand_body(rng, rng.randrange(1, 7), good_only=rng.random() < 0.5)).hex()), 'limited_avps'))
        else:
            b = corpus.rand_valid_ctrl_bytes(rng) if rng.random() < 0.7 else corpus.rand_valid_data_bytes(rng)
            out.append(('DECL\t%d\t%d\t%s' % (k, rng.randrange(8), perturb(rng, b).hex()), 'limited_perturbed'))
    return out


# =============================================================================== C01
def c01_cases(ctx, budget):
    rng = ctx.rng
    items = corpus.dec_corpus(rng, budget, ctx.thorough)
    cases, tags = [], []
    for (t, b) in items:
        o = rng.randrange(8)
        cases.append('DEC\t%d\t%s' % (o, b.hex()))
        tags.append(t)
        if rng.random() < 0.15:
            cases.append('DEC0\t%s' % b.hex())
            tags.append(t + '/try_read')
    for (t, b) in corpus.avps_corpus(rng, budget // 3, ctx.thorough):
        cases.append('AVPS\t%s' % b.hex())
        tags.append('avps_' + t)
    for (t, b) in corpus.guard_grid(rng, ctx.thorough):
        ty = int.from_bytes(b[4:6], 'big')
        cases.append('TYPE\t%d\t%s' % (ty, b[6:].hex()))
        tags.append('type_grid')
    for c, t in limited_cases(rng, max(300, budget // 10)):
        cases.append(c); tags.append(t)
    return cases, tags


def c01_pred(rep, cases, res):
    for w in IMPLS:
        for c, r in zip(cases, res[w]):
            k = cls(r)
            if k in ('PANIC', 'ABORT', 'HANG', 'ErrEmpty', 'MISSING'):
                rep.fail('decoder did not return Ok or a non-empty Err: %s' % k, case=c, executor=w, result=r[:300])


def c01_cost(ctx, rep, cases):
    """Tie of the cost semantics (Model/Cost.v, theorem C01_work_linear) to the code: the same inputs through a
    counting implementation of the Reader trait.  Recorded, never a violation by itself: the property speaks of
    termination, and a rewrite may legitimately issue a different number of reader calls."""
    cc = []
    for c in cases:
        p = c.split('\t')
        if p[0] == 'DEC':
            cc.append('DECC\t%s\t%s' % (p[1], p[2]))
        elif p[0] == 'AVPS':
            cc.append('AVPSC\t%s' % p[1])
    cc = cc[:20000]
    if not cc:
        return
    r = ctx.runner.run(cc, ('model', 'release'))
    same = within = n = 0
    hist = collections.Counter()
    worst = (0.0, '')
    for c, a, m in zip(cc, r['release'], r['model']):
        if not (a.startswith('cost=') and m.startswith('cost=')):
            continue
        n += 1
        ia, im = int(a[5:]), int(m[5:])
        ln = len(c.split('\t')[-1]) // 2
        same += ia == im
        hist[im - ia] += 1
        within += ia <= 3 * ln + 12
        ratio = ia / (3 * ln + 12)
        if ratio > worst[0]:
            worst = (ratio, c[:120])
    rep.notes['cost_tie'] = {'cases': n, 'implementation_cost_equals_model_cost': same,
                             'model_minus_implementation_histogram': {str(k): v for k, v in sorted(hist.items())},
                             'expected_difference': '0, or 1 when the AVP loop is entered: the model reads len() once more to obtain its fuel',
                             'implementation_cost_within_proved_bound_3n_plus_12': within,
                             'worst_ratio_to_bound': round(worst[0], 3), 'worst_case': worst[1],
                             'measure': 'reader operations issued + octets handed out by bytes(), counted by the harness CheckedReader'}


def run_c01(ctx, budget=None):
    rep = Report()
    check_many_records(ctx, rep, ('DEC',))
    cases, tags = c01_cases(ctx, budget or ctx.scale(12000, 150000))
    res = run_compare(ctx, rep, cases, tags, lambda c, r: 'RETURNS' if returns(r) and cls(r) != 'ErrEmpty' else cls(r),
                      nontrivial=lambda c, m: len(c) > 12)
    c01_pred(rep, cases, res)
    c01_cost(ctx, rep, cases)
    rep.notes['rule'] = ('structured inputs (valid messages, every prefix, Length/AVP-length grids, per-type guard grid, '
                         'data-message grid, perturbations, random) through DEC (random option set), DEC0, AVPS, TYPE in debug '
                         'and release; non-trivial = input longer than the flag word; distinct by SHA-1 of the case line')
    rep.notes['channels'] = ['DEC', 'DEC0', 'AVPS', 'TYPE']
    rep.notes['profiles'] = list(IMPLS)
    return rep


def search_c01(ctx, rep):
    """property-specific search after a broken proof/correspondence: a fresh, larger batch
    plus neighbours of the disagreeing cases, evaluated by the direct predicate only"""
    rng = ctx.rng
    cases = []
    for d in rep.disagreements[:10]:
        parts = d['case'].split('\t')
        try:
            b = bytes.fromhex(parts[-1])
        except ValueError:
            continue
        for _ in range(300):
            x = b
            for _ in range(rng.randrange(1, 3)):
                x = perturb(rng, x)
            cases.append('\t'.join(parts[:-1] + [x.hex()]))
        cases += ['\t'.join(parts[:-1] + [p.hex()]) for p in all_prefixes(b)[:400]]
    more, _ = c01_cases(ctx, ctx.scale(40000, 200000))
    cases += more
    res = ctx.runner.run(cases, IMPLS)
    rep.search_evals += len(cases)
    c01_pred(rep, cases, res)


PROPS = {
    'C01': {'run': run_c01, 'search': search_c01,
            'assumes': ['per-case running time is observed on generated inputs only (watchdog); the theorem bounds the loop iteration count, not wall-clock time']},
}


# =============================================================================== helpers
def conformance(rep):
    """for properties that *are* conformance to the reference: a disagreement is a failing input"""
    for d in rep.disagreements:
        rep.fail('implementation differs from the specification', case=d['case'], executor=d['executor'],
                 implementation=d['implementation'][:600], specification=d['model'][:600])
    rep.disagreements = []


def strip_rem(r):
    i = r.rfind(' rem=')
    return r if i < 0 else r[:i]


def get_rem(r):
    i = r.rfind(' rem=')
    return None if i < 0 else int(r[i + 5:].split()[0])


def big_values(rng):
    """values at the size limits: 1017-octet payloads, a message of exactly 65535 octets"""
    out = []
    big = 'HostName(%s)' % rbytes(rng, 1017).hex()
    avps = ['MessageType(Hello)'] + ['HostName(%s)' % rbytes(rng, 1017).hex() for _ in range(63)]
    # 12 + 8 + 63*1023 = 64469 ; remaining 1066 = 1023 + 43
    avps.append('Challenge(%s)' % rbytes(rng, 1017).hex())
    avps.append('VendorName(%s)' % rutf8(rng, 37).hex())
    out.append(('max_msg_65535', ctrl_text(0, 1, 2, 3, 4, avps)))
    out.append(('one_big_avp', ctrl_text(7, 1, 2, 3, 4, ['MessageType(SetLinkInfo)', big])))
    for n in (256, 257, 1000):
        out.append(('many_avps_%d' % n, ctrl_text(0, 1, 2, 3, 4, ['MessageType(Hello)'] + ['SequencingRequired()'] * n + ['AssignedTunnelId(%d)' % rng.getrandbits(16)])))
    return out



def many_record_cases(rng):
    """Messages with thousands of 6-octet records.  The list-based Model needs minutes for these, and needs not be asked:
    the expected results are written down directly.  -> [(case, expected result on the implementation)]"""
    out = []
    seq = avp_rec(39, b'')
    for n in (8190, 8191, 8192, 8193, 10900):
        v = rng.getrandbits(16)
        mt = rng.choice(MT)
        good = ctrl_bytes(avp_rec(0, be(MT_CODE[mt], 2)) + seq * n + avp_rec(9, be(v, 2)))
        txt = 'C(%d,1,2,3,4,[%s])' % (len(good), ';'.join(['MessageType(%s)' % mt] + ['SequencingRequired()'] * n + ['AssignedTunnelId(%d)' % v]))
        out.append(('DEC\t%d\t%s' % (rng.randrange(8), good.hex()), 'Ok %s rem=0' % txt))
        out.append(('ENC\t%s\t' % txt.replace('C(%d,' % len(good), 'C(0,', 1), 'Ok ' + good.hex()))
        bad = ctrl_bytes(avp_rec(0, be(MT_CODE[mt], 2)) + seq * n + avp_rec(40, b'xy') + seq + avp_rec(9, b'\x01'))
        out.append(('DEC\t%d\t%s' % (rng.randrange(8), bad.hex()), 'Err [UnknownAvp(40),IncompleteAVP(9)]'))
    # thousands of records of the other header-only kinds: vendor-specific, unassigned type, hidden (a decoder that recurses or
    # allocates per such record has a depth nobody bounded)
    n = 10900
    v = rng.choice([9, 311, 65535])
    b = ctrl_bytes(mt_record(rng) + avp_rec(7, b'', vendor=v) * n)
    out.append(('DEC\t%d\t%s' % (rng.randrange(8), b.hex()), 'Err [%s]' % ','.join(['UnsupportedVendorId(%d)' % v] * n)))
    t = rng.choice([20, 40, 999, 65535])
    b = ctrl_bytes(mt_record(rng) + avp_rec(t, b'') * n)
    out.append(('DEC\t%d\t%s' % (rng.randrange(8), b.hex()), 'Err [%s]' % ','.join(['UnknownAvp(%d)' % t] * n)))
    mt = rng.choice(MT)
    b = ctrl_bytes(avp_rec(0, be(MT_CODE[mt], 2)) + avp_rec(8, b'', h=1) * n)
    out.append(('DEC\t%d\t%s' % (rng.randrange(8), b.hex()), 'Ok C(%d,1,2,3,4,[%s]) rem=0' % (len(b), ';'.join(['MessageType(%s)' % mt] + ['Hidden(8,)'] * n))))
    b = avp_rec(7, b'', vendor=v) * 40000
    out.append(('AVPS\t%s' % b.hex(), '[%s] rem=0' % ';'.join(['Err(UnsupportedVendorId(%d))' % v] * 40000)))
    return out


def check_many_records(ctx, rep, channels=('DEC', 'ENC')):
    if 'DEC' in channels:
        channels = tuple(channels) + ('AVPS',)
    items = [(c, e) for (c, e) in many_record_cases(ctx.rng) if c.split('\t', 1)[0] in channels]
    res = ctx.runner.run([c for c, _ in items], IMPLS)
    for w in IMPLS:
        for (c, e), r in zip(items, res[w]):
            rep.evaluations += 1
            rep.dist['many_records'] += 1
            if r != e:
                rep.fail('a message with thousands of AVP records is not handled as specified', case=c[:300] + '...', executor=w,
                         got=r[:200] + ' ... ' + r[-120:], expected=e[:200] + ' ... ' + e[-120:], records=c.count('010600000027') if 'DEC' in c else c.count('SequencingRequired'))


VBASES = [1, 65530, 65534, 65535, 65536, 70000, 2 ** 32 - 3, 2 ** 32 - 1, 2 ** 32, 2 ** 32 + 40, 2 ** 48 + 5, 2 ** 63]


def check_far_positions(ctx, rep, values):
    """C09 at positions no real buffer reaches: the encoders run on a harness writer that reports `base` octets already
    written (without storing them).  What they append must be what they append to an empty writer, and no positional
    overwrite may land below `base`.  values: [('M'|'A', value text)]"""
    rng = ctx.rng
    ref = ctx.runner.run([('ENC\t%s\t' % v) if k == 'M' else ('ENCA\t%s\t' % v) for k, v in values], IMPLS)
    cases = ['ENCV\t%d\t%s\t%s' % (rng.choice(VBASES), k, v) for k, v in values]
    res = ctx.runner.run(cases, IMPLS)
    for w in IMPLS:
        for c, r0, r in zip(cases, ref[w], res[w]):
            rep.evaluations += 1
            rep.dist['far_position'] += 1
            want = r0.split(' glen=')[0]
            if want.startswith('Ok '):
                want += ' low=0'
            if r != want and not (want.startswith('PANIC') and r.startswith('PANIC')):
                rep.fail('encoding at a far writer position does not append what it appends to an empty writer, or overwrites earlier content',
                         case=c[:400], executor=w, got=r[:200], expected=want[:200])


# ---- observations: what a property's correspondence compares (DESIGN 6.2) ----
def o_full(c, r):
    return r


def o_class(c, r):
    return cls(r)


def o_class_rem(c, r):
    """class, and the consumed extent when accepted"""
    return (cls(r), get_rem(r) if cls(r) == 'Ok' else None)


def o_enc_len(c, r):
    """PANIC vs return, number of octets emitted, get_length, overwrite log"""
    if not r.startswith('Ok '):
        return r.split(' ')[0] + (' ' + r.split(' glen=')[1] if ' glen=' in r else '')
    parts = r[3:].split(' ')
    return ('Ok', len(parts[0]) // 2) + tuple(parts[1:])


def o_avps_tags(c, r):
    """per element Ok / Err, and the remaining length"""
    if cls(r) != 'List':
        return cls(r)
    return ([e[:2] for e in lib_split(strip_rem(r)[1:-1])], get_rem(r))


def o_seq(c, r):
    return [o_class_rem(c, x) for x in r.split(' | ')]


def o_err_count(c, r):
    """accept / reject, and the number of errors"""
    if cls(r) in ('Err', 'ErrEmpty'):
        return ('Err', len(lib_split_commas(r[5:-1])))
    return cls(r)


def lib_split_commas(s):
    parts, depth, start = [], 0, 0
    if s == '':
        return []
    for i, ch in enumerate(s):
        if ch in '([':
            depth += 1
        elif ch in ')]':
            depth -= 1
        elif ch == ',' and depth == 0:
            parts.append(s[start:i]); start = i + 1
    parts.append(s[start:])
    return parts

# =============================================================================== C02
def run_c02(ctx):
    rep = Report()
    rng = ctx.rng
    items = corpus.dec_corpus(rng, ctx.scale(8000, 100000), ctx.thorough)
    a, b, tags = [], [], []
    for (t, x) in items:
        o = rng.randrange(8)
        a.append('DECR\t%d\t%s' % (o, x.hex())); b.append('DEC\t%d\t%s' % (o, x.hex())); tags.append(t)
    for (t, x) in corpus.avps_corpus(rng, ctx.scale(3000, 40000), ctx.thorough):
        a.append('AVPSR\t%s' % x.hex()); b.append('AVPS\t%s' % x.hex()); tags.append('avps_' + t)
    for (t, x) in corpus.guard_grid(rng, ctx.thorough):
        ty = int.from_bytes(x[4:6], 'big')
        a.append('TYPER\t%d\t%s' % (ty, x[6:].hex())); b.append('TYPE\t%d\t%s' % (ty, x[6:].hex())); tags.append('type_grid')

    def obs(c, r):
        if not returns(r):
            return cls(r)
        i = r.rfind(' viol=')
        return 'RETURNS ' + (r[i + 1:] if i >= 0 else 'noviol')
    res = run_compare(ctx, rep, a, tags, obs, nontrivial=lambda c, m: len(c) > 14)
    plain = ctx.runner.run(b, IMPLS)
    for w in IMPLS:
        for i, c in enumerate(a):
            r = res[w][i]
            if cls(r) == 'BADCASE':
                continue
            if not returns(r):
                rep.fail('decode through the contract-checking reader did not return: %s' % cls(r), case=c, executor=w, result=r[:300])
                continue
            j = r.rfind(' viol=')
            if r[j + 6:] != '0':
                rep.fail('decoder issued an out-of-contract reader call', case=c, executor=w, result=r[:300])
            elif r[:j] != plain[w][i]:
                rep.fail('result differs between the checking reader and SliceReader', case=c, executor=w,
                         checked=r[:300], slice=plain[w][i][:300])
            if cls(plain[w][i]) in ('ABORT', 'PANIC', 'HANG'):
                rep.fail('SliceReader decode did not return: %s' % cls(plain[w][i]), case=b[i], executor=w, result=plain[w][i][:200])
    # a reader that refuses long bytes() requests is within the trait's contract too: the decoder must answer with an error,
    # not with an out-of-contract call or a panic
    lim = limited_cases(rng, ctx.scale(2000, 20000))
    rl = run_compare(ctx, rep, [c for c, _ in lim], [t for _, t in lim], lambda c, r: r if returns(r) else cls(r))
    for w in IMPLS:
        for (c, _), r in zip(lim, rl[w]):
            if not returns(r):
                rep.fail('decode through a reader that limits bytes() did not return: %s' % cls(r), case=c, executor=w, result=r[:200])
    # reveal builds its own SliceReader: abort/panic capture in the debug profile
    rv, rvtags, _, _ = reveal_cases(ctx, ctx.scale(4000, 40000))
    r2 = run_compare(ctx, rep, rv, ['reveal_' + t for t in rvtags], lambda c, r: 'RETURNS' if returns(r) else cls(r))
    for w in IMPLS:
        for c, r in zip(rv, r2[w]):
            if not returns(r):
                rep.fail('reveal did not return: %s' % cls(r), case=c, executor=w, result=r[:200])
    rep.notes['rule'] = ('DECR/AVPSR/TYPER through the harness CheckedReader (logs every out-of-contract call) and the same inputs '
                         'through SliceReader; REVEAL on random hidden values with abort capture; non-trivial = more than the flag word')
    rep.notes['channels'] = ['DECR', 'AVPSR', 'TYPER', 'DEC', 'AVPS', 'TYPE', 'REVEAL']
    return rep


# =============================================================================== C03
def run_c03(ctx):
    rep = Report()
    check_many_records(ctx, rep, ('DEC', 'ENC'))
    rng = ctx.rng
    vals = [(t, v) for (t, v) in big_values(rng)]
    for _ in range(ctx.scale(2500, 30000)):
        vals.append(('rand_ctrl', rand_ctrl(rng)))
    for k in KIND_LIST + ['Hidden']:
        for _ in range(ctx.scale(12, 100)):
            vals.append(('ctrl_kind_' + k, ctrl_text(0, 1, 2, 3, 4, ['MessageType(%s)' % rng.choice(MT), rand_avp(rng, k)])))
    for _ in range(ctx.scale(40, 400)):
        kind = rng.choice(['VendorName', 'VendorName', 'CalledNumber', 'CallingNumber', 'SubAddress', 'HostName', 'Challenge', 'PrivateGroupId'])
        base = (b'vendor ' + bytes(rng.choice(b'abcdefghijklmnop') for _ in range(rng.randrange(20, 60))) + b' rev 0001')
        for w in [base] + corpus.near_duplicates(rng, base):
            vals.append(('neighbours', ctrl_text(0, 1, 2, 3, 4, ['MessageType(%s)' % rng.choice(MT), '%s(%s)' % (kind, w.hex())])))
    # one in four is encoded behind what the writer already holds; the message is what was appended
    pre = [rbytes(rng, rng.choice([1, 12, 20, 300])).hex() if (i % 4 == 3 and i > 1) else '' for i in range(len(vals))]
    enc = ['ENC\t%s\t%s' % (v, p) for (_, v), p in zip(vals, pre)]
    r1 = run_compare(ctx, rep, enc, [t for (t, _) in vals], lambda c, r: r)
    dec, exp, tg = [], [], []
    for i, (t, v) in enumerate(vals):
        r = r1['release'][i]
        if not r.startswith('Ok '):
            rep.fail('encoding a message of the encodable domain did not return', case=enc[i], executor='release', result=r[:200])
            continue
        hx = r[3:][len(pre[i]):]
        dec.append('DEC\t7\t' + hx); exp.append('Ok %s rem=0' % ctrl_with_length(v, len(hx) // 2)); tg.append(t)
    r2 = run_compare(ctx, rep, dec, tg, lambda c, r: r)
    for w in IMPLS:
        for i, c in enumerate(dec):
            if r2[w][i] != exp[i]:
                rep.fail('decode_strict(encode(m)) != m[length := |encode(m)|]', case=c, executor=w,
                         got=r2[w][i][:400], expected=exp[i][:400])
    # the encoded message as the first of many in one buffer: 64 KiB and more behind it (what is left in the reader then no
    # longer fits 16 bits)
    far, fexp = [], []
    small = [i for i in range(len(dec)) if 40 <= len(dec[i]) <= 400][:3]
    for i in small:
        hx = dec[i].split('\t')[2]
        n = len(hx) // 2
        for sfx in sorted(set([65536 - n + d for d in (0, 1, 2, 11, 12, 13, n - 1, n, n + 1)] + [65535, 65536, 131072 - n + 3, 70000])):
            far.append('DEC\t7\t' + hx + rbytes(rng, sfx).hex()); fexp.append(exp[i][:-len('rem=0')] + 'rem=%d' % sfx)
    rf = run_compare(ctx, rep, far, ['followed_by_64KiB'] * len(far), lambda c, r: r)
    for w in IMPLS:
        for c, e, r in zip(far, fexp, rf[w]):
            if r != e:
                rep.fail('decode_strict(encode(m)) != m when 64 KiB or more follow the message in the reader', case=c[:200] + '...', executor=w,
                         got=r[:300], expected=e[:300], trailing_octets=(len(c.split('\t')[2]) // 2))
    # single AVPs
    avs = []
    for k in KIND_LIST + ['Hidden']:
        for _ in range(ctx.scale(60, 600)):
            avs.append(rand_avp(rng, k))
    ea = ['ENCA\t%s\t' % a for a in avs]
    r3 = run_compare(ctx, rep, ea, ['avp_' + avp_kind(a) for a in avs], lambda c, r: r)
    da, ex = [], []
    for i, a in enumerate(avs):
        r = r3['release'][i]
        if not r.startswith('Ok '):
            rep.fail('encoding an AVP of the encodable domain did not return', case=ea[i], executor='release', result=r[:200])
            continue
        da.append('AVPS\t' + r[3:].split(' ')[0]); ex.append('[Ok(%s)] rem=0' % a)
    r4 = run_compare(ctx, rep, da, ['avps_rt'] * len(da), lambda c, r: r)
    for w in IMPLS:
        for i, c in enumerate(da):
            if r4[w][i] != ex[i]:
                rep.fail('decode_avps(encode(a)) != [Ok(a)]', case=c, executor=w, got=r4[w][i][:400], expected=ex[i][:400])
    rep.notes['rule'] = ('random control messages (0-20 AVPs, all 39 kinds + Hidden, field extremes, payload sizes up to 1017, a 65535-octet '
                         'message) through ENC then DEC under the strictest options, and single AVPs through ENCA then AVPS; distinct by case line')
    rep.notes['channels'] = ['ENC', 'DEC', 'ENCA', 'AVPS']
    return rep


# =============================================================================== C04
def run_c04(ctx):
    rep = Report()
    rng = ctx.rng
    vals = []
    # grid: all flag combinations x sizes x offsets x both priorities
    for bits in range(16):
        Lb, S, O, P = bool(bits & 1), bool(bits & 2), bool(bits & 4), bool(bits & 8)
        for nd in (1, 2, 3, 17):
            for off in ([0, nd - 1, nd // 2] if O else [None]):
                nsnr = (extreme(rng, 16), extreme(rng, 16)) if S else None
                ln = data_total(True, nsnr, off, nd) if Lb else None
                vals.append(('grid', (P, ln, extreme(rng, 16), extreme(rng, 16), nsnr, off, rbytes(rng, nd))))
    for _ in range(ctx.scale(6000, 60000)):
        vals.append(('rand', rand_data(rng)))
    # payloads around and beyond 64 KiB (no length field can describe them; the message is still legal)
    for nd in (65519, 65525, 65529, 65530, 65535, 65536, 70001, 131100):
        nsnr = (1, 2) if nd % 2 else None
        off = 3 if nd % 3 == 0 else None
        ln = data_total(True, nsnr, off, nd)
        vals.append(('big', (bool(nd & 1), ln if ln <= 65535 else None, 7, 8, nsnr, off, rbytes(rng, nd))))
    # offset sizes near 65535 (header + offset size does not fit 16 bits; no Length field can be present)
    for off in (65521, 65524, 65527, 65528, 65530, 65535):
        for nsnr in (None, (3, 4)):
            nd = off + rng.choice([1, 2, 9])
            vals.append(('big_offset', (bool(off & 1), None, extreme(rng, 16), extreme(rng, 16), nsnr, off, rbytes(rng, nd))))
    # one in four is encoded behind what the writer already holds; the message is what was appended
    pre = [rbytes(rng, rng.choice([1, 6, 12, 300])).hex() if i % 4 == 3 else '' for i in range(len(vals))]
    enc = ['ENC\t%s\t%s' % (data_text(*v), p) for (_, v), p in zip(vals, pre)]
    r1 = run_compare(ctx, rep, enc, [t + ('/prefixed' if p else '') for (t, _), p in zip(vals, pre)], lambda c, r: r)
    dec, exp = [], []
    for i, (t, v) in enumerate(vals):
        r = r1['release'][i]
        if not r.startswith('Ok '):
            rep.fail('encoding a data message did not return', case=enc[i], executor='release', result=r[:200])
            continue
        P, ln, tid, sid, nsnr, off, payload = v
        dec.append('DEC\t%d\t%s' % (rng.randrange(8), r[3:][len(pre[i]):]))
        exp.append('Ok %s rem=0' % data_text(P, ln, tid, sid, nsnr, None, payload[(off or 0):]))
    # a message that carries its Length may be followed by more in the same reader: a few octets, or 64 KiB and more
    nfar = 0
    for i, (t, v) in enumerate(vals):
        P, ln, tid, sid, nsnr, off, payload = v
        r = r1['release'][i]
        if ln is None or not r.startswith('Ok ') or len(payload) > 300:
            continue
        hx = r[3:][len(pre[i]):]
        n = len(hx) // 2
        sizes = [rng.choice([1, 2, 5, 40])] if (i % 3 == 0) else []
        if nfar < 4 and off:
            nfar += 1
            sizes += sorted(set([65536 - n + d for d in (0, 1, 5, 6, 7, 8, 9, 10, 11, 12, n - 1, n)] + [65536, 70000]))
        for k in sizes:
            if k <= 0:
                continue
            dec.append('DEC\t%d\t%s' % (rng.randrange(8), hx + rbytes(rng, k).hex()))
            exp.append('Ok %s rem=%d' % (data_text(P, ln, tid, sid, nsnr, None, payload[(off or 0):]), k))
    r2 = run_compare(ctx, rep, dec, ['dec'] * len(dec), lambda c, r: r)
    for w in IMPLS:
        for i, c in enumerate(dec):
            if r2[w][i] != exp[i]:
                rep.fail('decode(encode(d)) != d[offset := None, data := data[n..]]', case=c[:600], executor=w,
                         got=r2[w][i][:400], expected=exp[i][:400])
    rep.notes['rule'] = ('data messages: 16 L/S/O/P combinations x sizes x offset sizes (0, |data|-1, middle) grid plus random values '
                         '(length absent or exact), ENC then DEC under a random option set')
    rep.notes['channels'] = ['ENC', 'DEC']
    return rep


# =============================================================================== C05
def c05_obs(c, r):
    ch = c.split('\t', 1)[0]
    if ch in ('DEC', 'DEC0', 'DECL', 'DECS'):
        return r if cls(r) == 'Ok' else cls(r)
    if ch in ('AVPS', 'AVPSL', 'AVPSS'):
        if cls(r) != 'List':
            return cls(r)
        body = strip_rem(r)[1:-1]
        return [e if e.startswith('Ok(') else 'Err' for e in lib_split(body)]
    if ch == 'TYPE':
        return strip_rem(r) if r.startswith('Ok(') else cls(r) if not r.startswith('Err(') else 'Err'
    return r


def lib_split(s):
    parts, depth, start = [], 0, 0
    if s == '':
        return []
    for i, ch in enumerate(s):
        if ch in '([':
            depth += 1
        elif ch in ')]':
            depth -= 1
        elif ch == ';' and depth == 0:
            parts.append(s[start:i]); start = i + 1
    parts.append(s[start:])
    return parts


def run_c05(ctx):
    rep = Report()
    check_many_records(ctx, rep, ('DEC',))
    rng = ctx.rng
    cases, tags = [], []
    for (t, b) in corpus.dec_corpus(rng, ctx.scale(14000, 200000), ctx.thorough):
        cases.append('DEC\t%d\t%s' % (rng.randrange(8), b.hex())); tags.append(t)
    for (t, b) in corpus.avps_corpus(rng, ctx.scale(5000, 60000), ctx.thorough):
        cases.append('AVPS\t%s' % b.hex()); tags.append('avps_' + t)
    for (t, b) in corpus.guard_grid(rng, ctx.thorough):
        cases.append('TYPE\t%d\t%s' % (int.from_bytes(b[4:6], 'big'), b[6:].hex())); tags.append('type_grid')
    for c, t in limited_cases(rng, ctx.scale(1500, 15000)):
        cases.append(c); tags.append(t)
    # UTF-8 boundary sets inside string-typed AVPs
    for s in utf8_boundary(rng, ctx.thorough):
        cases.append('AVPS\t%s' % avp_rec(rng.choice([8, 21, 22, 23]), s).hex()); tags.append('utf8')
    # full flag-word sweep over a fixed control and data remainder
    cb = ctrl_bytes(mt_record(rng) + good_record(rng, 7))
    db = data_bytes(b'\xaa\xbb\xcc', True, True, True, False, None, 1, b'\x00', 1, 2, 3, 4)
    step = 1 if ctx.thorough else 1
    for w in range(0, 65536, step):
        base = cb if (w >> 8) & 1 else data_bytes(b'\xaa\xbb\xcc', bool(w >> 9 & 1), bool(w >> 12 & 1), bool(w >> 14 & 1), False, None, 1, b'\x00')
        cases.append('DEC\t%d\t%s' % (rng.randrange(8), (be(w, 2) + base[2:]).hex())); tags.append('flag_sweep')
    run_compare(ctx, rep, cases, tags, c05_obs, nontrivial=lambda c, m: len(c) > 14)
    conformance(rep)
    rep.notes['rule'] = ('DEC/AVPS/TYPE over the structured corpus, UTF-8 boundary strings, and all 65536 flag words; compared on accept/reject and '
                         'the accepted value in full (error identity is left to C15/C20); the reference is the extracted model, proved equal to the Spec')
    rep.notes['channels'] = ['DEC', 'AVPS', 'TYPE']
    return rep


# both ends of every octet class the UTF-8 automaton distinguishes (RFC 3629 table 3-7)
UTF8_CLASS_ENDS = [0x00, 0x7f, 0x80, 0x8f, 0x90, 0x9f, 0xa0, 0xbf, 0xc0, 0xc1, 0xc2, 0xdf, 0xe0, 0xe1, 0xec, 0xed, 0xee, 0xef,
                   0xf0, 0xf1, 0xf3, 0xf4, 0xf5, 0xff]


def utf8_boundary(rng, thorough):
    out = [bytes([a]) for a in range(256)]
    # every string of up to three (thorough: four) octets over the class ends: each transition of the automaton from each state
    import itertools
    for n in (2, 3, 4) if thorough else (2, 3):
        for t in itertools.product(UTF8_CLASS_ENDS, repeat=n):
            if t[0] >= 0x80:
                out.append(bytes(t))
    for a in range(0x80, 256, 1 if thorough else 3):
        for b2 in (0x00, 0x7f, 0x80, 0x8f, 0x90, 0x9f, 0xa0, 0xbf, 0xc0, 0xff):
            out.append(bytes([a, b2]))
            out.append(bytes([a, b2, 0x80]))
            out.append(bytes([a, b2, 0x80, 0x80]))
            out.append(bytes([a, b2, 0xbf, 0xbf, 0x41]))
    for _ in range(300 if not thorough else 3000):
        s = bytearray(rutf8(rng, rng.randrange(1, 12)))
        if rng.random() < 0.6 and s:
            s[rng.randrange(len(s))] = rng.getrandbits(8)
        out.append(bytes(s))
    return [s for s in out if len(s) > 0]


# =============================================================================== C06
def run_c06(ctx):
    rep = Report()
    rng = ctx.rng
    cases, tags = [], []
    for (t, v) in big_values(rng):
        cases.append('ENC\t%s\t' % v); tags.append(t)
    for _ in range(ctx.scale(3000, 40000)):
        cases.append('ENC\t%s\t' % rand_ctrl(rng, first_mt=rng.random() < 0.8)); tags.append('ctrl')
    for _ in range(ctx.scale(3000, 40000)):
        P, ln, tid, sid, nsnr, off, payload = rand_data(rng)
        if rng.random() < 0.4:   # arbitrary (not necessarily consistent) length / offset fields are echoed
            ln = rng.choice([None, extreme(rng, 16)]); off = rng.choice([None, extreme(rng, 16)])
        if rng.random() < 0.15:  # ... including lengths that stand in some relation to the other fields
            off = rng.choice([1, 2, 3, 7, len(payload)])
            hdr = 10 + (4 if nsnr else 0)
            ln = rng.choice([hdr + off + len(payload), hdr + len(payload), hdr + off, len(payload) + off, hdr - 2 + off + len(payload)]) & 0xffff
        if rng.random() < 0.1:
            payload = b''
        cases.append('ENC\t%s\t' % data_text(P, ln, tid, sid, nsnr, off, payload)); tags.append('data')
    for k in KIND_LIST + ['Hidden']:
        for _ in range(ctx.scale(80, 800)):
            cases.append('ENCA\t%s\t' % rand_avp(rng, k)); tags.append('avp_' + k)
    for k in BITMASK:
        for x in (0, 1):
            for y in (0, 1):
                cases.append('BITS\t%s\t%d\t%d' % (k, x, y)); tags.append('bits_new')
        for i in range(32):
            cases.append('ENCA\t%s(%d)\t' % (k, 1 << i)); tags.append('bitmask_onehot')
    # empty optional strings / empty variable payloads are representable values too
    for a in ['ResultCode(1,Generic,x)', 'Q931CauseCode(1,2,x)', 'HostName()', 'VendorName()', 'Hidden(5,)']:
        cases.append('ENCA\t%s\t' % a); tags.append('edge_empty')
    # one case in five is encoded behind what the writer already holds (the specification encoder appends: G_C06 is stated for
    # every prefix); the octets produced are then the prefix followed by the same encoding
    for i, c in enumerate(cases):
        if i % 5 == 4 and c.startswith(('ENC\t', 'ENCA\t')) and c.endswith('\t') and len(c) < 3000:
            cases[i] = c + rbytes(rng, rng.choice([1, 2, 12, 28, 255, 300])).hex()
            tags[i] += '/prefixed'
    run_compare(ctx, rep, cases, tags, lambda c, r: r)
    conformance(rep)
    rep.notes['rule'] = 'ENC/ENCA octet-for-octet on random control/data messages and every AVP kind (incl. bitmask words, empty edge values, size limits), one in five behind a non-empty prefix'
    rep.notes['channels'] = ['ENC', 'ENCA', 'BITS']
    return rep


def generic_search(runfn):
    def search(ctx, rep):
        sub = runfn(ctx)
        rep.search_evals += sub.evaluations
        rep.failures += sub.failures
    return search


PROPS.update({
    'C02': {'run': run_c02, 'search': generic_search(run_c02),
            'assumes': ['memory safety of the compiled unsafe blocks is represented by "every reader call is within its contract"; what rustc does with an in-contract get_unchecked is trusted']},
    'C03': {'run': run_c03, 'search': generic_search(run_c03), 'assumes': []},
    'C04': {'run': run_c04, 'search': generic_search(run_c04), 'assumes': []},
    'C05': {'run': run_c05, 'search': generic_search(run_c05), 'assumes': ['the reference decoder is the Coq Spec, executed through the extracted Model that is proved equal to it']},
    'C06': {'run': run_c06, 'search': generic_search(run_c06), 'assumes': []},
})


# =============================================================================== C07
def walk_ctrl(b):
    """independent length walker over an emitted control message: -> None if exact, else reason"""
    if len(b) < 12:
        return 'shorter than a header'
    if int.from_bytes(b[2:4], 'big') != len(b):
        return 'Length field %d != %d octets emitted' % (int.from_bytes(b[2:4], 'big'), len(b))
    pos = 12
    while pos < len(b):
        if pos + 6 > len(b):
            return 'AVP header runs past the message at %d' % pos
        L = ((b[pos] >> 6) << 8) | b[pos + 1]
        if L < 6 or pos + L > len(b):
            return 'AVP length %d at %d does not tile the body' % (L, pos)
        pos += L
    return None


def run_c07(ctx):
    rep = Report()
    rng = ctx.rng
    cases, tags, expect = [], [], []   # expect: 'fit' | 'oversize' | None (unknown)
    # AVP sizes straddling 255/256 and 1023/1024
    for k in ['HostName', 'Challenge', 'PrivateGroupId', 'ProxyAuthenName']:
        for n in [1, 249, 250, 251, 255, 256, 1016, 1017, 1018, 1019, 1100, 2000, 65529, 65530, 65531, 66000, 66553, 66554, 70000, 131072, 131700] + \
                 ([(1 << e) - 6 + d for e in (18, 19, 20) for d in (0, 1, 500)] if k == 'HostName' else []):
            cases.append('ENCA\t%s(%s)\t%s' % (k, rbytes(rng, n).hex(), rbytes(rng, rng.randrange(0, 4)).hex()))
            tags.append('avp_bytes_%d' % n); expect.append('fit' if 6 + n <= 1023 else 'oversize')
    for n in [1, 250, 1017, 1018, 1300]:
        cases.append('ENCA\tVendorName(%s)\t' % rutf8(rng, n).hex()); tags.append('avp_str_%d' % n); expect.append('fit' if n <= 1017 else 'oversize')
        cases.append('ENCA\tHidden(9,%s)\t' % rbytes(rng, n).hex()); tags.append('avp_hidden_%d' % n); expect.append('fit' if n <= 1017 else 'oversize')
        cases.append('ENCA\tResultCode(1,Generic,x%s)\t' % rutf8(rng, n).hex()); tags.append('avp_rc_%d' % n); expect.append('fit' if n + 4 <= 1017 else 'oversize')
        cases.append('ENCA\tQ931CauseCode(1,2,x%s)\t' % rutf8(rng, n).hex()); tags.append('avp_q931_%d' % n); expect.append('fit' if n + 3 <= 1017 else 'oversize')
    for k in KIND_LIST + ['Hidden']:
        for _ in range(ctx.scale(40, 400)):
            cases.append('ENCA\t%s\t%s' % (rand_avp(rng, k), rbytes(rng, rng.randrange(0, 3)).hex())); tags.append('avp_' + k); expect.append('fit')
    # messages straddling 65535: 12 + 8 + 63*1023 = 64469 ; 1066 left = 1023 + 43 (payload 37)
    base = ['MessageType(Hello)'] + ['HostName(%s)' % rbytes(rng, 1017).hex() for _ in range(64)]
    for last in [35, 36, 37, 38, 39, 200]:
        avps = base + ['Challenge(%s)' % rbytes(rng, last).hex()]
        total = 12 + 8 + 64 * 1023 + 6 + last
        cases.append('ENC\t%s\t' % ctrl_text(0, 1, 2, 3, 4, avps)); tags.append('msg_%d' % total)
        expect.append('fit' if total <= 65535 else 'oversize')
    for _ in range(ctx.scale(1500, 20000)):
        cases.append('ENC\t%s\t%s' % (rand_ctrl(rng, first_mt=rng.random() < 0.7), rbytes(rng, rng.randrange(0, 3)).hex()))
        tags.append('ctrl'); expect.append('fit')
    # a message containing one oversize AVP
    cases.append('ENC\t%s\t' % ctrl_text(0, 1, 2, 3, 4, ['MessageType(Hello)', 'HostName(%s)' % rbytes(rng, 1018).hex()]))
    tags.append('msg_with_oversize_avp'); expect.append('oversize')
    # hide asserts the original length fits
    for n in [1, 1000, 1016, 1017, 1018, 1500]:
        cases.append('HIDE\tHostName(%s)\t73\t01020304\t\t%s' % (rbytes(rng, n).hex(), rbytes(rng, 16).hex()))
        tags.append('hide_%d' % n); expect.append('fit' if 6 + n <= 1023 else 'oversize')
    res = run_compare(ctx, rep, cases, tags, o_enc_len)
    for w in IMPLS:
        for i, c in enumerate(cases):
            r = res[w][i]
            ch = c.split('\t', 1)[0]
            pre = len(c.split('\t')[2]) // 2 if ch in ('ENC', 'ENCA') else 0
            if expect[i] == 'oversize':
                if not r.startswith('PANIC'):
                    rep.fail('an oversize value was encoded instead of being refused', case=c[:300] + '...', executor=w, result=r[:120])
                continue
            if not r.startswith('Ok '):
                rep.fail('encoding a value that fits did not return', case=c[:300], executor=w, result=r[:120])
                continue
            if ch == 'ENC':
                why = walk_ctrl(bytes.fromhex(r[3:])[pre:])
                if why:
                    rep.fail('emitted control message has an inexact length field: ' + why, case=c[:300], executor=w, result=r[:200])
            elif ch == 'ENCA':
                hx, gl = r[3:].split(' glen=')
                b = bytes.fromhex(hx)[pre:]
                L = ((b[0] >> 6) << 8) | b[1]
                if L != len(b):
                    rep.fail('AVP length field %d != %d octets emitted' % (L, len(b)), case=c[:300], executor=w, result=r[:200])
                if len(b) != 6 + int(gl):
                    rep.fail('|encode(a)| = %d != 6 + get_length() = %d' % (len(b), 6 + int(gl)), case=c[:300], executor=w, result=r[:200])
    rep.notes['rule'] = ('ENCA with payloads straddling 255/256 and 1017/1018, ENC with totals straddling 65535/65536, HIDE straddling 1017/1018, '
                         'random values; emitted octets parsed by an independent length walker; PANIC vs return compared')
    rep.notes['channels'] = ['ENC', 'ENCA', 'HIDE']
    return rep


# =============================================================================== C08
def run_c08(ctx):
    rep = Report()
    rng = ctx.rng
    items = [(t, b) for (t, b) in corpus.dec_corpus(rng, ctx.scale(6000, 80000), ctx.thorough)]
    opts = [rng.randrange(8) for _ in items]
    s1 = ['DEC\t%d\t%s' % (o, b.hex()) for o, (_, b) in zip(opts, items)]
    r1 = run_compare(ctx, rep, s1, [t for (t, _) in items], o_class_rem)
    sfx = [rbytes(rng, rng.choice([1, 2, 6, 12, 40])) for _ in items]
    s2 = ['DEC\t%d\t%s' % (o, (b + s).hex()) for o, (_, b), s in zip(opts, items, sfx)]
    r2 = run_compare(ctx, rep, s2, ['sfx_' + t for (t, _) in items], o_class_rem)
    nacc = 0
    for w in IMPLS:
        for i, (t, b) in enumerate(items):
            a = r1[w][i]
            if cls(a) != 'Ok' or len(b) < 2:
                continue
            is_ctrl = bool(b[0] & 1)
            has_len = bool(b[0] & 2)
            if not (is_ctrl or has_len):
                continue
            nacc += 1
            x = r2[w][i]
            if strip_rem(x) != strip_rem(a) or get_rem(x) != get_rem(a) + len(sfx[i]):
                rep.fail('octets after the declared end changed the result or the consumed length', case=s2[i], executor=w,
                         without_suffix=a[:300], with_suffix=x[:300])
    rep.notes['accepted_with_declared_length'] = nacc // 2
    # buffers beyond 64 KiB: the declared length must still delimit the message
    big = []
    for _ in range(ctx.scale(3, 12)):
        b = corpus.rand_valid_ctrl_bytes(rng, rng.randrange(1, 4)) if rng.random() < 0.7 else data_bytes(rbytes(rng, 9), True, rng.random() < 0.5)
        for n in (65500, 65536 - len(b), 65536 - len(b) + 11, 65535, 65536, 65537, 131072 - len(b) + 5, 140000):
            big.append((b, rbytes(rng, n)))
    sb1 = ['DEC\t7\t%s' % b.hex() for (b, _) in big]
    sb2 = ['DEC\t7\t%s' % (b + x).hex() for (b, x) in big]
    rb1 = run_compare(ctx, rep, sb1, ['big_base'] * len(big), o_class_rem)
    rb2 = run_compare(ctx, rep, sb2, ['big_suffix'] * len(big), o_class_rem)
    for w in IMPLS:
        for i, (b, x) in enumerate(big):
            a, y = rb1[w][i], rb2[w][i]
            if cls(a) == 'Ok' and (strip_rem(y) != strip_rem(a) or get_rem(y) != get_rem(a) + len(x)):
                rep.fail('octets after the declared end (a suffix of %d octets) changed the result' % len(x), case=sb2[i][:200] + '...', executor=w,
                         without_suffix=a[:200], with_suffix=y[:200], base_case=sb1[i][:300], suffix_len=len(x))
    # back-to-back messages from one reader
    seqs, exps = [], []
    single = []
    groups = []
    for _ in range(ctx.scale(500, 5000)):
        k = rng.randrange(1, 6)
        g = []
        for _ in range(k):
            if rng.random() < 0.6:
                g.append(rand_ctrl(rng, small=True))
            else:
                P, ln, tid, sid, nsnr, off, payload = rand_data(rng)
                nd = len(payload)
                ln = data_total(True, nsnr, off, nd)
                g.append(data_text(P, ln, tid, sid, nsnr, off, payload))
        groups.append(g)
        single += ['ENC\t%s\t' % m for m in g]
    e = run_compare(ctx, rep, single, ['enc_for_seq'] * len(single), o_enc_len)
    pos = 0
    seq_cases, seq_exp = [], []
    for g in groups:
        hx = ''
        ok = True
        for m in g:
            r = e['release'][pos]; pos += 1
            if not r.startswith('Ok '):
                ok = False
                continue
            hx += r[3:]
        if ok:
            seq_cases.append('DECSEQ\t7\t' + hx)
    rs = run_compare(ctx, rep, seq_cases, ['decseq'] * len(seq_cases), o_seq)
    # each message decoded alone must equal the corresponding element of the sequence
    pos = 0
    alone = []
    for g in groups:
        for m in g:
            r = e['release'][pos]; pos += 1
            alone.append('DEC\t7\t' + (r[3:] if r.startswith('Ok ') else ''))
    ra = ctx.runner.run(alone, IMPLS)
    for w in IMPLS:
        pos = 0
        for gi, g in enumerate(groups):
            exp = [strip_rem(ra[w][pos + j]) for j in range(len(g))]
            pos += len(g)
            if gi >= len(rs[w]):
                continue
            got = [strip_rem(x) for x in rs[w][gi].split(' | ')]
            if got != exp:
                rep.fail('messages packed back to back did not decode one after another', case=seq_cases[gi][:600], executor=w,
                         got=rs[w][gi][:400], expected=' | '.join(exp)[:400])
    # AVP records: decode of a concatenation = concatenation of decodes
    recsets = []
    for _ in range(ctx.scale(2500, 30000)):
        k = rng.randrange(1, 7)
        recs = []
        for _ in range(k):
            c = rng.random()
            if c < 0.6:
                recs.append(good_record(rng))
            elif c < 0.85:
                recs.append(bad_record(rng)[0])
            else:
                recs.append(avp_rec(rng.randrange(0, 45), rbytes(rng, rng.choice([0, 16, 5])), h=1))
        recsets.append(recs)
    for total in (65500, 65536, 66000, 131100):   # record lists beyond 64 KiB
        recs, sz = [], 0
        while sz < total:
            r = avp_rec(rng.choice([7, 11, 37]), rbytes(rng, rng.choice([1000, 1017, 500])))
            recs.append(r); sz += len(r)
        recs.append(good_record(rng))
        recsets.append(recs)
    flat = ['AVPS\t' + r.hex() for rs_ in recsets for r in rs_]
    cat = ['AVPS\t' + b''.join(rs_).hex() for rs_ in recsets]
    rf = run_compare(ctx, rep, flat, ['avp_record'] * len(flat), o_avps_tags)
    rc = run_compare(ctx, rep, cat, ['avp_concat'] * len(cat), o_avps_tags)
    for w in IMPLS:
        pos = 0
        for i, rs_ in enumerate(recsets):
            parts = []
            for _ in rs_:
                parts += lib_split(strip_rem(rf[w][pos])[1:-1]); pos += 1
            got = lib_split(strip_rem(rc[w][i])[1:-1])
            if got != parts or get_rem(rc[w][i]) != 0:
                rep.fail('decode_avps(r1++..++rk) != decode_avps(r1)++..++decode_avps(rk)', case=cat[i][:600], executor=w,
                         got=rc[w][i][:400], expected=';'.join(parts)[:400])
    rep.notes['rule'] = ('accepted inputs re-decoded with random suffixes (value and remaining length), 1-5 messages packed back to back and '
                         'decoded in sequence from one SliceReader, 1-6 well-delimited AVP records (good, bad, hidden) decoded alone and concatenated')
    rep.notes['channels'] = ['DEC', 'DECSEQ', 'AVPS', 'ENC']
    return rep


# =============================================================================== C09
def run_c09(ctx):
    rep = Report()
    rng = ctx.rng

    def rand_msg():
        if rng.random() < 0.6:
            return rand_ctrl(rng, small=rng.random() < 0.7)
        P, ln, tid, sid, nsnr, off, payload = rand_data(rng)
        if rng.random() < 0.3:   # the Length and Offset Size fields are echoed as given, whatever they say (0, 1, 65535, ...)
            ln = rng.choice([None, 0, extreme(rng, 16)])
            off = rng.choice([None, off, extreme(rng, 16)])
        return data_text(P, ln, tid, sid, nsnr, off, payload)
    vals = [rand_msg() for _ in range(ctx.scale(3000, 40000))]
    pre = []
    for _ in vals:
        c = rng.random()
        if c < 0.3:
            pre.append(rbytes(rng, rng.randrange(1, 30)))
        elif c < 0.6:
            pre.append(corpus.rand_valid_ctrl_bytes(rng, rng.randrange(0, 3)))  # a prefix that itself looks like a message
        elif c < 0.995:
            pre.append(rbytes(rng, rng.choice([1, 2, 3, 255, 256, 1023, 1024])))
        else:
            pre.append(rbytes(rng, rng.choice([65534, 65535, 65536, 65537, 70000, 131073, 65500, 65510, 65520, 65523, 65524, 65530, 131060])))
    far = [('M', v) for v in vals[:ctx.scale(150, 1500)]] + [('A', rand_avp(rng, maxpay=300)) for _ in range(ctx.scale(150, 1500))]
    check_far_positions(ctx, rep, far)
    a = ['ENC\t%s\t' % v for v in vals]
    b = ['ENC\t%s\t%s' % (v, p.hex()) for v, p in zip(vals, pre)]
    ra = run_compare(ctx, rep, a, ['enc_empty'] * len(a), o_enc_len)
    rb = run_compare(ctx, rep, b, ['enc_prefix'] * len(b), o_enc_len)
    for w in IMPLS:
        for i in range(len(vals)):
            x, y = ra[w][i], rb[w][i]
            if cls(x) == 'BADCASE':
                continue
            if x.startswith('Ok ') != y.startswith('Ok ') or (x.startswith('Ok ') and y[3:] != pre[i].hex() + x[3:]):
                rep.fail('enc_into(p, v) != p ++ encode(v)', case=b[i][:600], executor=w, into_empty=x[:300], into_prefix=y[:300])
    # AVPs with prefixes
    avs = [rand_avp(rng) for _ in range(ctx.scale(2000, 20000))]
    pa = [rbytes(rng, rng.randrange(1, 40)) if rng.random() < 0.99 else rbytes(rng, rng.choice([65530, 65533, 65534, 65535, 65536, 131070])) for _ in avs]
    a2 = ['ENCA\t%s\t' % v for v in avs]
    b2 = ['ENCA\t%s\t%s' % (v, p.hex()) for v, p in zip(avs, pa)]
    ra2 = run_compare(ctx, rep, a2, ['enca_empty'] * len(a2), o_enc_len)
    rb2 = run_compare(ctx, rep, b2, ['enca_prefix'] * len(b2), o_enc_len)
    for w in IMPLS:
        for i in range(len(avs)):
            x, y = ra2[w][i].split(' glen=')[0], rb2[w][i].split(' glen=')[0]
            if x.startswith('Ok ') != y.startswith('Ok ') or (x.startswith('Ok ') and y[3:] != pa[i].hex() + x[3:]):
                rep.fail('enc_into(p, a) != p ++ encode(a)', case=b2[i][:600], executor=w, into_empty=x[:300], into_prefix=y[:300])
    # sequences into one writer, VecWriter (ENCS) and the recording writer (ENCW)
    groups = [[rand_msg() for _ in range(rng.randrange(1, 9))] for _ in range(ctx.scale(600, 6000))]
    gp = [rbytes(rng, rng.choice([0, 0, 1, 7, 300])) for _ in groups]
    s = ['ENCS\t%s\t%s' % (p.hex(), '\t'.join(g)) for g, p in zip(groups, gp)]
    wv = ['ENCW\t%s\t%s' % (p.hex(), '\t'.join(g)) for g, p in zip(groups, gp)]
    singles = ['ENC\t%s\t' % m for g in groups for m in g]
    rs = run_compare(ctx, rep, s, ['encs'] * len(s), o_enc_len)
    rw = run_compare(ctx, rep, wv, ['encw'] * len(wv), o_enc_len)
    r1 = ctx.runner.run(singles, IMPLS)
    for w in IMPLS:
        pos = 0
        for gi, g in enumerate(groups):
            parts = [r1[w][pos + j] for j in range(len(g))]
            pos += len(g)
            if not all(p.startswith('Ok ') for p in parts):
                continue
            exp = gp[gi].hex() + ''.join(p[3:] for p in parts)
            if rs[w][gi] != 'Ok ' + exp:
                rep.fail('sequence into one writer != concatenation of the individual encodings', case=s[gi][:600], executor=w,
                         got=rs[w][gi][:300], expected=exp[:300])
            x = rw[w][gi]
            if not x.startswith('Ok ') or x[3:].split(' log=')[0] != exp:
                rep.fail('sequence into a recording writer != concatenation of the individual encodings', case=wv[gi][:600], executor=w,
                         got=x[:300], expected=exp[:300])
                continue
            # every positional overwrite lies inside the value being encoded at the time
            bounds, p0 = [], len(gp[gi])
            for p in parts:
                bounds.append((p0, p0 + len(p[3:]) // 2)); p0 += len(p[3:]) // 2
            log = x.split(' log=')[1][1:-1]
            for ent in (log.split(',') if log else []):
                off, n, tot = (int(v) for v in ent.split(':'))
                cur = next(((s0, e0) for (s0, e0) in bounds if s0 < tot <= e0), None)
                if cur is None or off < cur[0] or off + n > tot:
                    rep.fail('a positional overwrite fell outside the value being encoded', case=wv[gi][:600], executor=w,
                             entry=ent, value_bounds=str(cur))
    rep.notes['rule'] = ('messages and AVPs encoded into an empty writer and behind random prefixes (incl. prefixes that look like messages), sequences of '
                         '1-8 messages into one VecWriter and into a recording Writer whose overwrite log is checked entry by entry')
    rep.notes['channels'] = ['ENC', 'ENCA', 'ENCS', 'ENCW']
    return rep


PROPS.update({
    'C07': {'run': run_c07, 'search': generic_search(run_c07), 'assumes': []},
    'C08': {'run': run_c08, 'search': generic_search(run_c08), 'assumes': []},
    'C09': {'run': run_c09, 'search': generic_search(run_c09), 'assumes': []},
})


# =============================================================================== C10
def msg_of(r):
    """'Ok <msg> rem=n' -> msg text"""
    return strip_rem(r)[3:]


def upto_ctrl_length(m):
    return ctrl_with_length(m, 0) if m.startswith('C(') else m


def run_c10(ctx):
    rep = Report()
    rng = ctx.rng
    items = corpus.noncanonical(rng, ctx.scale(2500, 30000)) + corpus.dec_corpus(rng, ctx.scale(5000, 60000), ctx.thorough)
    opts = [rng.randrange(8) for _ in items]
    s1 = ['DEC\t%d\t%s' % (o, b.hex()) for o, (_, b) in zip(opts, items)]
    r1 = run_compare(ctx, rep, s1, [t for (t, _) in items], o_class)
    for w in IMPLS:
        idx = [i for i, (t, b) in enumerate(items)
               if cls(r1[w][i]) == 'Ok' and (b[0] & 1 or not (b[0] & 0x40))]   # control, or data without the O bit
        ms = [msg_of(r1[w][i]) for i in idx]
        s2 = ['ENC\t%s\t' % m for m in ms]
        r2 = run_compare(ctx, rep, s2, ['reenc'] * len(s2), o_class, which=(w,))
        # ... and behind a prefix exactly as long as what the input carried in excess of its re-encoding (the decoded value
        # remembers the Length it was read with; the writer position then coincides with the difference)
        sp, spj = [], []
        for j, r in enumerate(r2[w]):
            if r.startswith('Ok ') and ms[j].startswith('C('):
                d = ctrl_parts(ms[j])[0] - len(r[3:]) // 2
                if 0 < d <= 64:
                    sp.append('ENC\t%s\t%s' % (ms[j], rbytes(rng, d).hex())); spj.append(j)
        rp = run_compare(ctx, rep, sp, ['reenc_behind_excess'] * len(sp), lambda c, r: r, which=(w,))
        for c, j, r in zip(sp, spj, rp[w]):
            pre = c.split('\t')[2]
            if not (r.startswith('Ok ' + pre) and r[3 + len(pre):] == r2[w][j][3:]):
                rep.fail('re-encoding behind a prefix does not append the same octets', case=c[:500], executor=w, got=r[:300], into_empty=r2[w][j][:300])
        s3, keep = [], []
        for j, r in enumerate(r2[w]):
            if not r.startswith('Ok '):
                rep.fail('a decoded message could not be re-encoded', case=s1[idx[j]], executor=w, decoded=ms[j][:300], result=r[:100])
                continue
            s3.append('DEC\t7\t' + r[3:]); keep.append(j)
        r3 = run_compare(ctx, rep, s3, ['redec'] * len(s3), o_class, which=(w,))
        s4, keep2 = [], []
        for k, r in enumerate(r3[w]):
            j = keep[k]
            if cls(r) != 'Ok' or upto_ctrl_length(msg_of(r)) != upto_ctrl_length(ms[j]) or get_rem(r) != 0:
                rep.fail('decode_strict(encode(m)) is not m (up to the control Length field)', case=s1[idx[j]], executor=w,
                         decoded=ms[j][:300], redecoded=r[:300])
                continue
            if ms[j].startswith('C(') and ctrl_parts(msg_of(r))[0] != len(r2[w][j][3:]) // 2:
                rep.fail('re-decoded control Length does not track the new size', case=s1[idx[j]], executor=w, redecoded=r[:300])
            s4.append('ENC\t%s\t' % msg_of(r)); keep2.append(j)
        r4 = run_compare(ctx, rep, s4, ['reenc2'] * len(s4), o_class, which=(w,))
        for k, r in enumerate(r4[w]):
            j = keep2[k]
            if r != r2[w][j]:
                rep.fail('encode(m\') != encode(m): re-encoding drifts', case=s1[idx[j]], executor=w, first=r2[w][j][:300], second=r[:300])
        rep.notes['accepted_chained_' + w] = len(idx)
    rep.notes['rule'] = ('DEC (random option set) of non-canonical accepted inputs (reserved bits, M clear, surplus payload, short body tail, trailing '
                         'octets, version != 2 with the check off) then ENC -> DEC strict -> ENC, every stage compared with the model')
    rep.notes['channels'] = ['DEC', 'ENC']
    return rep


# =============================================================================== C11 / C12 / C13
SECRET_LENS = list(range(0, 300)) + [511, 512, 513, 1009, 1018, 1023, 1024]
# a fixed buffer of 2^k octets, less what else goes into it (type, random vector, a 16-octet block): drawn rarely, the Model's MD5 is slow
SECRET_LENS_POW2 = [(1 << k) - d for k in range(9, 13) for d in range(0, 25)]


# pairs of distinct equal-length octet strings that collide under a common non-cryptographic 32-bit hash started from its
# usual initial state (found once by a birthday search, tools/hash_twins.py): a fingerprint computed with such a hash over
# the secret -- alone or followed by anything -- cannot tell the two apart
HASH_TWINS = [
    ('fnv1a32', bytes.fromhex('74756e6e656c2d7365637265742d353132373839'), bytes.fromhex('74756e6e656c2d7365637265742d373439313932')),
    ('fnv1a32', bytes.fromhex('69316dc1a0d9c9e6'), bytes.fromhex('0e5aa3ab9d03d96d')),
    ('fnv1_32', bytes.fromhex('74756e6e656c2d7365637265742d333239353939'), bytes.fromhex('74756e6e656c2d7365637265742d353332333832')),
    ('fnv1_32', bytes.fromhex('73539206b0f9619d'), bytes.fromhex('286d1119417981c7')),
    ('djb2_xor', bytes.fromhex('021b39e125863616'), bytes.fromhex('353c9ee7a76a233c')),
    ('jenkins_oaat', bytes.fromhex('74756e6e656c2d7365637265742d313239383030'), bytes.fromhex('74756e6e656c2d7365637265742d313239383636')),
    ('jenkins_oaat', bytes.fromhex('60af40ca8f4c0aa8'), bytes.fromhex('e85e2ea364d1fa28')),
    ('crc32', bytes.fromhex('6863da74f8e7c02c'), bytes.fromhex('5655d0298b34e7f3')),
    ('adler32', bytes.fromhex('74756e6e656c2d7365637265742d303030303230'), bytes.fromhex('74756e6e656c2d7365637265742d303030313031')),
    ('adler32', bytes.fromhex('a195a45c672ef6df'), bytes.fromhex('b30ba878d4fd4ba6')),
    ('rotl5_xor', bytes.fromhex('c5dc526f766ce7f6'), bytes.fromhex('207d77cc142cdc96')),
]
# 64-bit hashes (tools/hash_twins64.rs, a distinguished-point collision search): FNV-1a-64 of the secret, and what
# std::collections::hash_map::DefaultHasher::new() (SipHash-1-3, zero key, this toolchain) gives for the secret written as
# octets and hashed as a slice (length-prefixed)
HASH_TWINS += [
    ('fnv1a64', bytes.fromhex('762c5bb094021908'), bytes.fromhex('2d7f6b4a4606dab7')),
    ('defaulthasher_write', bytes.fromhex('668dfbe58c0c1d27'), bytes.fromhex('9edd7f9e53d1912a')),
    ('defaulthasher_hash_slice', bytes.fromhex('b2e9907a3c7b8fea'), bytes.fromhex('4fc6c5d124911db3')),
]
# ... and for the whole key material of the first block, attribute type + secret + random vector, with attribute type 7
# (Host Name) and the random vector 01 02 03 04: (kind, random vector, secret, twin)
MATERIAL_TWINS = [
    ('HostName', bytes.fromhex('01020304'), bytes.fromhex('2e11a2729dcdbafb'), bytes.fromhex('ad4ad0dcca0a2d01')),   # DefaultHasher, written as octets
    ('HostName', bytes.fromhex('01020304'), bytes.fromhex('8673393be5b7738b'), bytes.fromhex('13351bce92052fc3')),   # DefaultHasher, hashed as a slice
]
TWIN_OF = {}
for _n, _a, _b in HASH_TWINS:
    TWIN_OF[_a] = _b
    TWIN_OF[_b] = _a


def rsecret(rng):
    c = rng.random()
    if c < 0.04:
        return rng.choice(HASH_TWINS)[1]
    if c < 0.45:
        return rng.choice([b'', b's', rbytes(rng, rng.randrange(1, 9)), rbytes(rng, rng.choice([16, 55, 56, 64, 100]))])
    if c < 0.9:
        if rng.random() < 0.03:
            return rbytes(rng, rng.choice(SECRET_LENS_POW2))
        return rbytes(rng, rng.choice(SECRET_LENS))      # every length up to 299: buffers sized from the secret
    s = rbytes(rng, rng.randrange(3, 40))
    return rng.choice([b'\xef\xbb\xbf' + s, s + b'\x00', b' ' + s + b' ', s.replace(b'\x00', b'\x01'), b'tunnel-Aa' + s[:4], b'tunnel-BB' + s[:4]])


def weak_twin(rng, s):
    """a different secret that a weak fingerprint of the first (length, sum, xor, a 31-polynomial, first/last octets) cannot tell apart"""
    if s in TWIN_OF:
        return TWIN_OF[s]
    if b'Aa' in s:
        return s.replace(b'Aa', b'BB', 1)
    b = bytearray(s)
    if len(b) >= 2:
        c = rng.random()
        i = rng.randrange(len(b) - 1)
        k = rng.choice([31, 31, 33, 37, 131])
        if c < 0.35:
            j = rng.randrange(len(b))
            b[i], b[j] = b[j], b[i]
        elif c < 0.7 and b[i] < 255 and b[i + 1] >= k:
            b[i] += 1; b[i + 1] -= k           # equal under h = k*h + c (k = 31, 33, 37, 131)
        else:
            k = len(b) // 2
            b[k] ^= 0x20
    elif len(b) == 1:
        b[0] ^= 1
    return bytes(b)


def with_secret_twins(rng, vals, args):
    """now and then the same value is hidden again, right after, under a near-twin of the secret (same thread, adjacent calls)"""
    v2, a2 = [], []
    for (k, rv, sa, sb) in MATERIAL_TWINS:
        v = rand_avp(rng, k, maxpay=50)
        a = hide_args(rng)
        for sx in (sa, sb):
            v2.append(v); a2.append((sx, rv, a[2], a[3]))
    for v, a in zip(vals, args):
        v2.append(v); a2.append(a)
        if (rng.random() < 0.1 or a[0] in TWIN_OF) and a[0]:
            t = weak_twin(rng, a[0])
            if t != a[0]:
                v2.append(v); a2.append((t, a[1], a[2], a[3]))
    return v2, a2


def check_threads(ctx, rep, cases, what, nthreads=16, rounds=2):
    """the same calls from many threads at once (the harness's purity mode): every result must equal the one the sequential pass
    gave -- what a lock taken with try_lock, a shared scratch buffer or a lazily filled table does under contention shows here"""
    import subprocess
    wd = ctx.runner.workdir
    os.makedirs(wd, exist_ok=True)
    inp = os.path.join(wd, 'threads.in')
    open(inp, 'w').write('\n'.join(cases) + '\n')
    for w in IMPLS:
        outp = os.path.join(wd, 'threads.%s.out' % w)
        try:
            p = subprocess.run([ctx.runner.bins[w], '--out', outp, '--threads', str(nthreads), '--rounds', str(rounds)],
                               stdin=open(inp), stdout=subprocess.PIPE, stderr=subprocess.PIPE, timeout=900)
        except subprocess.TimeoutExpired:
            rep.fail('%s: the concurrent pass did not finish' % what, case=cases[0][:200], executor=w)
            continue
        rep.evaluations += len(cases) * nthreads * rounds
        rep.dist['concurrent'] += len(cases)
        if p.returncode != 0:
            rep.fail('%s: the concurrent pass ended with status %s' % (what, p.returncode), case=cases[0][:200], executor=w)
            continue
        lines = open(outp).read().split('\n')
        for l in lines[len(cases):]:
            if l.startswith('MISMATCH'):
                f = l.split('\t')
                rep.fail('%s: a call gave a different result when made from several threads at once' % what, case=cases[int(f[1])][:400],
                         executor=w, thread=f[2], round=f[3], got=f[4][:200], sequential=lines[int(f[1])][:200])
                break


def hide_args(rng):
    secret = rsecret(rng)
    rv = rbytes(rng, 4)
    lp = rng.choice([b'', b'', rbytes(rng, rng.randrange(1, 41)), rbytes(rng, rng.choice([14, 15, 16, 30]))])
    ap = rbytes(rng, 16)
    return secret, rv, lp, ap


def hide_values(ctx, n_per_kind):
    rng = ctx.rng
    out = []
    for k in KIND_LIST:
        for _ in range(n_per_kind):
            out.append(rand_avp(rng, k, maxpay=rng.choice([40, 200, 990])))
    # block counts 1..64 via HostName of chosen sizes, incl. exact multiples of 16
    for blocks in list(range(1, 65)) if ctx.thorough else [1, 2, 3, 4, 8, 16, 33, 62, 63]:
        for delta in (0, -1, 1):
            n = 16 * blocks - 2 + delta
            if 1 <= n <= 1006:
                out.append('HostName(%s)' % rbytes(rng, n).hex())
    return out


def run_c11(ctx):
    rep = Report()
    rng = ctx.rng
    vals = hide_values(ctx, ctx.scale(25, 250))
    args = [hide_args(rng) for _ in vals]
    vals, args = with_secret_twins(rng, vals, args)
    for i, v in enumerate(vals):   # keep the wire form encodable: 2+|payload|+|lp| <= 1008
        if len(v) // 2 + len(args[i][2]) > 950:
            args[i] = (args[i][0], args[i][1], b'', args[i][3])
    h = ['HIDE\t%s\t%s\t%s\t%s\t%s' % (v, a[0].hex(), a[1].hex(), a[2].hex(), a[3].hex()) for v, a in zip(vals, args)]
    rh = run_compare(ctx, rep, h, ['hide_' + avp_kind(v) for v in vals], lambda c, r: r[:9])
    check_threads(ctx, rep, [c for c in h if len(c) < 3000][:400], 'hide')
    for w in IMPLS:
        ok = [i for i in range(len(vals)) if rh[w][i].startswith('Ok Hidden(')]
        for i in range(len(vals)):
            if i not in set(ok):
                rep.fail('hide did not return a Hidden AVP', case=h[i][:400], executor=w, result=rh[w][i][:200])
        # the receiver reveals in another order than the sender hid (state left by one call must not be what makes the next work)
        back = list(reversed(ok))
        rv = ['REVEAL\t%s\t%s\t%s' % (rh[w][i][3:], args[i][0].hex(), args[i][1].hex()) for i in back]
        rr = run_compare(ctx, rep, rv, ['reveal'] * len(rv), lambda c, r: r, which=(w,))
        for k, i in enumerate(back):
            if rr[w][k] != 'Ok ' + vals[i]:
                rep.fail('reveal(hide(a)) != a', case=h[i][:400], executor=w, hidden=rh[w][i][:200], revealed=rr[w][k][:300])
        # over the wire
        ea = ['ENCA\t%s\t' % rh[w][i][3:] for i in ok]
        re_ = run_compare(ctx, rep, ea, ['wire_enc'] * len(ea), o_enc_len, which=(w,))
        da = ['AVPS\t' + r[3:].split(' ')[0] for r in re_[w]]
        rd = run_compare(ctx, rep, da, ['wire_dec'] * len(da), o_avps_tags, which=(w,))
        rv2, keep = [], []
        for k, i in enumerate(ok):
            x = rd[w][k]
            if x != '[Ok(%s)] rem=0' % rh[w][i][3:]:
                rep.fail('hidden AVP did not survive encode/decode', case=ea[k][:400], executor=w, got=x[:300])
                continue
            rv2.append('REVEAL\t%s\t%s\t%s' % (x[4:-8], args[i][0].hex(), args[i][1].hex())); keep.append(i)
        rr2 = run_compare(ctx, rep, rv2, ['wire_reveal'] * len(rv2), lambda c, r: r, which=(w,))
        for k, i in enumerate(keep):
            if rr2[w][k] != 'Ok ' + vals[i]:
                rep.fail('reveal(decode(encode(hide(a)))) != a', case=h[i][:400], executor=w, revealed=rr2[w][k][:300])
    # identity on the other variant
    ident = []
    for _ in range(ctx.scale(300, 3000)):
        hd = 'Hidden(%d,%s)' % (rng.randrange(0, 45), rbytes(rng, rng.choice([0, 5, 16, 32])).hex())
        a = hide_args(rng)
        ident.append(('HIDE\t%s\t%s\t%s\t%s\t%s' % (hd, a[0].hex(), a[1].hex(), a[2].hex(), a[3].hex()), 'Ok ' + hd))
        nh = rand_avp(rng, allow_hidden=False, maxpay=60)
        ident.append(('REVEAL\t%s\t%s\t%s' % (nh, a[0].hex(), a[1].hex()), 'Ok ' + nh))
    ri = run_compare(ctx, rep, [c for c, _ in ident], ['identity'] * len(ident), lambda c, r: r)
    for w in IMPLS:
        for (c, e), r in zip(ident, ri[w]):
            if r != e:
                rep.fail('hide of a hidden AVP / reveal of a non-hidden AVP is not the identity', case=c[:400], executor=w, got=r[:300])
    # very long length paddings: thousands of cipher blocks (implementation only; the direct predicate needs no model)
    big = []
    for lpn in (1100, 4090, 65400, 65500, 65510, 65519, 65520, 65522, 65530, 65535, 65536, 70000, 131050):
        for kind in ('HostName', rng.choice(['VendorName', 'AssignedTunnelId', 'ResultCode', 'Challenge'])):
            v = rand_avp(rng, kind, maxpay=200) if kind != 'HostName' else 'HostName(%s)' % rbytes(rng, rng.randrange(13, 60)).hex()
            a = hide_args(rng)
            big.append((v, a[0][:40], a[1], rbytes(rng, lpn), a[3]))
    hb = ctx.runner.run(['HIDE\t%s\t%s\t%s\t%s\t%s' % (v, s.hex(), rv.hex(), lp.hex(), ap.hex()) for (v, s, rv, lp, ap) in big], IMPLS)
    for w in IMPLS:
        ok = [i for i in range(len(big)) if hb[w][i].startswith('Ok Hidden(')]
        rb = ctx.runner.run(['REVEAL\t%s\t%s\t%s' % (hb[w][i][3:], big[i][1].hex(), big[i][2].hex()) for i in ok], (w,))
        for k, i in enumerate(ok):
            rep.evaluations += 1
            rep.dist['long_padding'] += 1
            if rb[w][k] != 'Ok ' + big[i][0]:
                rep.fail('reveal(hide(a)) != a with a length padding of %d octets' % len(big[i][3]), case=('HIDE\t%s ...' % big[i][0])[:300], executor=w, revealed=rb[w][k][:200])
        for i in range(len(big)):
            if i not in ok:
                rep.fail('hide did not return a Hidden AVP', case=('HIDE\t%s ...' % big[i][0])[:300], executor=w, result=hb[w][i][:200])
    rep.notes['rule'] = ('all 39 kinds, block counts 1..63 (thorough: 1..64 each with -1/0/+1 octets), empty/short/long secrets, empty and 1-40 octet '
                         'length paddings: HIDE -> REVEAL, HIDE -> ENCA -> AVPS -> REVEAL, identity on the other variant')
    rep.notes['channels'] = ['HIDE', 'REVEAL', 'ENCA', 'AVPS']
    return rep


def run_c12(ctx):
    rep = Report()
    rng = ctx.rng
    vals = hide_values(ctx, ctx.scale(20, 200))
    args = [hide_args(rng) for _ in vals]
    vals, args = with_secret_twins(rng, vals, args)
    h = ['HIDE\t%s\t%s\t%s\t%s\t%s' % (v, a[0].hex(), a[1].hex(), a[2].hex(), a[3].hex()) for v, a in zip(vals, args)]
    rh = run_compare(ctx, rep, h, ['hide_' + avp_kind(v) for v in vals], lambda c, r: r)
    check_threads(ctx, rep, [c for c in h if len(c) < 3000][:400], 'hide')
    # third, independent computation (Python, hashlib MD5) of RFC 2661 4.3 from the encoded payload
    pay = ctx.runner.run(['ENCA\t%s\t' % v for v in vals], ('model',))['model']
    for w in IMPLS:
        for i, v in enumerate(vals):
            if not pay[i].startswith('Ok '):
                continue
            payload = bytes.fromhex(pay[i][3:].split(' ')[0])[6:]
            t = avp_type(v)
            s, rv, lp, ap = args[i]
            if 6 + len(payload) > 1023:
                continue
            exp = ref_hide_value(t, payload, s, rv, lp, ap)
            want = 'Ok Hidden(%d,%s)' % (t, exp.hex())
            if rh[w][i] != want:
                rep.fail('hidden value differs from the RFC 2661 4.3 construction', case=h[i][:500], executor=w,
                         got=rh[w][i][:300], expected=want[:300])
            elif len(exp) != 16 * ((2 + len(payload) + len(lp) + 15) // 16):
                rep.fail('hidden value length is not 16*ceil((2+|payload|+|lp|)/16)', case=h[i][:500], executor=w)
    # the wire form (H bit, clear attribute type, length) does not depend on where in a writer the hidden AVP is put
    check_far_positions(ctx, rep, [('A', rh['release'][i][3:]) for i in range(0, len(vals), 7) if rh['release'][i].startswith('Ok Hidden(') and len(rh['release'][i]) < 2050])
    # alignment padding beyond what is needed is inert
    inert = []
    for i in range(0, len(vals), 3):
        s, rv, lp, ap = args[i]
        ap2 = bytes(x ^ 0xff for x in ap)
        inert.append((i, 'HIDE\t%s\t%s\t%s\t%s\t%s' % (vals[i], s.hex(), rv.hex(), lp.hex(), ap2.hex())))
    # reveal vs reference on arbitrary hidden values
    rvl = []
    for _ in range(ctx.scale(3000, 40000)):
        t = rng.choice([7, 8, 0, 1, 12, 39, 36, rng.randrange(0, 42), rng.getrandbits(16)])
        s = rng.choice([b'', b's', rbytes(rng, rng.randrange(1, 20))])
        rv = rbytes(rng, 4)
        c = rng.random()
        if c < 0.6:
            vp = valid_payload(rng, t) if t in TYPE_KIND else rbytes(rng, rng.randrange(0, 10))
            plain = be(6 + len(vp), 2) + vp + rbytes(rng, rng.randrange(0, 20))
            plain += bytes((16 - len(plain) % 16) % 16)
            val = ref_encrypt_plain(t, plain, s, rv)
        elif c < 0.98:
            val = rbytes(rng, rng.choice([0, 1, 8, 15, 16, 17, 24, 32, 40, 48, rng.randrange(0, 100)]))
        else:
            nblk = rng.choice([65, 66, 70])
            tot = rng.choice([1023, 1024, 1025, 1040, 16 * nblk + 4, 16 * nblk + 5])
            plain = (be(tot & 0xffff, 2) + (valid_payload(rng, t) or b'') + rbytes(rng, 16 * nblk))[:16 * nblk]
            val = ref_encrypt_plain(t, plain, s, rv)
        rvl.append('REVEAL\tHidden(%d,%s)\t%s\t%s' % (t, val.hex(), s.hex(), rv.hex()))
    run_compare(ctx, rep, rvl, ['reveal'] * len(rvl), lambda c, r: r)
    md = ['MD5\t' + rbytes(rng, n).hex() for n in list(range(0, 130)) + [rng.randrange(0, 300) for _ in range(ctx.scale(300, 3000))]]
    rm = run_compare(ctx, rep, md, ['md5'] * len(md), lambda c, r: r)
    import hashlib
    for w in IMPLS + ('model',):
        rr = rm[w] if w in rm else None
        if rr is None:
            continue
        for c, r in zip(md, rr):
            if r != hashlib.md5(bytes.fromhex(c.split('\t')[1])).hexdigest():
                rep.fail('MD5 digest differs from hashlib', case=c[:200], executor=w, got=r)
    conformance(rep)
    rep.notes['rule'] = ('HIDE of all 39 kinds / block counts / paddings compared octet for octet with the model and with a third computation in Python '
                         '(hashlib MD5); REVEAL of crafted and random hidden values; MD5 channel on lengths 0..129 and random; non-trivial = all')
    rep.notes['channels'] = ['HIDE', 'REVEAL', 'MD5', 'ENCA']
    return rep


def reveal_cases(ctx, n):
    rng = ctx.rng
    cases, tags, must_err, ann = [], [], [], []
    for _ in range(n):
        t = rng.choice([7, 7, 8, 0, 1, 12, 34, 35, 39, 36, rng.randrange(0, 42), rng.getrandbits(16)])
        s = rsecret(rng)
        rv = rbytes(rng, 4)
        c = rng.random()
        me = False
        if c < 0.35:
            nblk = rng.choice([1, 1, 2, 3, 4, 4]) if rng.random() < 0.97 else rng.choice([63, 64, 65, 66, 70, 80, 128, 129])
            avail = 16 * nblk - 2
            # decrypted total sits at each boundary: available-1, available, available+1, 5, 6, 1023, 1024
            tot = rng.choice([avail + 6 - 1, avail + 6, avail + 6 + 1, 5, 6, 7, 1023, 1024, 1025, 1040, 0, 65535, rng.randrange(0, 80)])
            plain = be(tot & 0xffff, 2) + (valid_payload(rng, t) or b'') + rbytes(rng, 16 * nblk)
            plain = plain[:16 * nblk]
            val = ref_encrypt_plain(t, plain, s, rv)
            me = tot < 6 or tot > 1023 or tot - 6 > avail
            tag = 'crafted_len'
        elif c < 0.5:
            n = rng.choice([0, 1, 2, 8, 15, 17, 24, 31, 33, 40, rng.randrange(0, 200)])
            if n and n % 16 == 0:
                n += rng.randrange(1, 16)
            val = rbytes(rng, n)
            me = True
            tag = 'misaligned_or_empty'
        elif c < 0.8:
            val = rbytes(rng, rng.choice([16, 16, 16, 32, 32, 48, 64, 64, 1008, 1024, 1040, 1056, 2064]))
            tag = 'random_wrong_key'
        else:
            vp = valid_payload(rng, t) if t in TYPE_KIND else rbytes(rng, 4)
            plain = be(6 + len(vp), 2) + vp + rbytes(rng, rng.randrange(0, 18))
            plain += bytes((16 - len(plain) % 16) % 16)
            val = ref_encrypt_plain(t, plain, s, rv)
            tag = 'well_formed'
        cases.append('REVEAL\tHidden(%d,%s)\t%s\t%s' % (t, val.hex(), s.hex(), rv.hex()))
        tags.append(tag); must_err.append(me); ann.append(t)
        if tag == 'well_formed' and rng.random() < 0.3:
            # the same octets, secret and random vector replayed right away under another attribute type (of the same shape when
            # there is one): what is returned must still be of the type announced now, or an error
            same = [x for x in TYPE_KIND if x != t and t in TYPE_KIND and KINDS[TYPE_KIND[x]][1] == KINDS[TYPE_KIND[t]][1]]
            t2 = rng.choice(same) if same and rng.random() < 0.8 else rng.choice([x for x in range(0, 45) if x != t])
            cases.append('REVEAL\tHidden(%d,%s)\t%s\t%s' % (t2, val.hex(), s.hex(), rv.hex()))
            tags.append('replayed_under_other_type'); must_err.append(False); ann.append(t2)
    return cases, tags, must_err, ann


def run_c13(ctx):
    rep = Report()
    rng = ctx.rng
    cases, tags, must_err, ann = reveal_cases(ctx, ctx.scale(12000, 150000))
    res = run_compare(ctx, rep, cases, tags, lambda c, r: 'RETURNS' if returns(r) else cls(r))
    check_threads(ctx, rep, [c for c in cases if len(c) < 3000][:600], 'reveal')
    for w in IMPLS:
        for i, c in enumerate(cases):
            r = res[w][i]
            if not returns(r):
                rep.fail('reveal did not return Ok or Err: %s' % cls(r), case=c[:400], executor=w, result=r[:200])
            elif r.startswith('Ok '):
                if must_err[i]:
                    rep.fail('reveal accepted an empty / misaligned value or a decrypted length that does not fit', case=c[:400], executor=w, result=r[:200])
                elif r.startswith('Ok Hidden(') or avp_type(r[3:]) != ann[i]:
                    rep.fail('reveal returned an AVP that is not of the announced attribute type', case=c[:400], executor=w, result=r[:200])
    rep.notes['rule'] = ('REVEAL on hidden values with crafted decrypted lengths at every boundary (available-1/available/available+1, 5, 6, 1023, 1024), '
                         'empty and misaligned values, random 16..1024-octet values under wrong keys, well-formed values; debug (abort capture) and release')
    rep.notes['channels'] = ['REVEAL']
    return rep


PROPS.update({
    'C10': {'run': run_c10, 'search': generic_search(run_c10), 'assumes': []},
    'C11': {'run': run_c11, 'search': generic_search(run_c11), 'assumes': ['the md5 crate is modelled by Base/Md5.v (differentially checked); the theorems hold for every 16-octet hash']},
    'C12': {'run': run_c12, 'search': generic_search(run_c12), 'assumes': ['the md5 crate is modelled by Base/Md5.v, validated by the RFC 1321 suite inside Coq and against hashlib at run time']},
    'C13': {'run': run_c13, 'search': generic_search(run_c13), 'assumes': []},
})


# =============================================================================== C14
def run_c14(ctx):
    rep = Report()
    rng = ctx.rng
    bodies = [ctrl_bytes(mt_record(rng) + good_record(rng, 7))[2:],
              data_bytes(b'\xaa\xbb', False, False, False, False)[2:]]
    if ctx.thorough:
        bodies += [ctrl_bytes(b'')[2:], data_bytes(b'\x01\x02\x03', True, True, True, True, None, 1, b'\x00')[2:],
                   ctrl_bytes(mt_record(rng))[2:], rbytes(rng, 30)]
    inputs = []
    # every flag word over a control and a data remainder (the remainder is chosen to suit the word's L/S/O bits)
    for w in range(65536):
        if (w >> 8) & 1:
            rest = bodies[0]
        else:
            rest = data_bytes(b'\xaa\xbb', bool(w >> 9 & 1), bool(w >> 12 & 1), bool(w >> 14 & 1), False, None, 1, b'\x07')[2:]
        inputs.append(('flagword', be(w, 2) + rest))
    for extra in bodies[2:]:
        for w in range(0, 65536, 7):
            inputs.append(('flagword_extra', be(w, 2) + extra))
    for (t, b) in corpus.dec_corpus(rng, ctx.scale(2500, 30000), ctx.thorough):
        inputs.append((t, b))
    cases, tags = [], []
    for (t, b) in inputs:
        for o in range(8):
            cases.append('DEC\t%d\t%s' % (o, b.hex())); tags.append(t)
        cases.append('DEC0\t%s' % b.hex()); tags.append(t + '/try_read')
    res = run_compare(ctx, rep, cases, tags, o_class, nontrivial=lambda c, m: True)
    for w in IMPLS:
        R = res[w]
        for k, (t, b) in enumerate(inputs):
            r = R[9 * k:9 * k + 8]
            d0 = R[9 * k + 8]
            acc = [x if cls(x) == 'Ok' else None for x in r]
            for o in range(8):
                if acc[o] is None:
                    continue
                for o2 in range(8):
                    if o2 & o == o2 and acc[o2] != acc[o]:
                        rep.fail('accepted under options %d but not with the same value under the weaker options %d' % (o, o2),
                                 case=cases[9 * k + o], executor=w, strong=r[o][:200], weak=r[o2][:200])
            if (d0 if cls(d0) == 'Ok' else cls(d0)) != (r[2] if cls(r[2]) == 'Ok' else cls(r[2])):
                rep.fail('try_read differs from try_read_validate with version checking alone', case=cases[9 * k + 8], executor=w,
                         try_read=d0[:200], validate_version_only=r[2][:200])
            if len(b) < 2:
                continue
            word = int.from_bytes(b[:2], 'big')
            ver_bad = (word >> 4) & 0xf != 2
            rsv_bad = bool(word & RESERVED_MASK)
            unused_bad = bool(word & 0x100) and bool(word & 0xc000)
            base_ok = acc[0] is not None
            for o in range(8):
                want_reject = (o & 2 and ver_bad) or (o & 1 and rsv_bad) or (o & 4 and unused_bad)
                if base_ok and (acc[o] is None) != bool(want_reject):
                    rep.fail('options %d: rejection does not match exactly the enabled checks (version_bad=%s reserved_bad=%s unused_bad=%s)'
                             % (o, ver_bad, rsv_bad, unused_bad), case=cases[9 * k + o], executor=w, result=r[o][:200], unchecked=r[0][:200])
                if not base_ok and acc[o] is not None:
                    rep.fail('rejected with all checks off but accepted under options %d' % o, case=cases[9 * k + o], executor=w, result=r[o][:200])
    # bits of a disabled check do not matter: flip version / reserved / (control) P,O bits under options 0
    flips, ftags = [], []
    pairs = []
    anyin = [b for (_, b) in inputs[65536:] if 2 <= len(b) <= 4096]
    for j in range(ctx.scale(4000, 40000)):
        if j % 3 == 2 and anyin:
            b = bytearray(rng.choice(anyin))       # ... also on inputs that are not valid messages (perturbed, padded, truncated)
        else:
            b = bytearray(rng.choice([corpus.rand_valid_ctrl_bytes(rng, rng.randrange(0, 4)), corpus.rand_valid_data_bytes(rng)]))
        word = int.from_bytes(b[:2], 'big')
        choices = [1 << i for i in RESERVED_BITS] + [0x10, 0x20, 0x40, 0x80]
        if word & 0x100:
            choices += [0x4000, 0x8000]
        w2 = word ^ rng.choice(choices)
        b2 = bytes(be(w2, 2) + b[2:])
        pairs.append((bytes(b), b2))
        flips += ['DEC\t0\t' + bytes(b).hex(), 'DEC\t0\t' + b2.hex()]; ftags += ['flip_base', 'flip']
    rf = run_compare(ctx, rep, flips, ftags, o_class)
    for w in IMPLS:
        for k in range(len(pairs)):
            a, b = rf[w][2 * k], rf[w][2 * k + 1]
            if (a if cls(a) == 'Ok' else cls(a)) != (b if cls(b) == 'Ok' else cls(b)):
                rep.fail('with every check off, a version/reserved/unused header bit changed the result', case=flips[2 * k + 1], executor=w,
                         base=a[:200], flipped=b[:200])
    # where implementation and model disagree at all, try every header bit of a disabled check on that very input
    seen = []
    for d in rep.disagreements[:30]:
        try:
            b = bytes.fromhex(d['case'].split('\t')[-1])
        except ValueError:
            continue
        if len(b) >= 2 and b not in seen:
            seen.append(b)
    if seen:
        tcases, tp = [], []
        for b in seen:
            word = int.from_bytes(b[:2], 'big')
            for bit in [1 << i for i in RESERVED_BITS] + [0x10, 0x20, 0x40, 0x80] + ([0x4000, 0x8000] if word & 0x100 else []):
                tp.append((len(tcases), len(tcases) + 1))
                tcases += ['DEC\t0\t' + b.hex(), 'DEC\t0\t' + (be(word ^ bit, 2) + b[2:]).hex()]
        rt = ctx.runner.run(tcases, IMPLS)
        rep.search_evals += len(tcases)
        for w in IMPLS:
            for (i, j) in tp:
                a, bb = rt[w][i], rt[w][j]
                if (a if cls(a) == 'Ok' else cls(a)) != (bb if cls(bb) == 'Ok' else cls(bb)):
                    rep.fail('with every check off, a version/reserved/unused header bit changed the result', case=tcases[j], executor=w,
                             base=a[:200], flipped=bb[:200])
    rep.exhaustive = True
    rep.notes['exhaustive_domain'] = 'all 65536 flag words x 8 option sets + try_read over a control and a data remainder'
    rep.notes['rule'] = ('every flag word under all 8 option sets and the default entry point (exhaustive), the structured corpus under all 8 sets, '
                         'single-bit flips of unchecked bits; lattice relations evaluated on the implementation results alone')
    rep.notes['channels'] = ['DEC', 'DEC0']
    return rep


# =============================================================================== C15
def run_c15(ctx):
    rep = Report()
    check_many_records(ctx, rep, ('DEC',))
    rng = ctx.rng
    msgs = []
    for _ in range(ctx.scale(5000, 60000)):
        k = rng.choice([0, 1, 2, 3, 4, 6, 9, 12]) if rng.random() < 0.93 else rng.choice([20, 33, 34, 40, 64, 65, 80])
        recs, bad = [], []
        first = rng.random()
        for i in range(k):
            if i == 0 and first < 0.8:
                recs.append(mt_record(rng)); bad.append(False)
            elif i == 0 and first < 0.9:
                recs.append(good_record(rng, nonmt=True)); bad.append(False)
            elif rng.random() < 0.35 or (i == 0):
                recs.append(bad_record(rng)[0]); bad.append(True)
            else:
                recs.append(good_record(rng, nonmt=rng.random() < 0.9)); bad.append(False)
        tail = rbytes(rng, rng.randrange(1, 6)) if rng.random() < 0.15 else b''
        msgs.append((recs, bad, tail))
    if ctx.thorough:
        for mask in range(64):   # every subset pattern of 6 records after a MessageType
            recs = [mt_record(rng)] + [bad_record(rng)[0] if mask >> i & 1 else good_record(rng, nonmt=True) for i in range(6)]
            msgs.append((recs, [False] + [bool(mask >> i & 1) for i in range(6)], b''))
    lim = limited_cases(rng, ctx.scale(800, 8000))
    run_compare(ctx, rep, [c for c, _ in lim], [t for _, t in lim], o_errs_full)
    flat = ['AVPS\t' + r.hex() for (recs, _, _) in msgs for r in recs]
    full = ['DEC\t%d\t%s' % (rng.randrange(8) & 5 | 2, ctrl_bytes(b''.join(recs) + tail).hex()) for (recs, _, tail) in msgs]
    rf = run_compare(ctx, rep, flat, ['record'] * len(flat), o_avps_tags)
    rm = run_compare(ctx, rep, full, ['message_%d_records' % len(m[0]) for m in msgs], o_err_count)
    for w in IMPLS:
        pos = 0
        for i, (recs, bad, tail) in enumerate(msgs):
            alone = []
            for _ in recs:
                alone.append(strip_rem(rf[w][pos])[1:-1]); pos += 1
            r = rm[w][i]
            errs = [a[4:-1] for a in alone if a.startswith('Err(')]
            first_mt = (not alone) or alone[0].startswith('Ok(MessageType(')
            if not first_mt:
                want = 'Err [ControlMessageTypeNotFirst]'
                if r != want:
                    rep.fail('first AVP is not a Message Type but the result is not [ControlMessageTypeNotFirst]', case=full[i][:600], executor=w, got=r[:300])
            elif errs:
                want = 'Err [%s]' % ','.join(errs)
                if r != want:
                    rep.fail('error list is not exactly one error per undecodable record, in wire order', case=full[i][:600], executor=w,
                             got=r[:400], expected=want[:400])
            else:
                if cls(r) != 'Ok':
                    rep.fail('every record decodes and the first is a Message Type, but the message was rejected', case=full[i][:600], executor=w, got=r[:300])
                else:
                    vals = ';'.join(a[3:-1] for a in alone)
                    if '[%s]' % vals != ctrl_parts(msg_of(r))[5]:
                        rep.fail('accepted message does not carry exactly the decoded records', case=full[i][:600], executor=w, got=r[:400], expected=vals[:400])
            if cls(r) == 'ErrEmpty':
                rep.fail('rejection with an empty error list', case=full[i][:600], executor=w)
    # parsing stops only at an unusable length
    stops = []
    for _ in range(ctx.scale(800, 8000)):
        recs = [mt_record(rng)] + [good_record(rng, nonmt=True) if rng.random() < 0.7 else bad_record(rng)[0] for _ in range(rng.randrange(0, 4))]
        badlen = rng.choice([0, 1, 5, 1023, 500])
        stopper = avp_rec(7, b'abc', length=badlen)
        after = b''.join(good_record(rng) for _ in range(rng.randrange(0, 3)))
        if rng.random() < 0.25:
            # an all-zero record with nothing but zero octets after it (padding is not part of the format)
            stopper, badlen = bytes(6), 0
            after = bytes(rng.choice([0, 0, 1, 2, 6, 7, 12, 30]))
        body = b''.join(recs) + stopper + after
        if badlen >= 6 and badlen - 6 <= len(stopper) - 6 + len(after):
            continue
        stops.append((recs, body))
    sa = ['AVPS\t' + b''.join(recs).hex() for (recs, _) in stops]
    sb = ['AVPS\t' + body.hex() for (_, body) in stops]
    ra = run_compare(ctx, rep, sa, ['stop_prefix'] * len(sa), o_avps_tags)
    rb = run_compare(ctx, rep, sb, ['stop_full'] * len(sb), o_avps_tags)
    for w in IMPLS:
        for i in range(len(stops)):
            pre = lib_split(strip_rem(ra[w][i])[1:-1])
            got = lib_split(strip_rem(rb[w][i])[1:-1])
            if got[:len(pre)] != pre or len(got) != len(pre) + 1 or not got[-1].startswith('Err(InvalidAVPLength('):
                rep.fail('parsing did not stop exactly at the AVP with the unusable length', case=sb[i][:600], executor=w, got=rb[w][i][:400])
    rep.notes['rule'] = ('control messages assembled from independently generated good and bad records (truncated, unknown type, unknown message type, vendor, '
                         'bad UTF-8, bad error type, bad proxy type), first record MessageType / not / undecodable, ZLB; each record also decoded alone')
    rep.notes['channels'] = ['DEC', 'AVPS']
    return rep


PROPS.update({
    'C14': {'run': run_c14, 'search': generic_search(run_c14), 'assumes': []},
    'C15': {'run': run_c15, 'search': generic_search(run_c15), 'assumes': []},
})


# =============================================================================== C16
ASSIGNED_MT = {1: MT[0], 2: MT[1], 3: MT[2], 4: MT[3], 6: MT[4], 7: MT[5], 8: MT[6], 9: MT[7], 10: MT[8],
               11: MT[9], 12: MT[10], 14: MT[11], 15: MT[12], 16: MT[13]}
RFC_ATTR = set(range(0, 20)) | set(range(21, 40))


def run_c16(ctx):
    rep = Report()
    rng = ctx.rng
    cases, tags = [], []
    for x in range(65536):
        cases.append('AVPS\t' + avp_rec(0, be(x, 2)).hex()); tags.append('message_type_code')
        cases.append('AVPS\t' + avp_rec(1, be(x % 16, 2) + be(x, 2)).hex()); tags.append('error_type_code')   # under every result code 0..15
        cases.append('AVPS\t' + avp_rec(29, be(x, 2)).hex()); tags.append('proxy_authen_type_code')
        cases.append('CODE\t%d' % x); tags.append('result_code')
        cases.append('AVPS\t' + avp_rec(x, bytes(32)).hex()); tags.append('attribute_type')
        cases.append('AVPS\t' + avp_rec(1, be(x, 2)).hex()); tags.append('result_code_wire')
    res = run_compare(ctx, rep, cases, tags, lambda c, r: r, nontrivial=lambda c, m: True)
    for w in IMPLS:
        R = res[w]
        for x in range(65536):
            mt, et, pa, code, at, rcw = R[6 * x:6 * x + 6]
            def one(r):
                return strip_rem(r)[1:-1]
            # message type
            if x in ASSIGNED_MT:
                if one(mt) != 'Ok(MessageType(%s))' % ASSIGNED_MT[x]:
                    rep.fail('message type code %d is not accepted as %s' % (x, ASSIGNED_MT[x]), case=cases[6 * x], executor=w, got=mt[:200])
            elif one(mt).startswith('Ok('):
                rep.fail('unassigned message type code %d accepted' % x, case=cases[6 * x], executor=w, got=mt[:200])
            if x < 9:
                if one(et) != 'Ok(ResultCode(%d,%s,-))' % (x % 16, ET[x]):
                    rep.fail('error type code %d is not accepted as %s' % (x, ET[x]), case=cases[6 * x + 1], executor=w, got=et[:200])
            elif one(et).startswith('Ok('):
                rep.fail('unassigned error type code %d accepted' % x, case=cases[6 * x + 1], executor=w, got=et[:200])
            if x < 6:
                if one(pa) != 'Ok(ProxyAuthenType(%s))' % PA[x]:
                    rep.fail('proxy authen type code %d is not accepted as %s' % (x, PA[x]), case=cases[6 * x + 2], executor=w, got=pa[:200])
            elif one(pa).startswith('Ok('):
                rep.fail('unassigned proxy authen type code %d accepted' % x, case=cases[6 * x + 2], executor=w, got=pa[:200])
            want = 'stop=%s cdn=%s raw=%d' % (SC[x] if x < 8 else '-', CD[x] if x < 12 else '-', x)
            if code != want:
                rep.fail('result code %d: typed views / raw value wrong' % x, case=cases[6 * x + 3], executor=w, got=code, expected=want)
            known = not one(at).startswith('Err(UnknownAvp(')
            if known != (x in RFC_ATTR):
                rep.fail('attribute type %d: dispatch %s but RFC 2661 says %s' % (x, 'known' if known else 'unknown', 'assigned' if x in RFC_ATTR else 'unassigned'),
                         case=cases[6 * x + 4], executor=w, got=at[:200])
            if one(rcw) != 'Ok(ResultCode(%d,-))' % x:
                rep.fail('result code %d is not kept raw' % x, case=cases[6 * x + 5], executor=w, got=rcw[:200])
    # the same code points again (a) in an order in which neighbours share the low octet (0x0006, 0x0106, 0x0206, ...: a decision
    # remembered from the previous call under a truncated key would show), and (b) for the attribute type, in second position
    # with the M bit clear (an unassigned type is an error wherever it stands and whatever its flags)
    c2, t2 = [], []
    for i in range(65536):
        x = ((i & 0xff) << 8) | (i >> 8)
        c2.append('AVPS\t' + avp_rec(0, be(x, 2)).hex()); t2.append('message_type_code/low_octet_order')
        c2.append('AVPS\t' + avp_rec(29, be(x, 2)).hex()); t2.append('proxy_authen_type_code/low_octet_order')
        c2.append('AVPS\t' + (avp_rec(9, be(i, 2)) + avp_rec(i, bytes(8), m=0, rsv=(i >> 4) & 15)).hex()); t2.append('attribute_type/second_no_m')
    r2 = run_compare(ctx, rep, c2, t2, lambda c, r: r, nontrivial=lambda c, m: True)
    for w in IMPLS:
        R = r2[w]
        for i in range(65536):
            x = ((i & 0xff) << 8) | (i >> 8)
            mt, pa, at = (strip_rem(R[3 * i + k])[1:-1] for k in range(3))
            if mt.startswith('Ok(') != (x in ASSIGNED_MT) or (x in ASSIGNED_MT and mt != 'Ok(MessageType(%s))' % ASSIGNED_MT[x]):
                rep.fail('message type code %d: accepted/rejected wrongly when decoded after a code with the same low octet' % x, case=c2[3 * i], executor=w, got=mt[:160])
            if pa.startswith('Ok(') != (x < 6):
                rep.fail('proxy authen type code %d: accepted/rejected wrongly when decoded after a code with the same low octet' % x, case=c2[3 * i + 1], executor=w, got=pa[:160])
            known = 'Err(UnknownAvp(%d))' % i not in at
            if known != (i in RFC_ATTR):
                rep.fail('attribute type %d in second position with M clear: %s but RFC 2661 says %s' % (i, 'no UnknownAvp error' if known else 'UnknownAvp', 'assigned' if i in RFC_ATTR else 'unassigned'),
                         case=c2[3 * i + 2], executor=w, got=at[:200])
    # re-encode: every accepted code encodes back to the same number; every named value to its RFC number
    enc, exp = [], []
    for x, n in ASSIGNED_MT.items():
        enc.append('ENCA\tMessageType(%s)\t' % n); exp.append(avp_rec(0, be(x, 2)).hex())
    for x, n in enumerate(ET):
        enc.append('ENCA\tResultCode(7,%s,-)\t' % n); exp.append(avp_rec(1, be(7, 2) + be(x, 2)).hex())
    for x, n in enumerate(PA):
        enc.append('ENCA\tProxyAuthenType(%s)\t' % n); exp.append(avp_rec(29, be(x, 2)).hex())
    for x in list(range(0, 70000, 257)) + [65535]:
        x &= 0xffff
        enc.append('ENCA\tResultCode(%d,-)\t' % x); exp.append(avp_rec(1, be(x, 2)).hex())
    for x, n in enumerate(SC):
        enc.append('CODEN\tstop\t%s' % n); exp.append(str(x))
    for x, n in enumerate(CD):
        enc.append('CODEN\tcdn\t%s' % n); exp.append(str(x))
    re_ = run_compare(ctx, rep, enc, ['named_value_encode'] * len(enc), lambda c, r: r)
    for w in IMPLS:
        for c, e, r in zip(enc, exp, re_[w]):
            got = r[3:].split(' ')[0] if r.startswith('Ok ') else r
            if got != e:
                rep.fail('named value does not encode to its RFC 2661 number', case=c, executor=w, got=r[:200], expected=e)
    # the attribute-type number a kind carries must also be the one that survives hiding (it stays in clear)
    hid, want = [], []
    for k in KIND_LIST:
        for _ in range(ctx.scale(3, 30)):
            a = rand_avp(rng, k, maxpay=40)
            hid.append('HIDE\t%s\t%s\t%s\t%s\t%s' % (a, rbytes(rng, rng.randrange(0, 6)).hex(), rbytes(rng, 4).hex(), '', rbytes(rng, 16).hex()))
            want.append(KINDS[k][0])
    rh = run_compare(ctx, rep, hid, ['hide_kind'] * len(hid), lambda c, r: r)
    for w in IMPLS:
        for c, t, r in zip(hid, want, rh[w]):
            if not r.startswith('Ok Hidden(%d,' % t):
                rep.fail('hidden form does not carry the attribute-type number of its kind (%d)' % t, case=c[:300], executor=w, got=r[:120])
    # ... and a hidden AVP is accepted at parse time whatever attribute type it carries in clear (the kind is only known to reveal)
    hrec = [avp_rec(t, rbytes(rng, 16 * rng.randrange(1, 4)), h=1, m=rng.choice([0, 1])) for t in range(65536)]
    hcases = ['AVPS\t' + r.hex() for r in hrec]
    rr = run_compare(ctx, rep, hcases, ['hidden_attribute_type'] * len(hcases), lambda c, r: r, nontrivial=lambda c, m: True)
    for w in IMPLS:
        for t, (c, r) in enumerate(zip(hcases, rr[w])):
            if not strip_rem(r).startswith('[Ok(Hidden(%d,' % t):
                rep.fail('a hidden AVP carrying attribute type %d is not returned as Hidden(%d, ..)' % (t, t), case=c, executor=w, got=r[:160])
    rep.exhaustive = True
    rep.notes['exhaustive_domain'] = 'all 65536 codes for message type, error type, proxy authen type, result code (typed views and wire), attribute type (plain and hidden)'
    rep.notes['rule'] = 'exhaustive sweep of every 16-bit code of each enumerated field through the implementation, plus every named value encoded'
    rep.notes['channels'] = ['AVPS', 'CODE', 'CODEN', 'ENCA', 'HIDE']
    return rep


# =============================================================================== C17
def run_c17(ctx):
    rep = Report()
    rng = ctx.rng
    cases, tags = [], []
    for k in BITMASK:
        for x in (0, 1):
            for y in (0, 1):
                cases.append('BITS\t%s\t%d\t%d' % (k, x, y)); tags.append('new')
    words = [1 << i for i in range(32)] + [0xffffffff ^ (1 << i) for i in range(32)] + [0, 0xffffffff, 0x40, 0x80, 0xc0]
    words += [rng.getrandbits(32) for _ in range(ctx.scale(1500, 20000))]
    wl = []
    for k in BITMASK:
        for wd in words:
            cases.append('BITW\t%s\t%d' % (k, wd)); tags.append('accessors_of_word')
            cases.append('AVPS\t' + avp_rec(KINDS[k][0], be(wd, 4)).hex()); tags.append('decode_word')
            cases.append('ENCA\t%s(%d)\t' % (k, wd)); tags.append('encode_word')
            wl.append((k, wd))
    res = run_compare(ctx, rep, cases, tags, lambda c, r: r, nontrivial=lambda c, m: True)
    for w in IMPLS:
        R = res[w]
        n = 0
        for k in BITMASK:
            for x in (0, 1):
                for y in (0, 1):
                    r = R[n]; n += 1
                    if ' first=%d second=%d' % (x, y) not in r:
                        rep.fail('%s::new(%s,%s): accessors do not return the constructor arguments' % (k, bool(x), bool(y)), case=cases[n - 1], executor=w, got=r)
        for (k, wd) in wl:
            acc, dec, enc = R[n], R[n + 1], R[n + 2]
            c0 = n
            n += 3
            if dec != '[Ok(%s(%d))] rem=0' % (k, wd):
                rep.fail('bitmask word not kept through decode', case=cases[c0 + 1], executor=w, got=dec[:200])
            if not enc.startswith('Ok ' + avp_rec(KINDS[k][0], be(wd, 4)).hex()):
                rep.fail('bitmask word not written back unchanged', case=cases[c0 + 2], executor=w, got=enc[:200])
            m = dict(p.split('=') for p in acc.split())
            bits = sorted([6, 7])
            got = (m.get('first'), m.get('second'))
            # accessors reflect only their own bit: each is one of bits 6/7 of the word, distinct bits
            b6, b7 = str(wd >> 6 & 1), str(wd >> 7 & 1)
            if got not in ((b6, b7), (b7, b6)):
                rep.fail('accessor does not reflect exactly one bit of the word', case=cases[c0], executor=w, got=acc)
    # the word is kept whichever implementation of the public Reader trait delivers it (the harness CheckedReader overrides no
    # provided method of the trait), and whether it arrives in clear or hidden under a short or a very long secret
    extra, want = [], []
    for k in BITMASK:
        for wd in words[:70] + [rng.getrandbits(32) for _ in range(30)]:
            extra.append('AVPSR\t' + avp_rec(KINDS[k][0], be(wd, 4)).hex()); want.append('[Ok(%s(%d))] rem=0 viol=0' % (k, wd))
    rx = run_compare(ctx, rep, extra, ['decode_word_other_reader'] * len(extra), lambda c, r: r)
    for w in IMPLS:
        for c, e, r in zip(extra, want, rx[w]):
            if r != e:
                rep.fail('bitmask word not kept when decoded through another implementation of the Reader trait', case=c, executor=w, got=r[:200], expected=e)
    hid, hval = [], []
    for k in BITMASK:
        for sl in (0, 1, 16, 64, 300, 505, 506, 507, 512, 1009, 1024, 2000):
            wd = rng.getrandbits(32)
            sec, rv = rbytes(rng, sl), rbytes(rng, 4)
            hid.append('HIDE\t%s(%d)\t%s\t%s\t%s\t%s' % (k, wd, sec.hex(), rv.hex(), rbytes(rng, rng.randrange(0, 9)).hex(), rbytes(rng, 16).hex()))
            hval.append((k, wd, sec, rv))
    rhid = run_compare(ctx, rep, hid, ['hide_word'] * len(hid), lambda c, r: r)
    rev = ['REVEAL\t%s\t%s\t%s' % (rhid['model'][i][3:], sec.hex(), rv.hex()) for i, (k, wd, sec, rv) in enumerate(hval) if rhid['model'][i].startswith('Ok Hidden(')]
    rrev = run_compare(ctx, rep, rev, ['reveal_word'] * len(rev), lambda c, r: r)
    for w in IMPLS:
        for c, (k, wd, sec, rv), r in zip(rev, hval, rrev[w]):
            if r != 'Ok %s(%d)' % (k, wd):
                rep.fail('bitmask word hidden by a conforming peer is not revealed unchanged (secret of %d octets)' % len(sec), case=c[:300], executor=w, got=r[:200])
    rep.exhaustive = True
    rep.notes['exhaustive_domain'] = 'bool^2 x 4 bitmask kinds (constructor/accessors); words are sampled (one-hot, complement, random)'
    rep.notes['rule'] = 'all four combinations for each of the four kinds; one-hot, complement-of-one-hot and random 32-bit words through accessors, decode, encode'
    rep.notes['channels'] = ['BITS', 'BITW', 'AVPS', 'ENCA']
    return rep


# =============================================================================== C18
def ref_cursor(data, ops):
    """20-line reference cursor: (observations, position) or 'PANIC'"""
    pos, out = 0, []
    for op in ops:
        rem = len(data) - pos
        if op == 'len':
            out.append(str(rem))
        elif op == 'empty':
            out.append('true' if rem == 0 else 'false')
        elif op in ('u8', 'u16', 'u32', 'u64'):
            k = int(op[1:]) // 8
            out.append(str(int.from_bytes(data[pos:pos + k], 'big'))); pos += k
        elif op[0] == 'bytes':
            if op[1] > rem:
                out.append('None')
            else:
                out.append('x' + data[pos:pos + op[1]].hex()); pos += op[1]
        elif op[0] == 'skip':
            out.append('()'); pos += op[1]
        elif op[0] == 'sub':
            o, _ = ref_cursor(data[pos:pos + op[1]], op[2]); pos += op[1]
            out.append(o)
    return '[%s]' % ','.join(out), pos


def gen_rops(rng, rem, depth=0):
    ops, n = [], rng.randrange(1, 9)
    for _ in range(n):
        c = rng.random()
        if c < 0.12:
            ops.append('len')
        elif c < 0.2:
            ops.append('empty')
        elif c < 0.5:
            k = rng.choice([1, 2, 4, 8])
            if k <= rem:
                ops.append('u%d' % (8 * k)); rem -= k
        elif c < 0.7:
            m = rng.choice([0, rem - 1, rem, rem + 1, rem + 5, rng.randrange(0, rem + 2)])
            if rng.random() < 0.12:
                # far beyond what remains: position + n must not wrap around the machine word
                m = rng.choice([2**64 - 1, 2**64 - 1 - rng.randrange(0, 40), 2**63, 2**63 - 1, 2**32, 2**32 - 1, 2**32 + rem, 2**31])
            m = max(0, m)
            ops.append(('bytes', m))
            if m <= rem:
                rem -= m
        elif c < 0.82:
            m = rng.randrange(0, rem + 1)
            ops.append(('skip', m)); rem -= m
        elif depth < 2:
            m = rng.randrange(0, rem + 1)
            ops.append(('sub', m, gen_rops(rng, m, depth + 1)[0])); rem -= m
    return ops, rem


def rops_text(ops):
    def t(o):
        if isinstance(o, str):
            return o
        if o[0] == 'sub':
            return 'sub:%d%s' % (o[1], rops_text(o[2]))
        return '%s:%d' % (o[0], o[1])
    return '[%s]' % ','.join(t(o) for o in ops)


def run_c18(ctx):
    rep = Report()
    rng = ctx.rng
    cases, tags, exp = [], [], []
    for _ in range(ctx.scale(12000, 150000)):
        data = rbytes(rng, rng.choice([0, 1, 2, 3, 8, 9, 16, rng.randrange(0, 40)]))
        ops, _ = gen_rops(rng, len(data))
        cases.append('RDOPS\t%s\t%s' % (data.hex(), rops_text(ops))); tags.append('reader_ops')
        o, pos = ref_cursor(data, ops)
        exp.append('%s rem=%d' % (o, len(data) - pos))
    cases.append('RDOPS\t010203\t[bytes:4,len]'); tags.append('D4'); exp.append('[None,3] rem=3')
    # writer
    for _ in range(ctx.scale(8000, 100000)):
        buf, ops, obs, panic = bytearray(), [], [], False
        for _ in range(rng.randrange(1, 10)):
            c = rng.random()
            if c < 0.15:
                v = extreme(rng, 8); ops.append('u8:%d' % v); buf += be(v, 1)
            elif c < 0.3:
                v = extreme(rng, 16); ops.append('u16:%d' % v); buf += be(v, 2)
            elif c < 0.4:
                v = extreme(rng, 32); ops.append('u32:%d' % v); buf += be(v, 4)
            elif c < 0.5:
                v = extreme(rng, 64); ops.append('u64:%d' % v); buf += be(v, 8)
            elif c < 0.65:
                b = rbytes(rng, rng.randrange(0, 6)); ops.append('bytes:%s' % b.hex()); buf += b
            elif c < 0.75:
                ops.append('len'); obs.append(str(len(buf)))
            elif c < 0.8:
                ops.append('empty'); obs.append('true' if not buf else 'false')
            else:
                b = rbytes(rng, rng.randrange(0, 4))
                off = rng.choice([0, len(buf) - len(b), len(buf) - len(b) + 1, len(buf), rng.randrange(0, len(buf) + 2)])
                off = max(0, off)
                ops.append('at:%d:%s' % (off, b.hex()))
                if off + len(b) <= len(buf):
                    buf[off:off + len(b)] = b
                else:
                    panic = True
                    break
        cases.append('WROPS\t[%s]' % ','.join(ops)); tags.append('writer_ops')
        exp.append('PANIC %s' % bytes(buf).hex() if panic else '%s [%s]' % (bytes(buf).hex(), ','.join(obs)))
    res = run_compare(ctx, rep, cases, tags, lambda c, r: r, nontrivial=lambda c, m: True)
    for w in IMPLS:
        for c, e, r in zip(cases, exp, res[w]):
            if r != e:
                rep.fail('observable results differ from the reference cursor / vector', case=c[:500], executor=w, got=r[:300], expected=e[:300])
    rep.notes['rule'] = ('random operation programs on the real SliceReader (reads of 1/2/4/8 octets, bytes(n) with n around the remaining length incl. n > remaining, '
                         'skip, nested subreader; only in-contract skip/subreader/unchecked reads) and on VecWriter (writes, write_bytes_at in range / touching the '
                         'end / one past); compared with the model and with an independent reference cursor/bytearray in Python')
    rep.notes['channels'] = ['RDOPS', 'WROPS']
    return rep


PROPS.update({
    'C16': {'run': run_c16, 'search': generic_search(run_c16), 'assumes': []},
    'C17': {'run': run_c17, 'search': generic_search(run_c17), 'assumes': ['the pairing of accessor names with constructor parameter names is written by hand in Model/Ops.v and in the harness call table']},
    'C18': {'run': run_c18, 'search': generic_search(run_c18), 'assumes': ['out-of-contract skip_bytes/subreader/unchecked reads are not generated (the property leaves them open)']},
})


# =============================================================================== C19
IO_TOKENS = ['print!', 'println!', 'eprint', 'dbg!', 'std::io', 'static mut', 'Atomic', 'Mutex', 'RwLock', 'Cell<', 'RefCell',
             'thread_local', 'OnceLock', 'OnceCell', 'Lazy', 'lazy_static', 'std::env', 'std::fs', 'std::process', 'SystemTime', 'Instant']


def source_scan():
    hits = []
    src = os.path.join(lib.REPO, 'src')
    for d, _, fs in os.walk(src):
        for f in fs:
            if not f.endswith('.rs') or f == 'tests.rs' or os.sep + 'tests' in d:
                continue
            p = os.path.join(d, f)
            for n, line in enumerate(open(p, errors='replace'), 1):
                s = line.split('//')[0]
                for t in IO_TOKENS:
                    if t in s:
                        hits.append('%s:%d:%s' % (os.path.relpath(p, lib.REPO), n, t))
    return hits


def env_vars_read():
    """names of environment variables the library source reads (targets for the purity search)"""
    import re
    names = set()
    src = os.path.join(lib.REPO, 'src')
    for d, _, fs in os.walk(src):
        for f in fs:
            if f.endswith('.rs'):
                txt = open(os.path.join(d, f), errors='replace').read()
                names.update(re.findall(r'var(?:_os)?\(\s*"([^"]+)"', txt))
                names.update(re.findall(r'option_env!\(\s*"([^"]+)"', txt))
    return sorted(names)


def pure_workload(ctx, n):
    rng = ctx.rng
    cases = []
    for (t, b) in corpus.dec_corpus(rng, n, False)[:n]:
        cases.append('DEC\t%d\t%s' % (rng.randrange(8), b.hex()))
    for _ in range(n // 3):
        cases.append('DEC\t7\t' + corpus.rand_valid_ctrl_bytes(rng, rng.randrange(1, 8)).hex())
        cases.append('AVPS\t' + b''.join(rand_body(rng, rng.randrange(1, 6), good_only=False)).hex())
        cases.append('ENC\t%s\t' % rand_ctrl(rng, small=True))
        cases.append('ENCA\t%s\t' % rand_avp(rng, maxpay=60))
    cases += [c for c, _ in limited_cases(rng, n // 5)]
    # writes the encoder refuses (a caught panic), each followed by ordinary ones: what the unwinding leaves behind on the thread
    for k in range(max(3, n // 200)):
        cases.append(REFUSED[k % len(REFUSED)])
        cases.append('ENC\t%s\t' % rand_ctrl(rng, small=True))
        cases.append('ENCA\t%s\t' % rand_avp(rng, maxpay=60))
        cases.append('ENC\t%s\t' % data_text(*rand_data(rng)))
    for _ in range(n // 10):
        a = hide_args(rng)
        cases.append('HIDE\t%s\t%s\t%s\t%s\t%s' % (rand_avp(rng, allow_hidden=False, maxpay=60), a[0].hex(), a[1].hex(), a[2].hex(), a[3].hex()))
        cases.append('REVEAL\tHidden(7,%s)\t%s\t%s' % (rbytes(rng, 32).hex(), a[0].hex(), a[1].hex()))
    # hidden state keyed by a weak fingerprint of the secret: the same multi-block value under a secret and, right after, under
    # its twin (adjacent in the sequential run, far apart in the shuffled and the threaded ones)
    for (_n, sa, sb) in HASH_TWINS + [('poly31', b'tunnel-Aa-secret', b'tunnel-BB-secret')]:
        k = rng.choice(['HostName', 'Challenge', 'VendorName', 'ProxyAuthenResponse'])
        v = rand_avp(rng, k, maxpay=60)
        while len(v) < 80:
            v = rand_avp(rng, k, maxpay=60)
        a = hide_args(rng)
        for sx in (sa, sb):
            cases.append('HIDE\t%s\t%s\t%s\t%s\t%s' % (v, sx.hex(), a[1].hex(), a[2].hex(), a[3].hex()))
        ct = rbytes(rng, 48)
        for sx in (sa, sb):
            cases.append('REVEAL\tHidden(7,%s)\t%s\t%s' % (ct.hex(), sx.hex(), a[1].hex()))
    for (k, rv, sa, sb) in MATERIAL_TWINS:
        v = rand_avp(rng, k, maxpay=50)
        a = hide_args(rng)
        ct = rbytes(rng, 32)
        for sx in (sa, sb):
            cases.append('HIDE\t%s\t%s\t%s\t%s\t%s' % (v, sx.hex(), rv.hex(), a[2].hex(), a[3].hex()))
        for sx in (sa, sb):
            cases.append('REVEAL\tHidden(%d,%s)\t%s\t%s' % (KINDS[k][0], ct.hex(), sx.hex(), rv.hex()))
    # hidden state keyed on part of the arguments would show between calls that share that part
    s0, rv0 = b'shared-secret', b'\x01\x02\x03\x04'
    for k in rng.sample(KIND_LIST, 12):
        a = hide_args(rng)
        cases.append('HIDE\t%s\t%s\t%s\t%s\t%s' % (rand_avp(rng, k, maxpay=40), s0.hex(), rv0.hex(), a[2].hex(), a[3].hex()))
        vp = valid_payload(rng, KINDS[k][0]) or b''
        plain = be(6 + len(vp), 2) + vp
        plain += bytes((16 - len(plain) % 16) % 16)
        cases.append('REVEAL\tHidden(%d,%s)\t%s\t%s' % (KINDS[k][0], ref_encrypt_plain(KINDS[k][0], plain, s0, rv0).hex(), s0.hex(), rv0.hex()))
    return cases


def run_c19(ctx):
    import subprocess
    rep = Report()
    rng = ctx.rng
    hits = source_scan()
    boost = 10 if hits else 1
    rep.notes['source_scan_hits'] = hits[:20]
    cases = pure_workload(ctx, ctx.scale(2500, 20000))
    model = ctx.runner.run(cases, ('model',))['model']
    wd = ctx.runner.workdir
    os.makedirs(wd, exist_ok=True)
    inp = os.path.join(wd, 'pure.in')
    open(inp, 'w').write('\n'.join(cases) + '\n')
    rounds = (3 if not ctx.thorough else 12) * boost
    nthreads = 16
    for w in IMPLS:
        outp = os.path.join(wd, 'pure.%s.out' % w)
        # (a)+(b): a silent worker (results go to a file); fds 1 and 2 are pipes and must stay empty
        p = subprocess.run([ctx.runner.bins[w], '--out', outp, '--threads', str(nthreads), '--rounds', str(rounds)],
                           stdin=open(inp), stdout=subprocess.PIPE, stderr=subprocess.PIPE, timeout=1200)
        if p.stdout or p.stderr:
            # find a single case that makes the library write
            culprit = None
            for c in cases[:400]:
                q = subprocess.run([ctx.runner.bins[w], '--out', outp + '.1'], input=(c + '\n').encode(), stdout=subprocess.PIPE, stderr=subprocess.PIPE)
                if q.stdout or q.stderr:
                    culprit = c
                    break
            rep.fail('the library wrote %d octets to stdout and %d to stderr' % (len(p.stdout), len(p.stderr)),
                     case=culprit or cases[0], executor=w, stdout=p.stdout[:200].decode(errors='replace'), stderr=p.stderr[:200].decode(errors='replace'))
        if p.returncode != 0:
            rep.fail('worker exited with status %s' % p.returncode, case=cases[0], executor=w)
            continue
        lines = open(outp).read().split('\n')
        seq = lines[:len(cases)]
        rest = [l for l in lines[len(cases):] if l]
        rep.evaluations += len(cases) * (1 + nthreads * rounds)
        for i, c in enumerate(cases):
            if cls(model[i]) == 'BADCASE':
                rep.badcases += 1
                continue
            rep.distinct.add(lib.sha(c))
            # purity is a statement about the implementation alone: a result that differs from the
            # model's is a matter for the other properties, not an alarm here; only the class of
            # non-returning outcomes (abort/hang of the worker) is compared
            if cls(seq[i]) in ('ABORT', 'HANG', 'MISSING') and returns(model[i]):
                rep.disagree(c, w, seq[i], model[i], tag='sequential')
        for l in rest:
            if l.startswith('MISMATCH'):
                f = l.split('\t')
                rep.fail('a call returned a different result when run concurrently / repeated', case=cases[int(f[1])], executor=w,
                         thread=f[2], round=f[3], got=f[4][:300], sequential=seq[int(f[1])][:300])
        # (b') repeated and shuffled in a fresh process: results are a function of the input only
        order = list(range(len(cases)))
        rng.shuffle(order)
        sh = [cases[i] for i in order] + [cases[i] for i in order[:200]]
        r2 = ctx.runner.run(sh, (w,))[w]
        rep.evaluations += len(sh)
        for k, i in enumerate(order + order[:200]):
            if r2[k] != seq[i]:
                rep.fail('a call returned a different result when repeated in a different order', case=cases[i], executor=w, got=r2[k][:300], first=seq[i][:300])
        if len(rep.samples) < 4:
            rep.samples.append({'case': cases[0][:200], 'implementation': seq[0][:200], 'threads': nthreads, 'rounds': rounds})
    # environment the library reads: run the workload once with each such variable set
    evs = env_vars_read()
    rep.notes['environment_variables_read_by_the_library'] = evs
    for name in evs[:8]:
        for w in IMPLS:
            outp = os.path.join(wd, 'pure.env.out')
            env = dict(os.environ)
            env[name] = '1'
            p = subprocess.run([ctx.runner.bins[w], '--out', outp], stdin=open(inp), stdout=subprocess.PIPE,
                               stderr=subprocess.PIPE, timeout=600, env=env)
            rep.evaluations += len(cases)
            if p.stdout or p.stderr:
                rep.fail('with the environment variable %s set, the library wrote %d octets to stdout and %d to stderr'
                         % (name, len(p.stdout), len(p.stderr)), case=cases[0], executor=w, environment={name: '1'},
                         stderr=p.stderr[:200].decode(errors='replace'), stdout=p.stdout[:200].decode(errors='replace'))
            else:
                got = open(outp).read().split('\n')[:len(cases)]
                base = open(os.path.join(wd, 'pure.%s.out' % w)).read().split('\n')[:len(cases)]
                for i, (x, y) in enumerate(zip(got, base)):
                    if x != y:
                        rep.fail('a result depends on the environment variable %s' % name, case=cases[i], executor=w,
                                 environment={name: '1'}, got=x[:300], without=y[:300])
                        break
    for k in ('DEC', 'AVPS', 'ENC', 'ENCA', 'HIDE', 'REVEAL'):
        rep.dist[k] = sum(1 for c in cases if c.startswith(k + '\t'))
    rep.notes['rule'] = ('a decode/encode/hide/reveal workload run (a) in a worker whose fds 1/2 are pipes and which itself prints nothing, (b) sequentially, then from 16 '
                         'threads in different orders for several rounds, then shuffled and repeated in a fresh process; every result must equal the first and the model')
    rep.notes['explanation'] = ('purity cannot be exhibited by a Gallina model beyond "the model is a function"; this check is runtime monitoring (fd capture, repetition, '
                                'threads) plus differential comparison with the model. Not covered: interleavings not scheduled, output through other fds, state that '
                                'changes results only after more calls than run here.')
    rep.notes['channels'] = ['PURE(DEC,AVPS,ENC,ENCA,HIDE,REVEAL)']
    return rep


# =============================================================================== C20
def run_c20(ctx):
    rep = Report()
    rng = ctx.rng
    cases, tags = [], []
    for t in range(65536):
        for v in ('IncompleteAVP', 'InvalidUtf8', 'AVPReadError'):
            cases.append('SHOW\t%s(%d)' % (v, t)); tags.append('show_avp_' + v)
    num = ['UnknownMessageType', 'InvalidResultCodeErrorType', 'InvalidAVPLength', 'UnknownAvp', 'InvalidOriginalAVPLength', 'UnsupportedVendorId', 'InvalidOffset']
    for v in num:
        for x in [0, 1, 9, 10, 99, 100, 255, 256, 999, 1000, 9999, 10000, 65534, 65535] + [rng.getrandbits(16) for _ in range(50)]:
            cases.append('SHOW\t%s(%d)' % (v, x)); tags.append('show_num')
    for x in range(256):
        cases.append('SHOW\tInvalidVersion(%d)' % x); tags.append('show_version')
    for v in ['EmptyHiddenAVP', 'MisalignedHiddenAVP', 'InvalidReservedBits', 'IncompleteFlags', 'IncompleteDataMessageHeader', 'IncompleteDataMessagePayload',
              'EmptyDataMessagePayload', 'MessageReadError', 'ForbiddenControlMessagePriority', 'ForbiddenControlMessageOffset', 'ControlMessageWithoutLength',
              'ControlMessageWithoutNsNr', 'IncompleteControlMessageHeader', 'IncompleteControlMessagePayload', 'ControlMessageTypeNotFirst']:
        cases.append('SHOW\t' + v); tags.append('show_unit')
    nshow = len(cases)
    # the AVP kind each attribute number actually decodes to
    kind_cases = []
    for t in range(0, 64):
        vp = valid_payload(rng, t)
        kind_cases.append('AVPS\t' + avp_rec(t, vp if vp is not None else bytes(8)).hex())
    res = run_compare(ctx, rep, cases + kind_cases, tags + ['kind_of_type'] * len(kind_cases), lambda c, r: r, nontrivial=lambda c, m: True)
    for w in IMPLS:
        R = res[w]
        kinds = {}
        for t in range(64):
            r = strip_rem(R[nshow + t])[1:-1]
            kinds[t] = r[3:].split('(')[0] if r.startswith('Ok(') else None
        for i in range(nshow):
            r = R[i]
            if not returns(r) or r == '':
                rep.fail('rendering a decode error did not produce text', case=cases[i], executor=w, got=r[:100])
        for t in range(65536):
            name = kinds.get(t) or str(t)
            for j in range(3):
                r = R[3 * t + j]
                if '(%s)' % name not in r:
                    rep.fail('rendered text does not show the name of the AVP kind that attribute type %d decodes to (%s)' % (t, name),
                             case=cases[3 * t + j], executor=w, got=r[:200])
    # single-fault injection into otherwise valid messages
    inj, want = [], []
    for _ in range(ctx.scale(4000, 40000)):
        recs = rand_body(rng, rng.randrange(1, 6))
        pos = rng.randrange(1, len(recs) + 1)
        f = rng.choice(['version', 'unknown_type', 'unknown_mt_first', 'unknown_mt_later', 'vendor', 'offset', 'errtype', 'truncated', 'utf8'])
        fl = 0x1320
        opt = 2
        if f == 'version':
            x = rng.choice([v for v in range(16) if v != 2])
            b = ctrl_bytes(b''.join(recs), (fl & ~0xf0) | x << 4); e = 'InvalidVersion(%d)' % x
        elif f == 'offset':
            nd = rng.randrange(1, 20)
            x = rng.choice([nd + 1, nd + 2, 255, 65535, rng.randrange(nd + 1, 65536)])
            b = data_bytes(rbytes(rng, nd), rng.random() < 0.5, rng.random() < 0.5, True, False, None, x, b''); e = 'InvalidOffset(%d)' % x
            if b[0] & 2:   # keep the declared length consistent with what is present
                b = b[:2] + be(len(b), 2) + b[4:]
        else:
            if f == 'unknown_type':
                x = rng.choice([20, 40, 41, 255, 65535, rng.randrange(40, 65536)]); r = avp_rec(x, rbytes(rng, rng.randrange(0, 9)), m=rng.choice([0, 1]), rsv=rng.choice([0, 0, 9])); e = 'UnknownAvp(%d)' % x
            elif f == 'unknown_mt_later':
                x = rng.choice([0, 5, 13, 17, 65535, rng.randrange(17, 65536)]); r = avp_rec(0, be(x, 2)); e = 'UnknownMessageType(%d)' % x
            elif f == 'unknown_mt_first':
                x = rng.choice([0, 5, 13, 17, 65535]); r = avp_rec(0, be(x, 2)); pos = 0; e = 'ControlMessageTypeNotFirst'
            elif f == 'vendor':
                x = rng.choice([1, 311, 65535, rng.randrange(1, 65536)]); r = avp_rec(rng.randrange(1, 40), rbytes(rng, rng.randrange(0, 9)), vendor=x, m=rng.choice([0, 1]), h=rng.choice([0, 0, 1])); e = 'UnsupportedVendorId(%d)' % x
            elif f == 'errtype':
                x = rng.choice([9, 10, 255, 65535, rng.randrange(9, 65536)]); r = avp_rec(1, be(1, 2) + be(x, 2)); e = 'InvalidResultCodeErrorType(%d)' % x
            elif f == 'truncated':
                t = rng.choice([x for x in TYPE_KIND if MIN_LEN[KINDS[TYPE_KIND[x]][1]] > 0 and x != 0])
                r = avp_rec(t, rbytes(rng, rng.randrange(0, MIN_LEN[KINDS[TYPE_KIND[t]][1]])), m=rng.choice([0, 1])); e = 'IncompleteAVP(%d)' % t
            else:
                t = rng.choice([8, 21, 22, 23]); r = avp_rec(t, b'ok\xff' + rutf8(rng, 2)); e = 'InvalidUtf8(%d)' % t
            if f == 'unknown_mt_first':
                recs2 = [r] + recs[1:]
            else:
                recs2 = recs[:pos] + [r] + recs[pos:]
            b = ctrl_bytes(b''.join(recs2))
        inj.append('DEC\t%d\t%s' % (opt, b.hex())); want.append('Err [%s]' % e)
    # a reader that refuses the bytes() request of one AVP (or of the data payload): the error names that AVP
    for _ in range(ctx.scale(600, 6000)):
        t = rng.choice([x for x in TYPE_KIND if KINDS[TYPE_KIND[x]][1] in ('bytes', 'str')] + [1, 12])
        k = rng.choice([0, 1, 2, 3, 15, 16])
        n = k + 1 + rng.randrange(0, 20)
        pay = {1: be(extreme(rng, 16), 2) + be(rng.randrange(9), 2) + rutf8_plain(rng, n),
               12: rbytes(rng, 3) + rutf8_plain(rng, n)}.get(t)
        if pay is None:
            pay = rutf8_plain(rng, n) if KINDS[TYPE_KIND[t]][1] == 'str' else rbytes(rng, n)
        recs = [mt_record(rng)] + [good_record(rng, rng.choice([9, 10, 14, 39, 2])) for _ in range(rng.randrange(0, 3))]
        pos = rng.randrange(1, len(recs) + 1)
        b = ctrl_bytes(b''.join(recs[:pos] + [avp_rec(t, pay, m=rng.choice([0, 1]))] + recs[pos:]))
        inj.append('DECL\t%d\t2\t%s' % (k, b.hex())); want.append('Err [AVPReadError(%d)]' % t)
        if KINDS[TYPE_KIND[t]][1] in ('bytes', 'str') and len(pay) >= 2:
            # the same message through a reader whose seam falls strictly inside that AVP's value
            start = 12 + sum(len(r) for r in recs[:pos]) + 6
            inj.append('DECS\t%d\t2\t%s' % (start + rng.randrange(1, len(pay)), b.hex())); want.append('Err [AVPReadError(%d)]' % t)
        if rng.random() < 0.2:
            d = data_bytes(rbytes(rng, n), rng.random() < 0.5, rng.random() < 0.5)
            inj.append('DECL\t%d\t%d\t%s' % (k, rng.randrange(8), d.hex())); want.append('Err [MessageReadError]')
    # every text site x length class x class of UTF-8 defect x position, inside an otherwise valid message
    for (tag, t, pay, ok) in utf8_grid(rng):
        if ok:
            continue
        recs = rand_body(rng, rng.randrange(1, 4))
        pos = rng.randrange(1, len(recs) + 1)
        b = ctrl_bytes(b''.join(recs[:pos] + [avp_rec(t, pay, m=rng.choice([0, 1]))] + recs[pos:]))
        inj.append('DEC\t2\t%s' % b.hex()); want.append('Err [InvalidUtf8(%d)]' % t)
    # a hidden AVP that decrypts to a value too short for its type: the error still names that AVP
    hinj, hwant = [], []
    for _ in range(ctx.scale(300, 3000)):
        t = rng.choice([x for x in TYPE_KIND if MIN_LEN[KINDS[TYPE_KIND[x]][1]] > 1])
        n = rng.randrange(1, MIN_LEN[KINDS[TYPE_KIND[t]][1]])
        sec, rv = rsecret(rng)[:64], rbytes(rng, 4)
        plain = be(6 + n, 2) + rbytes(rng, n) + rbytes(rng, rng.randrange(0, 20))
        plain += bytes((16 - len(plain) % 16) % 16)
        hinj.append('REVEAL\tHidden(%d,%s)\t%s\t%s' % (t, ref_encrypt_plain(t, plain, sec, rv).hex(), sec.hex(), rv.hex()))
        hwant.append('Err IncompleteAVP(%d)' % t)
    rhj = run_compare(ctx, rep, hinj, ['hidden_truncated'] * len(hinj), lambda c, r: r)
    for w in IMPLS:
        for c, e, r in zip(hinj, hwant, rhj[w]):
            if r != e:
                rep.fail('revealing a hidden AVP whose value is too short does not report IncompleteAVP with its attribute type', case=c[:400], executor=w, got=r[:200], expected=e)
    # every data-message shape of the grid (flag combinations x offset sizes x payload sizes x Length values): the error, if any, in full
    dg = ['DEC\t%d\t%s' % (rng.randrange(8) & 6, b.hex()) for (_, b) in corpus.data_grid(rng, ctx.thorough)]
    run_compare(ctx, rep, dg, ['data_grid'] * len(dg), lambda c, r: r)
    ri = run_compare(ctx, rep, inj, ['fault_injection'] * len(inj), lambda c, r: r)
    for w in IMPLS:
        for c, e, r in zip(inj, want, ri[w]):
            if r != e:
                rep.fail('the reported error does not name the injected fault with its offending value', case=c[:600], executor=w, got=r[:300], expected=e)
    rep.exhaustive = True
    rep.notes['exhaustive_domain'] = 'all 65536 attribute numbers x {IncompleteAVP, InvalidUtf8, AVPReadError}; all 256 version payloads; every unit variant'
    rep.notes['rule'] = ('exhaustive rendering sweep compared octet for octet with Model/Render.v and with the Debug name of the AVP decoded at that number; single-fault '
                         'injections (9 fault kinds, every position, offending values at boundaries) into valid messages')
    rep.notes['channels'] = ['SHOW', 'AVPS', 'DEC']
    return rep


PROPS.update({
    'C19': {'run': run_c19, 'search': generic_search(run_c19), 'level': 'other',
            'assumes': ['thread interleavings not scheduled during the run, output through descriptors other than 1/2, and state that changes results only after more calls than performed are not covered']},
    'C20': {'run': run_c20, 'search': generic_search(run_c20), 'assumes': []},
})


# =============================================================================== inputs from the symbolic search
def o_errs_full(c, r):
    return r


EXTRA_OBS = {   # what a property compares on the decode channels (DESIGN 6.2), and whether a difference is itself a failing input
    'C01': (lambda c, r: 'RETURNS' if returns(r) and cls(r) != 'ErrEmpty' else cls(r), False),
    'C02': (lambda c, r: 'RETURNS' if returns(r) else cls(r), False),
    'C05': (c05_obs, True), 'C08': (o_class_rem, False), 'C10': (o_class, False), 'C14': (o_class, False),
    'C15': (o_errs_full, True), 'C16': (o_errs_full, True), 'C20': (o_errs_full, True),
}


def extra_pass(ctx, rep, prop):
    """the inputs solved from the path conditions on which the regenerated decoder differs from the Model
    (py/symsearch.py), through the decode channels under all eight option sets, compared by this property's observation"""
    if prop not in EXTRA_OBS or not (corpus.EXTRA_DEC or corpus.EXTRA_AVPS):
        return
    obs, conf = EXTRA_OBS[prop]
    cases, tags = [], []
    for (t, b) in corpus.EXTRA_DEC:
        for o in range(8):
            cases.append('DEC\t%d\t%s' % (o, b.hex())); tags.append(t)
    for (t, b) in corpus.EXTRA_AVPS:
        cases.append('AVPS\t' + b.hex()); tags.append(t)
    before = len(rep.disagreements)
    res = run_compare(ctx, rep, cases, tags, obs)
    if prop == 'C01':
        c01_pred(rep, cases, res)
    if conf:
        for d in rep.disagreements[before:]:
            rep.fail('implementation differs from the specification on an input solved from the regenerated decoder', case=d['case'][:600],
                     executor=d['executor'], implementation=d['implementation'][:600], specification=d['model'][:600])
        del rep.disagreements[before:]
