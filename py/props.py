"""Per-property checks: generators -> cases -> executors -> observation comparison + direct predicate."""
import collections, json, os
from gen import *
import corpus
import lib

IMPLS = ('debug', 'release')


class Ctx:
    def __init__(self, prop, tier, rng, runner, seed):
        self.prop, self.tier, self.rng, self.runner, self.seed = prop, tier, rng, runner, seed
        self.thorough = tier == 'thorough'
        self.searching = False

    def scale(self, quick, thorough=None):
        return (thorough if thorough is not None else quick * 10) if self.thorough else quick


class Report:
    def __init__(self):
        self.evaluations = 0
        self.distinct = set()
        self.samples = []
        self.failures = []        # property predicate false on the implementation
        self.disagreements = []   # implementation vs model on a channel of this property
        self.dist = collections.Counter()
        self.classes = collections.Counter()
        self.search_evals = 0
        self.notes = {}
        self.exhaustive = None
        self.badcases = 0

    def coverage(self):
        c = {'evaluations': self.evaluations, 'distinct_nontrivial': len(self.distinct),
             'samples': self.samples[:8], 'input_distribution': dict(self.dist),
             'result_classes': dict(self.classes), 'disagreements': len(self.disagreements),
             'predicate_failures': len(self.failures), 'search_evaluations': self.search_evals,
             'badcases_excluded': self.badcases}
        c.update(self.notes)
        if self.exhaustive is not None:
            c['exhaustive'] = self.exhaustive
        return c

    def fail(self, what, **kw):
        if len(self.failures) < 50:
            self.failures.append(dict(what=what, **kw))

    def disagree(self, case, exe, impl, model, **kw):
        if len(self.disagreements) < 50:
            self.disagreements.append(dict(case=case, executor=exe, implementation=impl[:2000], model=model[:2000], **kw))


def cls(r):
    """result class of a decode-like result line"""
    if r is None:
        return 'MISSING'
    for p in ('PANIC', 'ABORT', 'HANG', 'UB', 'NOFUEL', 'BADCASE', 'MODEL_STACK_OVERFLOW'):
        if r.startswith(p):
            return p
    if r.startswith('Ok'):
        return 'Ok'
    if r.startswith('Err []'):
        return 'ErrEmpty'
    if r.startswith('Err'):
        return 'Err'
    if r.startswith('['):
        return 'List'
    return 'Other'


def returns(r):
    return cls(r) in ('Ok', 'Err', 'List', 'Other')


def run_compare(ctx, rep, cases, tags, observe, which=IMPLS, nontrivial=None, rule=None):
    """Run cases on the model and the implementation builds; compare through `observe`.
    -> {executor: results}.  BADCASE on either side excludes the case (and is counted)."""
    res = ctx.runner.run(cases, ('model',) + tuple(which))
    mod = res['model']
    for i, c in enumerate(cases):
        rep.evaluations += 1
        rep.dist[tags[i]] += 1
        m = mod[i]
        if cls(m) == 'BADCASE' or any(cls(res[w][i]) == 'BADCASE' for w in which):
            rep.badcases += 1
            continue
        rep.classes[cls(res[which[0]][i])] += 1
        if nontrivial is None or nontrivial(c, m):
            rep.distinct.add(lib.sha(c))
        for w in which:
            r = res[w][i]
            if observe(c, r) != observe(c, m):
                rep.disagree(c, w, r, m, tag=tags[i])
        if len(rep.samples) < 8 and (i % max(1, len(cases) // 8) == 0):
            rep.samples.append({'case': c[:300], 'implementation': res[which[0]][i][:300], 'model': m[:300]})
    return res


def hexcases(channel, items, opt=None):
    if opt is None:
        return ['%s\t%s' % (channel, b.hex()) for (_, b) in items]
    return ['%s\t%d\t%s' % (channel, opt, b.hex()) for (_, b) in items]


def matches_known(k, f):
    m = k.get('match')
    return bool(m) and m in json.dumps(f)


def shrink(ctx, spec, failure):
    return failure


def replay(ctx, spec, doc):
    rep = Report()
    cases = []
    def collect(o):
        if isinstance(o, dict):
            for k, v in o.items():
                if k == 'case' and isinstance(v, str):
                    cases.append(v)
                else:
                    collect(v)
        elif isinstance(o, list):
            for v in o:
                collect(v)
    collect(doc)
    res = ctx.runner.run(cases, ('model',) + IMPLS)
    for i, c in enumerate(cases):
        print('case     %s' % c[:400])
        for w in ('model',) + IMPLS:
            print('  %-8s %s' % (w, res[w][i][:400]))
        rep.evaluations += 1
        rep.distinct.add(lib.sha(c))
        rep.distinct.add(lib.sha(c + '#'))
        for w in IMPLS:
            if res[w][i] != res['model'][i]:
                rep.disagree(c, w, res[w][i], res['model'][i])
    rep.samples = [{'case': c[:300]} for c in cases[:4]]
    return rep


# =============================================================================== C01
def c01_cases(ctx, budget):
    rng = ctx.rng
    items = corpus.dec_corpus(rng, budget, ctx.thorough)
    cases, tags = [], []
    for (t, b) in items:
        o = rng.randrange(8)
        cases.append('DEC\t%d\t%s' % (o, b.hex()))
        tags.append(t)
        if rng.random() < 0.15:
            cases.append('DEC0\t%s' % b.hex())
            tags.append(t + '/try_read')
    for (t, b) in corpus.avps_corpus(rng, budget // 3, ctx.thorough):
        cases.append('AVPS\t%s' % b.hex())
        tags.append('avps_' + t)
    for (t, b) in corpus.guard_grid(rng, ctx.thorough):
        ty = int.from_bytes(b[4:6], 'big')
        cases.append('TYPE\t%d\t%s' % (ty, b[6:].hex()))
        tags.append('type_grid')
    return cases, tags


def c01_pred(rep, cases, res):
    for w in IMPLS:
        for c, r in zip(cases, res[w]):
            k = cls(r)
            if k in ('PANIC', 'ABORT', 'HANG', 'ErrEmpty', 'MISSING'):
                rep.fail('decoder did not return Ok or a non-empty Err: %s' % k, case=c, executor=w, result=r[:300])


def run_c01(ctx, budget=None):
    rep = Report()
    cases, tags = c01_cases(ctx, budget or ctx.scale(12000, 150000))
    res = run_compare(ctx, rep, cases, tags, lambda c, r: 'RETURNS' if returns(r) and cls(r) != 'ErrEmpty' else cls(r),
                      nontrivial=lambda c, m: len(c) > 12)
    c01_pred(rep, cases, res)
    rep.notes['rule'] = ('structured inputs (valid messages, every prefix, Length/AVP-length grids, per-type guard grid, '
                         'data-message grid, perturbations, random) through DEC (random option set), DEC0, AVPS, TYPE in debug '
                         'and release; non-trivial = input longer than the flag word; distinct by SHA-1 of the case line')
    rep.notes['channels'] = ['DEC', 'DEC0', 'AVPS', 'TYPE']
    rep.notes['profiles'] = list(IMPLS)
    return rep


def search_c01(ctx, rep):
    """property-specific search after a broken proof/correspondence: a fresh, larger batch
    plus neighbours of the disagreeing cases, evaluated by the direct predicate only"""
    rng = ctx.rng
    cases = []
    for d in rep.disagreements[:10]:
        parts = d['case'].split('\t')
        try:
            b = bytes.fromhex(parts[-1])
        except ValueError:
            continue
        for _ in range(300):
            x = b
            for _ in range(rng.randrange(1, 3)):
                x = perturb(rng, x)
            cases.append('\t'.join(parts[:-1] + [x.hex()]))
        cases += ['\t'.join(parts[:-1] + [p.hex()]) for p in all_prefixes(b)[:400]]
    more, _ = c01_cases(ctx, ctx.scale(40000, 200000))
    cases += more
    res = ctx.runner.run(cases, IMPLS)
    rep.search_evals += len(cases)
    c01_pred(rep, cases, res)


PROPS = {
    'C01': {'run': run_c01, 'search': search_c01,
            'assumes': ['per-case running time is observed on generated inputs only (watchdog); the theorem bounds the loop iteration count, not wall-clock time']},
}
