"""Shared input corpora (octet strings with a tag naming the generator that produced them)."""
from gen import *

# inputs solved from the path conditions on which the regenerated decoder differs from the Model (py/symsearch.py);
# empty unless a translated function no longer ties
EXTRA_DEC = []
EXTRA_AVPS = []

D_INPUTS = [  # the inputs of defects D1..D7 found on the pinned tree (DESIGN.md section 3); always run first
    ('D1', bytes.fromhex('13200004' + '00' * 8)),
    ('D1b', bytes.fromhex('1320000b' + '00' * 8)),
    ('D2', ctrl_bytes(bytes.fromhex('000300000000'))),
    ('D2b', ctrl_bytes(bytes.fromhex('000500000000'))),
    ('D3', bytes.fromhex('0220000900010002aa')),
    ('D5', bytes.fromhex('8020' + '00010002' + 'aa')),
    ('D6', bytes.fromhex('4020' + '00010002' + '0000' + 'aa')),
]


def guard_grid(rng, thorough=False):
    """every attribute type 0..41 x payload length 0..30 (both sides of every per-type guard)"""
    out = []
    lens = list(range(0, 31)) + ([32, 40, 64, 255, 256, 1017] if thorough else [])
    for t in list(range(0, 42)) + [255, 65535]:
        for n in lens:
            vp = valid_payload(rng, t)
            if vp is not None and rng.random() < 0.5:
                p = (vp + rbytes(rng, n))[:n]
            else:
                p = rbytes(rng, n)
            if t in (8, 21, 22, 23) and rng.random() < 0.7:
                p = rutf8(rng, n)
            out.append(('grid_t%d' % t, avp_rec(t, p)))
    return out


def data_grid(rng, thorough=False):
    out = []
    for bits in range(16):
        L, S, O, P = bool(bits & 1), bool(bits & 2), bool(bits & 4), bool(bits & 8)
        for osz in ([0, 1, 2, 3] if O else [0]):
            for nd in ([0, 1, 2, 5] if not thorough else [0, 1, 2, 3, 5, 9, 14]):
                base = data_bytes(rbytes(rng, nd), L, S, O, P, None, osz)
                total = len(base)
                lens = [None]
                if L:
                    consumed = total - nd
                    lens = sorted(set([0, 1, consumed - 2, consumed - 1, consumed, consumed + 1, total - 1, total,
                                       total + 1, total + 2, 65535]))
                for ln in lens:
                    if ln is not None and ln < 0:
                        continue
                    b = data_bytes(rbytes(rng, nd), L, S, O, P, ln, osz, rbytes(rng, osz))
                    out.append(('dgrid', b))
                    out.append(('dgrid_sfx', b + rbytes(rng, rng.randrange(1, 4))))
                    if len(b) > 2:
                        out.append(('dgrid_trunc', b[:rng.randrange(2, len(b))]))
    return out


def length_grid(rng):
    out = []
    for _ in range(6):
        b = rand_valid_ctrl_bytes(rng, rng.randrange(0, 5))
        n = len(b)
        for v in sorted(set(list(range(0, 14)) + [n - 14, n - 13, n - 12, n - 2, n - 1, n, n + 1, n + 2, 1023, 65535])):
            if v < 0:
                continue
            bb = bytearray(b)
            bb[2:4] = be(v & 0xffff, 2)
            out.append(('lgrid', bytes(bb)))
        # AVP length grid on the first AVP
        if n >= 18:
            for v in list(range(0, 10)) + [n - 13, n - 12, n - 11, 1023]:
                bb = bytearray(b)
                v &= 1023
                bb[12] = (bb[12] & 0x3f) | ((v >> 8) << 6)
                bb[13] = v & 0xff
                out.append(('algrid', bytes(bb)))
    return out


def noncanonical(rng, n):
    """accepted but non-canonical inputs: reserved bits, M clear, surplus payload, short tail, suffix"""
    out = []
    for _ in range(n):
        recs = rand_body(rng, rng.randrange(0, 6))
        body = b''.join(recs)
        tail = rbytes(rng, rng.randrange(0, 6)) if rng.random() < 0.4 else b''
        fl = 0x1320
        c = rng.random()
        if c < 0.3:
            fl |= rng.choice([1, 2, 4, 8, 1 << 10, 1 << 11, 1 << 13, RESERVED_MASK])
        elif c < 0.45:
            fl = (fl & ~0xf0) | (rng.randrange(16) << 4)
        elif c < 0.6:
            fl |= rng.choice([1 << 14, 1 << 15, 3 << 14])
        b = ctrl_bytes(body + tail, fl, None, extreme(rng, 16), extreme(rng, 16), extreme(rng, 16), extreme(rng, 16))
        if rng.random() < 0.3:
            b += rbytes(rng, rng.randrange(1, 9))
        out.append(('noncanon_c', b))
        if rng.random() < 0.1:
            # a control message with the O bit set whose body begins the way a data message's would: Offset Size, that much
            # padding, and only then the AVPs (the offset bit means nothing in a control message, whatever follows the header)
            n = rng.choice([0, 1, 2, 3, 6, 8, rng.randrange(0, 20)])
            out.append(('ctrl_offset_like', ctrl_bytes(be(n, 2) + rbytes(rng, n) + body, 0x1320 | 1 << 14 | rng.choice([0, 0, 1 << 15]), None,
                                                       extreme(rng, 16), extreme(rng, 16), 1, 2)))
        L, S, O, P = (rng.random() < 0.5 for _ in range(4))
        osz = rng.choice([0, 1, 3]) if O else 0
        rsv = rng.choice([0, 0, rng.choice([1, 2, 4, 8, 1 << 10, 1 << 11, 1 << 13])])
        ver = rng.choice([2, 2, 2, rng.randrange(16)])
        d = data_bytes(rbytes(rng, rsize(rng, 1, 40)), L, S, O, P, None, osz, rbytes(rng, osz),
                       extreme(rng, 16), extreme(rng, 16), 5, 6, ver, rsv)
        if L and rng.random() < 0.4:
            d += rbytes(rng, rng.randrange(1, 6))
        out.append(('noncanon_d', d))
    return out


def big_items(rng):
    """control messages carrying AVPs whose length needs both high bits of the 10-bit field, and totals needing the high octet of Length"""
    out = []
    for n in (249, 250, 505, 506, 507, 600, 767, 768, 1016, 1017):
        for t in (7, 8, 11, 37):
            p = rutf8(rng, n) if t == 8 else rbytes(rng, n)
            body = mt_record(rng) + avp_rec(t, p, m=rng.choice([0, 1]), rsv=rng.choice([0, 5])) + good_record(rng, 9)
            out.append(('big_avp_%d' % n, ctrl_bytes(body, 0x1320 | rng.choice([0, 0, 1 << 13]))))
        out.append(('big_hidden_%d' % n, ctrl_bytes(mt_record(rng) + avp_rec(rng.randrange(60), rbytes(rng, n), h=1) + good_record(rng, 10))))
    body = mt_record(rng) + b''.join(avp_rec(7, rbytes(rng, rng.randrange(900, 1018))) for _ in range(40))
    out.append(('big_msg', ctrl_bytes(body)))
    out.append(('big_data', data_bytes(rbytes(rng, 40000), True, True, False, True)))
    out.append(('big_data_nolen', data_bytes(rbytes(rng, 70000), False, True, True, False, None, 2, b'\x00\x00')))
    out.append(('big_data_65535', data_bytes(rbytes(rng, 65535 - 10), True, True, False, False)))
    # very many records in one body (a bound on the number of AVPs is not a bound the format has)
    seq = avp_rec(39, b'')
    for n in (255, 256, 257, 300, 1000):
        body = mt_record(rng) + seq * n
        out.append(('many_avps_%d' % n, ctrl_bytes(body + avp_rec(9, be(rng.getrandbits(16), 2)))))
        out.append(('many_avps_bad_%d' % n, ctrl_bytes(body + avp_rec(40, b'xy') + seq)))
    # Offset Size near 65535: header + pad exceeds what a 16-bit sum (or the Length field) can hold
    for osz in (65521, 65526, 65530, 65535):
        for (L, S) in ((False, False), (False, True), (True, False), (True, True)):
            pay = rbytes(rng, 12)
            for ln in ((None, 16, 10 + osz - 65536) if L else (None,)):
                if ln is not None and ln < 0:
                    continue
                out.append(('big_offset_%d' % osz, data_bytes(pay, L, S, True, rng.random() < 0.5, ln, osz, rbytes(rng, osz))))
        out.append(('big_offset_short_%d' % osz, data_bytes(b'', False, False, True, False, None, osz, rbytes(rng, 300))))
    # a message that declares its length, as the first of many in one buffer: 64 KiB and more behind it (the number of octets
    # left in the reader no longer fits 16 bits)
    for k in range(3):
        b = rand_valid_ctrl_bytes(rng, rng.randrange(1, 4)) if k < 2 else data_bytes(rbytes(rng, rng.randrange(5, 30)), True, rng.random() < 0.5, rng.random() < 0.5,
                                                                                      False, None, 2, b'\x00\x00')
        n = len(b)
        for sfx in sorted(set([65536 - n + d for d in (0, 1, 7, 12, n - 1, n)] + [65536, 70000])):
            out.append(('followed_by_%d' % sfx, b + rbytes(rng, sfx)))
    return out


def utf8_items(rng, budget):
    """the UTF-8 grid (gen.utf8_grid) as single records; all of it when the budget allows, else the 'most the AVP holds,
    defect at the very end' family first and a sample of the rest"""
    g = utf8_grid(rng)
    limit = max(60, budget // 8)
    if len(g) > limit:
        first = [x for x in g if '_max_' in x[0] and x[0].endswith('_last')]
        rest = [x for x in g if x not in first]
        rng.shuffle(first); rng.shuffle(rest)
        g = (first + rest)[:limit]
    return [(tag, avp_rec(t, p, m=rng.choice([1, 1, 0]))) for (tag, t, p, ok) in g]


def dec_corpus(rng, budget, thorough=False):
    """-> list of (tag, octets): mostly-valid structured inputs plus a malformed stream"""
    out = list(D_INPUTS) + list(EXTRA_DEC)
    out += length_grid(rng)
    out += [(t, ctrl_bytes(r)) for (t, r) in guard_grid(rng, thorough)]
    out += data_grid(rng, thorough)
    # truncation at every prefix of a few valid messages
    for _ in range(4 if not thorough else 20):
        for p in all_prefixes(rand_valid_ctrl_bytes(rng, rng.randrange(1, 4))):
            out.append(('prefix_c', p))
        for p in all_prefixes(rand_valid_data_bytes(rng)):
            out.append(('prefix_d', p))
    out += noncanonical(rng, budget // 12)
    out += big_items(rng)
    out += [(t, ctrl_bytes(mt_record(rng) + r)) for (t, r) in utf8_items(rng, budget)]
    # the same message twice with a neighbour that differs only inside one long value (adjacent cases run on one thread)
    for _ in range(max(4, budget // 400)):
        t = rng.choice([7, 8, 8, 11, 21, 22, 23, 30, 33, 37])
        v = (b'vendor-' + bytes(rng.choice(b'abcdefghij') for _ in range(rng.randrange(20, 60))) + b'-tail0001') if t in (8, 21, 22, 23) else rbytes(rng, rng.randrange(24, 80))
        for w in [v] + near_duplicates(rng, v):
            out.append(('neighbours', ctrl_bytes(mt_record(rng) + avp_rec(t, w))))
    while len(out) < budget:
        c = rng.random()
        if c < 0.25:
            out.append(('valid_c', rand_valid_ctrl_bytes(rng)))
        elif c < 0.35:
            out.append(('valid_d', rand_valid_data_bytes(rng)))
        elif c < 0.5:
            recs = rand_body(rng, rng.randrange(1, 8), good_only=False)
            out.append(('mixed_c', ctrl_bytes(b''.join(recs))))
        elif c < 0.85:
            base = rand_valid_ctrl_bytes(rng) if rng.random() < 0.7 else rand_valid_data_bytes(rng)
            for _ in range(rng.randrange(1, 3)):
                base = perturb(rng, base)
            out.append(('perturbed', base))
        elif c < 0.93:
            out.append(('random', rbytes(rng, rng.randrange(0, 40))))
        else:
            # random flag word over a valid remainder
            base = bytearray(rand_valid_ctrl_bytes(rng) if rng.random() < 0.5 else rand_valid_data_bytes(rng))
            base[0:2] = be(rng.getrandbits(16), 2)
            out.append(('randflags', bytes(base)))
    return out


def near_duplicates(rng, b):
    """octet strings that a weak fingerprint (length, first/last octets, sum, xor, a 31-polynomial) cannot tell from b"""
    out = []
    n = len(b)
    if n >= 24:
        mid = bytearray(b)
        i = rng.randrange(9, n - 9)
        mid[i] = (0x41 + (mid[i] + 1 + rng.randrange(24)) % 26) if mid[i] < 0x80 else mid[i] ^ 1   # ASCII stays ASCII
        if mid[i] == b[i]:
            mid[i] = 0x5a if b[i] != 0x5a else 0x59
        out.append(bytes(mid))
    if n >= 4:
        sw = bytearray(b)
        i, j = rng.randrange(n), rng.randrange(n)
        sw[i], sw[j] = sw[j], sw[i]
        out.append(bytes(sw))
    return [x for x in out if x != b]


def avps_corpus(rng, budget, thorough=False):
    out = [('D2_body', bytes.fromhex('000300000000')), ('empty', b'')] + list(EXTRA_AVPS)
    out += guard_grid(rng, thorough)
    out += utf8_items(rng, budget)
    while len(out) < budget:
        c = rng.random()
        recs = rand_body(rng, rng.randrange(0, 6), good_only=rng.random() < 0.5)
        if recs and rng.random() < 0.5:
            recs = recs[1:]
        body = b''.join(recs)
        if c < 0.4:
            out.append(('records', body))
        elif c < 0.5:
            out.append(('records_tail', body + rbytes(rng, rng.randrange(1, 6))))
        elif c < 0.6 and recs:
            h = good_record(rng)
            out.append(('hidden', body + avp_rec(rng.randrange(0, 45), rbytes(rng, rng.choice([0, 16, 32, 5])), h=1)))
        elif c < 0.9:
            b = body
            for _ in range(rng.randrange(1, 3)):
                b = perturb(rng, b)
            out.append(('perturbed', b))
        else:
            out.append(('random', rbytes(rng, rng.randrange(0, 30))))
    return out
