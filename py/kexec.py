"""Second model executor: the same Gallina definitions evaluated INSIDE the Coq kernel (vm_compute), used to
cross-check the extraction + OCaml executor on a sample of every run's cases.  A case line of the neutral
syntax is translated into a Coq term; one coqc call evaluates a batch and prints one string per case."""
import os, re, subprocess, tempfile
import lib

SUPPORTED = ('DEC', 'DEC0', 'AVPS', 'TYPE', 'ENC', 'ENCA', 'HIDE', 'REVEAL', 'MD5')
MAX_OCTETS = 3000


def coq_bytes(hx):
    b = bytes.fromhex(hx)
    return '[' + ';'.join(str(x) for x in b) + ']'


def split_top(s, delim):
    parts, depth, start = [], 0, 0
    if s == '':
        return []
    for i, ch in enumerate(s):
        if ch in '([':
            depth += 1
        elif ch in ')]':
            depth -= 1
        elif ch == delim and depth == 0:
            parts.append(s[start:i]); start = i + 1
    parts.append(s[start:])
    return parts


def head_args(s):
    i = s.find('(')
    if i < 0:
        return s, ''
    return s[:i], s[i + 1:-1]


K16 = {'FirmwareRevision', 'AssignedTunnelId', 'ReceiveWindowSize', 'AssignedSessionId'}
K32 = {'FramingCapabilities', 'BearerCapabilities', 'CallSerialNumber', 'MinimumBps', 'MaximumBps', 'BearerType',
       'FramingType', 'TxConnectSpeed', 'RxConnectSpeed'}
KBYTES = {'HostName', 'Challenge', 'InitialReceivedLcpConfReq', 'LastSentLcpConfReq', 'LastReceivedLcpConfReq',
          'ProxyAuthenName', 'ProxyAuthenChallenge', 'ProxyAuthenResponse', 'PrivateGroupId'}
KSTR = {'VendorName', 'CalledNumber', 'CallingNumber', 'SubAddress'}
KFIX = {'RandomVector', 'ChallengeResponse', 'PhysicalChannelId'}
ET = {'Ok': 'EtOk'}
PA = {'Reserved': 'PaReserved'}


def opt_hex(s):
    if s == '-':
        return 'None'
    return '(Some %s)' % coq_bytes(s[1:])


def avp_term(s):
    hd, args = head_args(s)
    a = args.split(',') if args != '' else []
    if hd == 'MessageType':
        return '(AMessageType %s)' % a[0]
    if hd == 'ResultCode':
        if len(a) == 2:
            return '(AResultCode %s None)' % a[0]
        return '(AResultCode %s (Some (%s, %s)))' % (a[0], ET.get(a[1], a[1]), opt_hex(a[2]))
    if hd == 'ProtocolVersion':
        return '(AProtocolVersion %s %s)' % (a[0], a[1])
    if hd == 'TieBreaker':
        return '(ATieBreaker %s)' % a[0]
    if hd == 'Q931CauseCode':
        return '(AQ931CauseCode %s %s %s)' % (a[0], a[1], opt_hex(a[2]))
    if hd == 'ProxyAuthenType':
        return '(AProxyAuthenType %s)' % PA.get(a[0], a[0])
    if hd == 'ProxyAuthenId':
        return '(AProxyAuthenId %s)' % a[0]
    if hd == 'CallErrors':
        return '(ACallErrors %s)' % ' '.join(a[:6])
    if hd == 'Accm':
        return '(AAccm %s %s)' % (coq_bytes(a[0]), coq_bytes(a[1]))
    if hd == 'SequencingRequired':
        return 'ASequencingRequired'
    if hd == 'Hidden':
        return '(AHidden %s %s)' % (a[0], coq_bytes(a[1] if len(a) > 1 else ''))
    if hd in K16:
        return '(A16 %s %s)' % (hd, a[0])
    if hd in K32:
        return '(A32 %s %s)' % (hd, a[0])
    if hd in KBYTES:
        return '(ABytes %s %s)' % (hd, coq_bytes(a[0] if a else ''))
    if hd in KSTR:
        return '(AStr %s %s)' % (hd, coq_bytes(a[0] if a else ''))
    if hd in KFIX:
        return '(AFix %s %s)' % (hd, coq_bytes(a[0] if a else ''))
    raise ValueError('avp: ' + s[:60])


def msg_term(s):
    hd, args = head_args(s)
    a = split_top(args, ',')
    if hd == 'C':
        avps = [avp_term(x) for x in split_top(a[5][1:-1], ';')]
        return ('(Control {| c_length := %s; c_tunnel := %s; c_session := %s; c_ns := %s; c_nr := %s; c_avps := [%s] |})'
                % (a[0], a[1], a[2], a[3], a[4], '; '.join(avps)))
    if hd == 'D':
        opt = lambda x: 'None' if x == '-' else '(Some %s)' % x
        nsnr = 'None' if a[4] == '-' else '(Some (%s, %s))' % tuple(a[4].split(':'))
        return ('(Data {| d_prio := %s; d_length := %s; d_tunnel := %s; d_session := %s; d_nsnr := %s; d_offset := %s; d_data := %s |})'
                % ('true' if a[0] == '1' else 'false', opt(a[1]), a[2], a[3], nsnr, opt(a[5]), coq_bytes(a[6] if len(a) > 6 else '')))
    raise ValueError('msg: ' + s[:60])


def opts_term(s):
    i = int(s)
    tf = lambda b: 'true' if b else 'false'
    return '{| v_reserved := %s; v_version := %s; v_unused := %s |}' % (tf(i & 1), tf(i & 2), tf(i & 4))


def case_term(line):
    """-> Coq term of type string, or None when the case is not supported / too large"""
    f = line.split('\t')
    ch = f[0]
    if ch not in SUPPORTED or len(line) > 2 * MAX_OCTETS + 400:
        return None
    try:
        if ch == 'DEC':
            return 'ch_dec %s %s' % (opts_term(f[1]), coq_bytes(f[2]))
        if ch == 'DEC0':
            return 'ch_dec default_opts %s' % coq_bytes(f[1])
        if ch == 'AVPS':
            return 'ch_avps %s' % coq_bytes(f[1])
        if ch == 'TYPE':
            return 'ch_type %s %s' % (f[1], coq_bytes(f[2]))
        if ch == 'ENC':
            return 'ch_enc %s %s' % (msg_term(f[1]), coq_bytes(f[2] if len(f) > 2 else ''))
        if ch == 'ENCA':
            return 'ch_enca %s %s' % (avp_term(f[1]), coq_bytes(f[2] if len(f) > 2 else ''))
        if ch == 'HIDE':
            return 'ch_hide %s %s %s %s %s' % (avp_term(f[1]), coq_bytes(f[2]), coq_bytes(f[3]), coq_bytes(f[4]), coq_bytes(f[5]))
        if ch == 'REVEAL':
            return 'ch_reveal %s %s %s' % (avp_term(f[1]), coq_bytes(f[2]), coq_bytes(f[3]))
        if ch == 'MD5':
            return 'ch_md5 %s' % coq_bytes(f[1])
    except (ValueError, IndexError):
        return None
    return None


HEADER = ('From Coq Require Import String NArith List.\nFrom RL Require Import Model.Show.\n'
          'Import ListNotations.\nOpen Scope string_scope.\nOpen Scope N_scope.\n')


def run_kernel(lines, workdir, timeout=900):
    """evaluate the supported cases among `lines` inside coqc; -> {index: result string}"""
    terms = [(i, case_term(l)) for i, l in enumerate(lines)]
    terms = [(i, t) for (i, t) in terms if t is not None]
    if not terms:
        return {}
    os.makedirs(workdir, exist_ok=True)
    out = {}
    ns = min(lib.NPROC, max(1, len(terms) // 40 + 1))
    shards = [terms[k::ns] for k in range(ns)]
    procs = []
    for k, sh in enumerate(shards):
        if not sh:
            continue
        p = os.path.join(workdir, 'kcases%d.v' % k)
        with open(p, 'w') as f:
            f.write(HEADER)
            for (i, t) in sh:
                f.write('Eval vm_compute in (%s).\n' % t)
        procs.append((sh, p, subprocess.Popen(['coqc', '-noglob', '-Q', os.path.join(lib.COQ, 'theories'), 'RL', p],
                                              stdout=subprocess.PIPE, stderr=subprocess.STDOUT, text=True)))
    for sh, p, pr in procs:
        try:
            txt, _ = pr.communicate(timeout=timeout)
        except subprocess.TimeoutExpired:
            pr.kill()
            txt = ''
        vals = re.findall(r'^\s+= "((?:[^"]|"")*)"\s*\n\s+: string', txt, re.M)
        if len(vals) == len(sh):
            for (i, _), v in zip(sh, vals):
                out[i] = v.replace('""', '"')
        else:
            out['error'] = txt[-1500:]
        for ext in ('.v', '.vo', '.vok', '.vos', '.glob'):
            try:
                os.remove(p[:-2] + ext)
            except OSError:
                pass
    return out
