"""Generators: values in the neutral text syntax, wire octets built field by field,
perturbations, grids.  Every random choice comes from the one PRNG passed in."""
import hashlib

MT = ['StartControlConnectionRequest', 'StartControlConnectionReply', 'StartControlConnectionConnected',
      'StopControlConnectionNotification', 'Hello', 'OutgoingCallRequest', 'OutgoingCallReply',
      'OutgoingCallConnected', 'IncomingCallRequest', 'IncomingCallReply', 'IncomingCallConnected',
      'CallDisconnectNotify', 'WanErrorNotify', 'SetLinkInfo']
MT_CODE = dict(zip(MT, [1, 2, 3, 4, 6, 7, 8, 9, 10, 11, 12, 14, 15, 16]))
ET = ['Ok', 'NoControlConnectionExists', 'WrongLength', 'OutOfRangeOrBadReserved', 'InsufficientResources',
      'InvalidSessionId', 'Generic', 'TryAnotherDestination', 'UnknownMandatoryAvp']
PA = ['Reserved', 'TextualUserNamePasswordExchange', 'PppChap', 'PppPap', 'NoAuthentication',
      'MicrosoftChapVersion1']
SC = ['Reserved', 'GeneralRequestToClearControlConnection', 'GeneralError', 'ControlChannelAlreadyExists',
      'RequesterNotAuthorizedToEstablishControlChannel', 'RequesterProtocolVersionUnsupported',
      'RequesterShutdown', 'FsmError']
CD = ['Reserved', 'CallDisconnectedLossOfCarrier', 'CallDisconnectedWithErrorCode',
      'CallDisconnectedAdministrative', 'CallFailedTemporarilyUnavailable', 'CallFailedPermanentlyUnavailable',
      'InvalidDestination', 'CallFailedNoCarrier', 'CallFailedBusySignal', 'CallFailedNoDialTone',
      'CallEstablishTimeout', 'CallNoFramingDetected']

# kind name -> (attribute type, shape)
KINDS = {
    'MessageType': (0, 'mt'), 'ResultCode': (1, 'rc'), 'ProtocolVersion': (2, 'pv'),
    'FramingCapabilities': (3, 'u32'), 'BearerCapabilities': (4, 'u32'), 'TieBreaker': (5, 'u64'),
    'FirmwareRevision': (6, 'u16'), 'HostName': (7, 'bytes'), 'VendorName': (8, 'str'),
    'AssignedTunnelId': (9, 'u16'), 'ReceiveWindowSize': (10, 'u16'), 'Challenge': (11, 'bytes'),
    'Q931CauseCode': (12, 'q931'), 'ChallengeResponse': (13, 'fix16'), 'AssignedSessionId': (14, 'u16'),
    'CallSerialNumber': (15, 'u32'), 'MinimumBps': (16, 'u32'), 'MaximumBps': (17, 'u32'),
    'BearerType': (18, 'u32'), 'FramingType': (19, 'u32'), 'CalledNumber': (21, 'str'),
    'CallingNumber': (22, 'str'), 'SubAddress': (23, 'str'), 'TxConnectSpeed': (24, 'u32'),
    'PhysicalChannelId': (25, 'fix4'), 'InitialReceivedLcpConfReq': (26, 'bytes'),
    'LastSentLcpConfReq': (27, 'bytes'), 'LastReceivedLcpConfReq': (28, 'bytes'),
    'ProxyAuthenType': (29, 'pa'), 'ProxyAuthenName': (30, 'bytes'), 'ProxyAuthenChallenge': (31, 'bytes'),
    'ProxyAuthenId': (32, 'paid'), 'ProxyAuthenResponse': (33, 'bytes'), 'CallErrors': (34, 'ce'),
    'Accm': (35, 'accm'), 'RandomVector': (36, 'fix4'), 'PrivateGroupId': (37, 'bytes'),
    'RxConnectSpeed': (38, 'u32'), 'SequencingRequired': (39, 'empty'),
}
TYPE_KIND = {t: k for k, (t, _) in KINDS.items()}
KIND_LIST = sorted(KINDS, key=lambda k: KINDS[k][0])
BITMASK = ['FramingCapabilities', 'BearerCapabilities', 'BearerType', 'FramingType']
SIZES = [1, 2, 15, 16, 17, 255, 256, 1016, 1017]


def be(n, k):
    return int(n).to_bytes(k, 'big')


# Dictionary harvested from the source: integer and string literals that occur in /repo's current non-test sources but
# not in the tree the model was validated against (py/lib.py: source_literals).  Empty on the unchanged tree, so the
# generators then behave exactly as without it; after a change, its literals become likely field values, sizes and
# payload contents (a condition on a magic constant is otherwise out of reach of random generation).
DICT = []
DICT_BYTES = []
RECENT = []      # recently drawn field values: reused now and then so that relations between fields (a == b, a == b +- 1) occur


def rbytes(rng, n):
    b = bytes(rng.getrandbits(8) for _ in range(n)) if n < 64 else rng.getrandbits(8 * n).to_bytes(n, 'big')
    if (DICT or DICT_BYTES) and n > 0 and rng.random() < 0.2:
        if DICT_BYTES and rng.random() < 0.5:
            s = rng.choice(DICT_BYTES)
        else:
            v = rng.choice(DICT) if DICT else 0
            k = rng.choice([1, 2, 4])
            s = (v & ((1 << (8 * k)) - 1)).to_bytes(k, 'big')
        if len(s) <= n:
            off = rng.choice([0, n - len(s), rng.randrange(0, n - len(s) + 1)])
            b = b[:off] + s + b[off + len(s):]
        elif rng.random() < 0.5:
            b = s[:n]
    return b


def extreme(rng, bits):
    m = (1 << bits) - 1
    if DICT and rng.random() < 0.3:
        v = rng.choice(DICT) + rng.choice([0, 0, 0, 1, -1])
        RECENT.append(v & m)
        return v & m
    if RECENT and rng.random() < (0.15 if DICT else 0.06):
        small = [d for d in DICT if d <= 64]
        delta = rng.choice([0, 0, 1, -1] + small + [-d for d in small])
        v = (rng.choice(RECENT[-6:]) + delta) & m
        return v
    v = _extreme(rng, bits)
    RECENT.append(v)
    if len(RECENT) > 64:
        del RECENT[:32]
    return v


def _extreme(rng, bits):
    m = (1 << bits) - 1
    c = rng.random()
    if c < 0.35:
        return rng.choice([0, 1, 2, m, m - 1, 1 << (bits - 1), (1 << (bits - 1)) - 1, 255, 256 & m, 0x0102 & m])
    if c < 0.5:
        return 1 << rng.randrange(bits)
    return rng.getrandbits(bits)


CPS = [0x00, 0x41, 0x7f, 0x80, 0x7ff, 0x800, 0xd7ff, 0xe000, 0xfffd, 0xffff, 0x10000, 0x10ffff, 0x20ac, 0xe9,
       0x20, 0x0a, 0x0d, 0x09, 0xa0, 0x85, 0x3000, 0x2028, 0xfeff]
WS = [b' ', b'\n', b'\r\n', b'\t', b'\xc2\xa0', b'\xe3\x80\x80', b'  ', b'\x00', b'\xef\xbb\xbf', b'\xef\xbb\xbf', b'\xef\xbb\xbf\xef\xbb\xbf']


def rutf8(rng, nbytes):
    """valid UTF-8 of exactly nbytes octets (nbytes >= 0)"""
    out = b''
    # sometimes begin or end with white space (trimming must not happen anywhere)
    head = rng.choice(WS) if nbytes >= 4 and rng.random() < 0.12 else b''
    tail = rng.choice(WS) if nbytes >= 4 and rng.random() < 0.2 else b''
    if head or tail:
        mid = rutf8(rng, nbytes - len(head) - len(tail))
        return head + mid + tail
    while len(out) < nbytes:
        left = nbytes - len(out)
        cp = rng.choice(CPS) if rng.random() < 0.5 else rng.randrange(0x110000)
        if 0xd800 <= cp <= 0xdfff:
            continue
        e = chr(cp).encode('utf-8')
        if len(e) <= left:
            out += e
    return out


# every place a text is carried: (attribute type, fixed octets before the text)
STRING_SITES = [(8, 0), (21, 0), (22, 0), (23, 0), (1, 4), (12, 3)]
UTF8_DEFECTS = [('cut2', b'\xc3'), ('cut3a', b'\xe2'), ('cut3b', b'\xe2\x82'), ('cut4a', b'\xf0'), ('cut4b', b'\xf0\x9f'),
                ('cut4c', b'\xf0\x9f\x98'), ('ff', b'\xff'), ('cont', b'\x80'), ('overlong2', b'\xc0\x80'), ('overlong3', b'\xe0\x9f\x80'),
                ('surrogate', b'\xed\xa0\x80'), ('above', b'\xf4\x90\x80\x80'), ('f5', b'\xf5')]
UTF8_ENDINGS = [('end1', b'z'), ('end2', b'\xc3\xa9'), ('end3', b'\xe2\x82\xac'), ('end4', b'\xf0\x9f\x98\x80')]


def string_prefix(rng, t):
    if t == 1:
        return be(extreme(rng, 16), 2) + be(rng.randrange(9), 2)
    if t == 12:
        return rbytes(rng, 3)
    return b''


def utf8_grid(rng):
    """-> [(tag, attribute type, payload, valid?)]: every text site x text length {just the sequence, a few blocks, the most one AVP
    holds} x every class of UTF-8 defect (or a complete 1..4-octet character) x position {first, middle, last}"""
    out, seen = [], set()
    for (t, fixed) in STRING_SITES:
        for cls_, n in (('min', 0), ('mid', rng.randrange(17, 60)), ('max', 1017 - fixed)):
            for (dn, d), ok in [(x, False) for x in UTF8_DEFECTS] + [(x, True) for x in UTF8_ENDINGS]:
                room = max(n, len(d)) - len(d)
                for pos in ('first', 'middle', 'last'):
                    k = {'first': 0, 'middle': room // 2, 'last': room}[pos]
                    key = (t, cls_, dn, k)
                    if key in seen:
                        continue
                    seen.add(key)
                    text = rutf8_plain(rng, k) + d + rutf8_plain(rng, room - k)
                    out.append(('utf8_%s_%s_%s' % (cls_, dn, pos), t, string_prefix(rng, t) + text, ok))
    return out


def rutf8_plain(rng, nbytes):
    """valid UTF-8 of exactly nbytes octets, complete characters only, no white-space decoration"""
    out = b''
    while len(out) < nbytes:
        e = chr(rng.choice([0x41, 0x7a, 0xe9, 0x20ac, 0x1f600, 0x30, 0x7f, 0x80, 0x7ff, 0x800, 0xffff, 0x10000])).encode('utf-8')
        if len(e) <= nbytes - len(out):
            out += e
    return out


def rstruct(rng, n):
    """n octets of self-similar length-prefixed content (what an opaque field that carries another protocol's packet looks
    like: LCP code/identifier/length, option type/length, a 16-bit length in front): the same layout, code octet and
    length convention repeat at every nesting level, so that a reader which strips or interprets one level meets another"""
    layout = rng.choice(['cil', 'cil', 'tl', 'l16', 't16l16'])
    code = rng.choice([0, 1, 1, 2, 3, 4, 255, rng.getrandbits(8)])
    incl = rng.random() < 0.6          # the length counts the header too
    hdr = {'cil': 4, 'tl': 2, 'l16': 2, 't16l16': 4}[layout]
    depth = rng.choice([1, 2, 2, 3, 4])

    def level(m, d):
        if m < hdr + 1 or d == 0:
            return rbytes(rng, m)
        body = level(m - hdr, d - 1)
        ln = m if incl else m - hdr
        if layout == 'cil':
            return bytes([code, rng.getrandbits(8)]) + be(ln & 0xffff, 2) + body
        if layout == 'tl':
            return bytes([code, ln & 0xff]) + body
        if layout == 'l16':
            return be(ln & 0xffff, 2) + body
        return be(code, 2) + be(ln & 0xffff, 2) + body
    tail = rng.choice([0, 0, 0, rng.randrange(0, 4)]) if n > hdr + 4 else 0
    return level(n - tail, depth) + rbytes(rng, tail)


def ropaque(rng, n):
    """the content of an opaque octet field: mostly random, sometimes nested length-prefixed, sometimes with filler runs"""
    c = rng.random()
    if c < 0.15 and n >= 5:
        return rstruct(rng, n)
    if c < 0.22 and n >= 2:
        return rpadded(rng, n)
    return rbytes(rng, n)


def rpadded(rng, n):
    """n octets that begin or end with a run of one filler octet (what trimming would remove)"""
    f = bytes([rng.choice([0, 0, 0x20, 0xff])])
    k = rng.randrange(1, max(2, min(n, 6)))
    core = rbytes(rng, max(0, n - k))
    return (core + f * k if rng.random() < 0.6 else f * k + core)[:n]


def rsize(rng, lo=1, hi=1017):
    if DICT and rng.random() < 0.2:
        v = rng.choice(DICT) + rng.choice([0, 0, 1, -1, -2, -6])
        if lo <= v <= hi:
            return v
    c = rng.random()
    if c < 0.3:
        return max(lo, min(hi, rng.choice(SIZES)))
    if c < 0.8:
        return max(lo, min(hi, rng.randrange(lo, 40)))
    return rng.randrange(lo, hi + 1)


def opt_hex(b):
    return '-' if b is None else 'x' + b.hex()


# ------------------------------------------------------------------ values (text)
def rand_avp(rng, kind=None, maxpay=1017, allow_hidden=True, small=False):
    """-> text of a random AVP in the encodable domain (payload <= maxpay)."""
    if kind is None:
        kind = rng.choice(KIND_LIST + (['Hidden'] * 3 if allow_hidden else []))
    sz = (lambda lo, hi: rng.randrange(lo, min(hi, 12) + 1)) if small else (lambda lo, hi: rsize(rng, lo, hi))
    if kind == 'Hidden':
        t = rng.choice([rng.randrange(0, 41), extreme(rng, 16)])
        n = rng.choice([0, 16, 32, 48, sz(0, maxpay), sz(0, maxpay)])
        return 'Hidden(%d,%s)' % (t, rbytes(rng, min(n, maxpay)).hex())
    shape = KINDS[kind][1]
    if shape == 'mt':
        return 'MessageType(%s)' % rng.choice(MT)
    if shape == 'rc':
        code = extreme(rng, 16) if rng.random() < 0.5 else rng.randrange(0, 14)
        c = rng.random()
        if c < 0.3:
            return 'ResultCode(%d,-)' % code
        et = rng.choice(ET)
        if c < 0.55:
            return 'ResultCode(%d,%s,-)' % (code, et)
        return 'ResultCode(%d,%s,x%s)' % (code, et, rutf8(rng, sz(1, maxpay - 4)).hex())
    if shape == 'pv':
        return 'ProtocolVersion(%d,%d)' % (extreme(rng, 8), extreme(rng, 8))
    if shape == 'u16':
        return '%s(%d)' % (kind, extreme(rng, 16))
    if shape == 'u32':
        return '%s(%d)' % (kind, extreme(rng, 32))
    if shape == 'u64':
        return 'TieBreaker(%d)' % extreme(rng, 64)
    if shape == 'bytes':
        return '%s(%s)' % (kind, ropaque(rng, sz(1, maxpay)).hex())
    if shape == 'str':
        return '%s(%s)' % (kind, rutf8(rng, sz(1, maxpay)).hex())
    if shape == 'fix16':
        return '%s(%s)' % (kind, rbytes(rng, 16).hex())
    if shape == 'fix4':
        return '%s(%s)' % (kind, rbytes(rng, 4).hex())
    if shape == 'q931':
        adv = None if rng.random() < 0.4 else rutf8(rng, sz(1, maxpay - 3))
        return 'Q931CauseCode(%d,%d,%s)' % (extreme(rng, 16), extreme(rng, 8), opt_hex(adv))
    if shape == 'pa':
        return 'ProxyAuthenType(%s)' % rng.choice(PA)
    if shape == 'paid':
        return 'ProxyAuthenId(%d)' % extreme(rng, 8)
    if shape == 'ce':
        return 'CallErrors(%s)' % ','.join(str(extreme(rng, 32)) for _ in range(6))
    if shape == 'accm':
        return 'Accm(%s,%s)' % (rbytes(rng, 4).hex(), rbytes(rng, 4).hex())
    if shape == 'empty':
        return 'SequencingRequired()'
    raise ValueError(kind)


def avp_kind(text):
    return text.split('(', 1)[0]


def avp_type(text):
    k = avp_kind(text)
    if k == 'Hidden':
        return int(text[7:].split(',')[0])
    return KINDS[k][0]


def rand_ctrl(rng, navps=None, first_mt=True, small=False, maxpay=1017):
    if navps is None:
        navps = rng.choice([0, 1, 2, 3, 5, 8, rng.randrange(0, 20)])
    avps = []
    if navps > 0:
        avps.append(rand_avp(rng, 'MessageType') if first_mt else rand_avp(rng, small=small, maxpay=maxpay))
    for _ in range(navps - 1):
        avps.append(rand_avp(rng, small=small or rng.random() < 0.6, maxpay=maxpay))
    if navps >= 1 and rng.random() < 0.12:
        # AVPs that belong together carry related values (equal speeds, equal ids, min <= max ...)
        v = extreme(rng, 32)
        w = rng.choice([v, v, (v + 1) & 0xffffffff, extreme(rng, 32)])
        rel = rng.choice([('TxConnectSpeed(%d)' % v, 'RxConnectSpeed(%d)' % w), ('MinimumBps(%d)' % v, 'MaximumBps(%d)' % w),
                          ('AssignedTunnelId(%d)' % (v & 0xffff), 'AssignedSessionId(%d)' % (w & 0xffff)),
                          ('CallSerialNumber(%d)' % v, 'TxConnectSpeed(%d)' % w)])
        if first_mt:
            avps[0] = 'MessageType(%s)' % rng.choice(['IncomingCallConnected', 'OutgoingCallConnected', 'IncomingCallRequest', 'OutgoingCallRequest'])
        pos = rng.randrange(1, len(avps) + 1)
        avps[pos:pos] = list(rel) if rng.random() < 0.7 else list(rel)[::-1]
    return ctrl_text(extreme(rng, 16), extreme(rng, 16), extreme(rng, 16), extreme(rng, 16), extreme(rng, 16), avps)


def ctrl_text(length, tid, sid, ns, nr, avps):
    return 'C(%d,%d,%d,%d,%d,[%s])' % (length, tid, sid, ns, nr, ';'.join(avps))


def ctrl_parts(text):
    """'C(l,t,s,ns,nr,[..])' -> (l,t,s,ns,nr,'[..]')"""
    inner = text[2:-1]
    p = inner.split(',', 5)
    return int(p[0]), int(p[1]), int(p[2]), int(p[3]), int(p[4]), p[5]


def ctrl_with_length(text, length):
    l, t, s, ns, nr, avps = ctrl_parts(text)
    return 'C(%d,%d,%d,%d,%d,%s)' % (length, t, s, ns, nr, avps)


def data_text(prio, length, tid, sid, nsnr, offset, data):
    return 'D(%d,%s,%d,%d,%s,%s,%s)' % (
        1 if prio else 0, '-' if length is None else str(length), tid, sid,
        '-' if nsnr is None else '%d:%d' % nsnr, '-' if offset is None else str(offset), data.hex())


def data_total(length_present, nsnr, offset, ndata):
    return 2 + (2 if length_present else 0) + 4 + (4 if nsnr is not None else 0) + (2 if offset is not None else 0) + ndata


def rand_data(rng, exact_length=True):
    """data message in C04's domain: |data|>0, length None or exact, offset None or n<=|data|-1"""
    nd = rng.choice([1, 2, 3, rsize(rng, 1, 300), rsize(rng, 1, 2000)])
    payload = rbytes(rng, nd)
    nsnr = None if rng.random() < 0.5 else (extreme(rng, 16), extreme(rng, 16))
    off = None if rng.random() < 0.5 else rng.choice([0, nd - 1, rng.randrange(0, nd)])
    has_len = rng.random() < 0.5
    length = data_total(True, nsnr, off, nd) if has_len else None
    if length is not None and length > 65535:
        length = None
    return (rng.random() < 0.5, length, extreme(rng, 16), extreme(rng, 16), nsnr, off, payload)


# ------------------------------------------------------------------ wire octets
def avp_rec(t, payload, m=1, h=0, rsv=0, vendor=0, length=None):
    L = 6 + len(payload) if length is None else length
    o1 = (((L >> 8) & 3) << 6) | ((rsv & 0xf) << 2) | ((h & 1) << 1) | (m & 1)
    return bytes([o1, L & 0xff]) + be(vendor, 2) + be(t, 2) + payload


def ctrl_bytes(body, flags=0x1320, length=None, tid=1, sid=2, ns=3, nr=4):
    L = 12 + len(body) if length is None else length
    return be(flags, 2) + be(L & 0xffff, 2) + be(tid, 2) + be(sid, 2) + be(ns, 2) + be(nr, 2) + body


def flags_word(control=False, L=False, S=False, O=False, P=False, version=2, reserved=0):
    w = (version & 0xf) << 4
    if control:
        w |= 1 << 8
    if L:
        w |= 1 << 9
    if S:
        w |= 1 << 12
    if O:
        w |= 1 << 14
    if P:
        w |= 1 << 15
    return w | reserved


RESERVED_BITS = [0, 1, 2, 3, 10, 11, 13]
RESERVED_MASK = sum(1 << i for i in RESERVED_BITS)


def data_bytes(payload, L=False, S=False, O=False, P=False, length=None, offset_size=0, pad=None,
               tid=1, sid=2, ns=3, nr=4, version=2, reserved=0):
    hdr = be(flags_word(False, L, S, O, P, version, reserved), 2)
    body = b''
    body += be(tid, 2) + be(sid, 2)
    if S:
        body += be(ns, 2) + be(nr, 2)
    if O:
        body += be(offset_size, 2) + (pad if pad is not None else bytes(offset_size))
    total = 2 + (2 if L else 0) + len(body) + len(payload)
    if L:
        hdr += be((total if length is None else length) & 0xffff, 2)
    return hdr + body + payload


def valid_payload(rng, t, n=None):
    """a payload that decodes for attribute type t (None when t is unassigned)"""
    if t not in TYPE_KIND:
        return None
    shape = KINDS[TYPE_KIND[t]][1]
    sz = n if n is not None else rsize(rng, 1, 60)
    if shape == 'mt':
        return be(rng.choice(list(MT_CODE.values())), 2)
    if shape == 'rc':
        c = rng.random()
        if c < 0.3:
            return be(extreme(rng, 16), 2)
        if c < 0.6:
            return be(extreme(rng, 16), 2) + be(rng.randrange(9), 2)
        return be(extreme(rng, 16), 2) + be(rng.randrange(9), 2) + rutf8(rng, sz)
    if shape == 'pv':
        return rbytes(rng, 2)
    if shape == 'u16':
        return rbytes(rng, 2)
    if shape == 'u32':
        return rbytes(rng, 4)
    if shape == 'u64':
        return rbytes(rng, 8)
    if shape == 'bytes':
        return ropaque(rng, sz)
    if shape == 'str':
        return rutf8(rng, sz)
    if shape == 'fix16':
        return rbytes(rng, 16)
    if shape == 'fix4':
        return rbytes(rng, 4)
    if shape == 'q931':
        return rbytes(rng, 3) + (rutf8(rng, sz) if rng.random() < 0.6 else b'')
    if shape == 'pa':
        return be(rng.randrange(6), 2)
    if shape == 'paid':
        return rbytes(rng, 2)
    if shape == 'ce':
        return rbytes(rng, 26)
    if shape == 'accm':
        return rbytes(rng, 10)
    if shape == 'empty':
        return b''
    raise ValueError(t)


MIN_LEN = {'mt': 2, 'rc': 2, 'pv': 2, 'u16': 2, 'u32': 4, 'u64': 8, 'bytes': 1, 'str': 1, 'fix16': 16,
           'fix4': 4, 'q931': 3, 'pa': 2, 'paid': 2, 'ce': 26, 'accm': 10, 'empty': 0}


def good_record(rng, t=None, nonmt=False):
    if t is None:
        t = rng.choice([x for x in TYPE_KIND if not (nonmt and x == 0)])
    p = valid_payload(rng, t)
    extra = b''
    shape = KINDS[TYPE_KIND[t]][1]
    if shape in ('mt', 'pv', 'u16', 'u32', 'u64', 'fix16', 'fix4', 'pa', 'paid', 'ce', 'accm', 'empty') and rng.random() < 0.15:
        extra = rbytes(rng, rng.randrange(1, 5))  # surplus octets, ignored by fixed-size readers
    return avp_rec(t, p + extra, m=rng.choice([1, 1, 0]), rsv=rng.choice([0, 0, 0, rng.randrange(16)]))


BAD_KINDS = ['truncated', 'unknown_type', 'unknown_mt', 'vendor', 'bad_utf8', 'bad_errtype', 'bad_pa']


def bad_record(rng, kind=None):
    """-> (octets, kind) a well-delimited record that is individually undecodable"""
    kind = kind or rng.choice(BAD_KINDS)
    if kind == 'truncated':
        t = rng.choice([x for x in TYPE_KIND if MIN_LEN[KINDS[TYPE_KIND[x]][1]] > 0])
        need = MIN_LEN[KINDS[TYPE_KIND[t]][1]]
        return avp_rec(t, rbytes(rng, rng.randrange(0, need))), kind
    if kind == 'unknown_type':
        t = rng.choice([20, 40, 41, 255, 256, 65535, rng.randrange(40, 65536)])
        return avp_rec(t, rbytes(rng, rng.randrange(0, 12))), kind
    if kind == 'unknown_mt':
        c = rng.choice([0, 5, 13, 17, 255, 65535, rng.randrange(17, 65536)])
        return avp_rec(0, be(c, 2)), kind
    if kind == 'vendor':
        v = rng.choice([1, 9, 311, 65535, rng.randrange(1, 65536)])
        return avp_rec(rng.randrange(0, 45), rbytes(rng, rng.randrange(0, 20)), vendor=v, h=rng.choice([0, 0, 1])), kind
    if kind == 'bad_utf8':
        t = rng.choice([8, 21, 22, 23])
        bad = rng.choice([b'\xff', b'\xc0\x80', b'\xe0\x9f\x80', b'\xed\xa0\x80', b'\xf0\x8f\x80\x80',
                          b'\xf4\x90\x80\x80', b'\xc2', b'\xe2\x82', b'\x80', b'ab\xf5'])
        return avp_rec(t, rutf8(rng, rng.randrange(0, 5)) + bad + rutf8(rng, rng.randrange(0, 3))), kind
    if kind == 'bad_errtype':
        e = rng.choice([9, 10, 255, 256, 65535, rng.randrange(9, 65536)])
        return avp_rec(1, be(extreme(rng, 16), 2) + be(e, 2) + rutf8(rng, rng.randrange(0, 6))), kind
    if kind == 'bad_pa':
        e = rng.choice([6, 7, 255, 65535, rng.randrange(6, 65536)])
        return avp_rec(29, be(e, 2)), kind
    raise ValueError(kind)


def mt_record(rng):
    return avp_rec(0, be(rng.choice(list(MT_CODE.values())), 2))


def rand_body(rng, n=None, good_only=True):
    n = rng.randrange(0, 8) if n is None else n
    recs = []
    for i in range(n):
        if i == 0:
            recs.append(mt_record(rng))
        elif good_only or rng.random() < 0.7:
            recs.append(good_record(rng, nonmt=False))
        else:
            recs.append(bad_record(rng)[0])
    if recs and rng.random() < 0.1:
        # records that belong together carry related values (Tx/Rx connect speed, min/max bps, tunnel/session id)
        v = extreme(rng, 32)
        w = rng.choice([v, v, (v + 1) & 0xffffffff, extreme(rng, 32)])
        a, b, k = rng.choice([(24, 38, 4), (16, 17, 4), (9, 14, 2), (15, 24, 4)])
        pair = [avp_rec(a, be(v & (256 ** k - 1), k)), avp_rec(b, be(w & (256 ** k - 1), k))]
        if rng.random() < 0.3:
            pair.reverse()
        recs[0] = avp_rec(0, be(rng.choice([12, 9, 10, 7]), 2))
        pos = rng.randrange(1, len(recs) + 1)
        recs[pos:pos] = pair
    return recs


def rand_valid_ctrl_bytes(rng, n=None, noncanon=False):
    recs = rand_body(rng, n)
    body = b''.join(recs)
    fl = 0x1320
    return ctrl_bytes(body, fl, None, extreme(rng, 16), extreme(rng, 16), extreme(rng, 16), extreme(rng, 16))


def rand_valid_data_bytes(rng):
    L, S, O, P = (rng.random() < 0.5 for _ in range(4))
    osz = rng.choice([0, 1, 2, 7]) if O else 0
    return data_bytes(rbytes(rng, rsize(rng, 1, 80)), L, S, O, P, None, osz, rbytes(rng, osz),
                      extreme(rng, 16), extreme(rng, 16), extreme(rng, 16), extreme(rng, 16))


def perturb(rng, b):
    """one structural perturbation of an octet string"""
    b = bytearray(b)
    c = rng.randrange(10)
    if c == 9 and len(b) >= 12 and b[0] & 0x01:
        # a control message: padding octets (zeros, or a copy of the flag word) inserted at a structural boundary -- after
        # the header or between two AVP records -- with the Length field adjusted, and now and then the O or P bit set
        pos, i = [12], 12
        while i + 6 <= len(b):
            n = ((b[i] >> 6) << 8) | b[i + 1]
            if n < 6 or i + n > len(b):
                break
            i += n
            pos.append(i)
        at = rng.choice(pos)
        pad = bytes(rng.choice([1, 2, 2, 4, 6, 8])) if rng.random() < 0.8 else bytes(b[0:2])
        b[at:at] = pad
        L = int.from_bytes(b[2:4], 'big') + len(pad)
        b[2:4] = be(L & 0xffff, 2)
        if rng.random() < 0.5:
            b[0] |= rng.choice([0x40, 0x80, 0xc0])
        return bytes(b)
    if c == 0 and len(b) > 0:
        return bytes(b[:rng.randrange(len(b))])
    if c == 1 and len(b) >= 4:
        v = rng.choice([0, 1, 5, 6, 11, 12, 13, len(b) - 2, len(b) - 1, len(b), len(b) + 1, len(b) + 2, 1023, 65535])
        b[2:4] = be(max(0, v) & 0xffff, 2)
        return bytes(b)
    if c == 2 and len(b) > 0:
        i = rng.randrange(len(b))
        b[i] ^= 1 << rng.randrange(8)
        return bytes(b)
    if c == 3 and len(b) >= 14:
        # rewrite an AVP length field somewhere plausible (first AVP)
        v = rng.choice([0, 1, 5, 6, 7, 8, 1023, len(b) - 12, len(b) - 11, len(b) - 13])
        v = max(0, v) & 1023
        b[12] = (b[12] & 0x3f) | ((v >> 8) << 6)
        b[13] = v & 0xff
        return bytes(b)
    if c == 4:
        return bytes(b) + rbytes(rng, rng.randrange(1, 20))
    if c == 5 and len(b) > 0:
        i = rng.randrange(len(b))
        b[i] = rng.getrandbits(8)
        return bytes(b)
    if c == 6 and len(b) >= 2:
        b[0:2] = be(rng.getrandbits(16), 2)
        return bytes(b)
    if c == 7 and len(b) > 2:
        i = rng.randrange(len(b))
        del b[i]
        return bytes(b)
    if len(b) > 0:
        i = rng.randrange(len(b))
        b[i:i] = rbytes(rng, rng.randrange(1, 4))
    return bytes(b)


def all_prefixes(b):
    return [b[:i] for i in range(len(b) + 1)]


# ------------------------------------------------------------------ RFC 2661 4.3 in Python (hashlib MD5)
def ref_hide_value(t, payload, secret, rv, lp, ap):
    plain = be(6 + len(payload), 2) + payload + lp
    k = (16 - len(plain) % 16) % 16
    plain += ap[:k]
    out, prev = b'', None
    for i in range(0, len(plain), 16):
        key = hashlib.md5((be(t, 2) + secret + rv) if i == 0 else (secret + prev)).digest()
        prev = bytes(x ^ y for x, y in zip(plain[i:i + 16], key))
        out += prev
    return out


def ref_decrypt(t, value, secret, rv):
    out = b''
    for i in range(0, len(value), 16):
        key = hashlib.md5((be(t, 2) + secret + rv) if i == 0 else (secret + value[i - 16:i])).digest()
        out += bytes(x ^ y for x, y in zip(value[i:i + 16], key))
    return out


def ref_encrypt_plain(t, plain, secret, rv):
    out, prev = b'', None
    for i in range(0, len(plain), 16):
        key = hashlib.md5((be(t, 2) + secret + rv) if i == 0 else (secret + prev)).digest()
        prev = bytes(x ^ y for x, y in zip(plain[i:i + 16], key))
        out += prev
    return out
