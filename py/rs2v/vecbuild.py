"""The slice/Vec part of the source tie: SliceReader, VecWriter, AVP::hide and AVP::reveal regenerated from the current
source by rs2v/vec.py, with the kernel-checked statement that ties each to the Model (Proofs/GenVec.v has the lemmas)."""
import os
from . import vec
from .vec import SV
from .rsparse import Unsupported

HEADER = ('From Coq Require Import NArith List Bool Lia.\n'
          'From RL Require Import Model.Decode Model.Encode Model.Hide Model.VecOps Proofs.ReaderLemmas Proofs.BytesLemmas '
          'Proofs.GenSupport Proofs.GenVec Proofs.Md5Facts.\nImport ListNotations. Open Scope N_scope.\n')

# SliceReader method -> (parameters, result type, the Model's list reader operation it must equal)
SR = [('is_empty', [], 'bool * list N', 'Val (match data with [] => true | _ => false end, data)'),
      ('len', [], 'N * list N', 'Val (len data, data)'),
      ('subreader', [('length', 'N')], 'list N * list N', 'r_sub ListReader length data'),
      ('skip_bytes', [('length', 'N')], 'list N', 'r_skip ListReader length data'),
      ('bytes', [('length', 'N')], 'option (list N) * list N', 'r_bytes ListReader length data'),
      ('read_u8_unchecked', [], 'N * list N', 'lr_read 1 data'),
      ('read_u16_be_unchecked', [], 'N * list N', 'lr_read 2 data'),
      ('read_u32_be_unchecked', [], 'N * list N', 'lr_read 4 data'),
      ('read_u64_be_unchecked', [], 'N * list N', 'lr_read 8 data')]
# VecWriter method -> (parameters (name, Coq type, Rust type), result type, statement, proof)
VW = [('len', [], 'N * list N', 'forall w, gen_vw_len (w_data w) = Val (w_len w, w_data w)', 'intros. reflexivity.'),
      ('is_empty', [], 'bool * list N',
       'forall w, gen_vw_is_empty (w_data w) = Val (match w_data w with [] => true | _ => false end, w_data w)', 'intros. reflexivity.'),
      ('write_bytes', [('bytes', 'list N', 'list')], 'list N',
       'forall w bytes, gen_vw_write_bytes (w_data w) bytes = Val (w_data (w_bytes bytes w))', 'intros. reflexivity.'),
      ('write_bytes_at', [('bytes', 'list N', 'list'), ('offset', 'N', 'usize')], 'list N',
       'forall w bytes offset, gen_vw_write_bytes_at (w_data w) bytes offset = omap w_data (w_bytes_at bytes offset w)',
       'intros. unfold gen_vw_write_bytes_at. vw_at_tie.'),
      ('write_u8', [('value', 'N', 'u8')], 'list N',
       'forall w value, value < 256 -> gen_vw_write_u8 (w_data w) value = Val (w_data (w_u8 value w))',
       'intros w value H. unfold gen_vw_write_u8, w_u8, w_bytes. cbn [w_data]. rewrite N.mod_small by exact H. reflexivity.'),
      ('write_u16_be', [('value', 'N', 'u16')], 'list N',
       'forall w value, gen_vw_write_u16_be (w_data w) value = Val (w_data (w_u16 value w))', 'intros. reflexivity.'),
      ('write_u32_be', [('value', 'N', 'u32')], 'list N',
       'forall w value, gen_vw_write_u32_be (w_data w) value = Val (w_data (w_u32 value w))', 'intros. reflexivity.'),
      ('write_u64_be', [('value', 'N', 'u64')], 'list N',
       'forall w value, gen_vw_write_u64_be (w_data w) value = Val (w_data (w_u64 value w))', 'intros. reflexivity.')]

TIE_REVEAL = r"""Lemma tie : forall a secret rv, gen_reveal a secret rv = m_reveal md5 a secret rv.
Proof.
  intros a secret rv. unfold gen_reveal, m_reveal. destruct a; try reflexivity.
  match goal with |- context [is_nil ?v] => rename v into hv end.
  destruct hv as [|x0 v0] eqn:EV; [reflexivity|]. cbn [is_nil]. rewrite <- EV. clear EV x0 v0.
  destruct (negb (len hv mod 16 =? 0)); [reflexivity|]. cbv zeta.
  rewrite obind_snd2.
  match goal with |- obind ?X _ = obind ?Y _ => assert (EL : X = Y) end.
  { destruct (1 <? len hv / 16); [|reflexivity]. unfold for_range_rev.
    match goal with |- context [for_loop_rev _ _ ?F _] => change F with (reveal_step secret) end.
    apply reveal_outer. rewrite app_nil_l. apply takeN_all. lia. }
  rewrite EL. clear EL.
  match goal with |- obind ?Y _ = _ => destruct Y as [d1| | |] end; cbn [obind]; try reflexivity.
  match goal with |- context [for_range 0 16 ?F d1] => change F with (xor_body 0 (md5 ((([] ++ be16 t) ++ secret) ++ rv))) end.
  rewrite xor_loop_is_xor16_at by apply md5_len.
  rewrite app_nil_l, <- app_assoc.
  destruct (xor16_at d1 0 (md5 (be16 t ++ secret ++ rv))) as [d2| | |]; cbn [obind]; try reflexivity.
  unfold reveal_tail, u16_, len_, sub_, usub. cbn [bind run]. rewrite lr_read2_as_vec.
  destruct (v_unchecked_to d2 2) as [s2| | |]; cbn [obind omap]; try reflexivity.
  destruct (v_from d2 2) as [s3| | |]; cbn [obind omap]; try reflexivity.
  generalize (be_val 0 s2); intros x.
  destruct (6 <=? x) eqn:E1; destruct (x <=? 1023) eqn:E2; destruct (x <? 6) eqn:E3; destruct (1023 <? x) eqn:E4;
    cbn [negb andb orb run bind omap obind fst]; try reflexivity;
    try (exfalso; repeat match goal with H : (_ <=? _) = _ |- _ => first [apply N.leb_le in H | apply N.leb_gt in H]
                                       | H : (_ <? _) = _ |- _ => first [apply N.ltb_lt in H | apply N.ltb_ge in H] end; lia).
  unfold v_to, v_from.
  destruct (len s3 <? x - 6) eqn:E5; cbn [run omap obind fst]; [reflexivity|].
  apply N.ltb_ge in E5. replace (x - 6 <=? len s3) with true by (symmetry; apply N.leb_le; exact E5). cbn [obind].
  destruct (run (decode_avp t) (takeN (x - 6) s3)) as [[r l']| | |]; reflexivity.
Qed.
"""
TIE_HIDE = r"""Lemma tie : forall a secret rv lp ap, gen_hide a secret rv lp ap = m_hide md5 a secret rv lp ap.
Proof.
  intros a secret rv lp ap. rewrite m_hide_if. unfold gen_hide.
  destruct (is_hidden a); [reflexivity|]. cbv zeta.
  generalize (wr_payload a (writer_of [])). intros w. unfold w_len.
  unfold w_bytes_at, w_len. cbn [w_data]. generalize (w_data w), (w_log w). intros d lg.
  rewrite (N.ltb_antisym 2 (len d)).
  destruct (2 <=? len d) eqn:E0; cbn [negb]; [|reflexivity]. apply N.leb_le in E0.
  unfold v_to at 1. replace (2 <=? len d) with true by (symmetry; apply N.leb_le; exact E0). cbn [obind].
  replace (2 <=? len d + 6) with true by (symmetry; apply N.leb_le; lia).
  rewrite (N.ltb_antisym (len d + 6 - 2) 1023).
  destruct (len d + 6 - 2 <=? 1023) eqn:E1; cbn [negb]; [|reflexivity].
  rewrite be16_mod.
  change (len (be16 (len d + 6 - 2))) with 2. change (0 + 2) with 2.
  replace (2 <=? len d) with true by (symmetry; apply N.leb_le; lia).
  replace (0 <=? len d) with true by (symmetry; apply N.leb_le; lia).
  unfold v_copy. change (len (be16 (len d + 6 - 2))) with 2. change (0 + 2) with 2.
  replace (2 <=? len d) with true by (symmetry; apply N.leb_le; lia).
  change (2 <=? 2) with true.
  change (takeN 2 (dropN 0 (be16 (len d + 6 - 2)))) with (be16 (len d + 6 - 2)).
  cbn [andb obind w_data].
  set (data2 := takeN 0 d ++ be16 (len d + 6 - 2) ++ dropN 2 d).
  replace (len (data2 ++ lp) mod 16 <=? 16) with true
    by (symmetry; apply N.leb_le; apply N.lt_le_incl, N.mod_lt; discriminate).
  set (cpl := (16 - len (data2 ++ lp) mod 16) mod 16).
  unfold v_to. rewrite (N.ltb_antisym cpl (len ap)).
  destruct (cpl <=? len ap); cbn [negb obind]; [|reflexivity].
  set (input2 := (data2 ++ lp) ++ takeN cpl ap).
  match goal with |- context [for_range 0 16 ?F input2] => change F with (xor_body 0 (md5 ((([] ++ takeN 2 d) ++ secret) ++ rv))) end.
  rewrite xor_loop_is_xor16_at by apply md5_len.
  rewrite app_nil_l, <- app_assoc.
  destruct (xor16_at input2 0 (md5 (takeN 2 d ++ secret ++ rv))) as [input3| | |]; cbn [obind]; try reflexivity.
  rewrite obind_snd3.
  match goal with |- obind ?X _ = obind ?Y _ => assert (EL : X = Y) end.
  { destruct (1 <? len input2 / 16); [|reflexivity]. unfold for_range.
    match goal with |- context [for_loop _ _ ?F _] => change F with (hide_step secret) end.
    apply hide_outer; [lia|]. rewrite app_nil_l. apply takeN_all. lia. }
  rewrite EL. reflexivity.
Qed.
"""


def hook_decode_avp(tr, args, env, k):
    """decode_avp(t, &mut SliceReader) inside reveal: the Model's per-type dispatch run on that reader's octets"""
    def f(vs, env2):
        t, r = vs
        if r.kind != 'struct' or r.sname != 'SliceReader':
            raise Unsupported('decode_avp reader argument')
        return tr.bind('omap fst (run (decode_avp %s) %s)' % (vec.paren(t.text), vec.paren(r.fields['data'].text)), 'res', k, env2, 'r')
    return tr.evs(args, env, f)


def hook_write(tr, args, env, k):
    """WritableAVP::write(avp, &mut VecWriter) inside hide: the Model's payload writer (tied separately, gen_wr_*)"""
    p = tr.place(args[1], env)

    def f(vs, env2):
        a, w = vs
        if a.kind != 'avp' or w.kind != 'struct' or w.sname != 'VecWriter' or p is None:
            raise Unsupported('WritableAVP::write arguments')
        d = w.fields['data'].text
        return tr.let('w_data (wr_payload %s (writer_of %s))' % (vec.paren(a.text), vec.paren(d)), 'list',
                      lambda nv, env3: k(vec.UNIT, tr.write((p[0], p[1] + ['data']), env3, nv)), env2, 'data')
    return tr.evs(args, env, f)


HOOKS = {'decode_avp': hook_decode_avp, 'WritableAVP::write': hook_write}


def load_macros(repo):
    macros = {}
    for d, _, fs in os.walk(os.path.join(repo, 'src')):
        for f in sorted(fs):
            if f.endswith('.rs') and f != 'tests.rs' and os.sep + 'tests' not in d:
                try:
                    macros.update(vec.load_macros(open(os.path.join(d, f)).read()))
                except Unsupported:
                    pass
    return macros


def translate(crate, repo):
    """-> (defs, ties, fails) for gen_sr_*, gen_vw_*, gen_reveal, gen_hide"""
    defs, ties, fails = {}, {}, {}
    macros = load_macros(repo)

    def method(impl, name, args):
        tr = vec.VTr(crate, macros, HOOKS)
        selfv = SV('struct', fields={'data': SV('list', 'data')}, sname=impl)

        def fin(v, s):
            if s is None or s.kind != 'struct' or set(s.fields) != {'data'}:
                raise Unsupported('self of %s' % impl)
            sd = s.fields['data'].text
            if v.kind == 'unit':
                return 'Val %s' % vec.paren(sd)
            return 'Val (%s, %s)' % (tr.flat(v), sd)
        return tr.method(impl, name, selfv, list(args), fin)

    def guard(name, f):
        try:
            f()
        except Unsupported as e:
            fails[name] = str(e)
        except RecursionError:
            fails[name] = 'recursion'
        except (KeyError, AttributeError, IndexError, TypeError, ValueError) as e:
            fails[name] = 'outside the supported subset (%s)' % repr(e)[:120]

    for name, ps, ty, model in SR:
        def one(name=name, ps=ps, ty=ty, model=model):
            st = crate['structs'].get('SliceReader')
            if st is None or [f for f, _ in st] != ['data']:
                raise Unsupported('SliceReader is no longer a struct with the single field data')
            body = method('SliceReader', name, [SV('N', p, ity='usize') for p, _ in ps])
            pt = ''.join(' (%s : %s)' % p for p in ps)
            vs = ''.join(' ' + p for p, _ in ps)
            g = 'gen_sr_%s' % name
            defs[g] = 'Definition %s (data : list N)%s : outcome (%s) :=\n  %s.\n' % (g, pt, ty, body)
            ties[g] = [('equal to the list reader operation',
                        'Lemma tie : forall data%s, %s data%s = %s.\nProof. intros. unfold %s. vec_tie. Qed.\n' % (vs, g, vs, model, g))]
        guard('gen_sr_%s' % name, one)
    for name, ps, ty, stmt, proof in VW:
        def one(name=name, ps=ps, ty=ty, stmt=stmt, proof=proof):
            st = crate['structs'].get('VecWriter')
            if st is None or [f for f, _ in st] != ['data']:
                raise Unsupported('VecWriter is no longer a struct with the single field data')
            body = method('VecWriter', name, [SV('list', p[0]) if p[2] == 'list' else SV('N', p[0], ity=p[2]) for p in ps])
            pt = ''.join(' (%s : %s)' % (p[0], p[1]) for p in ps)
            g = 'gen_vw_%s' % name
            defs[g] = 'Definition %s (data : list N)%s : outcome (%s) :=\n  %s.\n' % (g, pt, ty, body)
            ties[g] = [('equal to the writer model operation', 'Lemma tie : %s.\nProof. %s Qed.\n' % (stmt, proof))]
        guard('gen_vw_%s' % name, one)

    def avp_fn(name, args):
        tr = vec.VTr(crate, macros, HOOKS)
        return tr.method('AVP', name, SV('avp', 'a'), args, lambda v, s: 'Val %s' % vec.paren(tr.flat(v)))

    def rv():
        st = crate['structs'].get('RandomVector')
        if st is None or [f for f, _ in st] != ['value']:
            raise Unsupported('RandomVector is no longer a struct with the single field value')
        return SV('struct', fields={'value': SV('list', 'rv')}, sname='RandomVector')

    def reveal():
        body = avp_fn('reveal', [SV('list', 'secret'), rv()])
        defs['gen_reveal'] = 'Definition gen_reveal (a : avp) (secret rv : list N) : outcome (dres avp) :=\n  %s.\n' % body
        ties['gen_reveal'] = [('equal to m_reveal md5 for every AVP, secret and random vector', TIE_REVEAL)]
    guard('gen_reveal', reveal)

    def hide():
        body = avp_fn('hide', [SV('list', 'secret'), rv(), SV('list', 'lp'), SV('list', 'ap', slen=16)])
        defs['gen_hide'] = 'Definition gen_hide (a : avp) (secret rv lp ap : list N) : outcome avp :=\n  %s.\n' % body
        ties['gen_hide'] = [('equal to m_hide md5 for every AVP, secret, random vector and padding', TIE_HIDE)]
    guard('gen_hide', hide)
    return defs, ties, fails


NAMES = ['gen_sr_%s' % x[0] for x in SR] + ['gen_vw_%s' % x[0] for x in VW] + ['gen_reveal', 'gen_hide']

LINKED_TAIL = r"""
(** the reader regenerated from src/common/slice_reader.rs, as an implementation of the Reader trait *)
Definition GenSliceReader : ReaderImpl :=
  mkSliceReader gen_sr_len gen_sr_is_empty gen_sr_read_u8_unchecked gen_sr_read_u16_be_unchecked gen_sr_read_u32_be_unchecked
    gen_sr_read_u64_be_unchecked gen_sr_bytes gen_sr_skip_bytes gen_sr_subreader.

(** every decoder program behaves on it exactly as on the Model's list reader (whose misuse outcomes are UB / Panic) *)
Theorem regenerated_reader_is_list_reader : forall A (p : prog A) (l : list N), grun GenSliceReader p l = run p l.
Proof.
  apply mk_grun; intros.
  - unfold gen_sr_len. vec_tie.
  - unfold gen_sr_is_empty. vec_tie.
  - unfold gen_sr_read_u8_unchecked. vec_tie.
  - unfold gen_sr_read_u16_be_unchecked. vec_tie.
  - unfold gen_sr_read_u32_be_unchecked. vec_tie.
  - unfold gen_sr_read_u64_be_unchecked. vec_tie.
  - unfold gen_sr_bytes. vec_tie.
  - unfold gen_sr_skip_bytes. vec_tie.
  - unfold gen_sr_subreader. vec_tie.
Qed.
Theorem G_decode_on_regenerated_reader : forall o b, grun GenSliceReader (msg_read o) b = m_decode o b.
Proof. intros. apply regenerated_reader_is_list_reader. Qed.
Theorem G_C02_on_regenerated_reader : forall o b, bytes_ok b = true ->
  grun GenSliceReader (msg_read o) b <> UB /\ (forall k, grun GenSliceReader (msg_read o) b <> Panic k).
Proof.
  intros o b B. rewrite G_decode_on_regenerated_reader. destruct (decode_no_ub o b B) as [U [P _]]. split; assumption.
Qed.

(** AVP::hide and AVP::reveal regenerated from src/message/avp.rs ARE the Model's, so the hiding theorems hold of them *)
Theorem regenerated_reveal_is_model : forall a secret rv, gen_reveal a secret rv = m_reveal md5 a secret rv.
Proof. exact tie_reveal. Qed.
Theorem regenerated_hide_is_model : forall a secret rv lp ap, gen_hide a secret rv lp ap = m_hide md5 a secret rv lp ap.
Proof. exact tie_hide. Qed.
Theorem G_C11_hide_reveal : forall a secret rv lp ap, wf_avp a = true -> is_hidden a = false -> len ap = 16 ->
  exists h, gen_hide a secret rv lp ap = Val h /\ gen_reveal h secret rv = Val (Ok a).
Proof.
  intros a secret rv lp ap W Hh L. destruct (hide_then_reveal md5 md5_len a secret rv lp ap W Hh L) as [h [E R]].
  exists h. rewrite regenerated_hide_is_model, regenerated_reveal_is_model. auto.
Qed.
Theorem G_C12_hide_is_rfc : forall a secret rv lp ap,
  is_hidden a = false -> avp_fits a = true -> attr_type a < 65536 -> len ap = 16 ->
  gen_hide a secret rv lp ap = Val (AHidden (attr_type a) (s_hide_value md5 (attr_type a) (s_value a) secret rv lp ap)).
Proof. intros. rewrite regenerated_hide_is_model. apply (hide_refines md5 md5_len); assumption. Qed.
Theorem G_C12_reveal_is_rfc : forall t v secret rv, gen_reveal (AHidden t v) secret rv = Val (s_reveal md5 t v secret rv).
Proof. intros. rewrite regenerated_reveal_is_model. apply (reveal_refines md5 md5_len). Qed.
Theorem G_C13_reveal_total : forall t v secret rv,
  exists r, gen_reveal (AHidden t v) secret rv = Val r /\ (forall a, r = Ok a -> attr_type a = t /\ is_hidden a = false).
Proof. intros. rewrite regenerated_reveal_is_model. apply (reveal_total md5 md5_len). Qed.
Theorem G_C18_reader_refines_cursor : forall ops d pos r pos', pos <= len d ->
  c_ops ops d pos = Some (r, pos') ->
  grun GenSliceReader (rops_prog ops) (dropN pos d) = Val (r, dropN pos' d) /\ pos' <= len d.
Proof. intros. rewrite regenerated_reader_is_list_reader. apply (reader_refines_cursor ops d pos r pos'); assumption. Qed.
Print Assumptions G_C18_reader_refines_cursor.
Print Assumptions regenerated_reader_is_list_reader.
Print Assumptions G_C11_hide_reveal.
Print Assumptions G_C12_hide_is_rfc.
Print Assumptions G_C13_reveal_total.
"""


LINKED_WRITER = r"""
(** one operation of the public Writer trait on the VecWriter regenerated from src/common/vec_writer.rs
    (a [u8] argument is a number below 256) *)
Definition gen_wop_step (data : list N) (o : wop) : outcome (list N * option obs) :=
  match o with
  | WU8 x => omap (fun d => (d, None)) (gen_vw_write_u8 data (x mod 256))
  | WU16 x => omap (fun d => (d, None)) (gen_vw_write_u16_be data x)
  | WU32 x => omap (fun d => (d, None)) (gen_vw_write_u32_be data x)
  | WU64 x => omap (fun d => (d, None)) (gen_vw_write_u64_be data x)
  | WBytes b => omap (fun d => (d, None)) (gen_vw_write_bytes data b)
  | WBytesAt b off => omap (fun d => (d, None)) (gen_vw_write_bytes_at data b off)
  | WLen => omap (fun '(n, d) => (d, Some (ONum n))) (gen_vw_len data)
  | WIsEmpty => omap (fun '(b, d) => (d, Some (OBool b))) (gen_vw_is_empty data)
  end.
Theorem G_C18_writer_step : forall o w,
  gen_wop_step (w_data w) o = omap (fun '(w', ob) => (w_data w', ob)) (wop_step w o).
Proof.
  intros o w. destruct o as [x|x|x|x|b|b off| |]; cbn [gen_wop_step wop_step omap obind].
  - reflexivity.
  - reflexivity.
  - reflexivity.
  - reflexivity.
  - reflexivity.
  - unfold gen_vw_write_bytes_at.
    assert (E : forall (A B : Type) (x : outcome A) (f : A -> B), omap f x = obind x (fun a => Val (f a))) by reflexivity.
    transitivity (omap (fun d => (d, @None obs)) (omap w_data (w_bytes_at b off w))).
    + f_equal. vw_at_tie.
    + unfold w_bytes_at. destruct (off + len b <=? w_len w); reflexivity.
  - reflexivity.
  - reflexivity.
Qed.
Print Assumptions G_C18_writer_step.
"""


def linked_text(defs):
    """one file: the regenerated reader as a ReaderImpl, the regenerated hide/reveal, and the theorems transported to them"""
    need = ['gen_sr_%s' % x[0] for x in SR] + ['gen_reveal', 'gen_hide']
    if any(n not in defs for n in need):
        return None
    out = HEADER + ('From RL Require Import Model.Ops Spec.SpecCursor Spec.SpecEncode Spec.SpecHide Proofs.RoundTrip Proofs.Hiding Proofs.Totality Proofs.ReaderParam Proofs.Cursor Proofs.Bitmask.\n')
    for n in need:
        out += defs[n]
    out += TIE_REVEAL.replace('Lemma tie :', 'Lemma tie_reveal :') + TIE_HIDE.replace('Lemma tie :', 'Lemma tie_hide :')
    out += LINKED_TAIL
    # the regenerated VecWriter, operation by operation, is the writer model of C18
    vw = ['gen_vw_%s' % x[0] for x in VW]
    if all(n in defs for n in vw):
        out += ''.join(defs[n] for n in vw) + LINKED_WRITER
    # bitmask AVPs: constructor then accessors, on the regenerated functions (C17)
    for k in ('FramingCapabilities', 'BearerCapabilities', 'BearerType', 'FramingType'):
        ns = ['gen_bm_new_' + k, 'gen_bm_first_' + k, 'gen_bm_second_' + k]
        if all(n in defs for n in ns):
            out += ''.join(defs[n] for n in ns)
            out += ('Theorem G_C17_%s : forall x y, match gen_bm_new_%s x y with A32 _ w => gen_bm_first_%s w = x /\\ gen_bm_second_%s w = y | _ => False end.\n'
                    'Proof. intros x y. destruct x, y; vm_compute; split; reflexivity. Qed.\nPrint Assumptions G_C17_%s.\n' % (k, k, k, k, k))
    return out
