"""A parser for the subset of Rust the crate's codec functions are written in.
AST nodes are tuples ('kind', ...).  Anything outside the subset raises Unsupported, which the caller turns into
"this function could not be translated" (never into a wrong translation)."""
import re


class Unsupported(Exception):
    pass


TOKEN = re.compile(r'''
    (?P<ws>\s+|//[^\n]*|/\*.*?\*/)
  | (?P<life>'[A-Za-z_]\w*(?!'))
  | (?P<char>'(?:\\.|[^\\'])')
  | (?P<str>b?"(?:\\.|[^"\\])*")
  | (?P<num>0x[0-9a-fA-F_]+(?:[ui](?:8|16|32|64|size))?|\d[\d_]*(?:[ui](?:8|16|32|64|size))?)
  | (?P<id>[A-Za-z_]\w*!?)
  | (?P<op>::|->|=>|==|!=|<=|>=|&&|\|\||\+=|-=|\|=|&=|\^=|<<=|>>=|<<|>>|\.\.=|\.\.|[-+*/%^&|!<>=.,;:(){}\[\]#?@$])
''', re.S | re.X)


def lex(src):
    toks, i = [], 0
    while i < len(src):
        m = TOKEN.match(src, i)
        if not m:
            raise Unsupported('lex at %r' % src[i:i + 20])
        i = m.end()
        k = m.lastgroup
        if k == 'ws':
            continue
        toks.append((k, m.group(k)))
    toks.append(('eof', ''))
    return toks


class P:
    def __init__(self, toks):
        self.t, self.i = toks, 0
        self.item_errors = []

    # -- token helpers
    def peek(self, k=0):
        return self.t[min(self.i + k, len(self.t) - 1)]

    def at(self, v):
        return self.peek()[1] == v and self.peek()[0] in ('op', 'id')

    def eat(self, v):
        if self.at(v):
            self.i += 1
            return True
        return False

    def expect(self, v):
        if not self.eat(v):
            raise Unsupported('expected %r at %r' % (v, [x[1] for x in self.t[self.i:self.i + 6]]))

    def ident(self):
        k, v = self.peek()
        if k != 'id' or v.endswith('!'):
            raise Unsupported('identifier expected at %r' % (v,))
        self.i += 1
        return v

    # -- skipping things we do not interpret
    def skip_attrs(self):
        while self.at('#'):
            self.i += 1
            self.eat('!')
            self.skip_balanced('[', ']')

    def skip_balanced(self, o, c):
        self.expect(o)
        d = 1
        while d:
            k, v = self.peek()
            if k == 'eof':
                raise Unsupported('unbalanced')
            if k == 'op' and v == o:
                d += 1
            elif k == 'op' and v == c:
                d -= 1
            self.i += 1

    def item_name(self):
        j = self.i
        while j < len(self.t) and j < self.i + 8:
            if self.t[j][1] in ('fn', 'const', 'static', 'struct', 'enum', 'impl') and j + 1 < len(self.t):
                return '%s %s' % (self.t[j][1], self.t[j + 1][1])
            j += 1
        return self.t[self.i][1] if self.i < len(self.t) else 'eof'

    def skip_item(self):
        """advance past one item: to the ';' or the end of the first '{...}' at nesting depth 0"""
        d = 0
        while True:
            k, v = self.peek()
            if k == 'eof':
                return
            if k == 'op' and v in ('(', '['):
                d += 1
            elif k == 'op' and v in (')', ']'):
                d -= 1
            elif k == 'op' and v == ';' and d == 0:
                self.i += 1
                return
            elif k == 'op' and v == '{' and d == 0:
                self.skip_balanced('{', '}')
                self.eat(';')
                return
            self.i += 1

    def skip_generics(self):
        if self.at('<'):
            d = 0
            while True:
                k, v = self.peek()
                if k == 'eof':
                    raise Unsupported('generics')
                if v == '<' and k == 'op':
                    d += 1
                elif v == '>' and k == 'op':
                    d -= 1
                elif v == '>>' and k == 'op':
                    d -= 2
                self.i += 1
                if d <= 0:
                    break

    def type_(self):
        """parse a type, return its text (only integer/bool names are interpreted later)"""
        start = self.i
        d = 0
        while True:
            k, v = self.peek()
            if k == 'eof':
                break
            if k == 'op' and v in '([<':
                d += 1
            elif k == 'op' and v == '>>':
                d -= 2
            elif k == 'op' and v in ')]>':
                if d == 0:
                    break
                d -= 1
            elif k == 'op' and d == 0 and v in (',', ';', '=', '{', '}', '=>', '==', '!=', '<=', '>=', '&&', '||', '+', '-', '*', '/', '%', '|', '^', '<<', '?', '.'):
                break
            elif k == 'id' and v in ('where', 'for') and d == 0:
                break
            self.i += 1
        return ' '.join(x[1] for x in self.t[start:self.i])

    # -- items
    def items(self):
        """-> list of ('impl', selfname, traitname|None, [fn/const...]) | ('fn', ...) | ('const', ...) | ('struct', name, fields)
        | ('enum', name, variants) | ('static_map', name, entries)"""
        out = []
        while self.peek()[0] != 'eof':
            self.skip_attrs()
            k, v = self.peek()
            if v == 'pub':
                self.i += 1
                if self.at('('):
                    self.skip_balanced('(', ')')
                continue
            if v in ('use', 'mod', 'type') or v == 'macro_rules!':
                # skip to ';' or a balanced block
                while not self.at(';') and not self.at('{') and self.peek()[0] != 'eof':
                    self.i += 1
                if self.at('{'):
                    self.skip_balanced('{', '}')
                self.eat(';')
                continue
            start = self.i
            try:
                if v == 'const' and self.peek(1)[1] != 'fn':
                    out.append(self.const_())
                    continue
                if v == 'static':
                    out.append(self.static_())
                    continue
                if v in ('const', 'unsafe', 'fn', 'async'):
                    out.append(self.fn_())
                    continue
                if v == 'struct':
                    out.append(self.struct_())
                    continue
                if v == 'enum':
                    out.append(self.enum_())
                    continue
                if v == 'impl':
                    out.append(self.impl_())
                    continue
                if k == 'id' and v.endswith('!'):
                    raise Unsupported('item %r' % v)
            except Unsupported as e:
                # one item outside the supported subset does not take the rest of the file with it
                self.i = start
                self.item_errors.append('%s: %s' % (self.item_name(), e))
                self.skip_item()
                continue
            if v == 'trait':
                self.i += 1
                while not self.at('{'):
                    self.i += 1
                self.skip_balanced('{', '}')
                continue
            self.item_errors.append('%s: item outside the supported subset' % self.item_name())
            before = self.i
            self.skip_item()
            if self.i == before:
                self.i += 1
        return out

    def const_(self):
        self.expect('const')
        name = self.ident()
        self.expect(':')
        ty = self.type_()
        self.expect('=')
        e = self.expr()
        self.expect(';')
        return ('const', name, ty, e)

    def static_(self):
        self.expect('static')
        name = self.ident()
        self.expect(':')
        self.type_()
        self.expect('=')
        e = self.expr()
        self.expect(';')
        return ('static', name, e)

    def struct_(self):
        self.expect('struct')
        name = self.ident()
        self.skip_generics()
        fields = []
        if self.eat(';'):
            return ('struct', name, fields)
        if self.at('('):
            self.skip_balanced('(', ')')
            self.eat(';')
            return ('struct', name, None)
        self.expect('{')
        while not self.eat('}'):
            self.skip_attrs()
            if self.eat('pub') and self.at('('):
                self.skip_balanced('(', ')')
            f = self.ident()
            self.expect(':')
            ty = self.type_()
            fields.append((f, ty))
            self.eat(',')
        return ('struct', name, fields)

    def enum_(self):
        self.expect('enum')
        name = self.ident()
        self.skip_generics()
        self.expect('{')
        vs = []
        while not self.eat('}'):
            self.skip_attrs()
            v = self.ident()
            arg = None
            if self.at('('):
                s = self.i
                self.skip_balanced('(', ')')
                arg = ' '.join(x[1] for x in self.t[s + 1:self.i - 1])
            elif self.at('{'):
                self.skip_balanced('{', '}')
                arg = '{}'
            disc = None
            if self.eat('='):
                disc = self.expr()
            vs.append((v, arg, disc))
            self.eat(',')
        return ('enum', name, vs)

    def impl_(self):
        self.expect('impl')
        self.skip_generics()
        a = self.type_()
        trait = None
        if self.eat('for'):
            trait = a
            a = self.type_()
        if self.at('where'):
            while not self.at('{'):
                self.i += 1
        self.expect('{')
        body = []
        while not self.eat('}'):
            self.skip_attrs()
            if self.eat('pub'):
                if self.at('('):
                    self.skip_balanced('(', ')')
            k, v = self.peek()
            start = self.i
            try:
                if v == 'const' and self.peek(1)[1] != 'fn':
                    body.append(self.const_())
                elif v == 'type':
                    while not self.eat(';'):
                        self.i += 1
                else:
                    body.append(self.fn_())
            except Unsupported as e:
                self.i = start
                self.item_errors.append('%s: %s' % (self.item_name(), e))
                self.skip_item()
        return ('impl', re.sub(r'\s*<.*', '', a).strip(), trait, body)

    def fn_(self):
        quals = []
        while self.peek()[1] in ('const', 'unsafe', 'async', 'extern'):
            quals.append(self.peek()[1])
            self.i += 1
        self.expect('fn')
        name = self.ident()
        self.skip_generics()
        self.expect('(')
        params = []
        while not self.eat(')'):
            amp = self.eat('&')
            if self.peek()[0] == 'life':
                self.i += 1
            mut = self.eat('mut')
            pn = self.ident()
            ty = None
            if self.eat(':'):
                ty = self.type_()
            elif pn == 'self':
                ty = '&mut' if (amp and mut) else ('&' if amp else 'owned')
            params.append((pn, ty))
            self.eat(',')
        ret = None
        if self.eat('->'):
            ret = self.type_()
        if self.at('where'):
            while not self.at('{'):
                self.i += 1
        if self.eat(';'):
            return ('fn', name, params, ret, None, quals)
        body = self.block()
        return ('fn', name, params, ret, body, quals)

    # -- statements / blocks
    def block(self):
        self.expect('{')
        stmts = []
        tail = None
        while not self.eat('}'):
            self.skip_attrs()
            if self.at('let'):
                self.i += 1
                mut = self.eat('mut')
                pat = self.pattern()
                ty = None
                if self.eat(':'):
                    ty = self.type_()
                init = None
                if self.eat('='):
                    init = self.expr()
                self.expect(';')
                stmts.append(('let', pat, mut, ty, init))
                continue
            if self.at('const'):
                stmts.append(self.const_())
                continue
            if self.eat(';'):
                continue
            e = self.expr(stmt=True)
            if self.eat(';'):
                stmts.append(('expr', e))
            elif self.at('}'):
                tail = e
            elif e[0] in ('if', 'iflet', 'match', 'while', 'whilelet', 'for', 'block', 'unsafe', 'loop'):
                stmts.append(('expr', e))
            else:
                raise Unsupported('statement end at %r' % (self.peek(),))
        return ('block', stmts, tail)

    # -- patterns
    def pattern(self):
        p = self.pattern1()
        if self.at('|') :
            alts = [p]
            while self.eat('|'):
                alts.append(self.pattern1())
            return ('por', alts)
        return p

    def pattern1(self):
        k, v = self.peek()
        if self.eat('&'):
            self.eat('mut')
            return self.pattern1()
        if self.eat('mut'):
            return self.pattern1()
        if self.eat('ref'):
            self.eat('mut')
            return self.pattern1()
        if v == '_' and k == 'id':
            self.i += 1
            return ('pwild',)
        if k == 'num':
            self.i += 1
            return ('plit', num_value(v))
        if self.at('('):
            self.i += 1
            ps = []
            while not self.eat(')'):
                ps.append(self.pattern())
                self.eat(',')
            return ('ptuple', ps)
        if k == 'id':
            path = [self.ident()]
            while self.eat('::'):
                path.append(self.ident())
            if self.at('('):
                self.i += 1
                ps = []
                while not self.eat(')'):
                    ps.append(self.pattern())
                    self.eat(',')
                return ('pctor', path, ps)
            if self.at('{'):
                raise Unsupported('struct pattern')
            if len(path) == 1 and path[0][0].islower():
                return ('pvar', path[0])
            return ('pctor', path, [])
        raise Unsupported('pattern %r' % (v,))

    # -- expressions (precedence climbing)
    BIN = [('||',), ('&&',), ('==', '!=', '<', '>', '<=', '>='), ('|',), ('^',), ('&',), ('<<', '>>'), ('+', '-'), ('*', '/', '%')]

    def expr(self, stmt=False, nostruct=False):
        k, v = self.peek()
        if v == 'return':
            self.i += 1
            if self.at(';') or self.at('}') or self.at(','):
                return ('return', None)
            return ('return', self.expr(nostruct=nostruct))
        if v == 'break':
            self.i += 1
            return ('break',)
        if v == 'continue':
            self.i += 1
            return ('continue',)
        if v == '|' or v == '||' or v == 'move':
            return self.closure()
        if k == 'op' and v in ('..', '..='):
            self.i += 1
            if self.at(']') or self.at(')') or self.at(','):
                return ('range', None, None, v)
            return ('range', None, self.binary(0, nostruct), v)
        lhs = self.binary(0, nostruct, stmt)
        for op in ('=', '+=', '-=', '|=', '&=', '^=', '<<=', '>>='):
            if self.at(op):
                self.i += 1
                rhs = self.expr(nostruct=nostruct)
                return ('assign', op, lhs, rhs)
        if self.at('..') or self.at('..='):
            op = self.peek()[1]
            self.i += 1
            if self.at(']') or self.at(')') or self.at('{'):
                return ('range', lhs, None, op)
            rhs = self.binary(0, nostruct)
            return ('range', lhs, rhs, op)
        return lhs

    def closure(self):
        self.eat('move')
        params = []
        if self.eat('||'):
            pass
        else:
            self.expect('|')
            while not self.eat('|'):
                params.append(self.pattern1())
                if self.eat(':'):
                    self.type_()
                self.eat(',')
        body = self.expr()
        return ('closure', params, body)

    def binary(self, level, nostruct, stmt=False):
        if level == len(self.BIN):
            return self.unary(nostruct, stmt)
        lhs = self.binary(level + 1, nostruct, stmt)
        if stmt and lhs[0] in ('if', 'iflet', 'match', 'while', 'whilelet', 'for', 'block', 'unsafe', 'loop'):
            return lhs      # block-like expression statements do not continue into a binary expression
        while True:
            k, v = self.peek()
            if k == 'op' and v in self.BIN[level]:
                # `<` after a path could be generics; we do not support that in expression position
                self.i += 1
                rhs = self.binary(level + 1, nostruct)
                lhs = ('bin', v, lhs, rhs)
            else:
                return lhs

    def unary(self, nostruct, stmt=False):
        k, v = self.peek()
        if k == 'op' and v in ('!', '-', '*'):
            self.i += 1
            return ('un', v, self.unary(nostruct))
        if k == 'op' and v == '&':
            self.i += 1
            self.eat('mut')
            return ('ref', self.unary(nostruct))
        if k == 'op' and v == '&&':
            self.i += 1
            self.eat('mut')
            return ('ref', ('ref', self.unary(nostruct)))
        e = self.postfix(self.primary(nostruct), nostruct, stmt)
        while self.at('as'):
            self.i += 1
            ty = self.type_()
            e = ('cast', e, ty.strip())
        return e

    def args(self):
        self.expect('(')
        a = []
        while not self.eat(')'):
            a.append(self.expr())
            self.eat(',')
        return a

    def postfix(self, e, nostruct, stmt=False):
        if stmt and e[0] in ('if', 'iflet', 'match', 'while', 'whilelet', 'for', 'block', 'unsafe', 'loop'):
            if not self.at('.') and not self.at('?'):
                return e
        while True:
            if self.at('?'):
                self.i += 1
                e = ('try', e)
            elif self.at('('):
                e = ('call', e, self.args())
            elif self.at('['):
                self.i += 1
                if self.at('..') or self.at('..='):
                    op = self.peek()[1]
                    self.i += 1
                    hi = None if self.at(']') else self.expr()
                    idx = ('range', None, hi, op)
                else:
                    idx = self.expr()
                self.expect(']')
                e = ('index', e, idx)
            elif self.at('.'):
                self.i += 1
                k, v = self.peek()
                if k == 'num':
                    self.i += 1
                    e = ('field', e, v)
                    continue
                name = self.ident()
                if self.eat('::'):
                    self.skip_generics()
                if self.at('('):
                    e = ('mcall', e, name, self.args())
                else:
                    e = ('field', e, name)
            else:
                return e

    def primary(self, nostruct):
        k, v = self.peek()
        if k == 'num':
            self.i += 1
            return ('num', num_value(v), num_suffix(v))
        if k == 'str':
            self.i += 1
            return ('str', v)
        if k == 'char':
            self.i += 1
            return ('char', v)
        if self.at('('):
            self.i += 1
            if self.eat(')'):
                return ('tuple', [])
            e = self.expr()
            if self.eat(')'):
                return ('paren', e)
            es = [e]
            while self.eat(','):
                if self.at(')'):
                    break
                es.append(self.expr())
            self.expect(')')
            return ('tuple', es)
        if self.at('['):
            self.i += 1
            es = []
            if self.eat(']'):
                return ('array', es)
            e = self.expr()
            if self.eat(';'):
                n = self.expr()
                self.expect(']')
                return ('repeat', e, n)
            es.append(e)
            while self.eat(','):
                if self.at(']'):
                    break
                es.append(self.expr())
            self.expect(']')
            return ('array', es)
        if self.at('{'):
            return self.block()
        if v == 'unsafe' and k == 'id':
            self.i += 1
            return ('unsafe', self.block())
        if v == 'if':
            return self.if_()
        if v == 'match':
            self.i += 1
            scrut = self.expr(nostruct=True)
            self.expect('{')
            arms = []
            while not self.eat('}'):
                pat = self.pattern()
                guard = None
                if self.eat('if'):
                    guard = self.expr(nostruct=True)
                self.expect('=>')
                body = self.expr()
                self.eat(',')
                arms.append((pat, guard, body))
            return ('match', scrut, arms)
        if v == 'while':
            self.i += 1
            if self.eat('let'):
                pat = self.pattern()
                self.expect('=')
                e = self.expr(nostruct=True)
                return ('whilelet', pat, e, self.block())
            c = self.expr(nostruct=True)
            return ('while', c, self.block())
        if v == 'for':
            self.i += 1
            pat = self.pattern()
            self.expect('in')
            e = self.expr(nostruct=True)
            return ('for', pat, e, self.block())
        if v == 'loop':
            self.i += 1
            return ('loop', self.block())
        if k == 'id' and v.endswith('!'):
            self.i += 1
            o = self.peek()[1]
            c = {'(': ')', '[': ']', '{': '}'}[o]
            self.i += 1
            a = []
            while not self.eat(c):
                e = self.expr()
                if self.eat('=>'):
                    e = ('maparrow', e, self.expr())
                a.append(e)
                if not self.eat(','):
                    self.eat(';')
            return ('macro', v[:-1], a)
        if k == 'id':
            path = [self.ident()]
            while self.at('::'):
                self.i += 1
                if self.at('<'):
                    self.skip_generics()
                    continue
                path.append(self.ident())
            if self.at('<') and path[-1][0].isupper() and self.peek(1)[0] in ('id', 'op') and self.peek(2)[1] in ('>', '::', ','):
                # Type::<T>  /  Message::<&[u8]>
                self.skip_generics()
                while self.eat('::'):
                    path.append(self.ident())
            if self.at('{') and not nostruct and path[-1][0].isupper():
                self.i += 1
                fs = []
                while not self.eat('}'):
                    if self.eat('..'):
                        fs.append(('..', self.expr()))
                        continue
                    f = self.ident()
                    if self.eat(':'):
                        fs.append((f, self.expr()))
                    else:
                        fs.append((f, ('path', [f])))
                    self.eat(',')
                return ('struct', path, fs)
            return ('path', path)
        raise Unsupported('expression at %r' % ([x[1] for x in self.t[self.i:self.i + 6]],))

    def if_(self):
        self.expect('if')
        if self.eat('let'):
            pat = self.pattern()
            self.expect('=')
            e = self.expr(nostruct=True)
            then = self.block()
            els = self.else_()
            return ('iflet', pat, e, then, els)
        c = self.expr(nostruct=True)
        then = self.block()
        return ('if', c, then, self.else_())

    def else_(self):
        if self.eat('else'):
            if self.at('if'):
                return self.if_()
            return self.block()
        return None


def num_value(v):
    m = re.match(r'^(0x[0-9a-fA-F_]+|\d[\d_]*)', v)
    s = m.group(1).replace('_', '')
    return int(s, 16) if s.startswith('0x') else int(s)


def num_suffix(v):
    m = re.search(r'([ui](?:8|16|32|64|size))$', v)
    return m.group(1) if m and not v.startswith('0x') or (m and v.startswith('0x') and not re.fullmatch(r'0x[0-9a-fA-F_]+', v)) else None


def parse_file(src):
    return P(lex(src)).items()


def parse_file2(src):
    """-> (items, [what could not be parsed: 'fn name: why'])"""
    p = P(lex(src))
    items = p.items()
    return items, p.item_errors
