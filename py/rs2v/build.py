"""Loads the crate's sources, translates the codec functions and writes the generated Gallina (Gen.v) together with
one tie file per function; run by py/srctie2.py."""
import os
from . import rsparse, trans, config
from .rsparse import Unsupported

RENAME_IMPL = {'src/message/avp/header/flags.rs': {'Flags': 'AvpFlags'}}


def load_crate(repo):
    crate = {'consts': {}, 'fns': {}, 'structs': {}, 'enums': {}, 'statics': {}, 'errors': {}}
    for d, _, fs in os.walk(os.path.join(repo, 'src')):
        for f in sorted(fs):
            p = os.path.join(d, f)
            rel = os.path.relpath(p, repo)
            if not f.endswith('.rs') or f == 'tests.rs' or '/tests/' in rel or rel.endswith('/tests.rs'):
                continue
            try:
                items, errs = rsparse.parse_file2(open(p).read())
            except Unsupported as e:
                crate['errors'][rel] = str(e)
                continue
            for k, e in enumerate(errs):
                crate['errors']['%s#%d' % (rel, k)] = e
            ren = RENAME_IMPL.get(rel, {})
            for it in items:
                if it[0] == 'const':
                    crate['consts'][(None, it[1])] = (it[2], it[3])
                elif it[0] == 'static':
                    crate['statics'][it[1]] = it[2]
                elif it[0] == 'struct':
                    crate['structs'][ren.get(it[1], it[1])] = it[2]
                elif it[0] == 'enum':
                    crate['enums'][it[1]] = it[2]
                elif it[0] == 'fn':
                    crate['fns'][(None, it[1])] = it
                elif it[0] == 'impl':
                    impl = ren.get(it[1], it[1])
                    for m in it[3]:
                        if m[0] == 'const':
                            crate['consts'][(impl, m[1])] = (m[2], m[3])
                        elif m[0] == 'fn':
                            crate['fns'][(impl, m[1])] = m
    return crate


def wrap_avp(struct):
    """how the value returned by X::try_read becomes the AVP enum value (decode_avp wraps it in the variant)"""
    def f(tr, x):
        if isinstance(x, trans.Ctor) and x.name == 'Ok':
            v = x.args[0]
            if struct == 'MessageType':
                return '(Ok (AMessageType %s))' % trans.paren(tr.text(v))
            if struct == 'ProxyAuthenType':
                return '(Ok (AProxyAuthenType %s))' % trans.paren(tr.text(v))
            return '(Ok %s)' % trans.paren(tr.text(v))
        if isinstance(x, trans.Ctor) and x.name == 'Err':
            return '(Err %s)' % trans.paren(tr.text(x.args[0]))
        raise Unsupported('result leaf %r' % (x,))
    return f


# the model definition each translated function is compared with
MODEL_DEC = {'MessageType': 'dec_message_type', 'ResultCode': 'dec_result_code', 'ProtocolVersion': 'dec_protocol_version',
             'TieBreaker': 'dec_tie_breaker', 'Q931CauseCode': 'dec_q931', 'ProxyAuthenType': 'dec_proxy_authen_type',
             'ProxyAuthenId': 'dec_proxy_authen_id', 'CallErrors': 'dec_call_errors', 'Accm': 'dec_accm'}
for k in config.K16:
    MODEL_DEC[k] = 'dec_u16 %s' % k
for k in config.K32 + config.K32BM:
    MODEL_DEC[k] = 'dec_u32 %s' % k
for k in config.KBYTES:
    MODEL_DEC[k] = 'dec_bytes %s' % k
for k in config.KSTR:
    MODEL_DEC[k] = 'dec_str %s' % k
for k in config.KFIX:
    MODEL_DEC[k] = 'dec_fix %s' % k


import sys
sys.setrecursionlimit(20000)

HEADER = ('From Coq Require Import NArith List Bool Lia.\nFrom RL Require Import Model.Decode Model.Encode Proofs.ReaderLemmas Proofs.RefineAvp Proofs.GenSupport.\n'
          'Import ListNotations. Open Scope N_scope.\n')
HEADERS = {}     # functions whose tie file needs other imports than HEADER
SIG = {'gen_decode_avp': '(t : N) : prog (dres avp)', 'gen_data_read': '(w : N) : prog (dres data_msg)',
       'gen_ctrl_read': '(w : N) (o : opts) : prog (result (list derr) ctrl_msg)', 'gen_msg_read': '(o : opts) : prog mres'}


def translate_all(repo):
    """-> (defs, ties, fails)
    defs: {name: generated Gallina definition} (independent of each other: callees are the Model's programs);
    ties: {name: [(level, lemma text), ...]} tried in order -- 'terms equal' (kernel conversion after vm_compute) first,
          then 'equal on the list reader' (forall l, run gen l = run model l);
    fails: {name: why the function could not be translated}"""
    crate = load_crate(repo)
    defs, ties, fails = {}, {}, dict(('parse:' + k, v) for k, v in crate['errors'].items())
    generic = lambda tr, x: tr.text(x)
    P = trans.Pure

    def add(name, impl, fn, bind_args, model, ty=None, finish=generic, args='', unfold='', proof=None, no_hook=None, env_extra=None, raw=None):
        try:
            tr = trans.Tr(crate, config)
            if no_hook:
                tr.no_hooks[no_hook] = True
            body = tr.reader_fn(impl, fn, bind_args, finish, env_extra or {})
        except Unsupported as e:
            fails[name] = str(e)
            return
        except RecursionError:
            fails[name] = 'recursion (the function calls itself?)'
            return
        defs[name] = raw % body if raw else 'Definition %s %s :=\n  %s.\n' % (name, (SIG[name] if name in SIG else ': ' + ty), body)
        vs = (' ' + args) if args else ''
        t1 = 'Lemma tie : %s = %s.\nProof. vm_compute. reflexivity. Qed.\n' % (name, model)
        t2 = ('Lemma tie : forall%s l, run (%s%s) l = run (%s%s) l.\nProof. intros%s l. unfold %s%s. %s Qed.\n'
              % (vs, name, vs, model, vs, vs, name, unfold, proof or 'unfold_model. run_eq2.'))
        ties[name] = ([('terms equal', t1)] if not args and not raw else []) + [('equal on the list reader', t2)]

    for struct, model in sorted(MODEL_DEC.items()):
        add('gen_dec_%s' % struct, struct, 'try_read', {}, model, ty='prog (dres avp)', finish=wrap_avp(struct))
    add('gen_header_read', 'Header', 'try_read', {}, 'header_read', ty='prog (option (dres avp_header))', unfold=', header_read',
        no_hook=('Header', 'try_read'))
    add('gen_flags_read', 'Flags', 'read', {}, 'flags_read', ty='prog (dres N)', unfold=', flags_read', no_hook=('Flags', 'read'))
    add('gen_decode_avp', None, 'decode_avp', {'attribute_type': P('t')}, 'decode_avp', args='t',
        proof='destruct t as [|p]; [unfold_model; run_eq2|]. do 6 (try (destruct p as [p|p|])); unfold_model; run_eq2.',
        no_hook=(None, 'decode_avp'))
    add('gen_data_read', 'DataMessage', 'try_read', {'flags': P('w')}, 'data_read', args='w', unfold=', data_read',
        proof='run_eq2.', no_hook=('DataMessage', 'try_read'))
    add('gen_ctrl_read', 'ControlMessage', 'try_read', {'flags': P('w'), 'validation_options': P('o')}, 'ctrl_read', args='w o',
        unfold=', ctrl_read', proof='run_eq2. all: bool_close.', no_hook=('ControlMessage', 'try_read'))
    add('gen_msg_read', 'Message', 'try_read_validate', {'validation_options': P('o')}, 'msg_read', args='o', unfold=', msg_read',
        proof='run_eq2.', no_hook=('Message', 'try_read_validate'))
    add('gen_try_read', 'Message', 'try_read', {}, 'msg_read default_opts', ty='prog mres', unfold=', msg_read', proof='run_eq2.')
    # the AVP loop: one unfolding of the fuelled recursion (`while let Some(h) = Header::try_read(reader)` with the
    # `result.push(x); continue / break` schema)
    add('gen_greedy', 'AVP', 'try_read_greedy', {}, 'greedy', no_hook=('AVP', 'try_read_greedy'), env_extra={'__rec': "(gen_greedy fuel')"},
        raw="Fixpoint gen_greedy (fuel : nat) : prog (list (dres avp)) :=\n  match fuel with O => NoFuel | S fuel' =>\n  %s\n  end.\n")
    if 'gen_greedy' in ties:
        ties['gen_greedy'] = [('equal on the list reader',
                               'Lemma tie : forall fuel l, run (gen_greedy fuel) l = run (greedy fuel) l.\n'
                               'Proof. induction fuel as [|fuel IH]; intros l; [reflexivity|]. cbn [gen_greedy greedy]. loop_eq IH. Qed.\n')]
    # ------------------------------------------------------------ encoders
    PARAM_TY = {'u8': 'N', 'u16': 'N', 'u32': 'N', 'u64': 'N', 'usize': 'N', 'Vec<u8>': 'list N', 'String': 'list N', 'CodeValue': 'N',
                'Option<String>': 'option (list N)', 'Option<Error>': 'option (err_type * option (list N))'}
    ENC_EQ = ('Proof. intros. cbv [%s wr_payload m_get_length]. repeat match goal with |- context [match ?x with _ => _ end] => '
              'is_var x; destruct x end; reflexivity. Qed.\n')

    def struct_params(struct):
        st = crate['structs'].get(struct)
        if st is None:
            raise Unsupported('struct %s not found' % struct)
        ps = []
        for f, ty in st:
            ty = ty.replace(' ', '')
            g = PARAM_TY.get(ty) or ('list N' if ty.startswith('[u8;') else None)
            if g is None:
                raise Unsupported('field type %s' % ty)
            ps.append((f, g))
        return ps

    for struct in sorted(MODEL_DEC) + ['Hidden', 'SequencingRequired']:
        for kind in ('wr', 'len'):
            name = 'gen_%s_%s' % (kind, struct)
            try:
                tr = trans.Tr(crate, config)
                if struct in ('MessageType', 'ProxyAuthenType'):
                    ps = [('t', 'msg_type' if struct == 'MessageType' else 'pa_type')]
                    sv = trans.Pure('t')
                    model_val = '(%s t)' % ('AMessageType' if struct == 'MessageType' else 'AProxyAuthenType')
                else:
                    ps = struct_params(struct)
                    sv = trans.Rec(struct, [(f, trans.Pure(f)) for f, _ in ps])
                    model_val = tr.text(sv)
                pt = ' '.join('(%s : %s)' % p for p in ps)
                vs = ' '.join(p[0] for p in ps)
                if kind == 'wr':
                    body = tr.writer_fn(struct, 'write', sv, {}, True)
                    defs[name] = 'Definition %s %s (w : writer) : writer :=\n  %s.\n' % (name, pt, body)
                    ties[name] = [('terms equal', 'Lemma tie : forall %s w, %s %s w = wr_payload %s w.\n' % (vs, name, vs, model_val) + ENC_EQ % name)] \
                        if vs else [('terms equal', 'Lemma tie : forall w, %s w = wr_payload %s w.\n' % (name, model_val) + ENC_EQ % name)]
                else:
                    body = tr.pure_fn(struct, 'get_length', sv, {})
                    defs[name] = 'Definition %s %s : N :=\n  %s.\n' % (name, pt, body)
                    ties[name] = [('terms equal', 'Lemma tie : forall %s, %s %s = m_get_length %s.\n' % (vs, name, vs, model_val) + ENC_EQ % name)] \
                        if vs else [('terms equal', 'Lemma tie : %s = m_get_length %s.\n' % (name, model_val) + ENC_EQ % name)]
            except Unsupported as e:
                fails[name] = str(e)
            except RecursionError:
                fails[name] = 'recursion'
    # top-level encoders (outcome writer: the asserts and the positional overwrite can refuse)
    def addw(name, impl, fn, self_val, bind_args, sig, stmt, proof, self_ty=None):
        try:
            tr = trans.Tr(crate, config)
            body = tr.writer_fn(impl, fn, self_val, bind_args, False)
            defs[name] = 'Definition %s %s : outcome writer :=\n  %s.\n' % (name, sig, body)
            ties[name] = [('equal on every writer state', 'Lemma tie : %s.\nProof. %s Qed.\n' % (stmt, proof))]
        except Unsupported as e:
            fails[name] = str(e)
        except RecursionError:
            fails[name] = 'recursion'
    pv = crate['consts'].get(('Message', 'PROTOCOL_VERSION'))
    pvv = P(str(pv[1][1])) if pv and pv[1][0] == 'num' else P('2')
    addw('gen_enc_avp', 'AVP', 'write', P('a'), {}, '(a : avp) (w : writer)',
         'forall a w, gen_enc_avp a w = m_enc_avp_w a w',
         'intros a w. unfold gen_enc_avp, m_enc_avp_w. cbv zeta. set (w3 := wr_payload a (w_u16 0 (w_bytes [0; 0] w))). '
         'guard2 (w_len w <=? w_len w3) (w_len w3 <? w_len w). guard2 (w_len w3 - w_len w <=? 1023) (1023 <? w_len w3 - w_len w). '
         'rewrite land3_mod256, obind_val. destruct (is_hidden a); reflexivity.')
    addw('gen_enc_ctrl', 'ControlMessage', 'write', P('m'), {'protocol_version': pvv}, '(m : ctrl_msg) (w : writer)',
         'forall m w, gen_enc_ctrl m w = m_enc_ctrl_w m w',
         'intros m w. unfold gen_enc_ctrl, m_enc_ctrl_w. change (flags_new true true true false false 2) with (Val (A := N) 4896). '
         'cbv iota zeta. cbn [obind]. change (2 <=? 15) with true. cbv iota. '
         'match goal with |- obind ?x _ = obind ?y _ => change x with y; destruct y as [w4| | |]; cbn [obind]; try reflexivity end. '
         'guard2 (w_len w <=? w_len w4) (w_len w4 <? w_len w). guard2 (w_len w4 - w_len w <=? 65535) (65535 <? w_len w4 - w_len w). '
         'rewrite be16_mod, obind_val. reflexivity.')
    addw('gen_enc_data', 'DataMessage', 'write', P('d'), {'protocol_version': pvv}, '(d : data_msg) (w : writer)',
         'forall d w, gen_enc_data d w = m_enc_data_w d w',
         'intros d w. unfold gen_enc_data, m_enc_data_w, flags_new, set_bit. destruct d as [p ln t s nsnr off data]. '
         'cbn [d_prio d_length d_tunnel d_session d_nsnr d_offset d_data]. destruct ln, nsnr as [[? ?]|], off, p; reflexivity.')
    try:
        tr = trans.Tr(crate, config)
        body = tr.pure_fn('Flags', 'new', None, {'message_type': P('control'), 'has_length': P('l'), 'has_ns_nr': P('s'),
                                                 'has_offset': P('o'), 'is_prioritized': P('p'), 'version': P('version')}, leaf='Val %s')
        defs['gen_flags_new'] = 'Definition gen_flags_new (control l s o p : bool) (version : N) : outcome N :=\n  %s.\n' % body
        ties['gen_flags_new'] = [('equal for all arguments', 'Lemma tie : forall control l s o p version, gen_flags_new control l s o p version = flags_new control l s o p version.\n'
                                  'Proof. intros. unfold gen_flags_new, flags_new, set_bit. destruct control, l, s, o, p; cbv iota; guard2 (version <=? 15) (15 <? version). Qed.\n')]
    except Unsupported as e:
        fails['gen_flags_new'] = str(e)
    # bitmask AVPs (C17): the constructor and the two accessors of each of the four types; an accessor belongs to the
    # constructor parameter it is named after (is_<parameter>)
    for struct in config.K32BM:
        fnew = crate['fns'].get((struct, 'new'))
        pnames = [pn for pn, _ in fnew[2]] if fnew else []
        accs = [k[1] for k in crate['fns'] if k[0] == struct and k[1].startswith('is_')]

        def bm_new(struct=struct, pnames=pnames):
            if len(pnames) != 2:
                raise Unsupported('%s::new no longer takes two parameters' % struct)
            tr = trans.Tr(crate, config)
            body = tr.pure_fn(struct, 'new', None, {pnames[0]: P('x'), pnames[1]: P('y')})
            n = 'gen_bm_new_%s' % struct
            defs[n] = 'Definition %s (x y : bool) : avp :=\n  %s.\n' % (n, body)
            ties[n] = [('equal for all arguments', 'Lemma tie : forall x y, %s x y = A32 %s (bm_new Bm%s x y).\nProof. intros x y. destruct x, y; reflexivity. Qed.\n'
                        % (n, struct, struct))]
        try:
            bm_new()
        except Unsupported as e:
            fails['gen_bm_new_%s' % struct] = str(e)
        for k, which in ((0, 'first'), (1, 'second')):
            n = 'gen_bm_%s_%s' % (which, struct)
            try:
                if len(pnames) != 2 or ('is_' + pnames[k]) not in accs:
                    raise Unsupported('no accessor named after parameter %d of %s::new' % (k + 1, struct))
                tr = trans.Tr(crate, config)
                body = tr.pure_fn(struct, 'is_' + pnames[k], trans.Rec(struct, [('data', P('w'))]), {})
                defs[n] = 'Definition %s (w : N) : bool :=\n  %s.\n' % (n, body)
                ties[n] = [('equal for all arguments', 'Lemma tie : forall w, %s w = acc_%s Bm%s w.\nProof. intros w. reflexivity. Qed.\n' % (n, which, struct))]
                HEADERS[n] = HEADER.replace('Model.Decode Model.Encode', 'Model.Decode Model.Encode Model.Ops')
            except Unsupported as e:
                fails[n] = str(e)
        HEADERS['gen_bm_new_%s' % struct] = HEADER.replace('Model.Decode Model.Encode', 'Model.Decode Model.Encode Model.Ops')
    # the slice / Vec code: SliceReader, VecWriter, AVP::hide, AVP::reveal (rs2v/vec.py, rs2v/vecbuild.py)
    try:
        from . import vecbuild
        vd, vt, vf = vecbuild.translate(crate, repo)
        defs.update(vd)
        ties.update(vt)
        fails.update(vf)
        for n in vecbuild.NAMES:
            HEADERS[n] = vecbuild.HEADER
    except Exception as e:      # never take the decoder/encoder ties down with it
        fails['gen_vec'] = 'translator error: %s' % repr(e)[:160]
    return defs, ties, fails


LINKED_TAIL = r'''
Lemma L_header : forall l, run gen_header_read l = run header_read l.
Proof. intros l. unfold gen_header_read, header_read. run_eq2. Qed.
Lemma L_flags : forall l, run gen_flags_read l = run flags_read l.
Proof. intros l. unfold gen_flags_read, flags_read. run_eq2. Qed.
Lemma L_decode : forall t l, run (gen_decode_avp t) l = run (decode_avp t) l.
Proof. intros t l. unfold gen_decode_avp. destruct t as [|p]; [unfold_model; run_eq2|]. do 6 (try (destruct p as [p|p|])); unfold_model; run_eq2. Qed.
#[export] Hint Rewrite L_header L_flags L_decode : gen_ties.
Lemma L_greedy : forall fuel l, run (genL_greedy fuel) l = run (greedy fuel) l.
Proof.
  induction fuel as [|fuel IH]; intros l; [reflexivity|]. cbn [genL_greedy greedy].
  rewrite !run_bind, L_header.
  match goal with |- obind ?x _ = _ => destruct x as [[[[?|?]|] ?]| | |] end; cbn [obind]; try reflexivity.
  gen_norm; cbv [len_ skip_ bytes_ sub_]; cbn [run bind obind].
  repeat (first [reflexivity | progress (rewrite ?run_bind) | progress (rewrite ?IH) | progress (autorewrite with gen_ties)
                | run_split; cbn [run obind bind] | obind_split; cbn [run obind bind]]).
Qed.
Lemma L_avps : forall l, run genL_avps_read l = run avps_read l.
Proof. intros l. unfold genL_avps_read, avps_read. rewrite !run_bind, run_len_. cbn [obind]. apply L_greedy. Qed.
#[export] Hint Rewrite L_avps : gen_ties.
Ltac run_eq3 :=
  intros; gen_norm;
  cbv [len_ is_empty_ u8_ u16_ u32_ u64_ bytes_ skip_ sub_ usub];
  cbn [run obind bind];
  repeat (first [reflexivity
                | progress gen_norm
                | progress (autorewrite with gen_ties)
                | progress (rewrite ?run_bind; autorewrite with gen_ties); cbn [obind]
                | and_split; cbn [run obind bind]
                | run_split; cbn [run obind bind]
                | bind_split; cbn [run obind bind]
                | obind_split; cbn [run obind bind]]);
  try (exfalso; grd; rewrite ?len_takeN in *; lia).
Lemma L_data : forall w l, run (genL_data_read w) l = run (data_read w) l.
Proof. intros w l. unfold genL_data_read, data_read. run_eq3. Qed.
Lemma L_ctrl : forall w o l, run (genL_ctrl_read w o) l = run (ctrl_read w o) l.
Proof. intros w o l. unfold genL_ctrl_read, ctrl_read. run_eq3. all: bool_close. Qed.
#[export] Hint Rewrite L_data L_ctrl : gen_ties.
Lemma L_msg : forall o l, run (genL_msg_read o) l = run (msg_read o) l.
Proof. intros o l. unfold genL_msg_read, msg_read. run_eq3. Qed.

(** the decoder regenerated from the source, with every callee regenerated too, IS the Model's decoder on every input *)
Theorem regenerated_decoder_is_model : forall o b, run (genL_msg_read o) b = m_decode o b.
Proof. intros. apply L_msg. Qed.
Theorem regenerated_avps_is_model : forall b, run genL_avps_read b = m_avps b.
Proof. intros. apply L_avps. Qed.

(** hence the property theorems hold of the regenerated program *)
Theorem G_C01_total : forall o b, bytes_ok b = true ->
  exists r rest, run (genL_msg_read o) b = Val (r, rest) /\ (is_Ok r = true \/ exists e es, r = Err (e :: es)).
Proof. intros o b B. rewrite regenerated_decoder_is_model. exact (message_total o b B). Qed.
Theorem G_C05_refines_spec : forall o b, bytes_ok b = true ->
  exists x, run (genL_msg_read o) b = Val x /\ obs_of x = s_decode o b.
Proof. intros o b B. rewrite regenerated_decoder_is_model. exact (decode_refines o b B). Qed.
Theorem G_C02_no_contract_violation : forall o b, bytes_ok b = true ->
  run (genL_msg_read o) b <> UB /\ (forall k, run (genL_msg_read o) b <> Panic k) /\ run (genL_msg_read o) b <> OutOfFuel.
Proof. intros o b B. rewrite regenerated_decoder_is_model. exact (decode_no_ub o b B). Qed.
Print Assumptions G_C01_total.
Print Assumptions G_C05_refines_spec.
'''


def linked_text(defs):
    """One file: the decoder functions regenerated from the source, linked to each other (every callee is the
    regenerated one, not the Model's), proved equal to the Model's decoder on every input, and the property theorems
    transported to it.  -> text or None when a needed function could not be translated"""
    import re
    need = ['gen_header_read', 'gen_flags_read', 'gen_decode_avp', 'gen_greedy', 'gen_data_read', 'gen_ctrl_read', 'gen_msg_read']
    if any(n not in defs for n in need):
        return None

    def ren(txt, m):
        for a, bb in m:
            txt = re.sub(r'\b%s\b' % a, bb, txt)
        return txt
    out = HEADER + 'From RL Require Import Spec.SpecDecode Proofs.RefineDecode Proofs.Totality.\n'
    out += defs['gen_header_read'] + defs['gen_flags_read'] + defs['gen_decode_avp']
    out += ren(defs['gen_greedy'], [('gen_greedy', 'genL_greedy'), ('header_read', 'gen_header_read'), ('decode_avp', 'gen_decode_avp')])
    out += "Definition genL_avps_read : prog (list (dres avp)) := bind len_ (fun n => genL_greedy (S (N.to_nat n))).\n"
    out += ren(defs['gen_data_read'], [('gen_data_read', 'genL_data_read')])
    out += ren(defs['gen_ctrl_read'], [('gen_ctrl_read', 'genL_ctrl_read'), ('avps_read', 'genL_avps_read')])
    out += ren(defs['gen_msg_read'], [('gen_msg_read', 'genL_msg_read'), ('flags_read', 'gen_flags_read'), ('data_read', 'genL_data_read'),
                                      ('ctrl_read', 'genL_ctrl_read')])
    out = out.replace('From RL Require Import Spec.SpecDecode Proofs.RefineDecode Proofs.Totality.',
                      'From RL Require Import Spec.SpecDecode Spec.SpecEncode Proofs.RefineDecode Proofs.Totality Proofs.RoundTrip '
                      'Proofs.DataRoundTrip Proofs.EncodeFacts Proofs.RefineEncode Proofs.Framing Proofs.Sequence Proofs.Options Proofs.Reencode Proofs.Transport.')
    out += LINKED_TAIL
    kinds = sorted(MODEL_DEC) + ['Hidden', 'SequencingRequired']
    enc_need = ['gen_enc_avp', 'gen_enc_ctrl', 'gen_enc_data'] + ['gen_wr_%s' % k for k in kinds] + ['gen_len_%s' % k for k in kinds]
    if any(n not in defs for n in enc_need):
        return out
    for k in kinds:
        out += defs['gen_wr_%s' % k] + defs['gen_len_%s' % k]

    def disp(fn):
        k32 = config.K32BM[:2] + ['CallSerialNumber', 'MinimumBps', 'MaximumBps'] + config.K32BM[2:] + ['TxConnectSpeed', 'RxConnectSpeed']
        fam = lambda ctor, ks: '| %s k v => match k with %s end' % (ctor, ' '.join('| %s => gen_%s_%s v ARGS' % (x, fn, x) for x in ks))
        arms = ['| AMessageType t => gen_%s_MessageType t ARGS' % fn, '| AResultCode c e => gen_%s_ResultCode c e ARGS' % fn,
                '| AProtocolVersion v r => gen_%s_ProtocolVersion v r ARGS' % fn, fam('A32', k32),
                '| ATieBreaker v => gen_%s_TieBreaker v ARGS' % fn, fam('A16', config.K16), fam('ABytes', config.KBYTES),
                fam('AStr', config.KSTR), fam('AFix', config.KFIX),
                '| AQ931CauseCode cc cm adv => gen_%s_Q931CauseCode cc cm adv ARGS' % fn,
                '| AProxyAuthenType t => gen_%s_ProxyAuthenType t ARGS' % fn, '| AProxyAuthenId v => gen_%s_ProxyAuthenId v ARGS' % fn,
                '| ACallErrors a b c d e f => gen_%s_CallErrors a b c d e f ARGS' % fn, '| AAccm s r => gen_%s_Accm s r ARGS' % fn,
                '| ASequencingRequired => gen_%s_SequencingRequired ARGS' % fn, '| AHidden t v => gen_%s_Hidden t v ARGS' % fn]
        return '\n  '.join(arms)
    # enum_dispatch: which variant's write / get_length a value of the Model's avp type goes to
    out += 'Definition genL_wr_payload (a : avp) (w : writer) : writer :=\n  match a with\n  %s\n  end.\n' % disp('wr').replace('ARGS', 'w')
    out += 'Definition genL_get_length (a : avp) : N :=\n  match a with\n  %s\n  end.\n' % disp('len').replace(' ARGS', '')
    out += LINKED_WR
    out += ren(defs['gen_enc_avp'], [('gen_enc_avp', 'genL_enc_avp'), ('wr_payload', 'genL_wr_payload')])
    out += ('Fixpoint genL_enc_avps (l : list avp) (w : writer) : outcome writer :=\n'
            '  match l with [] => Val w | a :: t => obind (genL_enc_avp a w) (genL_enc_avps t) end.\n')
    out += ren(defs['gen_enc_ctrl'], [('gen_enc_ctrl', 'genL_enc_ctrl'), ('m_enc_avps_w', 'genL_enc_avps')])
    out += defs['gen_enc_data']
    return out + LINKED_ENC_TAIL


LINKED_WR = r'''
Ltac destruct_scrut :=
  repeat match goal with |- context [match ?x with _ => _ end] => is_var x; destruct x end.
Lemma L_wr : forall a w, genL_wr_payload a w = wr_payload a w.
Proof.
  intros a w. destruct a as [t|c e|v r|k v|v|k v|k v|k v|k v|cc cm adv|t|v|a b c d e f|s r| |t v];
    try destruct k; cbv -[w_u8 w_u16 w_u32 w_u64 w_bytes len]; destruct_scrut; reflexivity.
Qed.
Lemma L_len : forall a, genL_get_length a = m_get_length a.
Proof.
  intros a. destruct a as [t|c e|v r|k v|v|k v|k v|k v|k v|cc cm adv|t|v|a b c d e f|s r| |t v];
    try destruct k; cbv -[len N.add]; destruct_scrut; try reflexivity.
  all: match goal with |- ?g => idtac g end.
Qed.
'''

LINKED_ENC_TAIL = r'''(* Message::write dispatches on the variant *)
Definition genL_encode (v : message) (p : list N) : outcome (list N) :=
  omap w_data (match v with Control m => genL_enc_ctrl m (writer_of p) | Data d => gen_enc_data d (writer_of p) end).

Lemma L_enc_avp : forall a w, genL_enc_avp a w = m_enc_avp_w a w.
Proof.
  intros a w. unfold genL_enc_avp, m_enc_avp_w. rewrite !L_wr. cbv zeta. set (w3 := wr_payload a (w_u16 0 (w_bytes [0; 0] w))).
  guard2 (w_len w <=? w_len w3) (w_len w3 <? w_len w). guard2 (w_len w3 - w_len w <=? 1023) (1023 <? w_len w3 - w_len w).
  rewrite land3_mod256, obind_val. destruct (is_hidden a); reflexivity.
Qed.
Lemma L_enc_avps : forall l w, genL_enc_avps l w = m_enc_avps_w l w.
Proof.
  induction l as [|a t IH]; intros w; cbn [genL_enc_avps m_enc_avps_w]; [reflexivity|].
  rewrite L_enc_avp. destruct (m_enc_avp_w a w); cbn [obind]; [apply IH|reflexivity..].
Qed.
Lemma L_enc_ctrl : forall m w, genL_enc_ctrl m w = m_enc_ctrl_w m w.
Proof.
  intros m w. unfold genL_enc_ctrl, m_enc_ctrl_w. rewrite !L_enc_avps.
  change (flags_new true true true false false 2) with (Val (A := N) 4896).
  cbv iota zeta. cbn [obind]. change (2 <=? 15) with true. cbv iota.
  match goal with |- obind ?x _ = obind ?y _ => change x with y; destruct y as [w4| | |]; cbn [obind]; try reflexivity end.
  guard2 (w_len w <=? w_len w4) (w_len w4 <? w_len w). guard2 (w_len w4 - w_len w <=? 65535) (65535 <? w_len w4 - w_len w).
  rewrite be16_mod, obind_val. reflexivity.
Qed.
Lemma L_enc_data : forall d w, gen_enc_data d w = m_enc_data_w d w.
Proof.
  intros d w. unfold gen_enc_data, m_enc_data_w, flags_new, set_bit. destruct d as [p ln t s nsnr off data].
  cbn [d_prio d_length d_tunnel d_session d_nsnr d_offset d_data]. destruct ln, nsnr as [[? ?]|], off, p; reflexivity.
Qed.

(** the encoder regenerated from the source, with every callee regenerated too, IS the Model's encoder *)
Theorem regenerated_encoder_is_model : forall v p, genL_encode v p = m_encode v p.
Proof.
  intros v p. unfold genL_encode, m_encode, m_encode_w. destruct v as [m|d]; [rewrite L_enc_ctrl|rewrite L_enc_data]; reflexivity.
Qed.

(** hence the round-trip and layout theorems hold of the regenerated encoder and decoder together *)
Theorem G_C03_ctrl_roundtrip : forall m, wf_ctrl m = true ->
  exists b, genL_encode (Control m) [] = Val b /\ b = s_enc_ctrl m /\
            run (genL_msg_read strict_opts) b = Val (Ok (Control (with_length m (len b))), []).
Proof.
  intros m H. destruct (ctrl_roundtrip m H) as [b [E [S D]]]. exists b.
  rewrite regenerated_encoder_is_model, regenerated_decoder_is_model. auto.
Qed.
Theorem G_C04_data_roundtrip : forall o d, wf_data d = true ->
  exists b, genL_encode (Data d) [] = Val b /\ b = s_enc_data d /\
            run (genL_msg_read o) b = Val (Ok (Data (decoded_data d)), []).
Proof.
  intros o d H. destruct (data_roundtrip o d H) as [b [E [S D]]]. exists b.
  rewrite regenerated_encoder_is_model, regenerated_decoder_is_model. auto.
Qed.
Theorem G_C06_encode_refines_spec : forall v p,
  genL_encode v p = if encodable v then Val (p ++ s_encode v) else Panic PkAssert.
Proof. intros. rewrite regenerated_encoder_is_model. apply encode_octets. Qed.
Theorem G_C07_lengths_exact : forall v p out, genL_encode v p = Val out ->
  exists body, out = p ++ body /\ body = s_encode v /\
               match v with Control m => walk_ok body = true | Data _ => True end.
Proof. intros v p out. rewrite regenerated_encoder_is_model. apply lengths_exact. Qed.
Theorem G_C09_prefix_independent : forall v p, genL_encode v p = omap (app p) (genL_encode v []).
Proof. intros. rewrite !regenerated_encoder_is_model. apply prefix_independent. Qed.
Theorem G_C08_suffix : forall o b s m rest, bytes_ok b = true -> bytes_ok s = true ->
  run (genL_msg_read o) b = Val (Ok m, rest) ->
  (fw_T (fld 2 0 b) = true \/ fw_L (fld 2 0 b) = true) ->
  run (genL_msg_read o) (b ++ s) = Val (Ok m, rest ++ s).
Proof. intros o b s m rest. rewrite !regenerated_decoder_is_model. apply model_suffix. Qed.
Theorem G_C08_back_to_back : forall v rest, framed v = true -> bytes_ok (s_encode v ++ rest) = true ->
  run (genL_msg_read strict_opts) (s_encode v ++ rest) = Val (Ok (canon v), rest).
Proof. intros v rest. rewrite regenerated_decoder_is_model. apply model_back_to_back. Qed.
Theorem G_C10_reencode_ctrl : forall o b m rest, bytes_ok b = true ->
  run (genL_msg_read o) b = Val (Ok (Control m), rest) ->
  exists e, genL_encode (Control m) [] = Val e /\
            run (genL_msg_read strict_opts) e = Val (Ok (Control (with_length m (len e))), []) /\
            genL_encode (Control (with_length m (len e))) [] = Val e.
Proof.
  intros o b m rest B. rewrite regenerated_decoder_is_model. intros D.
  destruct (model_reencode_ctrl o b m rest B D) as [e [E1 [E2 E3]]]. exists e.
  rewrite !regenerated_encoder_is_model, regenerated_decoder_is_model. auto.
Qed.
Theorem G_C14_monotone : forall o o' b m rest, bytes_ok b = true -> opts_le o o' = true ->
  run (genL_msg_read o') b = Val (Ok m, rest) -> run (genL_msg_read o) b = Val (Ok m, rest).
Proof. intros o o' b m rest. rewrite !regenerated_decoder_is_model. apply model_monotone. Qed.
Theorem G_C15_err_nonempty : forall o b es rest, bytes_ok b = true ->
  run (genL_msg_read o) b = Val (Err es, rest) -> es <> [].
Proof.
  intros o b es rest B. rewrite regenerated_decoder_is_model. intros D.
  destruct (message_total o b B) as [r [rest' [E HH]]]. rewrite E in D. inversion D; subst.
  destruct HH as [O|[e [es' X]]]; [discriminate O|]. inversion X. discriminate.
Qed.
Print Assumptions G_C03_ctrl_roundtrip.
Print Assumptions G_C04_data_roundtrip.
Print Assumptions G_C06_encode_refines_spec.
Print Assumptions G_C07_lengths_exact.
Print Assumptions G_C08_suffix.
Print Assumptions G_C09_prefix_independent.
Print Assumptions G_C10_reencode_ctrl.
Print Assumptions G_C14_monotone.
Print Assumptions G_C15_err_nonempty.
'''
