"""Loads the crate's sources, translates the codec functions and writes the generated Gallina (Gen.v) together with
one tie file per function; run by py/srctie2.py."""
import os
from . import rsparse, trans, config
from .rsparse import Unsupported

RENAME_IMPL = {'src/message/avp/header/flags.rs': {'Flags': 'AvpFlags'}}


def load_crate(repo):
    crate = {'consts': {}, 'fns': {}, 'structs': {}, 'enums': {}, 'statics': {}, 'errors': {}}
    for d, _, fs in os.walk(os.path.join(repo, 'src')):
        for f in sorted(fs):
            p = os.path.join(d, f)
            rel = os.path.relpath(p, repo)
            if not f.endswith('.rs') or f == 'tests.rs' or '/tests/' in rel or rel.endswith('/tests.rs'):
                continue
            try:
                items = rsparse.parse_file(open(p).read())
            except Unsupported as e:
                crate['errors'][rel] = str(e)
                continue
            ren = RENAME_IMPL.get(rel, {})
            for it in items:
                if it[0] == 'const':
                    crate['consts'][(None, it[1])] = (it[2], it[3])
                elif it[0] == 'static':
                    crate['statics'][it[1]] = it[2]
                elif it[0] == 'struct':
                    crate['structs'][ren.get(it[1], it[1])] = it[2]
                elif it[0] == 'enum':
                    crate['enums'][it[1]] = it[2]
                elif it[0] == 'fn':
                    crate['fns'][(None, it[1])] = it
                elif it[0] == 'impl':
                    impl = ren.get(it[1], it[1])
                    for m in it[3]:
                        if m[0] == 'const':
                            crate['consts'][(impl, m[1])] = (m[2], m[3])
                        elif m[0] == 'fn':
                            crate['fns'][(impl, m[1])] = m
    return crate


def wrap_avp(struct):
    """how the value returned by X::try_read becomes the AVP enum value (decode_avp wraps it in the variant)"""
    def f(tr, x):
        if isinstance(x, trans.Ctor) and x.name == 'Ok':
            v = x.args[0]
            if struct == 'MessageType':
                return '(Ok (AMessageType %s))' % trans.paren(tr.text(v))
            if struct == 'ProxyAuthenType':
                return '(Ok (AProxyAuthenType %s))' % trans.paren(tr.text(v))
            return '(Ok %s)' % trans.paren(tr.text(v))
        if isinstance(x, trans.Ctor) and x.name == 'Err':
            return '(Err %s)' % trans.paren(tr.text(x.args[0]))
        raise Unsupported('result leaf %r' % (x,))
    return f


# the model definition each translated function is compared with
MODEL_DEC = {'MessageType': 'dec_message_type', 'ResultCode': 'dec_result_code', 'ProtocolVersion': 'dec_protocol_version',
             'TieBreaker': 'dec_tie_breaker', 'Q931CauseCode': 'dec_q931', 'ProxyAuthenType': 'dec_proxy_authen_type',
             'ProxyAuthenId': 'dec_proxy_authen_id', 'CallErrors': 'dec_call_errors', 'Accm': 'dec_accm'}
for k in config.K16:
    MODEL_DEC[k] = 'dec_u16 %s' % k
for k in config.K32 + config.K32BM:
    MODEL_DEC[k] = 'dec_u32 %s' % k
for k in config.KBYTES:
    MODEL_DEC[k] = 'dec_bytes %s' % k
for k in config.KSTR:
    MODEL_DEC[k] = 'dec_str %s' % k
for k in config.KFIX:
    MODEL_DEC[k] = 'dec_fix %s' % k


def translate_all(repo):
    """-> (defs: {name: (gallina type, gallina body)}, ties: {name: lemma text}, failures: {name: reason})"""
    crate = load_crate(repo)
    defs, ties, fails = {}, {}, dict(('parse:' + k, v) for k, v in crate['errors'].items())
    for struct, model in sorted(MODEL_DEC.items()):
        name = 'gen_dec_%s' % struct
        try:
            tr = trans.Tr(crate, config)
            body = tr.reader_fn(struct, 'try_read', {}, wrap_avp(struct))
            defs[name] = ('prog (dres avp)', body)
            ties[name] = 'Lemma tie : %s = %s.\nProof. vm_compute. reflexivity. Qed.\n' % (name, model)
        except Unsupported as e:
            fails[name] = str(e)
    return defs, ties, fails
