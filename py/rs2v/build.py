"""Loads the crate's sources, translates the codec functions and writes the generated Gallina (Gen.v) together with
one tie file per function; run by py/srctie2.py."""
import os
from . import rsparse, trans, config
from .rsparse import Unsupported

RENAME_IMPL = {'src/message/avp/header/flags.rs': {'Flags': 'AvpFlags'}}


def load_crate(repo):
    crate = {'consts': {}, 'fns': {}, 'structs': {}, 'enums': {}, 'statics': {}, 'errors': {}}
    for d, _, fs in os.walk(os.path.join(repo, 'src')):
        for f in sorted(fs):
            p = os.path.join(d, f)
            rel = os.path.relpath(p, repo)
            if not f.endswith('.rs') or f == 'tests.rs' or '/tests/' in rel or rel.endswith('/tests.rs'):
                continue
            try:
                items = rsparse.parse_file(open(p).read())
            except Unsupported as e:
                crate['errors'][rel] = str(e)
                continue
            ren = RENAME_IMPL.get(rel, {})
            for it in items:
                if it[0] == 'const':
                    crate['consts'][(None, it[1])] = (it[2], it[3])
                elif it[0] == 'static':
                    crate['statics'][it[1]] = it[2]
                elif it[0] == 'struct':
                    crate['structs'][ren.get(it[1], it[1])] = it[2]
                elif it[0] == 'enum':
                    crate['enums'][it[1]] = it[2]
                elif it[0] == 'fn':
                    crate['fns'][(None, it[1])] = it
                elif it[0] == 'impl':
                    impl = ren.get(it[1], it[1])
                    for m in it[3]:
                        if m[0] == 'const':
                            crate['consts'][(impl, m[1])] = (m[2], m[3])
                        elif m[0] == 'fn':
                            crate['fns'][(impl, m[1])] = m
    return crate


def wrap_avp(struct):
    """how the value returned by X::try_read becomes the AVP enum value (decode_avp wraps it in the variant)"""
    def f(tr, x):
        if isinstance(x, trans.Ctor) and x.name == 'Ok':
            v = x.args[0]
            if struct == 'MessageType':
                return '(Ok (AMessageType %s))' % trans.paren(tr.text(v))
            if struct == 'ProxyAuthenType':
                return '(Ok (AProxyAuthenType %s))' % trans.paren(tr.text(v))
            return '(Ok %s)' % trans.paren(tr.text(v))
        if isinstance(x, trans.Ctor) and x.name == 'Err':
            return '(Err %s)' % trans.paren(tr.text(x.args[0]))
        raise Unsupported('result leaf %r' % (x,))
    return f


# the model definition each translated function is compared with
MODEL_DEC = {'MessageType': 'dec_message_type', 'ResultCode': 'dec_result_code', 'ProtocolVersion': 'dec_protocol_version',
             'TieBreaker': 'dec_tie_breaker', 'Q931CauseCode': 'dec_q931', 'ProxyAuthenType': 'dec_proxy_authen_type',
             'ProxyAuthenId': 'dec_proxy_authen_id', 'CallErrors': 'dec_call_errors', 'Accm': 'dec_accm'}
for k in config.K16:
    MODEL_DEC[k] = 'dec_u16 %s' % k
for k in config.K32 + config.K32BM:
    MODEL_DEC[k] = 'dec_u32 %s' % k
for k in config.KBYTES:
    MODEL_DEC[k] = 'dec_bytes %s' % k
for k in config.KSTR:
    MODEL_DEC[k] = 'dec_str %s' % k
for k in config.KFIX:
    MODEL_DEC[k] = 'dec_fix %s' % k


import sys
sys.setrecursionlimit(20000)

HEADER = ('From Coq Require Import NArith List Bool Lia.\nFrom RL Require Import Model.Decode Proofs.ReaderLemmas Proofs.GenSupport.\n'
          'Import ListNotations. Open Scope N_scope.\n')
SIG = {'gen_decode_avp': '(t : N) : prog (dres avp)', 'gen_data_read': '(w : N) : prog (dres data_msg)',
       'gen_ctrl_read': '(w : N) (o : opts) : prog (result (list derr) ctrl_msg)', 'gen_msg_read': '(o : opts) : prog mres'}


def translate_all(repo):
    """-> (defs, ties, fails)
    defs: {name: generated Gallina definition} (independent of each other: callees are the Model's programs);
    ties: {name: [(level, lemma text), ...]} tried in order -- 'terms equal' (kernel conversion after vm_compute) first,
          then 'equal on the list reader' (forall l, run gen l = run model l);
    fails: {name: why the function could not be translated}"""
    crate = load_crate(repo)
    defs, ties, fails = {}, {}, dict(('parse:' + k, v) for k, v in crate['errors'].items())
    generic = lambda tr, x: tr.text(x)
    P = trans.Pure

    def add(name, impl, fn, bind_args, model, ty=None, finish=generic, args='', unfold='', proof=None, no_hook=None, env_extra=None, raw=None):
        try:
            tr = trans.Tr(crate, config)
            if no_hook:
                tr.no_hooks[no_hook] = True
            body = tr.reader_fn(impl, fn, bind_args, finish, env_extra or {})
        except Unsupported as e:
            fails[name] = str(e)
            return
        except RecursionError:
            fails[name] = 'recursion (the function calls itself?)'
            return
        defs[name] = raw % body if raw else 'Definition %s %s :=\n  %s.\n' % (name, (SIG[name] if name in SIG else ': ' + ty), body)
        vs = (' ' + args) if args else ''
        t1 = 'Lemma tie : %s = %s.\nProof. vm_compute. reflexivity. Qed.\n' % (name, model)
        t2 = ('Lemma tie : forall%s l, run (%s%s) l = run (%s%s) l.\nProof. intros%s l. unfold %s%s. %s Qed.\n'
              % (vs, name, vs, model, vs, vs, name, unfold, proof or 'unfold_model. run_eq2.'))
        ties[name] = ([('terms equal', t1)] if not args and not raw else []) + [('equal on the list reader', t2)]

    for struct, model in sorted(MODEL_DEC.items()):
        add('gen_dec_%s' % struct, struct, 'try_read', {}, model, ty='prog (dres avp)', finish=wrap_avp(struct))
    add('gen_header_read', 'Header', 'try_read', {}, 'header_read', ty='prog (option (dres avp_header))', unfold=', header_read',
        no_hook=('Header', 'try_read'))
    add('gen_flags_read', 'Flags', 'read', {}, 'flags_read', ty='prog (dres N)', unfold=', flags_read', no_hook=('Flags', 'read'))
    add('gen_decode_avp', None, 'decode_avp', {'attribute_type': P('t')}, 'decode_avp', args='t',
        proof='destruct t as [|p]; [unfold_model; run_eq2|]. do 6 (try (destruct p as [p|p|])); unfold_model; run_eq2.',
        no_hook=(None, 'decode_avp'))
    add('gen_data_read', 'DataMessage', 'try_read', {'flags': P('w')}, 'data_read', args='w', unfold=', data_read',
        proof='run_eq2.', no_hook=('DataMessage', 'try_read'))
    add('gen_ctrl_read', 'ControlMessage', 'try_read', {'flags': P('w'), 'validation_options': P('o')}, 'ctrl_read', args='w o',
        unfold=', ctrl_read', proof='run_eq2. all: bool_close.', no_hook=('ControlMessage', 'try_read'))
    add('gen_msg_read', 'Message', 'try_read_validate', {'validation_options': P('o')}, 'msg_read', args='o', unfold=', msg_read',
        proof='run_eq2.', no_hook=('Message', 'try_read_validate'))
    add('gen_try_read', 'Message', 'try_read', {}, 'msg_read default_opts', ty='prog mres', unfold=', msg_read', proof='run_eq2.')
    # the AVP loop: one unfolding of the fuelled recursion (`while let Some(h) = Header::try_read(reader)` with the
    # `result.push(x); continue / break` schema)
    add('gen_greedy', 'AVP', 'try_read_greedy', {}, 'greedy', no_hook=('AVP', 'try_read_greedy'), env_extra={'__rec': "(gen_greedy fuel')"},
        raw="Fixpoint gen_greedy (fuel : nat) : prog (list (dres avp)) :=\n  match fuel with O => NoFuel | S fuel' =>\n  %s\n  end.\n")
    if 'gen_greedy' in ties:
        ties['gen_greedy'] = [('equal on the list reader',
                               'Lemma tie : forall fuel l, run (gen_greedy fuel) l = run (greedy fuel) l.\n'
                               'Proof. induction fuel as [|fuel IH]; intros l; [reflexivity|]. cbn [gen_greedy greedy]. loop_eq IH. Qed.\n')]
    return defs, ties, fails
