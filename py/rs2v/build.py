"""Loads the crate's sources, translates the codec functions and writes the generated Gallina (Gen.v) together with
one tie file per function; run by py/srctie2.py."""
import os
from . import rsparse, trans, config
from .rsparse import Unsupported

RENAME_IMPL = {'src/message/avp/header/flags.rs': {'Flags': 'AvpFlags'}}


def load_crate(repo):
    crate = {'consts': {}, 'fns': {}, 'structs': {}, 'enums': {}, 'statics': {}, 'errors': {}}
    for d, _, fs in os.walk(os.path.join(repo, 'src')):
        for f in sorted(fs):
            p = os.path.join(d, f)
            rel = os.path.relpath(p, repo)
            if not f.endswith('.rs') or f == 'tests.rs' or '/tests/' in rel or rel.endswith('/tests.rs'):
                continue
            try:
                items = rsparse.parse_file(open(p).read())
            except Unsupported as e:
                crate['errors'][rel] = str(e)
                continue
            ren = RENAME_IMPL.get(rel, {})
            for it in items:
                if it[0] == 'const':
                    crate['consts'][(None, it[1])] = (it[2], it[3])
                elif it[0] == 'static':
                    crate['statics'][it[1]] = it[2]
                elif it[0] == 'struct':
                    crate['structs'][ren.get(it[1], it[1])] = it[2]
                elif it[0] == 'enum':
                    crate['enums'][it[1]] = it[2]
                elif it[0] == 'fn':
                    crate['fns'][(None, it[1])] = it
                elif it[0] == 'impl':
                    impl = ren.get(it[1], it[1])
                    for m in it[3]:
                        if m[0] == 'const':
                            crate['consts'][(impl, m[1])] = (m[2], m[3])
                        elif m[0] == 'fn':
                            crate['fns'][(impl, m[1])] = m
    return crate


def wrap_avp(struct):
    """how the value returned by X::try_read becomes the AVP enum value (decode_avp wraps it in the variant)"""
    def f(tr, x):
        if isinstance(x, trans.Ctor) and x.name == 'Ok':
            v = x.args[0]
            if struct == 'MessageType':
                return '(Ok (AMessageType %s))' % trans.paren(tr.text(v))
            if struct == 'ProxyAuthenType':
                return '(Ok (AProxyAuthenType %s))' % trans.paren(tr.text(v))
            return '(Ok %s)' % trans.paren(tr.text(v))
        if isinstance(x, trans.Ctor) and x.name == 'Err':
            return '(Err %s)' % trans.paren(tr.text(x.args[0]))
        raise Unsupported('result leaf %r' % (x,))
    return f


# the model definition each translated function is compared with
MODEL_DEC = {'MessageType': 'dec_message_type', 'ResultCode': 'dec_result_code', 'ProtocolVersion': 'dec_protocol_version',
             'TieBreaker': 'dec_tie_breaker', 'Q931CauseCode': 'dec_q931', 'ProxyAuthenType': 'dec_proxy_authen_type',
             'ProxyAuthenId': 'dec_proxy_authen_id', 'CallErrors': 'dec_call_errors', 'Accm': 'dec_accm'}
for k in config.K16:
    MODEL_DEC[k] = 'dec_u16 %s' % k
for k in config.K32 + config.K32BM:
    MODEL_DEC[k] = 'dec_u32 %s' % k
for k in config.KBYTES:
    MODEL_DEC[k] = 'dec_bytes %s' % k
for k in config.KSTR:
    MODEL_DEC[k] = 'dec_str %s' % k
for k in config.KFIX:
    MODEL_DEC[k] = 'dec_fix %s' % k


import sys
sys.setrecursionlimit(20000)

HEADER = ('From Coq Require Import NArith List Bool Lia.\nFrom RL Require Import Model.Decode Model.Encode Proofs.ReaderLemmas Proofs.RefineAvp Proofs.GenSupport.\n'
          'Import ListNotations. Open Scope N_scope.\n')
SIG = {'gen_decode_avp': '(t : N) : prog (dres avp)', 'gen_data_read': '(w : N) : prog (dres data_msg)',
       'gen_ctrl_read': '(w : N) (o : opts) : prog (result (list derr) ctrl_msg)', 'gen_msg_read': '(o : opts) : prog mres'}


def translate_all(repo):
    """-> (defs, ties, fails)
    defs: {name: generated Gallina definition} (independent of each other: callees are the Model's programs);
    ties: {name: [(level, lemma text), ...]} tried in order -- 'terms equal' (kernel conversion after vm_compute) first,
          then 'equal on the list reader' (forall l, run gen l = run model l);
    fails: {name: why the function could not be translated}"""
    crate = load_crate(repo)
    defs, ties, fails = {}, {}, dict(('parse:' + k, v) for k, v in crate['errors'].items())
    generic = lambda tr, x: tr.text(x)
    P = trans.Pure

    def add(name, impl, fn, bind_args, model, ty=None, finish=generic, args='', unfold='', proof=None, no_hook=None, env_extra=None, raw=None):
        try:
            tr = trans.Tr(crate, config)
            if no_hook:
                tr.no_hooks[no_hook] = True
            body = tr.reader_fn(impl, fn, bind_args, finish, env_extra or {})
        except Unsupported as e:
            fails[name] = str(e)
            return
        except RecursionError:
            fails[name] = 'recursion (the function calls itself?)'
            return
        defs[name] = raw % body if raw else 'Definition %s %s :=\n  %s.\n' % (name, (SIG[name] if name in SIG else ': ' + ty), body)
        vs = (' ' + args) if args else ''
        t1 = 'Lemma tie : %s = %s.\nProof. vm_compute. reflexivity. Qed.\n' % (name, model)
        t2 = ('Lemma tie : forall%s l, run (%s%s) l = run (%s%s) l.\nProof. intros%s l. unfold %s%s. %s Qed.\n'
              % (vs, name, vs, model, vs, vs, name, unfold, proof or 'unfold_model. run_eq2.'))
        ties[name] = ([('terms equal', t1)] if not args and not raw else []) + [('equal on the list reader', t2)]

    for struct, model in sorted(MODEL_DEC.items()):
        add('gen_dec_%s' % struct, struct, 'try_read', {}, model, ty='prog (dres avp)', finish=wrap_avp(struct))
    add('gen_header_read', 'Header', 'try_read', {}, 'header_read', ty='prog (option (dres avp_header))', unfold=', header_read',
        no_hook=('Header', 'try_read'))
    add('gen_flags_read', 'Flags', 'read', {}, 'flags_read', ty='prog (dres N)', unfold=', flags_read', no_hook=('Flags', 'read'))
    add('gen_decode_avp', None, 'decode_avp', {'attribute_type': P('t')}, 'decode_avp', args='t',
        proof='destruct t as [|p]; [unfold_model; run_eq2|]. do 6 (try (destruct p as [p|p|])); unfold_model; run_eq2.',
        no_hook=(None, 'decode_avp'))
    add('gen_data_read', 'DataMessage', 'try_read', {'flags': P('w')}, 'data_read', args='w', unfold=', data_read',
        proof='run_eq2.', no_hook=('DataMessage', 'try_read'))
    add('gen_ctrl_read', 'ControlMessage', 'try_read', {'flags': P('w'), 'validation_options': P('o')}, 'ctrl_read', args='w o',
        unfold=', ctrl_read', proof='run_eq2. all: bool_close.', no_hook=('ControlMessage', 'try_read'))
    add('gen_msg_read', 'Message', 'try_read_validate', {'validation_options': P('o')}, 'msg_read', args='o', unfold=', msg_read',
        proof='run_eq2.', no_hook=('Message', 'try_read_validate'))
    add('gen_try_read', 'Message', 'try_read', {}, 'msg_read default_opts', ty='prog mres', unfold=', msg_read', proof='run_eq2.')
    # the AVP loop: one unfolding of the fuelled recursion (`while let Some(h) = Header::try_read(reader)` with the
    # `result.push(x); continue / break` schema)
    add('gen_greedy', 'AVP', 'try_read_greedy', {}, 'greedy', no_hook=('AVP', 'try_read_greedy'), env_extra={'__rec': "(gen_greedy fuel')"},
        raw="Fixpoint gen_greedy (fuel : nat) : prog (list (dres avp)) :=\n  match fuel with O => NoFuel | S fuel' =>\n  %s\n  end.\n")
    if 'gen_greedy' in ties:
        ties['gen_greedy'] = [('equal on the list reader',
                               'Lemma tie : forall fuel l, run (gen_greedy fuel) l = run (greedy fuel) l.\n'
                               'Proof. induction fuel as [|fuel IH]; intros l; [reflexivity|]. cbn [gen_greedy greedy]. loop_eq IH. Qed.\n')]
    # ------------------------------------------------------------ encoders
    PARAM_TY = {'u8': 'N', 'u16': 'N', 'u32': 'N', 'u64': 'N', 'usize': 'N', 'Vec<u8>': 'list N', 'String': 'list N', 'CodeValue': 'N',
                'Option<String>': 'option (list N)', 'Option<Error>': 'option (err_type * option (list N))'}
    ENC_EQ = ('Proof. intros. cbv [%s wr_payload m_get_length]. repeat match goal with |- context [match ?x with _ => _ end] => '
              'is_var x; destruct x end; reflexivity. Qed.\n')

    def struct_params(struct):
        st = crate['structs'].get(struct)
        if st is None:
            raise Unsupported('struct %s not found' % struct)
        ps = []
        for f, ty in st:
            ty = ty.replace(' ', '')
            g = PARAM_TY.get(ty) or ('list N' if ty.startswith('[u8;') else None)
            if g is None:
                raise Unsupported('field type %s' % ty)
            ps.append((f, g))
        return ps

    for struct in sorted(MODEL_DEC) + ['Hidden', 'SequencingRequired']:
        for kind in ('wr', 'len'):
            name = 'gen_%s_%s' % (kind, struct)
            try:
                tr = trans.Tr(crate, config)
                if struct in ('MessageType', 'ProxyAuthenType'):
                    ps = [('t', 'msg_type' if struct == 'MessageType' else 'pa_type')]
                    sv = trans.Pure('t')
                    model_val = '(%s t)' % ('AMessageType' if struct == 'MessageType' else 'AProxyAuthenType')
                else:
                    ps = struct_params(struct)
                    sv = trans.Rec(struct, [(f, trans.Pure(f)) for f, _ in ps])
                    model_val = tr.text(sv)
                pt = ' '.join('(%s : %s)' % p for p in ps)
                vs = ' '.join(p[0] for p in ps)
                if kind == 'wr':
                    body = tr.writer_fn(struct, 'write', sv, {}, True)
                    defs[name] = 'Definition %s %s (w : writer) : writer :=\n  %s.\n' % (name, pt, body)
                    ties[name] = [('terms equal', 'Lemma tie : forall %s w, %s %s w = wr_payload %s w.\n' % (vs, name, vs, model_val) + ENC_EQ % name)] \
                        if vs else [('terms equal', 'Lemma tie : forall w, %s w = wr_payload %s w.\n' % (name, model_val) + ENC_EQ % name)]
                else:
                    body = tr.pure_fn(struct, 'get_length', sv, {})
                    defs[name] = 'Definition %s %s : N :=\n  %s.\n' % (name, pt, body)
                    ties[name] = [('terms equal', 'Lemma tie : forall %s, %s %s = m_get_length %s.\n' % (vs, name, vs, model_val) + ENC_EQ % name)] \
                        if vs else [('terms equal', 'Lemma tie : %s = m_get_length %s.\n' % (name, model_val) + ENC_EQ % name)]
            except Unsupported as e:
                fails[name] = str(e)
            except RecursionError:
                fails[name] = 'recursion'
    # top-level encoders (outcome writer: the asserts and the positional overwrite can refuse)
    def addw(name, impl, fn, self_val, bind_args, sig, stmt, proof, self_ty=None):
        try:
            tr = trans.Tr(crate, config)
            body = tr.writer_fn(impl, fn, self_val, bind_args, False)
            defs[name] = 'Definition %s %s : outcome writer :=\n  %s.\n' % (name, sig, body)
            ties[name] = [('equal on every writer state', 'Lemma tie : %s.\nProof. %s Qed.\n' % (stmt, proof))]
        except Unsupported as e:
            fails[name] = str(e)
        except RecursionError:
            fails[name] = 'recursion'
    pv = crate['consts'].get(('Message', 'PROTOCOL_VERSION'))
    pvv = P(str(pv[1][1])) if pv and pv[1][0] == 'num' else P('2')
    addw('gen_enc_avp', 'AVP', 'write', P('a'), {}, '(a : avp) (w : writer)',
         'forall a w, gen_enc_avp a w = m_enc_avp_w a w',
         'intros a w. unfold gen_enc_avp, m_enc_avp_w. cbv zeta. set (w3 := wr_payload a (w_u16 0 (w_bytes [0; 0] w))). '
         'guard2 (w_len w <=? w_len w3) (w_len w3 <? w_len w). guard2 (w_len w3 - w_len w <=? 1023) (1023 <? w_len w3 - w_len w). '
         'rewrite land3_mod256, obind_val. destruct (is_hidden a); reflexivity.')
    addw('gen_enc_ctrl', 'ControlMessage', 'write', P('m'), {'protocol_version': pvv}, '(m : ctrl_msg) (w : writer)',
         'forall m w, gen_enc_ctrl m w = m_enc_ctrl_w m w',
         'intros m w. unfold gen_enc_ctrl, m_enc_ctrl_w. change (flags_new true true true false false 2) with (Val (A := N) 4896). '
         'cbv iota zeta. cbn [obind]. change (2 <=? 15) with true. cbv iota. '
         'match goal with |- obind ?x _ = obind ?y _ => change x with y; destruct y as [w4| | |]; cbn [obind]; try reflexivity end. '
         'guard2 (w_len w <=? w_len w4) (w_len w4 <? w_len w). guard2 (w_len w4 - w_len w <=? 65535) (65535 <? w_len w4 - w_len w). '
         'rewrite be16_mod, obind_val. reflexivity.')
    addw('gen_enc_data', 'DataMessage', 'write', P('d'), {'protocol_version': pvv}, '(d : data_msg) (w : writer)',
         'forall d w, gen_enc_data d w = m_enc_data_w d w',
         'intros d w. unfold gen_enc_data, m_enc_data_w, flags_new, set_bit. destruct d as [p ln t s nsnr off data]. '
         'cbn [d_prio d_length d_tunnel d_session d_nsnr d_offset d_data]. destruct ln, nsnr as [[? ?]|], off, p; reflexivity.')
    try:
        tr = trans.Tr(crate, config)
        body = tr.pure_fn('Flags', 'new', None, {'message_type': P('control'), 'has_length': P('l'), 'has_ns_nr': P('s'),
                                                 'has_offset': P('o'), 'is_prioritized': P('p'), 'version': P('version')}, leaf='Val %s')
        defs['gen_flags_new'] = 'Definition gen_flags_new (control l s o p : bool) (version : N) : outcome N :=\n  %s.\n' % body
        ties['gen_flags_new'] = [('equal for all arguments', 'Lemma tie : forall control l s o p version, gen_flags_new control l s o p version = flags_new control l s o p version.\n'
                                  'Proof. intros. unfold gen_flags_new, flags_new, set_bit. destruct control, l, s, o, p; cbv iota; guard2 (version <=? 15) (15 <? version). Qed.\n')]
    except Unsupported as e:
        fails['gen_flags_new'] = str(e)
    return defs, ties, fails
