"""Representation tables of the translator: how the crate's data types are represented in the Model
(Model/Values.v), written once by hand.  This is the translator's trusted configuration: it fixes data representation,
never control flow."""
from .rsparse import Unsupported
from .trans import Pure, Ctor, Case, If, Rec, paren

# value types: struct name -> function building the model's avp from the struct's fields
K16 = ['FirmwareRevision', 'AssignedTunnelId', 'ReceiveWindowSize', 'AssignedSessionId']
K32 = ['CallSerialNumber', 'MinimumBps', 'MaximumBps', 'TxConnectSpeed', 'RxConnectSpeed']
K32BM = ['FramingCapabilities', 'BearerCapabilities', 'BearerType', 'FramingType']
KBYTES = ['HostName', 'Challenge', 'InitialReceivedLcpConfReq', 'LastSentLcpConfReq', 'LastReceivedLcpConfReq',
          'ProxyAuthenName', 'ProxyAuthenChallenge', 'ProxyAuthenResponse', 'PrivateGroupId']
KSTR = ['VendorName', 'CalledNumber', 'CallingNumber', 'SubAddress']
KFIX = ['RandomVector', 'ChallengeResponse', 'PhysicalChannelId']


def _f(tr, r, name):
    if name not in r.fields:
        raise Unsupported('struct %s built without field %s' % (r.name, name))
    return paren(tr.text(r.fields[name]))


def _opt(tr, v):
    return tr.text(v)


rec_text = {}
for _k in K16:
    rec_text[_k] = (lambda k: lambda tr, r: '(A16 %s %s)' % (k, _f(tr, r, 'value')))(_k)
for _k in K32:
    rec_text[_k] = (lambda k: lambda tr, r: '(A32 %s %s)' % (k, _f(tr, r, 'value')))(_k)
for _k in K32BM:
    rec_text[_k] = (lambda k: lambda tr, r: '(A32 %s %s)' % (k, _f(tr, r, 'data')))(_k)
for _k in KBYTES:
    rec_text[_k] = (lambda k: lambda tr, r: '(ABytes %s %s)' % (k, _f(tr, r, 'value')))(_k)
for _k in KSTR:
    rec_text[_k] = (lambda k: lambda tr, r: '(AStr %s %s)' % (k, _f(tr, r, 'value')))(_k)
for _k in KFIX:
    rec_text[_k] = (lambda k: lambda tr, r: '(AFix %s %s)' % (k, _f(tr, r, 'value')))(_k)
rec_text['TieBreaker'] = lambda tr, r: '(ATieBreaker %s)' % _f(tr, r, 'value')
rec_text['ProtocolVersion'] = lambda tr, r: '(AProtocolVersion %s %s)' % (_f(tr, r, 'version'), _f(tr, r, 'revision'))
rec_text['Q931CauseCode'] = lambda tr, r: '(AQ931CauseCode %s %s %s)' % (_f(tr, r, 'cause_code'), _f(tr, r, 'cause_msg'), _f(tr, r, 'advisory'))
rec_text['ProxyAuthenId'] = lambda tr, r: '(AProxyAuthenId %s)' % _f(tr, r, 'value')
rec_text['CallErrors'] = lambda tr, r: '(ACallErrors %s)' % ' '.join(_f(tr, r, f) for f in (
    'crc_errors', 'framing_errors', 'hardware_overruns', 'buffer_overruns', 'timeout_errors', 'alignment_errors'))
rec_text['Accm'] = lambda tr, r: '(AAccm %s %s)' % (_f(tr, r, 'send_accm'), _f(tr, r, 'receive_accm'))
rec_text['ResultCode'] = lambda tr, r: '(AResultCode %s %s)' % (_f(tr, r, 'code'), _f(tr, r, 'error'))
rec_text['Error'] = lambda tr, r: '(%s, %s)' % (tr.text(r.fields['error_type']), tr.text(r.fields['error_message']))
rec_text['Hidden'] = lambda tr, r: '(AHidden %s %s)' % (_f(tr, r, 'attribute_type'), _f(tr, r, 'value'))
rec_text['SequencingRequired'] = lambda tr, r: 'ASequencingRequired'
rec_text['Header'] = lambda tr, r: ('{| h_flags := %s; h_payload_length := %s; h_vendor := %s; h_type := %s |}'
                                    % (tr.text(r.fields['flags']), tr.text(r.fields['payload_length']),
                                       tr.text(r.fields['vendor_id']), tr.text(r.fields['attribute_type'])))
rec_text['AvpFlags'] = lambda tr, r: tr.text(r.fields['data'])
rec_text['Flags'] = lambda tr, r: tr.text(r.fields['data'])
rec_text['ControlMessage'] = lambda tr, r: ('{| c_length := %s; c_tunnel := %s; c_session := %s; c_ns := %s; c_nr := %s; c_avps := %s |}'
                                            % tuple(tr.text(r.fields[f]) for f in ('length', 'tunnel_id', 'session_id', 'ns', 'nr', 'avps')))
rec_text['DataMessage'] = lambda tr, r: ('{| d_prio := %s; d_length := %s; d_tunnel := %s; d_session := %s; d_nsnr := %s; d_offset := %s; d_data := %s |}'
                                         % tuple(tr.text(r.fields[f]) for f in ('is_prioritized', 'length', 'tunnel_id', 'session_id', 'ns_nr', 'offset', 'data')))

ERR_ARGS = ['IncompleteAVP', 'UnknownMessageType', 'InvalidUtf8', 'InvalidResultCodeErrorType', 'AVPReadError',
            'InvalidAVPLength', 'UnknownAvp', 'InvalidOriginalAVPLength', 'UnsupportedVendorId', 'InvalidVersion', 'InvalidOffset']
ERR_UNIT = ['EmptyHiddenAVP', 'MisalignedHiddenAVP', 'InvalidReservedBits', 'IncompleteFlags', 'IncompleteDataMessageHeader',
            'IncompleteDataMessagePayload', 'EmptyDataMessagePayload', 'MessageReadError', 'ForbiddenControlMessagePriority',
            'ForbiddenControlMessageOffset', 'ControlMessageWithoutLength', 'ControlMessageWithoutNsNr',
            'IncompleteControlMessageHeader', 'IncompleteControlMessagePayload', 'ControlMessageTypeNotFirst']
ctor_fns = {('DecodeError', n): n + ' %s' for n in ERR_ARGS}
enum_values = {('DecodeError', n): n for n in ERR_UNIT}
enum_values.update({('MessageFlagType', 'Control'): 'true', ('MessageFlagType', 'Data'): 'false'})
for _i, _e in enumerate(['EtOk', 'NoControlConnectionExists', 'WrongLength', 'OutOfRangeOrBadReserved', 'InsufficientResources',
                         'InvalidSessionId', 'Generic', 'TryAnotherDestination', 'UnknownMandatoryAvp']):
    enum_values[('ErrorType', 'Ok' if _e == 'EtOk' else _e)] = _e
MT = ['StartControlConnectionRequest', 'StartControlConnectionReply', 'StartControlConnectionConnected',
      'StopControlConnectionNotification', 'Hello', 'OutgoingCallRequest', 'OutgoingCallReply', 'OutgoingCallConnected',
      'IncomingCallRequest', 'IncomingCallReply', 'IncomingCallConnected', 'CallDisconnectNotify', 'WanErrorNotify', 'SetLinkInfo']
for _m in MT:
    enum_values[(None, _m)] = _m
    enum_values[('MessageType', _m)] = _m
unit_values = {'true': 'true', 'false': 'false'}
field_access = {'unused': 'v_unused', 'reserved': 'v_reserved', 'version': 'v_version',
                'payload_length': 'h_payload_length', 'vendor_id': 'h_vendor', 'attribute_type': 'h_type', 'flags': 'h_flags'}
ctor_test = {'MessageType': 'is_msgtype %s'}
bool_enum = {('ValidateUnused', 'Yes'): True, ('ValidateVersion', 'Yes'): True, ('ValidateReserved', 'Yes'): True,
             ('MessageFlagType', 'Control'): True}
identity_from = {'CodeValue'}
defaults = {'SequencingRequired': 'ASequencingRequired'}
static_maps = {'MESSAGE_CODE_TO_TYPE': 'mt_of_code'}
call_hooks = {}
method_hooks = {}
loop_hook = None

ENUM_OF_CODE = {'ErrorType': 'et_of_code', 'ProxyAuthenType': 'pa_of_code', 'StopCcnCode': 'sc_of_code', 'CdnCode': 'cd_of_code'}


def err_conv(tr, v, env):
    return v


def array_len_of_self(tr, env):
    st = tr.c['structs'].get(env.get('__impl')) or []
    lens = set()
    for f, ty in st:
        ty = ty.replace(' ', '')
        if ty.startswith('[u8;') and ty.endswith(']'):
            n = ty[4:-1]
            if n.isdigit():
                lens.add(int(n))
            else:
                v, _ = tr.const(env.get('__impl'), n)
                lens.add(int(tr.text(v)))
    if len(lens) == 1:
        return lens.pop()
    return None


def enum_target(tr, env):
    """the enumeration a `try_into()` converts into: the type of the struct field the value is bound to, or Self"""
    impl = env.get('__impl')
    if impl in ENUM_OF_CODE:
        return impl
    st = tr.c['structs'].get(impl) or []
    cands = [ty.strip() for f, ty in st if ty.strip() in ENUM_OF_CODE]
    if len(cands) == 1:
        return cands[0]
    return None


def try_into(tr, v, recv, env):
    """slice -> [u8; N] (fails unless the length is N);  u16 -> enumeration (fails on an unassigned code)"""
    ty = tr.ity(recv, env)
    if ty in ('u16', 'u8'):
        en = enum_target(tr, env)
        if en is None:
            raise Unsupported('try_into: target enumeration unknown')
        def leaf(x):
            a = tr.g.fresh('t')
            return Case('%s %s' % (ENUM_OF_CODE[en], paren(tr.text(x))), [('Some %s' % a, Ctor('Ok', [Pure(a)])), ('None', Ctor('Err', [Pure('tt')]))])
        return tr.vmap(v, leaf)
    n = array_len_of_self(tr, env)
    if n is None:
        raise Unsupported('try_into: target array length unknown')
    return tr.vmap(v, lambda x: If('len %s =? %d' % (paren(tr.text(x)), n), Ctor('Ok', [x]), Ctor('Err', [Pure('tt')])))


def value_impl(tr, recv, v, env):
    if recv[0] == 'path' and len(recv[1]) == 1:
        t = env.get('__ty', {}).get(recv[1][0])
        if t:
            return t.split('<')[0].strip()
    if recv[0] == 'field':
        return None
    return None


# ---------------------------------------------------------------- higher-level functions
impl_alias = {('Header', 'Flags'): 'AvpFlags'}
var_impl = {'flags': 'Flags', 'header': 'Header'}
field_impl = {'flags': 'AvpFlags'}
avp_variants = {n: None for n in K16 + K32 + K32BM + KBYTES + KSTR + KFIX + [
    'ResultCode', 'ProtocolVersion', 'TieBreaker', 'Q931CauseCode', 'ProxyAuthenId', 'CallErrors', 'Accm',
    'SequencingRequired', 'Hidden']}
avp_variants['MessageType'] = '(AMessageType %s)'
avp_variants['ProxyAuthenType'] = '(AProxyAuthenType %s)'
ctor_fns[('Message', 'Data')] = 'Data %s'
ctor_fns[('Message', 'Control')] = 'Control %s'
for _e in ('ValidateReserved', 'ValidateVersion', 'ValidateUnused'):
    enum_values[(_e, 'Yes')] = 'true'
    enum_values[(_e, 'No')] = 'false'
rec_text['ValidationOptions'] = lambda tr, r: ('{| v_reserved := %s; v_version := %s; v_unused := %s |}'
                                               % tuple(tr.text(r.fields[f]) for f in ('reserved', 'version', 'unused')))


def value_impl(tr, recv, v, env):
    if recv[0] == 'path' and len(recv[1]) == 1:
        t = env.get('__ty', {}).get(recv[1][0])
        if t:
            t = t.split('<')[0].strip()
            if t in tr.c['structs'] or any(k[0] == t for k in tr.c['fns']):
                return impl_alias.get((env.get('__impl'), t), t)
        return var_impl.get(recv[1][0])
    if recv[0] == 'field':
        return field_impl.get(recv[2])
    return None


def _opaque(model_text_of_args, sub_ok=True):
    """call hook: the callee has its own tie; here it is the Model's program, sequenced with bind
    (or run on a sub-reader with Sub when the reader argument is a sub-reader)"""
    def hook(tr, args, env, k):
        def go(vs, env2):
            subs = [v for v in vs if isinstance(v, Ctor) and v.name == 'SubReader']
            pure = [v for v in vs if not (isinstance(v, Ctor) and v.name in ('SubReader', 'Reader'))]
            prog = model_text_of_args(tr, pure)
            r = tr.g.fresh('r')
            body = k(Pure(r), env2)
            if subs:
                return 'Sub %s %s (fun %s => %s)' % (paren(tr.text(subs[0].args[0])), paren(prog), r, body)
            if body == 'Ret %s' % r:
                return prog          # right identity of bind: a tail call
            return 'bind %s (fun %s => %s)' % (paren(prog), r, body)
        return tr.evs(args, env, go)
    return hook


call_hooks[('Header', 'try_read')] = _opaque(lambda tr, a: 'header_read')
call_hooks[('Flags', 'read')] = _opaque(lambda tr, a: 'flags_read')
call_hooks[(None, 'decode_avp')] = _opaque(lambda tr, a: 'decode_avp %s' % paren(tr.text(a[0])))
call_hooks[('AVP', 'try_read_greedy')] = _opaque(lambda tr, a: 'avps_read')
call_hooks[('DataMessage', 'try_read')] = _opaque(lambda tr, a: 'data_read %s' % paren(tr.text(a[0])))
call_hooks[('ControlMessage', 'try_read')] = _opaque(lambda tr, a: 'ctrl_read %s %s' % (paren(tr.text(a[0])), paren(tr.text(a[1]))))
call_hooks[('Message', 'try_read_validate')] = _opaque(lambda tr, a: 'msg_read %s' % paren(tr.text(a[0])))


def _closure_fn_name(clo, meth_map):
    """|x| x.m()  ->  the model function for m (eta-reduced)"""
    if clo[0] == 'closure' and len(clo[1]) == 1 and clo[1][0][0] == 'pvar':
        b = clo[2]
        if b[0] == 'mcall' and b[1] == ('path', [clo[1][0][1]]) and not b[3] and b[2] in meth_map:
            return meth_map[b[2]]
    return None


def _hook_any(tr, recv, args, env, k):
    f = _closure_fn_name(args[0], {'is_err': 'is_err'}) if len(args) == 1 else None
    if f is None:
        raise Unsupported('any() with an unrecognised closure')
    return tr.ev(recv, env, lambda v, env2: k(Pure('(existsb %s %s)' % (f, paren(tr.text(v)))), env2))


def _hook_collect(tr, recv, args, env, k):
    if recv[0] == 'mcall' and recv[2] == 'filter_map' and len(recv[3]) == 1:
        f = _closure_fn_name(recv[3][0], {'err': 'errs_of', 'ok': 'oks_of'})
        if f is not None:
            return tr.ev(recv[1], env, lambda v, env2: k(Pure('(%s %s)' % (f, paren(tr.text(v)))), env2))
    raise Unsupported('collect() of an unrecognised iterator chain')


def _hook_push(tr, recv, args, env, k):
    if recv != ('path', ['result']) or '__pending' not in env:
        raise Unsupported('push outside the result-list loop schema')
    return tr.ev(args[0], env, lambda v, env2: k(Ctor('Unit'), dict(env2, __pending=env2['__pending'] + [v])))


def _hook_all(tr, recv, args, env, k):
    clo = args[0] if len(args) == 1 else None
    if not clo or clo[0] != 'closure' or len(clo[1]) != 1 or clo[1][0][0] != 'pvar':
        raise Unsupported('all() with an unrecognised closure')
    x = tr.g.fresh('i')
    def f(v, env2):
        body = tr.pure_expr(clo[2], dict(env2, **{clo[1][0][1]: Pure(x)}), env2.get('__impl'))
        return k(Pure('(forallb (fun %s => %s) %s)' % (x, tr.text(body), paren(tr.text(v)))), env2)
    return tr.ev(recv, env, f)


method_hooks.update({'all': _hook_all, 'any': _hook_any, 'collect': _hook_collect, 'push': _hook_push})


def loop_hook(tr, e, env, k):
    """while let Some(x) = F(reader) { body }  with the `result.push(..); continue/break` schema:
    one unfolding of the model's fuelled recursion; `__rec` is the name of the recursive call"""
    _, pat, scrut, body = e
    if '__rec' not in env or pat[0] != 'pctor' or pat[1][-1] != 'Some' or len(pat[2]) != 1 or pat[2][0][0] != 'pvar':
        raise Unsupported('while-let loop outside the supported schema')
    var = pat[2][0][1]

    def lst(vs, tail):
        t = tail
        for v in reversed(vs):
            t = '(%s :: %s)' % (tr.text(v), t)
        return t

    def cont(env2):
        r = tr.g.fresh('rest')
        return 'bind %s (fun %s => Ret %s)' % (env['__rec'], r, lst(env2['__pending'], r))

    def brk(env2):
        return 'Ret %s' % lst(env2['__pending'], '[]')

    def after_scrut(v, env2):
        o = tr.as_option(v) if isinstance(v, Pure) else v
        def leaf(x):
            if x.name == 'None':
                return 'Ret []'
            env3 = dict(env2, **{var: x.args[0]})
            env3.update(__pending=[], __continue=cont, __break=brk)
            return tr.block(body, env3, lambda v2, env4: cont(env4))
        return tr.on(o, leaf)
    return tr.ev(scrut, env, after_scrut)


# ---------------------------------------------------------------- encoders
field_access_impl = {
    ('ValidationOptions', 'unused'): 'v_unused', ('ValidationOptions', 'reserved'): 'v_reserved', ('ValidationOptions', 'version'): 'v_version',
    ('DataMessage', 'is_prioritized'): 'd_prio', ('DataMessage', 'length'): 'd_length', ('DataMessage', 'tunnel_id'): 'd_tunnel',
    ('DataMessage', 'session_id'): 'd_session', ('DataMessage', 'ns_nr'): 'd_nsnr', ('DataMessage', 'offset'): 'd_offset',
    ('DataMessage', 'data'): 'd_data',
    ('ControlMessage', 'length'): 'c_length', ('ControlMessage', 'tunnel_id'): 'c_tunnel', ('ControlMessage', 'session_id'): 'c_session',
    ('ControlMessage', 'ns'): 'c_ns', ('ControlMessage', 'nr'): 'c_nr', ('ControlMessage', 'avps'): 'c_avps',
    ('Error', 'error_type'): 'fst', ('Error', 'error_message'): 'snd',
    ('Header', 'payload_length'): 'h_payload_length', ('Header', 'vendor_id'): 'h_vendor', ('Header', 'attribute_type'): 'h_type',
    ('Header', 'flags'): 'h_flags',
}
ENUM_CODE = {'ErrorType': 'et_code', 'ProxyAuthenType': 'pa_code', 'StopCcnCode': 'sc_code', 'CdnCode': 'cd_code', 'CodeValue': None}
defaults['Flags'] = '0'
for_hook = None


def _hook_into(tr, recv, args, env, k):
    """x.into(): identity for the raw code value, the code table for the crate's enumerations"""
    ty = tr.sty(recv, env)
    if ty in ENUM_CODE:
        f = ENUM_CODE[ty]
        return tr.ev(recv, env, lambda v, env2: k(tr.vmap(v, lambda x: Pure('(%s %s)' % (f, paren(tr.text(x)))) if f else x), env2))
    raise Unsupported('into() on a value of type %s' % ty)


method_hooks['into'] = _hook_into


def matches_test(tr, pat_expr):
    # matches!(self, Hidden(_))
    if pat_expr[0] == 'call' and pat_expr[1][0] == 'path' and pat_expr[1][1][-1] == 'Hidden':
        return 'is_hidden %s'
    return None


def _for_hook(tr, e, env, k):
    """for avp in self.avps.iter() { avp.write(writer); }  ->  the Model's fold over the list"""
    _, pat, it, body = e
    if (pat[0] == 'pvar' and body[2] is None and len(body[1]) == 1 and body[1][0][0] == 'expr'
            and body[1][0][1] == ('mcall', ('path', [pat[1]]), 'write', [('path', ['writer'])]) and '__w' in env):
        def g(v, env2):
            w2 = tr.g.fresh('w')
            return 'obind (m_enc_avps_w %s %s) (fun %s => %s)' % (paren(tr.text(v)), env2['__w'], w2, k(Ctor('Unit'), dict(env2, __w=w2)))
        return tr.ev(it, env, g)
    raise Unsupported('for loop outside the supported schema')


for_hook = _for_hook


def _hook_wr_payload(tr, args, env, k):
    # WritableAVP::write(self, writer): enum_dispatch to the per-type write, each tied separately
    return tr.ev(args[0], env, lambda v, env2: k(Ctor('Unit'), dict(env2, __w='(wr_payload %s %s)' % (paren(tr.text(v)), env2['__w']))))


call_hooks[('WritableAVP', 'write')] = _hook_wr_payload

word_structs = {'Flags', 'AvpFlags'}
