"""Translation of the crate's slice / Vec code (SliceReader, VecWriter, AVP::hide, AVP::reveal) into Gallina over
`list N` in the `outcome` monad (Model/VecOps.v gives the meaning of each Rust slice/Vec operation the translator
emits: v_to, v_from, v_range, v_get_to, v_unchecked_to, v_unchecked_at, v_at, v_set, v_copy, for_range, for_range_rev).

Like trans.py this is a CPS evaluator over the rsparse AST: `ev(e, env, k)` returns the Coq text of "evaluate e, then
continue with k(value, env)"; statements that change variables without leaving the block (`if` without early exit, `for`)
are joined through a tuple of the changed places instead of duplicating the continuation."""
import re
from . import rsparse
from .rsparse import Unsupported


class SV:
    """symbolic value: kind in N | bool | list | unit | struct | opt | res | avp | ptr | range | tuple | digest"""
    def __init__(self, kind, text=None, ity=None, fields=None, sname=None, slen=None, extra=None):
        self.kind, self.text, self.ity, self.fields, self.sname, self.slen, self.extra = kind, text, ity, fields, sname, slen, extra

    def __repr__(self):
        return 'SV(%s,%s)' % (self.kind, self.text if self.kind != 'struct' else self.fields)


UNIT = SV('unit', 'tt')
MUTATORS = {'extend_from_slice', 'push', 'clear', 'truncate', 'write_bytes', 'write_bytes_at', 'write_u8', 'write_u16_be',
            'write_u32_be', 'write_u64_be', 'skip_bytes', 'subreader', 'bytes', 'read_u8_unchecked', 'read_u16_be_unchecked',
            'read_u32_be_unchecked', 'read_u64_be_unchecked'}
INT_BITS = {'u8': 8, 'u16': 16, 'u32': 32, 'u64': 64, 'usize': 64}


def paren(s):
    s = s.strip()
    if re.fullmatch(r'[\w\.\']+', s) or (s.startswith('(') and _balanced(s)) or (s.startswith('[') and s.endswith(']') and _balanced2(s)):
        return s
    return '(' + s + ')'


def _balanced(s):
    d = 0
    for i, c in enumerate(s):
        if c == '(':
            d += 1
        elif c == ')':
            d -= 1
            if d == 0 and i != len(s) - 1:
                return False
    return d == 0


def _balanced2(s):
    d = 0
    for i, c in enumerate(s):
        if c == '[':
            d += 1
        elif c == ']':
            d -= 1
            if d == 0 and i != len(s) - 1:
                return False
    return d == 0


def load_macros(src):
    """single-arm macro_rules! definitions of one file -> {name: ([param names], block AST)}; other shapes are left out
    (a use of such a macro is then 'not translated')"""
    t = rsparse.lex(src)
    out = {}
    i = 0
    while i < len(t):
        if t[i][1] != 'macro_rules!':
            i += 1
            continue
        try:
            name = t[i + 1][1]
            j = i + 2
            if t[j][1] != '{' or t[j + 1][1] != '(':
                raise Unsupported('macro_rules %s' % name)
            j += 2
            params = []
            while t[j][1] != ')':
                if t[j][1] == '$' and t[j + 2][1] == ':' and t[j + 3][1] == 'expr':
                    params.append(t[j + 1][1])
                    j += 4          # $ name : expr
                elif t[j][1] == ',':
                    j += 1
                else:
                    raise Unsupported('macro_rules %s parameters' % name)
            j += 1
            if t[j][1] != '=>' or t[j + 1][1] != '{':
                raise Unsupported('macro_rules %s arm' % name)
            j += 2                  # now at the transcriber's content (a block)
            d, s0 = 1, j
            while d > 0:
                if t[j][1] == '{':
                    d += 1
                elif t[j][1] == '}':
                    d -= 1
                j += 1
            body = t[s0:j - 1]
            toks, q = [], 0
            while q < len(body):
                if body[q][1] == '$':
                    toks.append(('id', '__m_' + body[q + 1][1]))
                    q += 2
                else:
                    toks.append(body[q])
                    q += 1
            toks.append(('eof', ''))
            p = rsparse.P(toks)
            blk = p.block()
            if t[j][1] == ';':
                j += 1
            if t[j][1] != '}':
                raise Unsupported('macro_rules %s has several arms' % name)
            out[name] = (params, blk)
            i = j
        except (Unsupported, IndexError):
            i += 1
    return out


def subst(ast, m):
    if isinstance(ast, tuple):
        if len(ast) == 2 and ast[0] == 'path' and len(ast[1]) == 1 and ast[1][0] in m:
            return m[ast[1][0]]
        return tuple(subst(x, m) for x in ast)
    if isinstance(ast, list):
        return [subst(x, m) for x in ast]
    return ast


def has_exit(ast):
    """does the statement/expression contain return / ? / break / continue (not inside a closure)"""
    if isinstance(ast, tuple):
        if ast and ast[0] in ('return', 'try', 'break', 'continue'):
            return True
        if ast and ast[0] == 'closure':
            return False
        return any(has_exit(x) for x in ast)
    if isinstance(ast, list):
        return any(has_exit(x) for x in ast)
    return False


class VTr:
    def __init__(self, crate, macros, hooks=None):
        self.crate, self.macros = crate, macros
        self.n = {}
        self.rets = []          # stack of return continuations
        self.impls = []         # stack of current impl names (for Self::)
        self.hooks = hooks or {}
        self.depth = 0

    # ---------------------------------------------------------------- names / text
    def fresh(self, base='x'):
        base = re.sub(r'\W', '', base) or 'x'
        self.n[base] = self.n.get(base, 0) + 1
        return '%s%d' % (base, self.n[base])

    def bind(self, op, kind, k, env, base='x', **kw):
        x = self.fresh(base)
        body = k(SV(kind, x, **kw), env)
        if body == 'Val %s' % x:
            return op
        return 'obind %s (fun %s => %s)' % (paren(op), x, body)

    # ---------------------------------------------------------------- constants
    def const_int(self, e, impl):
        k = e[0]
        if k == 'num':
            return e[1]
        if k == 'paren':
            return self.const_int(e[1], impl)
        if k == 'cast':
            return self.const_int(e[1], impl)
        if k == 'bin':
            a, b = self.const_int(e[2], impl), self.const_int(e[3], impl)
            if a is None or b is None:
                return None
            return {'+': a + b, '-': a - b, '*': a * b, '<<': a << b, '/': a // b if b else None, '%': a % b if b else None}.get(e[1])
        if k == 'path':
            p = e[1]
            if len(p) == 2:
                im = impl if p[0] == 'Self' else p[0]
                c = self.crate['consts'].get((im, p[1]))
                if c:
                    return self.const_int(c[1], im)
                if p[1] == 'MAX' and p[0] in INT_BITS:
                    return (1 << INT_BITS[p[0]]) - 1
            if len(p) == 1:
                c = self.crate['consts'].get((None, p[0]))
                if c:
                    return self.const_int(c[1], None)
        return None

    def const_ty(self, e, impl):
        if e[0] == 'path' and len(e[1]) == 2:
            im = impl if e[1][0] == 'Self' else e[1][0]
            c = self.crate['consts'].get((im, e[1][1]))
            if c:
                return c[0].replace(' ', '')
        return None

    # ---------------------------------------------------------------- places
    def place(self, e, env):
        """(root, [fields]) of a place expression, following aliases; None when e is not a place"""
        k = e[0]
        if k == 'path' and len(e[1]) == 1:
            v = env.get(e[1][0])
            if isinstance(v, tuple) and v[0] == 'alias':
                return v[1]
            return (e[1][0], []) if e[1][0] in env else None
        if k == 'field':
            p = self.place(e[1], env)
            return (p[0], p[1] + [e[2]]) if p else None
        if k in ('paren', 'ref'):
            return self.place(e[1], env)
        if k == 'un' and e[1] == '*':
            return self.place(e[2], env)
        if k == 'mcall' and e[2] in ('deref_mut', 'borrow', 'as_mut', 'as_ref', 'as_slice', 'as_mut_slice') and not e[3]:
            return self.place(e[1], env)
        return None

    def read(self, place, env):
        v = env[place[0]]
        for f in place[1]:
            if v.kind != 'struct' or f not in v.fields:
                raise Unsupported('field %s of %r' % (f, v))
            v = v.fields[f]
        return v

    def write(self, place, env, sv):
        env = dict(env)

        def upd(v, fs):
            if not fs:
                return sv
            nf = dict(v.fields)
            nf[fs[0]] = upd(v.fields[fs[0]], fs[1:])
            return SV('struct', fields=nf, sname=v.sname)
        env[place[0]] = upd(env[place[0]], place[1])
        return env

    def leaves(self, place, env):
        v = self.read(place, env)
        if v.kind == 'struct':
            out = []
            for f in v.fields:
                out += self.leaves((place[0], place[1] + [f]), env)
            return out
        return [place]

    def modified(self, ast, env):
        """leaf places (declared outside) that the statement list may assign"""
        found = []

        def add(e):
            while e[0] == 'index':
                e = e[1]
            p = self.place(e, env)
            if p and p[0] in env:
                for l in self.leaves(p, env):
                    if l not in found:
                        found.append(l)

        def walk(a):
            if isinstance(a, tuple):
                if a and a[0] == 'assign':
                    add(a[2])
                elif a and a[0] == 'mcall' and a[2] in MUTATORS:
                    add(a[1])
                elif a and a[0] == 'macro' and a[1] in self.macros:
                    ps, body = self.macros[a[1]]
                    walk(subst(body, dict(('__m_' + p, x) for p, x in zip(ps, a[2]))))
                for x in a:
                    walk(x)
            elif isinstance(a, list):
                for x in a:
                    walk(x)
        walk(ast)
        return found

    # ---------------------------------------------------------------- flattening of values into Coq text
    def flat(self, v):
        if v.kind == 'struct':
            parts = [self.flat(x) for x in v.fields.values()]
            return parts[0] if len(parts) == 1 else '(' + ', '.join(parts) + ')'
        if v.kind == 'tuple':
            return '(' + ', '.join(self.flat(x) for x in v.fields) + ')'
        if v.kind == 'opt':
            return v.text
        return v.text

    def tuple_text(self, places, env):
        if not places:
            return 'tt'
        ts = [self.read(p, env).text for p in places]
        return ts[0] if len(ts) == 1 else '(' + ', '.join(ts) + ')'

    def rebind(self, places, env):
        """fresh names for the places -> (binder pattern text, env')"""
        if not places:
            return '_', env
        names = []
        for p in places:
            old = self.read(p, env)
            x = self.fresh(p[1][-1] if p[1] else p[0])
            names.append(x)
            env = self.write(p, env, SV(old.kind, x, ity=old.ity))
        return (names[0] if len(names) == 1 else "'(" + ', '.join(names) + ')'), env

    # ---------------------------------------------------------------- expressions
    def ev(self, e, env, k):
        self.depth += 1
        if self.depth > 400:
            raise Unsupported('too deep')
        try:
            m = getattr(self, 'ev_' + e[0], None)
            if m is None:
                raise Unsupported('expression kind %s' % e[0])
            return m(e, env, k)
        finally:
            self.depth -= 1

    def evs(self, es, env, k, acc=None):
        acc = acc or []
        if not es:
            return k(acc, env)
        return self.ev(es[0], env, lambda v, env2: self.evs(es[1:], env2, k, acc + [v]))

    def ev_num(self, e, env, k):
        return k(SV('N', str(e[1]), ity=e[2]), env)

    def ev_paren(self, e, env, k):
        return self.ev(e[1], env, k)

    def ev_ref(self, e, env, k):
        return self.ev(e[1], env, k)

    def ev_unsafe(self, e, env, k):
        return self.block(e[1], env, k)

    def ev_block(self, e, env, k):
        return self.block(e, env, k)

    def ev_tuple(self, e, env, k):
        if not e[1]:
            return k(UNIT, env)
        return self.evs(e[1], env, lambda vs, env2: k(SV('tuple', fields=vs), env2))

    def ev_path(self, e, env, k):
        p = e[1]
        if len(p) == 1:
            v = env.get(p[0])
            if isinstance(v, tuple) and v[0] == 'alias':
                return k(self.read(v[1], env), env)
            if v is not None:
                return k(v, env)
            if p[0] == 'None':
                return k(SV('opt', 'None'), env)
        c = self.const_int(e, self.impls[-1] if self.impls else None)
        if c is not None:
            return k(SV('N', str(c), ity=self.const_ty(e, self.impls[-1] if self.impls else None)), env)
        if p[0] == 'DecodeError' and len(p) == 2:
            return k(SV('err', p[1]), env)
        raise Unsupported('path %s' % '::'.join(p))

    def ev_field(self, e, env, k):
        def f(v, env2):
            if v.kind == 'struct' and e[2] in v.fields:
                return k(v.fields[e[2]], env2)
            if v.kind == 'digest' and e[2] == '0':
                return k(SV('list', v.text, slen=16), env2)
            raise Unsupported('field %s of %r' % (e[2], v))
        return self.ev(e[1], env, f)

    def ev_cast(self, e, env, k):
        ty = e[2].replace(' ', '')

        def f(v, env2):
            if v.kind != 'N':
                raise Unsupported('cast of %r' % (v,))
            frm = v.ity
            if ty in INT_BITS and (frm in INT_BITS and INT_BITS[frm] <= INT_BITS[ty]):
                return k(SV('N', v.text, ity=ty), env2)
            if ty in INT_BITS:
                if re.fullmatch(r'\d+', v.text) and int(v.text) < (1 << INT_BITS[ty]):
                    return k(SV('N', v.text, ity=ty), env2)
                return k(SV('N', '(%s mod %d)' % (paren(v.text), 1 << INT_BITS[ty]), ity=ty), env2)
            raise Unsupported('cast to %s' % ty)
        return self.ev(e[1], env, f)

    def ev_un(self, e, env, k):
        if e[1] == '*':
            return self.ev(e[2], env, k)
        if e[1] == '!':
            def f(v, env2):
                if v.kind != 'bool':
                    raise Unsupported('! on %r' % (v,))
                return k(SV('bool', 'negb %s' % paren(v.text)), env2)
            return self.ev(e[2], env, f)
        raise Unsupported('unary %s' % e[1])

    def ev_bin(self, e, env, k):
        op = e[1]
        if op in ('&&', '||'):
            # both sides are pure in the code translated here (no side effects on the right)
            def f(vs, env2):
                a, b = vs
                return k(SV('bool', '%s %s %s' % (paren(a.text), op, paren(b.text))), env2)
            return self.evs([e[2], e[3]], env, f)

        def g(vs, env2):
            a, b = vs
            if a.kind != 'N' or b.kind != 'N':
                raise Unsupported('operator %s on %r %r' % (op, a, b))
            ity = a.ity or b.ity
            at, bt = paren(a.text), paren(b.text)
            if op == '+':
                return k(SV('N', '%s + %s' % (at, bt), ity=ity), env2)
            if op == '*':
                return k(SV('N', '%s * %s' % (at, bt), ity=ity), env2)
            if op == '-':
                return 'if %s <=? %s then %s else Panic PkOverflow' % (bt, at, k(SV('N', '%s - %s' % (at, bt), ity=ity), env2))
            if op in ('/', '%'):
                o = '/' if op == '/' else 'mod'
                if re.fullmatch(r'[1-9]\d*', b.text):
                    return k(SV('N', '%s %s %s' % (at, o, bt), ity=ity), env2)
                return 'if %s =? 0 then Panic PkOverflow else %s' % (bt, k(SV('N', '%s %s %s' % (at, o, bt), ity=ity), env2))
            if op == '^':
                return k(SV('N', 'N.lxor %s %s' % (at, bt), ity=ity), env2)
            cmp_ = {'<': '%s <? %s' % (at, bt), '<=': '%s <=? %s' % (at, bt), '>': '%s <? %s' % (bt, at), '>=': '%s <=? %s' % (bt, at),
                    '==': '%s =? %s' % (at, bt), '!=': 'negb (%s =? %s)' % (at, bt)}
            if op in cmp_:
                return k(SV('bool', cmp_[op]), env2)
            raise Unsupported('operator %s' % op)
        return self.evs([e[2], e[3]], env, g)

    def ev_range(self, e, env, k):
        lo, hi, op = e[1], e[2], e[3]

        def f(vs, env2):
            a = vs[0] if lo is not None else None
            b = vs[-1] if hi is not None else None
            return k(SV('range', extra=(a, b, op)), env2)
        return self.evs([x for x in (lo, hi) if x is not None], env, f)

    def ev_array(self, e, env, k):
        def f(vs, env2):
            return k(SV('list', '[' + '; '.join(v.text for v in vs) + ']', slen=len(vs)), env2)
        return self.evs(e[1], env, f)

    def ev_index(self, e, env, k):
        def f(vs, env2):
            l, i = vs
            lt = self.as_list(l)
            if i.kind == 'range':
                a, b, op = i.extra
                if op != '..':
                    raise Unsupported('inclusive slice')
                if a is None and b is not None:
                    sl = int(b.text) if re.fullmatch(r'\d+', b.text) else None
                    return self.bind('v_to %s %s' % (paren(lt), paren(b.text)), 'list', k, env2, 's', slen=sl)
                if a is not None and b is None:
                    return self.bind('v_from %s %s' % (paren(lt), paren(a.text)), 'list', k, env2, 's')
                if a is not None and b is not None:
                    return self.bind('v_range %s %s %s' % (paren(lt), paren(a.text), paren(b.text)), 'list', k, env2, 's')
                return k(l, env2)
            if i.kind == 'N':
                return self.bind('v_at %s %s' % (paren(lt), paren(i.text)), 'N', k, env2, 'b', ity='u8')
            raise Unsupported('index %r' % (i,))
        return self.evs([e[1], e[2]], env, f)

    def as_list(self, v):
        if v.kind in ('list', 'digest'):
            return v.text
        raise Unsupported('not a slice: %r' % (v,))

    def ev_struct(self, e, env, k):
        name = e[1][-1]
        if name == 'Self':
            name = self.impls[-1]
        names = [f for f, _ in e[2]]

        def f(vs, env2):
            return k(SV('struct', fields=dict(zip(names, vs)), sname=name), env2)
        return self.evs([x for _, x in e[2]], env, f)

    def ev_macro(self, e, env, k):
        name = e[1]
        if name in self.macros:
            ps, body = self.macros[name]
            return self.ev(subst(body, dict(('__m_' + p, x) for p, x in zip(ps, e[2]))), env, k)
        if name == 'assert':
            def f(v, env2):
                return 'if %s then %s else Panic PkAssert' % (v.text, k(UNIT, env2))
            return self.ev(e[2][0], env, f)
        if name in ('debug_assert', 'debug_assert_eq'):
            return k(UNIT, env)
        raise Unsupported('macro %s!' % name)

    def ev_closure(self, e, env, k):
        raise Unsupported('closure')

    def ev_return(self, e, env, k):
        if e[1] is None:
            return self.rets[-1](UNIT, env)
        return self.ev(e[1], env, lambda v, env2: self.rets[-1](v, env2))

    def ev_try(self, e, env, k):
        def f(v, env2):
            if v.kind == 'opt':
                x = self.fresh('r')
                return 'match %s with Some %s => %s | None => %s end' % (v.text, x, k(SV(v.extra or 'list', x), env2),
                                                                       self.rets[-1](SV('opt', 'None'), env2))
            raise Unsupported('? on %r' % (v,))
        return self.ev(e[1], env, f)

    def ev_if(self, e, env, k):
        c, then, els = e[1], e[2], e[3]

        def go(cv, env2):
            if cv.kind != 'bool':
                raise Unsupported('condition %r' % (cv,))
            if has_exit(then) or (els is not None and has_exit(els)):
                a = self.ev(then, env2, k)
                b = self.ev(els, env2, k) if els is not None else k(UNIT, env2)
                return 'if %s then %s else %s' % (cv.text, a, b)
            mods = self.modified([then, els], env2)
            res = []

            def end(v, env3):
                res.append(v)
                vt = self.flat(v) if v.kind != 'unit' else None
                st = self.tuple_text(mods, env3)
                return 'Val %s' % (paren(st) if vt is None else '(%s, %s)' % (vt, st))
            a = self.ev(then, env2, end)
            b = self.ev(els, env2, end) if els is not None else end(UNIT, env2)
            pat, env4 = self.rebind(mods, env2)
            rv = res[0]
            if rv.kind == 'unit':
                return 'obind (if %s then %s else %s) (fun %s => %s)' % (cv.text, a, b, pat, k(UNIT, env4))
            x = self.fresh('v')
            pat2 = "'(%s, %s)" % (x, pat.lstrip("'")) if mods else "'(%s, _)" % x
            return 'obind (if %s then %s else %s) (fun %s => %s)' % (cv.text, a, b, pat2, k(SV(rv.kind, x, ity=rv.ity), env4))
        return self.ev(c, env, go)

    def ev_iflet(self, e, env, k):
        pat, scrut, then, els = e[1], e[2], e[3], e[4]

        def f(v, env2):
            if v.kind == 'avp' and pat[0] == 'pctor' and pat[1][-1] == 'Hidden':
                t, val = self.fresh('t'), self.fresh('value')
                env3 = dict(env2)
                sub = pat[2][0]
                hid = SV('struct', fields={'attribute_type': SV('N', t, ity='u16'), 'value': SV('list', val)}, sname='Hidden')
                if sub[0] == 'pvar':
                    env3[sub[1]] = hid
                a = self.ev(then, env3, k)
                b = self.ev(els, env2, k) if els is not None else k(UNIT, env2)
                return 'match %s with AHidden %s %s => %s | _ => %s end' % (v.text, t, val, a, b)
            raise Unsupported('if let %r on %r' % (pat, v))
        return self.ev(scrut, env, f)

    def ev_match(self, e, env, k):
        def f(v, env2):
            if v.kind == 'avp':
                arms = e[2]
                if len(arms) == 2 and arms[0][0][0] == 'pctor' and arms[0][0][1][-1] == 'Hidden' and arms[1][0][0] in ('pvar', 'pwild'):
                    env3 = dict(env2)
                    if arms[1][0][0] == 'pvar':
                        env3[arms[1][0][1]] = v
                    if arms[0][1] is not None or arms[1][1] is not None:
                        raise Unsupported('match guard')
                    a = self.ev(arms[0][2], env2, k)
                    b = self.ev(arms[1][2], env3, k)
                    return 'if is_hidden %s then %s else %s' % (v.text, a, b)
            raise Unsupported('match on %r' % (v,))
        return self.ev(e[1], env, f)

    def ev_for(self, e, env, k):
        pat, it, body = e[1], e[2], e[3]
        if pat[0] != 'pvar' or has_exit(body):
            raise Unsupported('for loop shape')

        def f(r, env2):
            if r.kind != 'range':
                raise Unsupported('for over %r' % (r,))
            a, b, op = r.extra
            if a is None or b is None or op != '..':
                raise Unsupported('for range')
            mods = self.modified(body, env2)
            i = self.fresh(pat[1])
            patb, envb = self.rebind(mods, env2)
            envb = dict(envb)
            envb[pat[1]] = SV('N', i, ity='usize')
            inner = self.ev(body, envb, lambda v, env3: 'Val %s' % paren(self.tuple_text(mods, env3)))
            fn = "for_range_rev" if getattr(r, "rev", False) else "for_range"
            pato, envo = self.rebind(mods, env2)
            loop = '%s %s %s (fun %s %s => %s) %s' % (fn, paren(a.text), paren(b.text), i, patb, inner, paren(self.tuple_text(mods, env2)))
            rest = k(UNIT, envo)
            if rest == 'Val %s' % paren(self.tuple_text(mods, envo)):
                return loop
            return 'obind (%s) (fun %s => %s)' % (loop, pato, rest)
        return self.ev(it, env, f)

    def ev_assign(self, e, env, k):
        op, lhs, rhs = e[1], e[2], e[3]
        if lhs[0] == 'index':
            base, idx = lhs[1], lhs[2]
            p = self.place(base, env)
            if p is None:
                raise Unsupported('assignment target')

            def f(vs, env2):
                i, r = vs
                cur = self.read(p, env2)
                if i.kind != 'N' or r.kind != 'N':
                    raise Unsupported('indexed assignment of %r at %r' % (r, i))
                if op == '=':
                    return self.bind('v_set %s %s %s' % (paren(cur.text), paren(i.text), paren(r.text)), 'list',
                                     lambda nv, env3: k(UNIT, self.write(p, env3, nv)), env2, p[1][-1] if p[1] else p[0])
                if op == '^=':
                    return self.bind('v_at %s %s' % (paren(cur.text), paren(i.text)), 'N',
                                     lambda old, env3: self.bind('v_set %s %s (N.lxor %s %s)' % (paren(cur.text), paren(i.text), old.text, paren(r.text)), 'list',
                                                                 lambda nv, env4: k(UNIT, self.write(p, env4, nv)), env3, p[1][-1] if p[1] else p[0]),
                                     env2, 'o')
                raise Unsupported('operator %s' % op)
            return self.evs([idx, rhs], env, f)
        p = self.place(lhs, env)
        if p is None:
            raise Unsupported('assignment target')
        if op != '=':
            return self.ev(('assign', '=', lhs, ('bin', op[:-1], lhs, rhs)), env, k)
        return self.ev(rhs, env, lambda v, env2: k(UNIT, self.write(p, env2, v)))

    # ---------------------------------------------------------------- calls
    def ev_call(self, e, env, k):
        fn, args = e[1], e[2]
        if fn[0] != 'path':
            raise Unsupported('call target')
        p = fn[1]
        name = '::'.join(p)
        if p[-1] in ('Some', 'Ok', 'Err') and len(p) == 1:
            def f(vs, env2):
                v = vs[0]
                if p[-1] == 'Some':
                    return k(SV('opt', 'Some %s' % paren(self.flat(v)), extra=v.kind), env2)
                if p[-1] == 'Ok':
                    return k(SV('res', 'Ok %s' % paren(self.flat(v))), env2)
                return k(SV('res', 'Err %s' % paren(v.text)), env2)
            return self.evs(args, env, f)
        if p == ['Hidden'] and len(args) == 1:
            def f(vs, env2):
                h = vs[0]
                if h.kind != 'struct' or set(h.fields) != {'attribute_type', 'value'}:
                    raise Unsupported('Hidden(...) argument')
                return k(SV('avp', 'AHidden %s %s' % (paren(h.fields['attribute_type'].text), paren(h.fields['value'].text))), env2)
            return self.evs(args, env, f)
        if p[0] == 'DecodeError' and len(p) == 2:
            return self.evs(args, env, lambda vs, env2: k(SV('err', '%s %s' % (p[1], ' '.join(paren(v.text) for v in vs))), env2))
        if len(p) == 2 and p[0] in INT_BITS and p[1] == 'from_be_bytes':
            n = INT_BITS[p[0]] // 8

            def f(vs, env2):
                v = vs[0]
                if v.kind != 'list':
                    raise Unsupported('from_be_bytes of %r' % (v,))
                if v.slen == n:
                    return k(SV('N', 'be_val 0 %s' % paren(v.text), ity=p[0]), env2)
                mode = v.extra or 'Panic PkAssert'
                return 'if len %s =? %d then %s else %s' % (paren(v.text), n, k(SV('N', 'be_val 0 %s' % paren(v.text), ity=p[0]), env2), mode)
            return self.evs(args, env, f)
        if name in ('Vec::new', 'Vec::with_capacity'):
            return self.evs(args, env, lambda vs, env2: k(SV('list', '[]', slen=0), env2))
        if name in ('Default::default',):
            st = self.crate['structs'].get(self.impls[-1])
            if st and all(ty.replace(' ', '') == 'Vec<u8>' for _, ty in st):
                return k(SV('struct', fields=dict((f, SV('list', '[]')) for f, _ in st), sname=self.impls[-1]), env)
            raise Unsupported('Default::default of %s' % self.impls[-1])
        if name == 'md5::compute':
            return self.evs(args, env, lambda vs, env2: self.let('md5 %s' % paren(self.as_list(vs[0])), 'digest', k, env2, 'key'))
        if name in ('std::ptr::copy_nonoverlapping', 'ptr::copy_nonoverlapping', 'core::ptr::copy_nonoverlapping'):
            def f(vs, env2):
                s, d, n = vs
                if s.kind != 'ptr' or d.kind != 'ptr' or d.extra[0] is None or n.kind != 'N':
                    raise Unsupported('copy_nonoverlapping arguments')
                dplace, doff = d.extra
                cur = self.read(dplace, env2)
                return self.bind('v_copy %s %s %s %s %s' % (paren(cur.text), paren(doff), paren(s.text), paren(s.extra[1]), paren(n.text)), 'list',
                                 lambda nv, env3: k(UNIT, self.write(dplace, env3, nv)), env2, 'data')
            return self.evs(args, env, f)
        if name in self.hooks:
            return self.hooks[name](self, args, env, k)
        # an associated function of a crate struct: inline
        if len(p) == 2 and (p[0], p[1]) in self.crate['fns'] or (len(p) == 2 and p[0] == 'Self' and (self.impls[-1], p[1]) in self.crate['fns']):
            impl = self.impls[-1] if p[0] == 'Self' else p[0]
            return self.evs(args, env, lambda vs, env2: self.inline(impl, p[1], None, None, vs, env2, k))
        raise Unsupported('call %s' % name)

    def let(self, text, kind, k, env, base='x', **kw):
        x = self.fresh(base)
        return 'let %s := %s in %s' % (x, text, k(SV(kind, x, **kw), env))

    def inline(self, impl, name, self_place, self_val, args, env, k):
        fn = self.crate['fns'].get((impl, name))
        if fn is None or fn[4] is None:
            raise Unsupported('%s::%s not found' % (impl, name))
        if len(self.impls) > 12:
            raise Unsupported('call depth')
        params = fn[2]
        fenv = {}
        ai = 0
        for pn, ty in params:
            if pn == 'self':
                fenv['self'] = self_val
            else:
                fenv[pn] = args[ai]
                ai += 1
        outer = env

        def ret(v, fe):
            self.rets.pop()
            self.impls.pop()
            try:
                env2 = outer
                if self_place is not None and params and params[0][0] == 'self' and params[0][1] == '&mut':
                    env2 = self.write(self_place, outer, fe['self'])
                return k(v, env2)
            finally:
                self.rets.append(ret)
                self.impls.append(impl)
        self.rets.append(ret)
        self.impls.append(impl)
        try:
            return self.block(fn[4], fenv, ret)
        finally:
            self.rets.pop()
            self.impls.pop()

    def ev_mcall(self, e, env, k):
        recv, name, args = e[1], e[2], e[3]
        # place-preserving adaptors
        if name in ('borrow', 'deref_mut', 'as_ref', 'as_mut', 'as_slice', 'as_mut_slice', 'to_owned', 'to_vec', 'clone', 'into', 'iter') and not args:
            return self.ev(recv, env, k)
        if name == 'rev' and not args:
            def f(v, env2):
                if v.kind != 'range':
                    raise Unsupported('rev of %r' % (v,))
                r = SV('range', extra=v.extra)
                r.rev = True
                return k(r, env2)
            return self.ev(recv, env, f)
        if name in ('as_ptr', 'as_mut_ptr') and not args:
            # (place or value, offset)
            r = recv
            while r[0] in ('paren', 'ref'):
                r = r[1]
            if r[0] == 'index' and r[2][0] == 'range' and r[2][1] is not None and r[2][2] is None:
                p = self.place(r[1], env)

                def f(off, env2):
                    cur = self.read(p, env2) if p else None
                    if cur is None:
                        raise Unsupported('as_mut_ptr of a temporary')
                    # the slice expression itself is bounds-checked
                    return 'if %s <=? len %s then %s else Panic PkIndex' % (paren(off.text), paren(cur.text),
                                                                          k(SV('ptr', cur.text, extra=(p, off.text)), env2))
                return self.ev(r[2][1], env, f)
            p = self.place(r, env)
            return self.ev(r, env, lambda v, env2: k(SV('ptr', self.as_list(v), extra=(p, '0')), env2))
        p = self.place(recv, env)

        def withrecv(v, env2):
            if v.kind == 'struct' and (v.sname, name) in self.crate['fns']:
                return self.evs(args, env2, lambda vs, env3: self.inline(v.sname, name, p, self.read(p, env3) if p else v, vs, env3, k))
            if v.kind in ('list', 'digest'):
                return self.list_method(p, v, name, args, env2, k)
            if v.kind == 'N':
                if name == 'to_be_bytes' and v.ity in INT_BITS:
                    n = INT_BITS[v.ity] // 8
                    fn = {1: '[%s]', 2: 'be16 %s', 4: 'be32 %s', 8: 'be64 %s'}[n]
                    return k(SV('list', fn % paren(v.text), slen=n), env2)
            if v.kind == 'range' and name == 'contains':
                def f(vs, env3):
                    a, b, op = v.extra
                    x = vs[0]
                    if a is None or b is None:
                        raise Unsupported('contains on an open range')
                    hi = '%s <=? %s' % (paren(x.text), paren(b.text)) if op == '..=' else '%s <? %s' % (paren(x.text), paren(b.text))
                    return k(SV('bool', '(%s <=? %s) && (%s)' % (paren(a.text), paren(x.text), hi)), env3)
                return self.evs(args, env2, f)
            if v.kind == 'tryinto':
                if name in ('unwrap', 'unwrap_unchecked', 'expect'):
                    mode = 'UB' if name == 'unwrap_unchecked' else 'Panic PkAssert'
                    return k(SV('list', v.text, slen=v.slen, extra=mode), env2)
            raise Unsupported('method %s on %r' % (name, v))
        return self.ev(recv, env, withrecv)

    def list_method(self, p, v, name, args, env, k):
        lt = v.text
        if name == 'len' and not args:
            return k(SV('N', 'len %s' % paren(lt), ity='usize'), env)
        if name == 'is_empty' and not args:
            return k(SV('bool', 'is_nil %s' % paren(lt)), env)
        if name == 'try_into' and not args:
            return k(SV('tryinto', lt, slen=v.slen), env)
        if name in ('get', 'get_unchecked'):
            def f(vs, env2):
                i = vs[0]
                if i.kind == 'range':
                    a, b, op = i.extra
                    if a is not None or b is None or op != '..':
                        raise Unsupported('%s range shape' % name)
                    sl = int(b.text) if re.fullmatch(r'\d+', b.text) else None
                    if name == 'get':
                        return k(SV('opt', 'v_get_to %s %s' % (paren(lt), paren(b.text)), extra='list'), env2)
                    return self.bind('v_unchecked_to %s %s' % (paren(lt), paren(b.text)), 'list', k, env2, 's', slen=sl)
                if i.kind == 'N' and name == 'get_unchecked':
                    return self.bind('v_unchecked_at %s %s' % (paren(lt), paren(i.text)), 'N', k, env2, 'b', ity='u8')
                raise Unsupported('%s argument' % name)
            return self.evs(args, env, f)
        if p is not None:
            if name == 'extend_from_slice':
                return self.evs(args, env, lambda vs, env2: k(UNIT, self.write(p, env2, SV('list', '%s ++ %s' % (paren(self.read(p, env2).text), paren(self.as_list(vs[0])))))))
            if name == 'push':
                return self.evs(args, env, lambda vs, env2: k(UNIT, self.write(p, env2, SV('list', '%s ++ [%s]' % (paren(self.read(p, env2).text), vs[0].text)))))
            if name == 'clear' and not args:
                return k(UNIT, self.write(p, env, SV('list', '[]', slen=0)))
            if name == 'truncate':
                return self.evs(args, env, lambda vs, env2: k(UNIT, self.write(p, env2, SV('list', 'takeN %s %s' % (paren(vs[0].text), paren(self.read(p, env2).text))))))
        raise Unsupported('method %s on a slice' % name)

    # ---------------------------------------------------------------- statements
    def block(self, b, env, k):
        return self.stmts(b[1], b[2], env, k)

    def stmts(self, ss, tail, env, k):
        if not ss:
            if tail is None:
                return k(UNIT, env)
            return self.ev(tail, env, k)
        s = ss[0]
        rest = lambda v, env2: self.stmts(ss[1:], tail, env2, k)
        if s[0] == 'let':
            pat, mut, ty, init = s[1], s[2], s[3], s[4]
            if pat[0] != 'pvar':
                raise Unsupported('let pattern')
            name = pat[1]
            if init is None:
                raise Unsupported('let without initialiser')
            # `let x = &mut place;` is an alias
            if init[0] == 'ref':
                p = self.place(init[1], env)
                if p is not None and self.read(p, env).kind in ('list', 'struct'):
                    env2 = dict(env)
                    env2[name] = ('alias', p)
                    return self.stmts(ss[1:], tail, env2, k)
            want = None
            if ty:
                m = re.fullmatch(r'\[\s*u8\s*;\s*(.+?)\s*\]', ty)
                if m:
                    toks = rsparse.lex(m.group(1)) + [('eof', '')]
                    want = self.const_int(rsparse.P(toks).expr(), self.impls[-1] if self.impls else None)

            def f(v, env2):
                if isinstance(v, SV) and v.kind == 'list' and want is not None and v.slen != want:
                    mode = v.extra or 'Panic PkAssert'
                    env3 = dict(env2)
                    env3[name] = SV('list', v.text, slen=want)
                    return 'if len %s =? %d then %s else %s' % (paren(v.text), want, self.stmts(ss[1:], tail, env3, k), mode)
                env3 = dict(env2)
                if v.kind in ('N', 'bool', 'list') and not re.fullmatch(r"[\w']+", v.text) and name not in ('_',):
                    x = self.fresh(name)
                    env3[name] = SV(v.kind, x, ity=v.ity, slen=v.slen)
                    return 'let %s := %s in %s' % (x, v.text, self.stmts(ss[1:], tail, env3, k))
                env3[name] = v
                return self.stmts(ss[1:], tail, env3, k)
            return self.ev(init, env, f)
        if s[0] == 'expr':
            return self.ev(s[1], env, rest)
        if s[0] == 'const':
            return self.stmts(ss[1:], tail, env, k)
        raise Unsupported('statement %s' % s[0])

    # ---------------------------------------------------------------- entry
    def method(self, impl, name, self_val, args, finish):
        """translate impl::name with the given symbolic self and arguments; finish(ret value, final self value) -> text"""
        fn = self.crate['fns'].get((impl, name))
        if fn is None or fn[4] is None:
            raise Unsupported('%s::%s not found' % (impl, name))
        fenv = {}
        ai = 0
        for pn, ty in fn[2]:
            if pn == 'self':
                fenv['self'] = self_val
            else:
                fenv[pn] = args[ai]
                ai += 1
        ret = lambda v, fe: finish(v, fe.get('self'))
        self.rets.append(ret)
        self.impls.append(impl)
        try:
            return self.block(fn[4], fenv, ret)
        finally:
            self.rets.pop()
            self.impls.pop()
