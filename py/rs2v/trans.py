"""Translator from the parsed Rust subset to Gallina: decoder functions become `prog` terms (the free monad over the
Reader trait of Model/Reader.v), produced in continuation-passing style so that every `?`, early `return`, `if` and
`match` ends up as a branch of one decision tree -- the normal form in which the hand-written Model can be compared by
the kernel with `vm_compute; reflexivity`.  The translator performs the commuting conversions (match-of-match,
bind-of-if) itself, on a small symbolic value domain, because Coq's conversion does not.

What is interpreted: integer arithmetic on unbounded N with checked subtraction (`usub`), comparisons, shifts and
masks, widening/narrowing `as` casts, Option/Result combinators (`ok_or`, `map_err`, `?`, `map`, `unwrap_or_default`),
`from_utf8`, `try_into` into fixed arrays and into the crate's enumerations, the nine Reader operations, sub-readers
handed to exactly one callee, the `while let Some(h) = Header::try_read(reader)` loop schema, calls to other translated
functions (inlined).  Anything else raises Unsupported."""
from .rsparse import Unsupported

# ------------------------------------------------------------------ symbolic values
class V:
    pass


class Pure(V):
    def __init__(self, text, ty=None):
        self.text, self.ty = text, ty

    def __repr__(self):
        return 'Pure(%s)' % self.text


class Ctor(V):                      # Ok / Err / Some / None / Tuple / Unit / struct values by name
    def __init__(self, name, args=()):
        self.name, self.args = name, list(args)

    def __repr__(self):
        return 'Ctor(%s,%r)' % (self.name, self.args)


class Case(V):                      # match <pure scrutinee> with pat => V ...   (pat text binds its variables)
    def __init__(self, scrut, arms):
        self.scrut, self.arms = scrut, arms


class If(V):
    def __init__(self, cond, a, b):
        self.cond, self.a, self.b = cond, a, b


class Rec(V):                       # a struct value with named fields (Header, Error, data message ...)
    def __init__(self, name, fields):
        self.name, self.fields = name, dict(fields)


INT_W = {'u8': 8, 'u16': 16, 'u32': 32, 'u64': 64, 'usize': 64, 'i8': 8, 'i32': 32}


def paren(s):
    s = s.strip()
    if s.startswith('(') and s.endswith(')'):
        # only strip when the parens match each other
        d = 0
        for i, ch in enumerate(s):
            if ch == '(':
                d += 1
            elif ch == ')':
                d -= 1
                if d == 0 and i != len(s) - 1:
                    return '(' + s + ')'
        return s
    if all(c.isalnum() or c in "_'." for c in s):
        return s
    return '(' + s + ')'


class Gen:
    """fresh-name supply"""
    def __init__(self):
        self.n = 0

    def fresh(self, base='x'):
        self.n += 1
        return '%s%d' % (base, self.n)


class Tr:
    def __init__(self, crate, cfg):
        """crate: {'consts': {(impl, name): (ty, expr)}, 'fns': {(impl, name): fn}, 'structs': {name: fields}, 'enums': ...}
        cfg: representation tables (see rs2v/config.py)"""
        self.c, self.cfg, self.g = crate, cfg, Gen()
        self.depth = 0
        self.no_hooks = {}

    # ------------------------------------------------------------- reification of symbolic values as pure Gallina
    def text(self, v):
        if isinstance(v, Pure):
            return v.text
        if isinstance(v, If):
            return '(if %s then %s else %s)' % (v.cond, self.text(v.a), self.text(v.b))
        if isinstance(v, Case):
            return '(match %s with %s end)' % (v.scrut, ' '.join('| %s => %s' % (p, self.text(x)) for p, x in v.arms))
        if isinstance(v, Ctor):
            if v.name == 'Unit':
                return 'tt'
            if v.name == 'Tuple':
                return '(' + ', '.join(self.text(a) for a in v.args) + ')'
            if v.name in ('None',):
                return 'None'
            if not v.args:
                return v.name
            return '(%s %s)' % (v.name, ' '.join(paren(self.text(a)) for a in v.args))
        if isinstance(v, Rec):
            f = self.cfg.rec_text.get(v.name)
            if f is None:
                raise Unsupported('no Gallina representation for struct %s' % v.name)
            return f(self, v)
        raise Unsupported('text of %r' % (v,))

    # ------------------------------------------------------------- pushing an operation through Case / If
    def on(self, v, f):
        """apply f (V -> str of prog code) to the leaves of a symbolic value, emitting the branching as prog code"""
        if isinstance(v, If):
            return 'if %s then %s else %s' % (v.cond, paren(self.on(v.a, f)), paren(self.on(v.b, f)))
        if isinstance(v, Case):
            return 'match %s with %s end' % (v.scrut, ' '.join('| %s => %s' % (p, self.on(x, f)) for p, x in v.arms))
        return f(v)

    def vmap(self, v, f):
        """apply f (V -> V) to the leaves, keeping the branching symbolic"""
        if isinstance(v, If):
            return If(v.cond, self.vmap(v.a, f), self.vmap(v.b, f))
        if isinstance(v, Case):
            return Case(v.scrut, [(p, self.vmap(x, f)) for p, x in v.arms])
        return f(v)

    def as_result(self, v):
        """normalise a leaf to Ctor Ok / Err when it is a pure expression of Result type"""
        if isinstance(v, Ctor) and v.name in ('Ok', 'Err'):
            return v
        if isinstance(v, Pure):
            a, e = self.g.fresh('a'), self.g.fresh('e')
            return Case(v.text, [('Ok %s' % a, Ctor('Ok', [Pure(a)])), ('Err %s' % e, Ctor('Err', [Pure(e)]))])
        raise Unsupported('not a Result: %r' % (v,))

    def as_option(self, v):
        if isinstance(v, Ctor) and v.name in ('Some', 'None'):
            return v
        if isinstance(v, Pure):
            a = self.g.fresh('a')
            return Case(v.text, [('Some %s' % a, Ctor('Some', [Pure(a)])), ('None', Ctor('None'))])
        raise Unsupported('not an Option: %r' % (v,))

    # ------------------------------------------------------------- constants
    def const_int(self, e, impl):
        k = e[0]
        if k == 'num':
            return e[1]
        if k in ('paren',):
            return self.const_int(e[1], impl)
        if k == 'cast':
            v = self.const_int(e[1], impl)
            return v % (2 ** INT_W[e[2]]) if e[2] in INT_W else None
        if k == 'path':
            p = e[1]
            i2 = impl if (len(p) == 1 or p[0] == 'Self') else p[-2]
            for key in ((i2, p[-1]), (None, p[-1])):
                if key in self.c['consts']:
                    return self.const_int(self.c['consts'][key][1], key[0])
            return None
        if k == 'bin':
            a, b = self.const_int(e[2], impl), self.const_int(e[3], impl)
            if a is None or b is None:
                return None
            ops = {'+': lambda: a + b, '-': lambda: a - b if a >= b else None, '*': lambda: a * b, '<<': lambda: a << b,
                   '>>': lambda: a >> b, '|': lambda: a | b, '&': lambda: a & b}
            return ops[e[1]]() if e[1] in ops else None
        return None

    def const(self, impl, name):
        for key in ((impl, name), (None, name)):
            if key in self.c['consts']:
                ty, e = self.c['consts'][key]
                ci = self.const_int(e, key[0])
                if ci is not None:
                    return Pure(str(ci)), ty
                v = self.pure_expr(e, {}, impl)
                return v, ty
        raise Unsupported('constant %s::%s' % (impl, name))

    def pure_expr(self, e, env, impl):
        """expression without effects -> V"""
        out = []
        code = self.ev(e, dict(env, __impl=impl), lambda v, env2: out.append(v) or 'PURE')
        if code != 'PURE' or len(out) != 1:
            raise Unsupported('expression is not pure: %r' % (e,))
        return out[0]

    # ------------------------------------------------------------- types of integer expressions (for casts)
    def ity(self, e, env):
        k = e[0]
        if k == 'num':
            return e[2]
        if k == 'paren':
            return self.ity(e[1], env)
        if k == 'cast':
            return e[2] if e[2] in INT_W else None
        if k == 'path':
            p = e[1]
            if len(p) == 2 and p[0] in INT_W and p[1] == 'MAX':
                return p[0]
            if len(p) == 1:
                return env.get('__ty', {}).get(p[0])
            if p[0] == 'Self' or len(p) == 2:
                impl = env.get('__impl') if p[0] == 'Self' else p[0]
                for key in ((impl, p[-1]), (None, p[-1])):
                    if key in self.c['consts']:
                        return self.c['consts'][key][0].strip()
            return None
        if k == 'bin':
            if e[1] in ('==', '!=', '<', '>', '<=', '>=', '&&', '||'):
                return 'bool'
            return self.ity(e[2], env) or self.ity(e[3], env)
        if k == 'mcall':
            if e[2] in ('len',):
                return 'usize'
            m = {'read_u8_unchecked': 'u8', 'read_u16_be_unchecked': 'u16', 'read_u32_be_unchecked': 'u32', 'read_u64_be_unchecked': 'u64'}
            return m.get(e[2])
        if k == 'unsafe' or k == 'block':
            b = e[1] if k == 'unsafe' else e
            return self.ity(b[2], env) if b[2] is not None else None
        if k == 'field':
            base = e[1]
            if base[0] == 'path' and base[1] == ['self']:
                st = self.c['structs'].get(env.get('__impl'))
                if st:
                    return dict(st).get(e[2])
            if base[0] == 'path' and len(base[1]) == 1:
                t = env.get('__ty', {}).get(base[1][0]) or self.cfg.var_impl.get(base[1][0])
                st = self.c['structs'].get(t)
                if st:
                    return dict(st).get(e[2])
            return None
        return None

    def cast(self, v, frm, to):
        if to not in INT_W:
            raise Unsupported('cast to %s' % to)
        if frm == 'bool':
            return self.vmap(v, lambda x: Pure('(if %s then 1 else 0)' % self.text(x)))
        if frm in INT_W and INT_W[frm] <= INT_W[to]:
            return v
        if frm is None:
            raise Unsupported('cast from an expression of unknown integer type to %s' % to)
        return self.vmap(v, lambda x: Pure('(%s mod %d)' % (paren(self.text(x)), 2 ** INT_W[to])))

    # ------------------------------------------------------------- expressions (CPS)
    def ev(self, e, env, k):
        """e: AST; k: (V, env) -> prog code.  Returns prog code."""
        kind = e[0]
        m = getattr(self, 'ev_' + kind, None)
        if m is None:
            raise Unsupported('expression kind %s' % kind)
        return m(e, env, k)

    def evs(self, es, env, k, acc=None):
        acc = acc or []
        if not es:
            return k(acc, env)
        return self.ev(es[0], env, lambda v, env2: self.evs(es[1:], env2, k, acc + [v]))

    def ev_num(self, e, env, k):
        return k(Pure(str(e[1])), env)

    def ev_paren(self, e, env, k):
        return self.ev(e[1], env, k)

    def ev_ref(self, e, env, k):
        return self.ev(e[1], env, k)

    def ev_unsafe(self, e, env, k):
        return self.ev(e[1], env, k)

    def ev_tuple(self, e, env, k):
        if not e[1]:
            return k(Ctor('Unit'), env)
        return self.evs(e[1], env, lambda vs, env2: k(Ctor('Tuple', vs), env2))

    def ev_array(self, e, env, k):
        return self.evs(e[1], env, lambda vs, env2: k(Pure('[' + '; '.join(self.text(v) for v in vs) + ']'), env2))

    def ev_un(self, e, env, k):
        op = e[1]
        if op == '!':
            return self.ev(e[2], env, lambda v, env2: k(self.vmap(v, lambda x: Pure('(negb %s)' % paren(self.text(x)))), env2))
        if op == '*':
            return self.ev(e[2], env, k)
        raise Unsupported('unary %s' % op)

    def ev_cast(self, e, env, k):
        frm = self.ity(e[1], env)
        return self.ev(e[1], env, lambda v, env2: k(self.cast(v, frm, e[2]), env2))

    BINOPS = {'+': '%s + %s', '*': '%s * %s', '/': '%s / %s', '%': '%s mod %s', '<': '%s <? %s', '<=': '%s <=? %s',
              '==': '%s =? %s', '&&': '%s && %s', '||': '%s || %s',
              '>>': 'N.shiftr %s %s', '<<': 'N.shiftl %s %s', '|': 'N.lor %s %s', '&': 'N.land %s %s', '^': 'N.lxor %s %s'}

    def ev_bin(self, e, env, k):
        op, a, b = e[1], e[2], e[3]
        if op in ('&&', '||'):
            # short-circuit only matters for effects; both operands must be pure here
            va, vb = self.pure_expr(a, env, env.get('__impl')), self.pure_expr(b, env, env.get('__impl'))
            return k(Pure('(%s %s %s)' % (paren(self.text(va)), op, paren(self.text(vb)))), env)

        def both(vs, env2):
            x, y = paren(self.text(vs[0])), paren(self.text(vs[1]))
            if op == '-':
                d = self.g.fresh('d')
                if '__w' in env2:      # encoder: outcomes instead of reader programs
                    return 'if %s <=? %s then %s else Panic PkOverflow' % (y, x, paren(k(Pure('(%s - %s)' % (x, y)), env2)))
                return 'bind (usub %s %s) (fun %s => %s)' % (x, y, d, k(Pure(d), env2))
            if op == '>':
                return k(Pure('(%s <? %s)' % (y, x)), env2)
            if op == '>=':
                return k(Pure('(%s <=? %s)' % (y, x)), env2)
            if op == '!=':
                return k(Pure('(negb (%s =? %s))' % (x, y)), env2)
            if op not in self.BINOPS:
                raise Unsupported('operator %s' % op)
            return k(Pure('(' + self.BINOPS[op] % (x, y) + ')'), env2)
        return self.evs([a, b], env, both)

    def ev_path(self, e, env, k):
        p = e[1]
        PRIM = {('u8', 'MAX'): 255, ('u16', 'MAX'): 65535, ('u32', 'MAX'): 2 ** 32 - 1, ('u64', 'MAX'): 2 ** 64 - 1, ('usize', 'MAX'): 2 ** 64 - 1}
        if len(p) == 2 and (p[0], p[1]) in PRIM:
            return k(Pure(str(PRIM[(p[0], p[1])])), env)
        if len(p) == 1:
            n = p[0]
            if n in env:
                return k(env[n], env)
            if n == 'None':
                return k(Ctor('None'), env)
            if (None, n) in self.c['consts'] or (env.get('__impl'), n) in self.c['consts']:
                return k(self.const(env.get('__impl'), n)[0], env)
            if n in self.cfg.unit_values:
                return k(Pure(self.cfg.unit_values[n]), env)
            raise Unsupported('unbound name %s' % n)
        if p[0] == 'Self' and len(p) == 2:
            if (env.get('__impl'), p[1]) in self.c['consts']:
                return k(self.const(env.get('__impl'), p[1])[0], env)
            p = [env.get('__impl'), p[1]]
        if len(p) >= 2:
            key = (p[-2], p[-1])
            if key in self.c['consts']:
                return k(self.const(p[-2], p[-1])[0], env)
            if key in self.cfg.enum_values:
                return k(Pure(self.cfg.enum_values[key]), env)
        raise Unsupported('path %s' % '::'.join(str(x) for x in p))

    def ev_field(self, e, env, k):
        def f(v, env2):
            if isinstance(v, Rec):
                if e[2] not in v.fields:
                    raise Unsupported('field %s of %s' % (e[2], v.name))
                return k(v.fields[e[2]], env2)
            if isinstance(v, Ctor) and v.name == 'Tuple' and e[2].isdigit():
                return k(v.args[int(e[2])], env2)
            if (e[2] == 'data' and isinstance(v, Pure) and e[1][0] == 'path' and e[1][1] == ['self']
                    and env2.get('__impl') in self.cfg.word_structs):
                return k(v, env2)
            bt = self.sty(e[1], env2)
            acc2 = self.cfg.field_access_impl.get((bt, e[2])) if bt else None
            if acc2 and isinstance(v, Pure):
                return k(Pure('(%s %s)' % (acc2, paren(v.text)) if acc2 != 'ID' else v.text), env2)
            acc = self.cfg.field_access.get(e[2])
            if acc and isinstance(v, Pure):
                return k(Pure('(%s %s)' % (acc, paren(v.text))), env2)
            raise Unsupported('field access .%s on %r' % (e[2], v))
        return self.ev(e[1], env, f)

    def ev_struct(self, e, env, k):
        name = e[1][-1]
        if name == 'Self':
            name = env.get('__impl')
        names = [f for f, _ in e[2]]
        return self.evs([x for _, x in e[2]], env, lambda vs, env2: k(Rec(name, zip(names, vs)), env2))

    def ev_block(self, e, env, k):
        return self.block(e, env, k)

    def ev_if(self, e, env, k):
        _, c, then, els = e

        def go(cv, env2):
            # a condition that is itself a case split (rare) is pushed outward
            def leaf(cl):
                cond = self.text(cl)
                if els is None and self.pure_assign_only(then):
                    # `if c { x += 2 }`: no duplication of the continuation, the assigned variables become conditionals
                    env_t = self.run_pure_block(then, env2)
                    env3 = dict(env2)
                    for n in env_t:
                        if n.startswith('__'):
                            continue
                        if n in env2 and env_t[n] is not env2[n]:
                            env3[n] = Pure('(if %s then %s else %s)' % (cond, self.text(env_t[n]), self.text(env2[n])))
                    return k(Ctor('Unit'), env3)
                a = self.block(then, env2, k)
                b = self.ev(els, env2, k) if els is not None else k(Ctor('Unit'), env2)
                return 'if %s then %s else %s' % (cond, paren(a), paren(b))
            return self.on(cv, leaf)
        return self.ev(c, env, go)

    def pure_assign_only(self, b):
        if b[2] is not None:
            return False
        for s in b[1]:
            if s[0] != 'expr' or s[1][0] != 'assign':
                return False
            if s[1][2][0] != 'path' or len(s[1][2][1]) != 1:
                return False
        return True

    def run_pure_block(self, b, env):
        env = dict(env)
        for s in b[1]:
            _, op, lhs, rhs = s[1]
            n = lhs[1][0]
            rv = self.pure_expr(rhs, env, env.get('__impl'))
            if op == '=':
                env[n] = rv
            elif op == '+=':
                env[n] = Pure('(%s + %s)' % (paren(self.text(env[n])), paren(self.text(rv))))
            else:
                raise Unsupported('assignment operator %s' % op)
        return env

    def bind_pattern(self, pat, v, env):
        """irrefutable pattern against a value -> env"""
        env = dict(env)
        if pat[0] == 'pvar':
            env[pat[1]] = v
            return env
        if pat[0] == 'pwild':
            return env
        if pat[0] == 'ptuple':
            if isinstance(v, Ctor) and v.name == 'Tuple' and len(v.args) == len(pat[1]):
                for p, a in zip(pat[1], v.args):
                    env = self.bind_pattern(p, a, env)
                return env
        raise Unsupported('pattern %r against %r' % (pat, v))

    def match_arms(self, v, arms, env, k):
        """match on a symbolic value: Ok/Err/Some/None constructors and enum/unit/literal patterns; a guarded arm
        (`pat if cond => body`) becomes `if cond then body else <the remaining arms>`"""
        def guarded(guard, env_g, body_code, rest):
            if guard is None:
                return body_code()
            gv = self.pure_expr(guard, env_g, env_g.get('__impl'))
            return 'if %s then %s else %s' % (self.text(gv), paren(body_code()), paren(rest()))

        def leaf(x, arms=arms):
            # constructor known
            if isinstance(x, Ctor) and x.name in ('Ok', 'Err', 'Some', 'None'):
                for idx, (pat, guard, body) in enumerate(arms):
                    rest = lambda idx=idx: leaf(x, arms[idx + 1:])
                    if pat[0] == 'pwild':
                        return guarded(guard, env, lambda: self.ev(body, env, k), rest)
                    if pat[0] == 'pvar':
                        e2 = dict(env, **{pat[1]: x})
                        return guarded(guard, e2, lambda: self.ev(body, e2, k), rest)
                    if pat[0] == 'pctor' and pat[1][-1] == x.name:
                        env2 = env
                        if pat[2]:
                            sub = pat[2][0]
                            r = self.refine(sub, x.args[0], env)
                            if r is None:
                                continue
                            if callable(r):
                                return r(lambda env3: guarded(guard, env3, lambda: self.ev(body, env3, k), rest), rest)
                            env2 = r
                        return guarded(guard, env2, lambda: self.ev(body, env2, k), rest)
                raise Unsupported('no arm matches %s' % x.name)
            if isinstance(x, Pure):
                # decide by the shape of the patterns what the scrutinee is
                heads = [p[1][-1] for p, _, _ in arms if p[0] == 'pctor']
                if any(h in ('Ok', 'Err') for h in heads):
                    return self.on(self.as_result(x), lambda y: leaf(y, arms))
                if any(h in ('Some', 'None') for h in heads):
                    return self.on(self.as_option(x), lambda y: leaf(y, arms))
                # enumeration / literal patterns on a pure value
                if any(g is not None for _, g, _ in arms):
                    # with guards: a chain of tests in the order of the arms
                    pat, guard, body = arms[0]
                    rest = lambda: leaf(x, arms[1:]) if len(arms) > 1 else 'Crash PkIndex'
                    if pat[0] == 'plit':
                        cond = '(%s =? %d)' % (x.text, pat[1])
                        inner = guarded(guard, env, lambda: self.ev(body, env, k), rest)
                        return 'if %s then %s else %s' % (cond, paren(inner), paren(rest()))
                    if pat[0] == 'pwild':
                        return guarded(guard, env, lambda: self.ev(body, env, k), rest)
                    if pat[0] == 'pvar':
                        e2 = dict(env, **{pat[1]: x})
                        return guarded(guard, e2, lambda: self.ev(body, e2, k), rest)
                    raise Unsupported('guarded pattern %r' % (pat,))
                out = []
                for pat, guard, body in arms:
                    if pat[0] == 'plit':
                        out.append('| %d => %s' % (pat[1], self.ev(body, env, k)))
                    elif pat[0] == 'pwild':
                        out.append('| _ => %s' % self.ev(body, env, k))
                    elif pat[0] == 'pvar':
                        n = self.g.fresh(pat[1])
                        out.append('| %s => %s' % (n, self.ev(body, dict(env, **{pat[1]: Pure(n)}), k)))
                    elif pat[0] == 'pctor' and not pat[2]:
                        key = (pat[1][-2] if len(pat[1]) > 1 else None, pat[1][-1])
                        cv = self.cfg.enum_values.get(key) or self.cfg.enum_values.get((None, pat[1][-1]))
                        if cv is None:
                            raise Unsupported('enum pattern %r' % (pat,))
                        out.append('| %s => %s' % (cv, self.ev(body, env, k)))
                    else:
                        raise Unsupported('pattern %r' % (pat,))
                return 'match %s with %s end' % (x.text, ' '.join(out))
            raise Unsupported('match on %r' % (x,))
        return self.on(v, leaf)

    def sty(self, e, env):
        """Rust type (text) of a path / field expression, as far as declared types tell"""
        if e[0] in ('ref', 'paren'):
            return self.sty(e[1], env)
        if e[0] == 'un' and e[1] == '*':
            return self.sty(e[2], env)
        if e[0] == 'path' and len(e[1]) == 1:
            if e[1][0] == 'self':
                return env.get('__impl')
            t = env.get('__ty', {}).get(e[1][0])
            return t.replace(' ', '') if t else None
        if e[0] == 'field':
            bt = self.sty(e[1], env)
            st = self.c['structs'].get(bt)
            if st:
                ft = dict(st).get(e[2])
                return ft.replace(' ', '') if ft else None
        return None

    def refine(self, pat, v, env):
        """sub-pattern inside Ok(..)/Some(..): -> env | None (cannot match) | callable(kyes, kno) for a run-time test"""
        if pat[0] in ('pvar',):
            env2 = dict(env, **{pat[1]: v})
            if env.get('__bind_ty'):
                env2['__ty'] = dict(env.get('__ty', {}), **{pat[1]: env['__bind_ty']})
            return env2
        if pat[0] == 'pwild':
            return env
        if pat[0] == 'ptuple' and len(pat[1]) == 2 and all(p[0] == 'pvar' for p in pat[1]):
            if isinstance(v, Ctor) and v.name == 'Tuple':
                return dict(env, **{pat[1][0][1]: v.args[0], pat[1][1][1]: v.args[1]})
            t_ = paren(self.text(v))
            return dict(env, **{pat[1][0][1]: Pure('(fst %s)' % t_), pat[1][1][1]: Pure('(snd %s)' % t_)})
        if pat[0] == 'pctor':
            t = self.cfg.ctor_test.get(pat[1][-1])
            if t is not None:
                # e.g. Ok(AVP::MessageType(_)) : a run-time test on the pure value
                cond = t % paren(self.text(v))
                return lambda kyes, kno: 'if %s then %s else %s' % (cond, paren(kyes(env)), paren(kno()))
        raise Unsupported('nested pattern %r' % (pat,))

    def ev_match(self, e, env, k):
        return self.ev(e[1], env, lambda v, env2: self.match_arms(v, e[2], env2, k))

    def ev_iflet(self, e, env, k):
        _, pat, scrut, then, els = e
        arms = [(pat, None, then), (('pwild',), None, els if els is not None else ('tuple', []))]
        # `if let ValidateUnused::Yes = opts.unused` : a boolean test in the model
        if pat[0] == 'pctor' and not pat[2]:
            key = (pat[1][-2] if len(pat[1]) > 1 else None, pat[1][-1])
            bt = self.cfg.bool_enum.get(key)
            if bt is not None:
                def f(v, env2):
                    cond = self.text(v) if bt else '(negb %s)' % paren(self.text(v))
                    a = self.block(then, env2, k)
                    b = self.ev(els, env2, k) if els is not None else k(Ctor('Unit'), env2)
                    return 'if %s then %s else %s' % (cond, paren(a), paren(b))
                return self.ev(scrut, env, f)
        st = self.sty(scrut, env)
        bind_ty = st[7:-1] if st and st.startswith('Option<') and st.endswith('>') else None
        return self.ev(scrut, env, lambda v, env2: self.match_arms(v, arms, dict(env2, __bind_ty=bind_ty), k))

    def ev_try(self, e, env, k):
        def f(v, env2):
            def leaf(x):
                x = self.as_result(x) if isinstance(x, Pure) else x
                if isinstance(x, Case):
                    return self.on(x, leaf)
                if isinstance(x, Ctor) and x.name == 'Ok':
                    return k(x.args[0], env2)
                if isinstance(x, Ctor) and x.name == 'Err':
                    return env2['__ret'](Ctor('Err', [self.cfg.err_conv(self, x.args[0], env2)]), env2)
                if isinstance(x, Ctor) and x.name == 'Some':
                    return k(x.args[0], env2)
                if isinstance(x, Ctor) and x.name == 'None':
                    return env2['__ret'](Ctor('None'), env2)
                raise Unsupported('? on %r' % (x,))
            return self.on(v, leaf)
        return self.ev(e[1], env, f)

    def ev_return(self, e, env, k):
        if e[1] is None:
            return env['__ret'](Ctor('Unit'), env)
        return self.ev(e[1], env, lambda v, env2: env2['__ret'](v, env2))

    def ev_break(self, e, env, k):
        if '__break' not in env:
            raise Unsupported('break outside a translated loop')
        return env['__break'](env)

    def ev_continue(self, e, env, k):
        if '__continue' not in env:
            raise Unsupported('continue outside a translated loop')
        return env['__continue'](env)

    def ev_range(self, e, env, k):
        _, lo, hi, op = e
        if lo is None or hi is None:
            raise Unsupported('open range')
        return self.evs([lo, hi], env, lambda vs, env2: k(Ctor('RangeInc' if op == '..=' else 'RangeExc', vs), env2))

    def ev_closure(self, e, env, k):
        return k(('closure', e[1], e[2], env), env)

    def ev_macro(self, e, env, k):
        if e[1] == 'vec':
            return self.evs(e[2], env, lambda vs, env2: k(Pure('[' + '; '.join(self.text(v) for v in vs) + ']'), env2))
        if e[1] == 'assert' and e[2]:
            return self.ev(e[2][0], env, lambda v, env2: 'if %s then %s else Panic PkAssert' % (self.text(v), paren(k(Ctor('Unit'), env2))))
        if e[1] == 'matches' and len(e[2]) == 2:
            t_ = self.cfg.matches_test(self, e[2][1])
            if t_ is not None:
                return self.ev(e[2][0], env, lambda v, env2: k(Pure('(' + t_ % paren(self.text(v)) + ')'), env2))
        raise Unsupported('macro %s!' % e[1])

    def ev_call(self, e, env, k):
        f, args = e[1], e[2]
        if f[0] != 'path':
            # calling a local closure value:  get_chunk()
            raise Unsupported('call of a non-path')
        p = f[1]
        name = p[-1]
        if len(p) == 1 and name in env and isinstance(env[name], tuple) and env[name][0] == 'closure':
            _, params, body, cenv = env[name]
            if params or args:
                raise Unsupported('closure with parameters')
            # the closure captures `reader` by reference: its effects happen now; `?` inside returns from the closure
            inner = dict(cenv)
            inner['__ret'] = lambda v, env3: k(v, env)
            return self.ev(body, inner, lambda v, env3: k(v, env))
        if name in ('Ok', 'Err', 'Some') and len(p) == 1:
            return self.evs(args, env, lambda vs, env2: k(Ctor(name, vs), env2))
        if name in self.cfg.avp_variants and (len(p) == 1 or p[-2] in ('Self', 'AVP')) and len(args) == 1:
            w = self.cfg.avp_variants[name]
            return self.ev(args[0], env, lambda v, env2: k(self.vmap(v, lambda x: Pure(w % paren(self.text(x))) if w else x), env2))
        if len(p) >= 2 and (p[-2], p[-1]) in self.cfg.ctor_fns:
            tmpl = self.cfg.ctor_fns[(p[-2], p[-1])]
            return self.evs(args, env, lambda vs, env2: k(Pure('(' + tmpl % tuple(paren(self.text(v)) for v in vs) + ')'), env2))
        if p == ['Vec', 'new'] and not args:
            return k(Pure('[]'), env)
        if p[-1] == 'from_utf8':
            def g(vs, env2):
                d = self.text(vs[0])
                return k(If('utf8_valid %s' % paren(d), Ctor('Ok', [Pure(d)]), Ctor('Err', [Pure('tt')])), env2)
            return self.evs(args, env, g)
        if len(p) >= 2 and p[-1] == 'from' and p[-2] in self.cfg.identity_from:
            return self.evs(args, env, lambda vs, env2: k(vs[0], env2))
        if len(p) >= 2 and p[-1] == 'default':
            i2 = env.get('__impl') if p[-2] == 'Self' else p[-2]
            if i2 in self.cfg.defaults:
                return k(Pure(self.cfg.defaults[i2]), env)
        # call of a crate function: inline
        impl = p[-2] if len(p) >= 2 else None
        if impl == 'Self':
            impl = env.get('__impl')
        impl = self.cfg.impl_alias.get((env.get('__impl'), impl), impl)
        return self.call_fn(impl, name, args, env, k)

    def call_fn(self, impl, name, args, env, k, self_val=None, self_var=None):
        hook = self.cfg.call_hooks.get((impl, name))
        if hook is not None and not self.no_hooks.get((impl, name)):
            return hook(self, args, env, k)
        key = (impl, name)
        fn = self.c['fns'].get(key) or self.c['fns'].get((None, name))
        if fn is None:
            raise Unsupported('call of unknown function %s::%s' % (impl, name))
        _, fname, params, ret, body, quals = fn
        if body is None:
            raise Unsupported('no body for %s' % name)
        params = list(params)

        def go(vs, env2):
            inner = {'__impl': impl if impl is not None else env2.get('__impl'), '__ty': {}}
            ps = params
            if ps and ps[0][0] == 'self':
                inner['self'] = self_val
                ps = ps[1:]
            if len(ps) != len(vs):
                raise Unsupported('arity of %s' % name)
            for (pn, pty), v in zip(ps, vs):
                inner[pn] = v
                if pty:
                    inner['__ty'][pn] = pty.replace('&', '').replace('mut', '').strip()
            if '__w' in env2:
                inner['__w'] = env2['__w']
            mut_self = bool(params) and params[0][0] == 'self' and params[0][1] == '&mut'

            def back(env3):
                out = env2
                if '__w' in env3:
                    out = dict(out, __w=env3['__w'])
                if mut_self and self_var is not None:
                    out = dict(out, **{self_var: env3['self']})
                return out
            inner['__ret'] = lambda v, env3: k(v, back(env3))
            return self.block(body, inner, lambda v, env3: k(v, back(env3)))
        return self.evs(args, env, go)

    # reader receivers: `reader`, or a sub-reader variable
    def is_reader(self, e, env):
        if e[0] == 'ref':
            return self.is_reader(e[1], env)
        return e[0] == 'path' and len(e[1]) == 1 and isinstance(env.get(e[1][0]), Ctor) and env[e[1][0]].name in ('Reader', 'SubReader')

    def ev_mcall(self, e, env, k):
        recv, name, args = e[1], e[2], e[3]
        if self.is_reader(recv, env):
            r = env[recv[1][0]] if recv[0] == 'path' else env[recv[1][1][0]]
            if r.name == 'SubReader':
                raise Unsupported('direct operation on a sub-reader')
            if name == 'len' and not args:
                n = self.g.fresh('n')
                return 'Len (fun %s => %s)' % (n, k(Pure(n), env))
            if name == 'is_empty' and not args:
                n = self.g.fresh('e')
                return 'IsEmpty (fun %s => %s)' % (n, k(Pure(n), env))
            rd = {'read_u8_unchecked': 'U8', 'read_u16_be_unchecked': 'U16', 'read_u32_be_unchecked': 'U32', 'read_u64_be_unchecked': 'U64'}
            if name in rd and not args:
                n = self.g.fresh('x')
                return '%s (fun %s => %s)' % (rd[name], n, k(Pure(n), env))
            if name == 'bytes' and len(args) == 1:
                ob = self.g.fresh('ob')
                return self.ev(args[0], env, lambda v, env2: 'Bytes %s (fun %s => %s)' % (paren(self.text(v)), ob, k(Pure(ob), env2)))
            if name == 'skip_bytes' and len(args) == 1:
                return self.ev(args[0], env, lambda v, env2: 'Skip %s %s' % (paren(self.text(v)), paren(k(Ctor('Unit'), env2))))
            if name == 'subreader' and len(args) == 1:
                return self.ev(args[0], env, lambda v, env2: k(Ctor('SubReader', [v]), env2))
            raise Unsupported('reader method %s' % name)
        if recv[0] == 'path' and len(recv[1]) == 1 and isinstance(env.get(recv[1][0]), Ctor) and env[recv[1][0]].name == 'Writer':
            wr = {'write_u8': 'w_u8', 'write_u16_be': 'w_u16', 'write_u32_be': 'w_u32', 'write_u64_be': 'w_u64', 'write_bytes': 'w_bytes'}
            if name in wr and len(args) == 1:
                return self.ev(args[0], env, lambda v, env2: k(Ctor('Unit'), dict(env2, __w='(%s %s %s)' % (wr[name], paren(self.text(v)), env2['__w']))))
            if name == 'len' and not args:
                return k(Pure('(w_len %s)' % env['__w']), env)
            if name == 'write_bytes_at' and len(args) == 2:
                def g(vs, env2):
                    w2 = self.g.fresh('w')
                    return 'obind (w_bytes_at %s %s %s) (fun %s => %s)' % (paren(self.text(vs[0])), paren(self.text(vs[1])), env2['__w'], w2,
                                                                         k(Ctor('Unit'), dict(env2, __w=w2)))
                return self.evs(args, env, g)
            raise Unsupported('writer method %s' % name)
        if name in ('wrapping_add', 'wrapping_sub', 'saturating_sub', 'saturating_add', 'checked_sub', 'checked_add', 'min', 'max', 'abs_diff') and len(args) == 1:
            w = INT_W.get(self.ity(recv, env) or 'usize', 64)
            def g(vs, env2):
                a, b = paren(self.text(vs[0])), paren(self.text(vs[1]))
                M = 2 ** w
                if name == 'wrapping_add':
                    return k(Pure('((%s + %s) mod %d)' % (a, b, M)), env2)
                if name == 'wrapping_sub':
                    return k(Pure('((%s + %d - %s) mod %d)' % (a, M, b, M)), env2)
                if name == 'saturating_sub':
                    return k(Pure('(%s - %s)' % (a, b)), env2)       # truncated subtraction of N
                if name == 'saturating_add':
                    return k(Pure('(N.min (%s + %s) %d)' % (a, b, M - 1)), env2)
                if name == 'checked_sub':
                    return k(If('%s <=? %s' % (b, a), Ctor('Some', [Pure('(%s - %s)' % (a, b))]), Ctor('None')), env2)
                if name == 'checked_add':
                    return k(If('%s + %s <? %d' % (a, b, M), Ctor('Some', [Pure('(%s + %s)' % (a, b))]), Ctor('None')), env2)
                if name == 'abs_diff':
                    return k(Pure('(N.max %s %s - N.min %s %s)' % (a, b, a, b)), env2)
                return k(Pure('(N.%s %s %s)' % (name, a, b)), env2)
            return self.evs([recv, args[0]], env, g)
        if name == 'contains' and len(args) == 1:
            def g(vs, env2):
                r, x = vs
                if isinstance(r, Ctor) and r.name in ('RangeInc', 'RangeExc'):
                    lo, hi, xx = paren(self.text(r.args[0])), paren(self.text(r.args[1])), paren(self.text(x))
                    return k(Pure('((%s <=? %s) && (%s %s %s))' % (lo, xx, xx, '<=?' if r.name == 'RangeInc' else '<?', hi)), env2)
                raise Unsupported('contains on %r' % (r,))
            return self.evs([recv, args[0]], env, g)
        if name == 'is_none' and not args:
            return self.ev(recv, env, lambda v, env2: k(self.vmap(v, lambda x: Pure('(negb (is_some %s))' % paren(self.text(x)))), env2))
        if name == 'is_some' and not args:
            return self.ev(recv, env, lambda v, env2: k(self.vmap(v, lambda x: Pure('(is_some %s)' % paren(self.text(x)))), env2))
        if name == 'to_be_bytes' and not args:
            ty = self.ity(recv, env)
            f = {'u16': 'be16', 'u32': 'be32', 'u64': 'be64'}.get(ty)
            if f is None:
                raise Unsupported('to_be_bytes of %s' % ty)
            return self.ev(recv, env, lambda v, env2: k(self.vmap(v, lambda x: Pure('(%s %s)' % (f, paren(self.text(x))))), env2))
        # pure / combinator methods
        ident = ('borrow', 'to_owned', 'as_bytes', 'to_vec', 'clone', 'iter', 'into_iter', 'as_ref', 'deref_mut')
        if name in ident and not args:
            return self.ev(recv, env, k)
        if name == 'len' and not args:
            return self.ev(recv, env, lambda v, env2: k(self.vmap(v, lambda x: Pure('(len %s)' % paren(self.text(x)))), env2))
        if name == 'is_empty' and not args:
            return self.ev(recv, env, lambda v, env2: k(self.vmap(v, lambda x: Pure('(len %s =? 0)' % paren(self.text(x)))), env2))
        if name == 'ok_or' and len(args) == 1:
            def f(vs, env2):
                v, err = vs
                def leaf(x):
                    x = self.as_option(x) if isinstance(x, Pure) else x
                    if isinstance(x, Case):
                        return self.vmap(x, leaf)
                    if x.name == 'Some':
                        return Ctor('Ok', [x.args[0]])
                    return Ctor('Err', [err])
                return k(self.vmap(v, leaf), env2)
            return self.evs([recv, args[0]], env, f)
        if name == 'ok_or_else' and len(args) == 1 and args[0][0] == 'closure' and not args[0][1]:
            clo = args[0]
            def f(v, env2):
                def leaf(x):
                    x = self.as_option(x) if isinstance(x, Pure) else x
                    if isinstance(x, Case):
                        return self.vmap(x, leaf)
                    if x.name == 'Some':
                        return Ctor('Ok', [x.args[0]])
                    return Ctor('Err', [self.pure_expr(clo[2], env2, env2.get('__impl'))])
                return k(self.vmap(v, leaf), env2)
            return self.ev(recv, env, f)
        if name == 'unwrap_or' and len(args) == 1:
            def f(vs, env2):
                v, dflt = vs
                def leaf(x):
                    x = self.as_option(x) if isinstance(x, Pure) else x
                    if isinstance(x, Case):
                        return self.vmap(x, leaf)
                    return x.args[0] if x.name in ('Some', 'Ok') else dflt
                return k(self.vmap(v, leaf), env2)
            return self.evs([recv, args[0]], env, f)
        if name == 'map_err' and len(args) == 1 and args[0][0] == 'closure':
            clo = args[0]
            def f(v, env2):
                def leaf(x):
                    x = self.as_result(x) if isinstance(x, Pure) else x
                    if isinstance(x, Case):
                        return self.vmap(x, leaf)
                    if x.name == 'Ok':
                        return x
                    p = clo[1][0] if clo[1] else ('pwild',)
                    ev2 = self.bind_pattern(p, x.args[0], env2)
                    return Ctor('Err', [self.pure_expr(clo[2], ev2, env2.get('__impl'))])
                return k(self.vmap(v, leaf), env2)
            return self.ev(recv, env, f)
        if name == 'map' and len(args) == 1 and args[0][0] == 'closure':
            clo = args[0]
            def f(v, env2):
                def leaf(x):
                    x = self.as_option(x) if isinstance(x, Pure) else x
                    if isinstance(x, Case):
                        return self.vmap(x, leaf)
                    if x.name == 'None':
                        return x
                    ev2 = self.bind_pattern(clo[1][0], x.args[0], env2)
                    return Ctor(x.name, [self.pure_expr(clo[2], ev2, env2.get('__impl'))])
                return k(self.vmap(v, leaf), env2)
            return self.ev(recv, env, f)
        if name == 'unwrap_or_default' and not args:
            def f(v, env2):
                def leaf(x):
                    x = self.as_option(x) if isinstance(x, Pure) else x
                    if isinstance(x, Case):
                        return self.vmap(x, leaf)
                    return x.args[0] if x.name == 'Some' else Pure('[]')
                return k(self.vmap(v, leaf), env2)
            return self.ev(recv, env, f)
        if name == 'unwrap_unchecked' and not args:
            # undefined behaviour on Err/None: represented by a crash of the program at that leaf
            def f(v, env2):
                def leaf(x):
                    if isinstance(x, Pure):
                        raise Unsupported('unwrap_unchecked on an opaque value')
                    if x.name in ('Ok', 'Some'):
                        return k(x.args[0], env2)
                    return 'Crash PkIndex'
                return self.on(v, leaf)
            return self.ev(recv, env, f)
        if name == 'try_into' and not args:
            return self.ev(recv, env, lambda v, env2: k(self.cfg.try_into(self, v, recv, env2), env2))
        if name == 'get' and len(args) == 1 and recv[0] == 'path' and recv[1][-1] in self.cfg.static_maps:
            fnm = self.cfg.static_maps[recv[1][-1]]
            return self.ev(args[0], env, lambda v, env2: k(Pure('(%s %s)' % (fnm, paren(self.text(v)))), env2))
        if name == 'first' and not args:
            return self.ev(recv, env, lambda v, env2: k(Pure('(hd_error %s)' % paren(self.text(v))), env2))
        hook = self.cfg.method_hooks.get(name)
        if hook is not None:
            return hook(self, recv, args, env, k)
        # method of a crate type on a symbolic record / self
        def f(v, env2):
            impl = None
            if isinstance(v, Rec):
                impl = v.name
            elif recv[0] == 'path' and recv[1] == ['self']:
                impl = env2.get('__impl')
            else:
                impl = self.cfg.value_impl(self, recv, v, env2)
            if impl is None or (impl, name) not in self.c['fns']:
                raise Unsupported('method %s on %r' % (name, v))
            sv = recv[1][0] if recv[0] == 'path' and len(recv[1]) == 1 else None
            return self.call_fn(impl, name, args, env2, k, self_val=v, self_var=sv)
        return self.ev(recv, env, f)

    def ev_index(self, e, env, k):
        raise Unsupported('indexing')

    def ev_assign(self, e, env, k):
        _, op, lhs, rhs = e
        if lhs[0] == 'path' and len(lhs[1]) == 1:
            n = lhs[1][0]
            def f(v, env2):
                env3 = dict(env2)
                if op == '=':
                    env3[n] = v
                elif op == '+=':
                    env3[n] = Pure('(%s + %s)' % (paren(self.text(env2[n])), paren(self.text(v))))
                elif op == '-=':
                    a, b = paren(self.text(env2[n])), paren(self.text(v))
                    env3[n] = Pure('(%s - %s)' % (a, b))
                    if '__w' in env2:
                        return 'if %s <=? %s then %s else Panic PkOverflow' % (b, a, paren(k(Ctor('Unit'), env3)))
                    d = self.g.fresh('d')
                    env3[n] = Pure(d)
                    return 'bind (usub %s %s) (fun %s => %s)' % (a, b, d, k(Ctor('Unit'), env3))
                else:
                    raise Unsupported('assignment %s' % op)
                return k(Ctor('Unit'), env3)
            return self.ev(rhs, env, f)
        if (lhs[0] == 'field' and lhs[1] == ('path', ['self']) and lhs[2] == 'data' and isinstance(env.get('self'), Pure)
                and env.get('__impl') in self.cfg.word_structs):
            ops = {'=': None, '|=': 'N.lor %s %s', '&=': 'N.land %s %s', '+=': '%s + %s'}
            if op not in ops:
                raise Unsupported('assignment %s' % op)
            def g(v, env2):
                cur = paren(self.text(env2['self']))
                nv = self.text(v) if op == '=' else '(' + ops[op] % (cur, paren(self.text(v))) + ')'
                return k(Ctor('Unit'), dict(env2, self=Pure(nv)))
            return self.ev(rhs, env, g)
        raise Unsupported('assignment target')

    def ev_whilelet(self, e, env, k):
        hook = self.cfg.loop_hook
        if hook is None:
            raise Unsupported('while let')
        return hook(self, e, env, k)

    # ------------------------------------------------------------- blocks
    def block(self, b, env, k):
        stmts, tail = b[1], b[2]
        return self.stmts(list(stmts), tail, env, k)

    def stmts(self, ss, tail, env, k):
        if not ss:
            if tail is None:
                return k(Ctor('Unit'), env)
            return self.ev(tail, env, k)
        s, rest = ss[0], ss[1:]
        if s[0] == 'const':
            env2 = dict(env)
            v = self.pure_expr(s[3], env, env.get('__impl'))
            env2[s[1]] = v
            env2['__ty'] = dict(env.get('__ty', {}), **{s[1]: s[2].strip()})
            return self.stmts(rest, tail, env2, k)
        if s[0] == 'let':
            _, pat, mut, ty, init = s
            if init is None:
                if pat[0] != 'pvar':
                    raise Unsupported('let without initialiser')
                return self.stmts(rest, tail, dict(env, **{pat[1]: Pure('UNINIT')}), k)

            def after(v, env2):
                env3 = self.bind_pattern(pat, v, env2)
                t = ty.strip() if ty else self.ity(init, env2)
                if t is None and init[0] == 'call' and init[1][0] == 'path' and len(init[1][1]) >= 2 and init[1][1][-1] in ('default', 'new', 'from'):
                    t = env2.get('__impl') if init[1][1][-2] == 'Self' else init[1][1][-2]
                if pat[0] == 'pvar' and t:
                    env3['__ty'] = dict(env3.get('__ty', {}), **{pat[1]: t})
                return self.stmts(rest, tail, env3, k)
            return self.ev(init, env, after)
        if s[0] == 'expr' and '__w' in env and s[1][0] in ('if', 'iflet', 'match'):
            MARK = chr(0)
            changed = []

            def leafk(v, env2):
                # only the writer may differ at the end of a branch
                for kk in set(env):
                    if kk.startswith('__'):
                        continue
                    if env.get(kk) is not env2.get(kk):
                        changed.append(kk)
                return MARK + env2['__w'] + MARK
            try:
                txt = self.ev(s[1], env, leafk)
            except Unsupported:
                txt = None
            if txt is not None and not changed and 'Panic' not in txt and 'obind' not in txt and MARK in txt:
                return self.stmts(rest, tail, dict(env, __w='(' + txt.replace(MARK, '') + ')'), k)
        if s[0] == 'expr' and s[1][0] == 'for' and self.cfg.for_hook is not None:
            return self.cfg.for_hook(self, s[1], env, lambda v, env2: self.stmts(rest, tail, env2, k))
        if s[0] == 'expr':
            return self.ev(s[1], env, lambda v, env2: self.stmts(rest, tail, env2, k))
        raise Unsupported('statement %s' % s[0])

    # ------------------------------------------------------------- entry: a reader function as a prog term
    def reader_fn(self, impl, name, bind_args, finish, env_extra=None):
        """translate impl::name; bind_args: {param: V} for the non-reader parameters;
        finish: V -> Gallina text of the returned leaf (e.g. wrap the struct into the avp)"""
        fn = self.c['fns'].get((impl, name))
        if fn is None:
            raise Unsupported('function %s::%s not found' % (impl, name))
        _, fname, params, ret, body, quals = fn
        env = {'__impl': impl, '__ty': {}}
        env.update(env_extra or {})
        for pn, pty in params:
            if pn == 'reader':
                env[pn] = Ctor('Reader')
            elif pn in bind_args:
                env[pn] = bind_args[pn]
                if pty:
                    env['__ty'][pn] = pty.replace('&', '').replace('mut', '').strip()
            elif pn == 'self':
                continue
            else:
                raise Unsupported('parameter %s of %s' % (pn, name))
        done = lambda v, env2: self.on(v, lambda x: 'Ret %s' % paren(finish(self, x)))
        env['__ret'] = done
        return self.block(body, env, done)

    def writer_fn(self, impl, name, self_val, bind_args, total, self_ty=None):
        """translate a `write(&self, writer)`-like function: -> Gallina text of type writer (total) or outcome writer,
        as a function of the variable `w`"""
        fn = self.c['fns'].get((impl, name))
        if fn is None:
            raise Unsupported('function %s::%s not found' % (impl, name))
        _, fname, params, ret, body, quals = fn
        env = {'__impl': impl, '__ty': {}, '__w': 'w'}
        for pn, pty in params:
            if pn == 'writer':
                env[pn] = Ctor('Writer')
            elif pn == 'self':
                env['self'] = self_val
            elif pn in bind_args:
                env[pn] = bind_args[pn]
                if pty:
                    env['__ty'][pn] = pty.replace('&', '').replace('mut ', '').strip()
            else:
                raise Unsupported('parameter %s of %s' % (pn, name))
        done = (lambda v, env2: env2['__w']) if total else (lambda v, env2: 'Val %s' % env2['__w'])
        env['__ret'] = done
        return self.block(body, env, done)

    def pure_fn(self, impl, name, self_val, bind_args, leaf='%s'):
        fn = self.c['fns'].get((impl, name))
        if fn is None:
            raise Unsupported('function %s::%s not found' % (impl, name))
        _, fname, params, ret, body, quals = fn
        env = {'__impl': impl, '__ty': {}}
        for pn, pty in params:
            if pn == 'self':
                env['self'] = self_val
            elif pn in bind_args:
                env[pn] = bind_args[pn]
                if pty:
                    env['__ty'][pn] = pty.replace('&', '').strip()
            else:
                raise Unsupported('parameter %s of %s' % (pn, name))
        done = lambda v, env2: self.on(v, lambda x: leaf % self.text(x))
        env['__ret'] = done
        return self.block(body, env, done)
