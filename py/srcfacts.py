"""Source tie by regeneration: tables and constants are re-extracted from the crate's source text on every run,
written out as Gallina definitions, and the Coq kernel checks (vm_compute over the whole finite domain) that the
hand-written Model uses exactly those tables.  A table that can no longer be found (the source was restructured)
or that differs is reported in the evidence and makes the differential search work harder; it is not by itself a
violation -- the correspondence check remains the deciding tie for behaviour."""
import hashlib, json, os, re, subprocess
import lib


def _read(repo, rel):
    try:
        return open(os.path.join(repo, rel)).read()
    except OSError:
        return None


def _fn_body(src, name):
    """text of `fn name(...) ... { body }` by brace matching"""
    m = re.search(r'\bfn\s+%s\b' % re.escape(name), src or '')
    if not m:
        return None
    i = src.find('{', m.end())
    if i < 0:
        return None
    depth, j = 0, i
    while j < len(src):
        if src[j] == '{':
            depth += 1
        elif src[j] == '}':
            depth -= 1
            if depth == 0:
                return src[i + 1:j]
        j += 1
    return None


def _enum_variants(src, name):
    m = re.search(r'\benum\s+%s\s*\{(.*?)\}' % re.escape(name), src or '', re.S)
    if not m:
        return None
    out, nxt = [], 0
    for part in m.group(1).split(','):
        part = re.sub(r'//.*', '', part).strip()
        part = re.sub(r'#\[[^\]]*\]', '', part).strip()
        if not part:
            continue
        mm = re.match(r'^(\w+)\s*(?:=\s*(\d+))?$', part)
        if not mm:
            return None
        if mm.group(2) is not None:
            nxt = int(mm.group(2))
        out.append((nxt, mm.group(1)))
        nxt += 1
    return out


def extract(repo):
    """-> {fact name: value or None}"""
    F = {}
    avp = _read(repo, 'src/message/avp.rs')
    b = _fn_body(avp, 'avp_name')
    F['avp_name'] = [(int(n), s) for n, s in re.findall(r'(\d+)u16\s*=>\s*"(\w+)"', b)] if b else None
    b = _fn_body(avp, 'decode_avp')
    F['dispatch'] = [(int(n), v) for n, v in re.findall(r'(\d+)u16\s*=>\s*(\w+)\(types::', b)] if b else None
    if not F['avp_name']:
        F['avp_name'] = None
    if not F['dispatch']:
        F['dispatch'] = None
    # per-type constants
    attr, sizes = [], []
    tdir = os.path.join(repo, 'src/message/avp/types')
    try:
        files = sorted(f for f in os.listdir(tdir) if f.endswith('.rs'))
    except OSError:
        files = []
    for f in files:
        s = _read(repo, 'src/message/avp/types/' + f)
        m = re.search(r'impl\s+(\w+)\s*\{[^}]*?const\s+ATTRIBUTE_TYPE\s*:\s*u16\s*=\s*(\d+)\s*;', s, re.S)
        if not m:
            continue
        name = m.group(1)
        attr.append((name, int(m.group(2))))
        gl = dict((k, int(v)) for k, v in re.findall(r'const\s+(G_\w+)\s*:\s*usize\s*=\s*(\d+)\s*;', s))
        for cn, cv in re.findall(r'const\s+(LENGTH|FIXED_LENGTH)\s*:\s*usize\s*=\s*(\w+)\s*;', s):
            v = int(cv) if cv.isdigit() else gl.get(cv)
            if v is not None:
                sizes.append((name, cn, v))
    F['attr_type'] = attr or None
    F['sizes'] = sizes or None
    mt = _read(repo, 'src/message/avp/types/message_type.rs')
    m = re.search(r'phf_map!\s*\{(.*?)\};', mt or '', re.S)
    F['mt_map'] = [(int(n), v) for n, v in re.findall(r'(\d+)u16\s*=>\s*(\w+)', m.group(1))] if m else None
    b = _fn_body(mt, 'get_code')
    F['mt_code'] = [(v, int(n)) for v, n in re.findall(r'(\w+)\s*=>\s*(\d+)u16', b)] if b else None
    F['error_type'] = _enum_variants(_read(repo, 'src/message/avp/types/result_code/error.rs'), 'ErrorType')
    F['proxy_authen_type'] = _enum_variants(_read(repo, 'src/message/avp/types/proxy_authen_type.rs'), 'ProxyAuthenType')
    code = _read(repo, 'src/message/avp/types/result_code/code.rs')
    F['stop_ccn_code'] = _enum_variants(code, 'StopCcnCode')
    F['cdn_code'] = _enum_variants(code, 'CdnCode')
    fl = _read(repo, 'src/message/flags.rs')
    bits = {}
    for fn in ('get_type', 'has_length', 'has_ns_nr', 'has_offset', 'is_prioritized'):
        b = _fn_body(fl, fn)
        m = re.search(r'self\.get_bit\((\d+)\)', b or '')
        if m:
            bits[fn] = int(m.group(1))
    for fn in ('set_type', 'set_length', 'set_ns_nr', 'set_offset', 'set_prioritized'):
        b = _fn_body(fl, fn)
        m = re.search(r'self\.set_bit\((\d+)\)', b or '')
        if m:
            bits[fn] = int(m.group(1))
    F['flag_bits'] = bits if len(bits) == 10 else None
    b = _fn_body(fl, 'reserved_bits_ok')
    m = re.search(r'\[([\d,\s]+)\]', b or '')
    F['reserved_bits'] = [int(x) for x in m.group(1).replace(' ', '').split(',') if x] if m else None
    b = _fn_body(fl, 'get_version')
    m = re.search(r'self\.data\s*>>\s*(\d+)\)\s*&\s*0x([0-9a-fA-F]+)', b or '')
    F['version_field'] = (int(m.group(1)), int(m.group(2), 16)) if m else None
    de = _read(repo, 'src/common/decode_error.rs')
    fm = re.findall(r'#\[error\("((?:[^"\\]|\\.)*)"((?:\s*,\s*[^\]]*?)?)\)\]\s*(\w+)(\([^)]*\))?', de or '')
    F['error_fmt'] = [(v, fmt, extra.strip(), bool(arg)) for (fmt, extra, v, arg) in fm] or None
    hd = _read(repo, 'src/message/avp/header.rs')
    m = re.search(r'const\s+LENGTH\s*:\s*u16\s*=\s*(\d+)', hd or '')
    F['avp_header_length'] = int(m.group(1)) if m else None
    m1 = re.search(r'const\s+CRYPTO_CHUNK_SIZE\s*:\s*usize\s*=\s*(\d+)', avp or '')
    m2 = re.search(r'const\s+LENGTH_BITS\s*:\s*u8\s*=\s*(\d+)', avp or '')
    F['crypto_chunk'] = int(m1.group(1)) if m1 else None
    F['length_bits'] = int(m2.group(1)) if m2 else None
    msg = _read(repo, 'src/message.rs')
    m = re.search(r'const\s+PROTOCOL_VERSION\s*:\s*u8\s*=\s*(\d+)', msg or '')
    F['protocol_version'] = int(m.group(1)) if m else None
    return F


def _cs(s):
    return '"' + s.replace('"', '""') + '"'


def _pairs_ns(l):
    return '[' + '; '.join('(%d, %s)' % (n, _cs(s)) for n, s in l) + ']'


def _pairs_sn(l):
    return '[' + '; '.join('(%s, %d)' % (_cs(s), n) for s, n in l) + ']'


PRE = '''From Coq Require Import String NArith List Bool.
From RL Require Import Model.Show Model.Encode Proofs.BytesLemmas.
Import ListNotations. Open Scope string_scope. Open Scope N_scope.
Fixpoint look (n : N) (l : list (N * string)) : option string :=
  match l with [] => None | (k, v) :: t => if k =? n then Some v else look n t end.
Fixpoint looks (s : string) (l : list (string * N)) : option N :=
  match l with [] => None | (k, v) :: t => if String.eqb k s then Some v else looks s t end.
Definition oeq (a b : option string) : bool :=
  match a, b with Some x, Some y => String.eqb x y | None, None => true | _, _ => false end.
Definition oeqn (a b : option N) : bool :=
  match a, b with Some x, Some y => x =? y | None, None => true | _, _ => false end.
Definition reps : list avp :=
  [AMessageType Hello; AResultCode 0 None; AProtocolVersion 0 0; ATieBreaker 0; AQ931CauseCode 0 0 None;
   AProxyAuthenType PppChap; AProxyAuthenId 0; ACallErrors 0 0 0 0 0 0; AAccm [] []; ASequencingRequired]
  ++ map (fun k => A32 k 0) [FramingCapabilities; BearerCapabilities; CallSerialNumber; MinimumBps; MaximumBps;
                             BearerType; FramingType; TxConnectSpeed; RxConnectSpeed]
  ++ map (fun k => A16 k 0) [FirmwareRevision; AssignedTunnelId; ReceiveWindowSize; AssignedSessionId]
  ++ map (fun k => ABytes k []) [HostName; Challenge; InitialReceivedLcpConfReq; LastSentLcpConfReq;
                                 LastReceivedLcpConfReq; ProxyAuthenName; ProxyAuthenChallenge; ProxyAuthenResponse;
                                 PrivateGroupId]
  ++ map (fun k => AStr k []) [VendorName; CalledNumber; CallingNumber; SubAddress]
  ++ map (fun k => AFix k []) [RandomVector; ChallengeResponse; PhysicalChannelId].
Definition all_mt := [StartControlConnectionRequest; StartControlConnectionReply; StartControlConnectionConnected;
  StopControlConnectionNotification; Hello; OutgoingCallRequest; OutgoingCallReply; OutgoingCallConnected;
  IncomingCallRequest; IncomingCallReply; IncomingCallConnected; CallDisconnectNotify; WanErrorNotify; SetLinkInfo].
Definition zeros (n : N) : list N := repeat 0 (N.to_nat n).
Definition is_incomplete (t : N) (r : outcome (dres avp * list N)) : bool :=
  match r with Val (Err (IncompleteAVP x), _) => x =? t | _ => false end.
'''


def ties(F):
    """-> {tie name: (needs [fact names], Coq text of one boolean `tie` that must vm_compute to true)}"""
    T = {}

    def have(*names):
        return all(F.get(n) is not None for n in names)
    if have('avp_name'):
        T['avp_name'] = 'forallb (fun n => String.eqb (avp_name n) (match look n %s with Some s => s | None => dec n end)) (upto 65536)' % _pairs_ns(F['avp_name'])
    if have('avp_name', 'dispatch'):
        # the model's dispatch is proved to agree with the model's avp_name (C20_name_matches_dispatch); here: the
        # source's two hand-maintained tables list the same (number, name) pairs
        T['dispatch'] = ('forallb (fun n => oeq (look n %s) (look n %s)) (upto 65536) && Nat.eqb (length %s) (length %s)'
                         % (_pairs_ns(F['dispatch']), _pairs_ns(F['avp_name']), _pairs_ns(F['dispatch']), _pairs_ns(F['avp_name'])))
    if have('attr_type'):
        tab = _pairs_sn(F['attr_type'])
        T['attr_type'] = ('forallb (fun a => oeqn (looks (kind_name a) %s) (Some (attr_type a))) reps && Nat.eqb (length reps) (length %s)'
                          % (tab, tab))
    if have('mt_map'):
        T['mt_map'] = 'forallb (fun x => oeq (option_map mt_name (mt_of_code x)) (look x %s)) (upto 65536)' % _pairs_ns(F['mt_map'])
    if have('mt_code'):
        T['mt_code'] = 'forallb (fun t => oeqn (looks (mt_name t) %s) (Some (mt_code t))) all_mt' % _pairs_sn(F['mt_code'])
    for fact, of_code, name in (('error_type', 'et_of_code', 'et_name'), ('proxy_authen_type', 'pa_of_code', 'pa_name'),
                                ('stop_ccn_code', 'sc_of_code', 'sc_name'), ('cdn_code', 'cd_of_code', 'cd_name')):
        if have(fact):
            T[fact] = 'forallb (fun x => oeq (option_map %s (%s x)) (look x %s)) (upto 65536)' % (name, of_code, _pairs_ns(F[fact]))
    if have('flag_bits', 'reserved_bits', 'version_field'):
        b = F['flag_bits']
        sh, mask = F['version_field']
        T['flag_bits'] = ('forallb (fun w => eqb (f_is_control w) (N.testbit w %d) && eqb (f_has_length w) (N.testbit w %d) && '
                          'eqb (f_has_ns_nr w) (N.testbit w %d) && eqb (f_has_offset w) (N.testbit w %d) && '
                          'eqb (f_is_prioritized w) (N.testbit w %d) && (f_version w =? N.land (N.shiftr w %d) %d) && '
                          'eqb (f_reserved_ok w) (forallb (fun i => negb (N.testbit w i)) [%s])) (upto 65536)'
                          % (b['get_type'], b['has_length'], b['has_ns_nr'], b['has_offset'], b['is_prioritized'], sh, mask,
                             '; '.join(str(x) for x in F['reserved_bits'])))
        if have('protocol_version'):
            T['flag_new'] = ('forallb (fun k => let c := N.testbit k 0 in let l := N.testbit k 1 in let s := N.testbit k 2 in '
                             'let o := N.testbit k 3 in let p := N.testbit k 4 in '
                             'match flags_new c l s o p %d with Val w => w =? (if c then 2^%d else 0) + (if l then 2^%d else 0) + '
                             '(if s then 2^%d else 0) + (if o then 2^%d else 0) + (if p then 2^%d else 0) + %d * 2^%d | _ => false end) (upto 32)'
                             % (F['protocol_version'], b['set_type'], b['set_length'], b['set_ns_nr'], b['set_offset'], b['set_prioritized'],
                                F['protocol_version'], sh))
    if have('error_fmt'):
        parts = []
        for (v, fmt, extra, has_arg) in F['error_fmt']:
            if has_arg:
                if 'avp_name' in extra:
                    body = fmt.replace('{}', '" ++ avp_name x ++ "')
                else:
                    body = fmt.replace('{0}', '" ++ dec x ++ "')
                parts.append('forallb (fun x => String.eqb (render (%s x)) ("%s")) (upto 300 ++ [1023; 65535])' % (v, body))
            else:
                parts.append('String.eqb (render %s) "%s"' % (v, fmt))
        T['error_fmt'] = ' && '.join('(%s)' % p for p in parts) + ' && (%d =? 26)' % len(F['error_fmt'])
    if have('sizes', 'attr_type'):
        at = dict(F['attr_type'])
        parts = []
        for (name, cn, v) in F['sizes']:
            if name not in at or v == 0:
                continue
            t = at[name]
            parts.append('(is_incomplete %d (m_decode_avp %d (zeros %d)) && negb (is_incomplete %d (m_decode_avp %d (zeros %d))))'
                         % (t, t, v - 1, t, t, v))
            if cn == 'LENGTH':
                parts.append('forallb (fun a => if String.eqb (kind_name a) %s then m_get_length a =? %d else true) reps' % (_cs(name), v))
        if parts:
            T['sizes'] = ' && '.join(parts)
    if have('avp_header_length', 'length_bits', 'crypto_chunk'):
        T['constants'] = '(%d =? 6) && (2 ^ %d - 1 =? 1023) && (%d =? 16)' % (F['avp_header_length'], F['length_bits'], F['crypto_chunk'])
    return T


ALL_TIES = ['avp_name', 'dispatch', 'attr_type', 'mt_map', 'mt_code', 'error_type', 'proxy_authen_type', 'stop_ccn_code',
            'cdn_code', 'flag_bits', 'flag_new', 'error_fmt', 'sizes', 'constants']
# which ties speak to which property
RELEVANT = {
    'C03': ['attr_type', 'sizes', 'mt_map', 'mt_code'], 'C04': ['flag_bits', 'flag_new'],
    'C05': ['dispatch', 'attr_type', 'sizes', 'flag_bits', 'mt_map', 'error_type', 'proxy_authen_type', 'constants'],
    'C06': ['attr_type', 'flag_new', 'mt_code', 'constants'], 'C07': ['constants', 'sizes'], 'C10': ['attr_type', 'sizes'],
    'C12': ['constants'], 'C13': ['constants'], 'C14': ['flag_bits'], 'C15': ['dispatch'],
    'C16': ['mt_map', 'mt_code', 'error_type', 'proxy_authen_type', 'stop_ccn_code', 'cdn_code', 'dispatch', 'attr_type'],
    'C20': ['avp_name', 'dispatch', 'error_fmt'], 'C01': ['sizes', 'constants'], 'C02': ['sizes', 'constants'],
}


def check(repo, names, workdir):
    """-> {tie: 'tied' | 'differs' | 'not-found-in-source' | 'error: ...'} for the requested ties (cached by content)"""
    F = extract(repo)
    T = ties(F)
    os.makedirs(workdir, exist_ok=True)
    cdir = os.path.join(lib.CACHE, 'srctie')
    os.makedirs(cdir, exist_ok=True)
    out, procs = {}, []
    vo = os.path.join(lib.COQ, 'theories', 'Model', 'Show.vo')
    stamp = str(os.path.getmtime(vo)) if os.path.exists(vo) else '0'
    for n in names:
        if n not in T:
            out[n] = 'not-found-in-source'
            continue
        text = PRE + 'Definition tie : bool := %s.\nLemma tie_holds : tie = true. Proof. vm_compute. reflexivity. Qed.\n' % T[n]
        h = hashlib.sha1((text + stamp).encode()).hexdigest()[:20]
        cp = os.path.join(cdir, h)
        if os.path.exists(cp):
            out[n] = open(cp).read()
            continue
        p = os.path.join(workdir, 'Tie_%s.v' % n)
        open(p, 'w').write(text)
        procs.append((n, cp, p, subprocess.Popen(['coqc', '-noglob', '-Q', os.path.join(lib.COQ, 'theories'), 'RL', p],
                                                 stdout=subprocess.PIPE, stderr=subprocess.STDOUT, text=True)))
    for n, cp, p, pr in procs:
        try:
            txt, _ = pr.communicate(timeout=600)
        except subprocess.TimeoutExpired:
            pr.kill()
            txt = 'timeout'
        if pr.returncode == 0:
            out[n] = 'tied'
            open(cp, 'w').write('tied')
        elif 'Unable to unify' in txt and 'tie_holds' not in txt.split('Unable to unify')[0][-20:]:
            out[n] = 'differs'
            open(cp, 'w').write('differs')
        else:
            out[n] = 'error: ' + ' '.join(txt.split())[-300:]
        for ext in ('.v', '.vo', '.vok', '.vos', '.glob'):
            try:
                os.remove(p[:-2] + ext)
            except OSError:
                pass
    return out


if __name__ == '__main__':
    import sys, time
    t0 = time.time()
    r = check(lib.REPO, ALL_TIES, os.path.join(lib.CACHE, 'work', 'srctie-%d' % os.getpid()))
    print(json.dumps(r, indent=1), round(time.time() - t0, 1))
