"""Infrastructure: builds (Coq cone, extraction, OCaml driver, Rust harness against the
current working tree of the repository), parallel execution of case lists on the three
executors (model, impl-debug, impl-release) with abort/hang capture, evidence writing."""
import fcntl, hashlib, json, os, re, shutil, subprocess, sys, time

VERIF = os.path.dirname(os.path.dirname(os.path.abspath(__file__)))
REPO = os.environ.get('VERIF_REPO', '/repo')
CACHE = os.path.join(VERIF, '.cache')
COQ = os.path.join(VERIF, 'coq')
NPROC = int(os.environ.get('VERIF_JOBS', '16'))
COVERAGE = bool(os.environ.get('VERIF_COV'))
_tag = hashlib.sha1(os.path.abspath(REPO).encode()).hexdigest()[:8]
HARNESS_DIR = os.path.join(CACHE, 'harness-' + _tag)
TARGET_DIR = os.path.join(CACHE, 'target-' + _tag)
OCAML_DIR = os.path.join(CACHE, 'ocaml')
DRIVER = os.path.join(OCAML_DIR, 'driver')
ENV = dict(os.environ, CARGO_NET_OFFLINE='true', CARGO_TARGET_DIR=TARGET_DIR)
ENV.pop('RUSTFLAGS', None)

FORBIDDEN = r'\b(Admitted|admit|Axiom|Axioms|Parameter|Parameters|Conjecture|Conjectures|Abort)\b|Unset Guard|bypass_check|Admit Obligations|-type-in-type|impredicative-set|Unset Universe Checking|Unset Positivity'


class BuildFailure(Exception):
    def __init__(self, what, log):
        super().__init__(what)
        self.what = what
        self.log = log


class Lock:
    def __init__(self, name):
        os.makedirs(CACHE, exist_ok=True)
        self.path = os.path.join(CACHE, name + '.lock')

    def __enter__(self):
        self.f = open(self.path, 'w')
        fcntl.flock(self.f, fcntl.LOCK_EX)

    def __exit__(self, *a):
        fcntl.flock(self.f, fcntl.LOCK_UN)
        self.f.close()


def sh(cmd, cwd=None, timeout=None, env=None):
    p = subprocess.run(cmd, cwd=cwd, timeout=timeout, env=env or ENV, stdout=subprocess.PIPE,
                       stderr=subprocess.STDOUT, text=True, shell=isinstance(cmd, str))
    return p.returncode, p.stdout


# ---------------------------------------------------------------- Coq
def coq_makefile():
    mk = os.path.join(COQ, 'Makefile')
    vs = sorted(os.path.relpath(os.path.join(d, f), COQ)
                for d, _, fs in os.walk(os.path.join(COQ, 'theories')) for f in fs if f.endswith('.v'))
    listing = '\n'.join(vs)
    stamp = os.path.join(COQ, '.filelist')
    old = open(stamp).read() if os.path.exists(stamp) else None
    if old != listing or not os.path.exists(mk):
        base = open(os.path.join(COQ, '_CoqProject.in')).read()
        open(os.path.join(COQ, '_CoqProject'), 'w').write(base + listing + '\n')
        rc, out = sh(['coq_makefile', '-f', '_CoqProject', '-o', 'Makefile'], cwd=COQ)
        if rc != 0:
            raise BuildFailure('coq_makefile', out)
        open(stamp, 'w').write(listing)


def coq_build(target=None, timeout=3000):
    """Full .vo build (never -vos) of one target's dependency cone, or of everything."""
    with Lock('coq'):
        coq_makefile()
        cmd = ['make', '-j%d' % NPROC]
        if target:
            cmd.append(target)
        rc, out = sh(cmd, cwd=COQ, timeout=timeout)
        return rc, out


def coq_cone(prop_file):
    """The .v files the property file transitively depends on (from coqdep's .Makefile.d)."""
    dep = os.path.join(COQ, '.Makefile.d')
    deps = {}
    if os.path.exists(dep):
        txt = open(dep).read().replace('\\\n', ' ')
        for line in txt.splitlines():
            if ':' not in line:
                continue
            lhs, rhs = line.split(':', 1)
            for t in lhs.split():
                if t.endswith('.vo'):
                    deps[t] = [x for x in rhs.split() if x.endswith('.vo') and x.startswith('theories')]
    seen, todo = set(), [prop_file[:-2] + '.vo' if prop_file.endswith('.v') else prop_file]
    while todo:
        t = todo.pop()
        if t in seen:
            continue
        seen.add(t)
        todo.extend(deps.get(t, []))
    return sorted(x[:-1] for x in seen)  # .vo -> .v


def strip_comments(s):
    out, depth, i = [], 0, 0
    while i < len(s):
        if s.startswith('(*', i):
            depth += 1
            i += 2
        elif s.startswith('*)', i) and depth > 0:
            depth -= 1
            i += 2
        else:
            if depth == 0:
                out.append(s[i])
            i += 1
    return ''.join(out)


def coq_audit(files):
    """Forbidden-token scan (comments stripped) and statement counts over a cone."""
    bad, nthm, nqed = [], 0, 0
    for f in files:
        src = strip_comments(open(os.path.join(COQ, f)).read())
        for m in re.finditer(FORBIDDEN, src):
            bad.append('%s: %s' % (f, m.group(0)))
        # section-escaping Variable/Hypothesis: any outside a Section
        depth = 0
        for line in src.splitlines():
            s = line.strip()
            if re.match(r'Section\b', s):
                depth += 1
            elif re.match(r'End\b', s) and depth > 0:
                depth -= 1
            elif depth == 0 and re.match(r'(Variable|Variables|Hypothesis|Hypotheses|Context)\b', s):
                bad.append('%s: %s outside a section' % (f, s.split()[0]))
        nthm += len(re.findall(r'^\s*(Theorem|Lemma|Corollary|Example|Fact|Remark|Proposition)\b', src, re.M))
        nqed += len(re.findall(r'\b(Qed|Defined)\.', src))
    return bad, nthm, nqed


# ---------------------------------------------------------------- OCaml driver
def build_driver():
    with Lock('ocaml'):
        os.makedirs(OCAML_DIR, exist_ok=True)
        srcs = [os.path.join(VERIF, 'ocaml', f) for f in ('model.ml', 'model.mli', 'driver.ml')]
        for s in srcs:
            if not os.path.exists(s):
                raise BuildFailure('driver', 'missing %s (run setup: extraction)' % s)
        h = hashlib.sha1(b''.join(open(s, 'rb').read() for s in srcs)).hexdigest()
        stamp = os.path.join(OCAML_DIR, 'stamp')
        if os.path.exists(DRIVER) and os.path.exists(stamp) and open(stamp).read() == h:
            return
        for s in srcs:
            shutil.copy(s, OCAML_DIR)
        rc, out = sh(['ocamlfind', 'ocamlopt', '-O2', '-w', '-a', 'model.mli', 'model.ml', 'driver.ml',
                      '-o', 'driver'], cwd=OCAML_DIR, timeout=600)
        if rc != 0:
            raise BuildFailure('driver', out)
        open(stamp, 'w').write(h)


def extract_model():
    """Re-run extraction (theories/Extract.v) and refresh ocaml/model.ml when it changed."""
    rc, out = coq_build('theories/Extract.vo')
    if rc != 0:
        raise BuildFailure('extraction', out)
    for f in ('model.ml', 'model.mli'):
        src = os.path.join(COQ, f)
        dst = os.path.join(VERIF, 'ocaml', f)
        if os.path.exists(src):
            if not os.path.exists(dst) or open(src).read() != open(dst).read():
                shutil.copy(src, dst)


# ---------------------------------------------------------------- Rust harness
def build_harness():
    """Rebuild the implementation executor against REPO's current working tree, both profiles."""
    with Lock('cargo-' + _tag):
        os.makedirs(HARNESS_DIR, exist_ok=True)
        src = os.path.join(VERIF, 'harness')
        dst_src = os.path.join(HARNESS_DIR, 'src')
        os.makedirs(dst_src, exist_ok=True)
        for f in os.listdir(os.path.join(src, 'src')):
            a, b = os.path.join(src, 'src', f), os.path.join(dst_src, f)
            if not os.path.exists(b) or open(a).read() != open(b).read():
                shutil.copy(a, b)
        toml = open(os.path.join(src, 'Cargo.toml.in')).read().replace('@REPO@', os.path.abspath(REPO))
        tp = os.path.join(HARNESS_DIR, 'Cargo.toml')
        if not os.path.exists(tp) or open(tp).read() != toml:
            open(tp, 'w').write(toml)
        lock = os.path.join(HARNESS_DIR, 'Cargo.lock')
        if not os.path.exists(lock):
            for cand in (os.path.join(VERIF, 'harness', 'Cargo.lock.seed'), os.path.join(REPO, 'Cargo.lock')):
                if os.path.exists(cand):
                    shutil.copy(cand, lock)
                    break
        bins = {}
        if COVERAGE:
            # development aid (tools/coverage.sh): one instrumented debug build stands for both profiles
            os.makedirs(os.path.join(CACHE, 'cov', 'raw'), exist_ok=True)
            env = dict(ENV, RUSTFLAGS='-C instrument-coverage', CARGO_TARGET_DIR=TARGET_DIR + '-cov',
                       LLVM_PROFILE_FILE=os.path.join(CACHE, 'cov', 'build-%p-%m.profraw'))   # instrumented build scripts / proc macros
            rc, out = sh(['cargo', '+nightly', 'build', '--offline', '-q'], cwd=HARNESS_DIR, timeout=1800, env=env)
            if rc != 0:
                raise BuildFailure('harness-coverage', out)
            b = os.path.join(TARGET_DIR + '-cov', 'debug', 'rl2tp_verif_harness')
            os.makedirs(os.path.join(CACHE, 'cov', 'raw'), exist_ok=True)
            os.environ['LLVM_PROFILE_FILE'] = os.path.join(CACHE, 'cov', 'raw', '%p-%m.profraw')
            return {'debug': b, 'release': b}
        for prof, flag in (('debug', []), ('release', ['--release'])):
            rc, out = sh(['cargo', 'build', '--offline', '-q'] + flag, cwd=HARNESS_DIR, timeout=1800)
            if rc != 0:
                raise BuildFailure('harness-' + prof, out)
            bins[prof] = os.path.join(TARGET_DIR, prof, 'rl2tp_verif_harness')
        return bins


# ---------------------------------------------------------------- running cases
def _spawn(cmd, inp, outp, errp):
    return subprocess.Popen(cmd, stdin=open(inp), stdout=open(outp, 'w'), stderr=open(errp, 'w'),
                            preexec_fn=_limits)


def _limits():
    import resource
    try:
        resource.setrlimit(resource.RLIMIT_STACK, (resource.RLIM_INFINITY, resource.RLIM_INFINITY))
    except Exception:
        try:
            resource.setrlimit(resource.RLIMIT_STACK, (1 << 30, 1 << 30))
        except Exception:
            pass
    try:
        resource.setrlimit(resource.RLIMIT_CORE, (0, 0))
    except Exception:
        pass


class Runner:
    """Runs case lists on executors. Results are lists of strings aligned with the cases;
    a case that killed its worker is 'ABORT(<signal or status>)', one that exceeded the
    watchdog is 'HANG'."""

    def __init__(self, bins, workdir, chunk_timeout=120):
        self.bins = bins
        self.workdir = workdir
        self.chunk_timeout = chunk_timeout
        self.counter = 0
        self.stderr_bytes = {}
        os.makedirs(workdir, exist_ok=True)

    def cmd(self, which):
        if which == 'model':
            return [DRIVER]
        return [self.bins[which]]

    def run(self, cases, which=('model', 'debug', 'release'), extra_args=None):
        """-> {executor: [result,...]}"""
        res = {}
        jobs = []
        nchunks = max(1, min(NPROC, (len(cases) + 199) // 200))
        per_exec = max(1, nchunks // 1)
        for w in which:
            n = len(cases)
            k = max(1, min(per_exec, n)) if n else 1
            bounds = [(n * i // k, n * (i + 1) // k) for i in range(k)]
            res[w] = [None] * n
            for (a, b) in bounds:
                jobs.append([w, a, b, self.chunk_timeout])
        # run jobs with at most NPROC concurrent processes; restart after a culprit
        pending = list(jobs)
        active = []
        while pending or active:
            while pending and len(active) < NPROC:
                w, a, b, tmo = pending.pop(0)
                if a >= b:
                    continue
                self.counter += 1
                base = os.path.join(self.workdir, 'j%d' % self.counter)
                with open(base + '.in', 'w') as f:
                    f.write('\n'.join(cases[a:b]) + '\n')
                cmd = self.cmd(w) + (extra_args or [])
                p = _spawn(cmd, base + '.in', base + '.out', base + '.err')
                active.append((p, w, a, b, base, time.time(), tmo))
            time.sleep(0.005)
            still = []
            for (p, w, a, b, base, t0, tmo) in active:
                rc = p.poll()
                timed_out = False
                if rc is None:
                    if time.time() - t0 > tmo:
                        p.kill()
                        p.wait()
                        timed_out = True
                        rc = -9
                    else:
                        still.append((p, w, a, b, base, t0, tmo))
                        continue
                raw = open(base + '.out').read()
                out = raw.split('\n')
                if out and out[-1] == '':
                    out.pop()
                elif out and (rc != 0 or timed_out):
                    out.pop()      # the worker died while writing this line: it is not a result
                errsz = os.path.getsize(base + '.err')
                if errsz:
                    self.stderr_bytes[w] = self.stderr_bytes.get(w, 0) + errsz
                    if w not in getattr(self, 'stderr_sample', {}):
                        self.__dict__.setdefault('stderr_sample', {})[w] = open(base + '.err', errors='replace').read(400)
                n = b - a
                if rc == 0 and len(out) >= n:
                    res[w][a:b] = out[:n]
                else:
                    done = min(len(out), n)
                    # the last line may be partial when the worker died mid-write
                    res[w][a:a + done] = out[:done]
                    if done < n:
                        lo = a + done
                        if timed_out and b - lo > 1:
                            # a slow chunk is not a hanging case (the machine may be busy): only a case that exceeds
                            # the watchdog on its own is a HANG; re-run what is left in two halves
                            mid = (lo + b) // 2
                            t2 = max(20, tmo // 2)
                            pending.insert(0, [w, mid, b, t2])
                            pending.insert(0, [w, lo, mid, t2])
                        else:
                            res[w][lo] = 'HANG' if timed_out else 'ABORT(%s)' % rc
                            if lo + 1 < b:
                                pending.insert(0, [w, lo + 1, b, tmo])
                for ext in ('.in', '.out', '.err'):
                    try:
                        os.remove(base + ext)
                    except OSError:
                        pass
            active = still
        return res


# ---------------------------------------------------------------- evidence
SELFTEST = os.path.abspath(REPO) != '/repo' or COVERAGE
OUT_DIR = VERIF if not SELFTEST else os.path.join(CACHE, 'selftest-' + _tag)


def write_evidence(prop, doc):
    os.makedirs(os.path.join(OUT_DIR, 'evidence'), exist_ok=True)
    p = os.path.join(OUT_DIR, 'evidence', prop + '.json')
    tmp = p + '.tmp'
    with open(tmp, 'w') as f:
        json.dump(doc, f, indent=1, sort_keys=True)
    os.replace(tmp, p)


def sha(s):
    return hashlib.sha1(s.encode()).hexdigest()


# ---------------------------------------------------------------- source fingerprint
def source_fingerprint(repo=None):
    """SHA-1 over the crate's non-test sources and manifest: when it differs from the recorded
    fingerprint of the tree the model was validated against, the checks search harder."""
    repo = repo or REPO
    h = hashlib.sha1()
    files = []
    for d, _, fs in os.walk(os.path.join(repo, 'src')):
        for f in fs:
            if f.endswith('.rs'):
                files.append(os.path.join(d, f))
    files.append(os.path.join(repo, 'Cargo.toml'))
    for f in sorted(files):
        try:
            h.update(os.path.relpath(f, repo).encode() + b'\0' + open(f, 'rb').read() + b'\0')
        except OSError:
            pass
    return h.hexdigest()


def source_changed():
    try:
        base = json.load(open(os.path.join(VERIF, 'src_baseline.json')))['sha1']
    except Exception:
        return False
    return source_fingerprint() != base


def source_literals(repo=None):
    """(integer literals, string literals) of the crate's non-test sources"""
    repo = repo or REPO
    ints, strs = set(), set()
    for d, _, fs in os.walk(os.path.join(repo, 'src')):
        for f in fs:
            p = os.path.join(d, f)
            rel = os.path.relpath(p, repo)
            if not f.endswith('.rs') or f == 'tests.rs' or '/tests/' in rel:
                continue
            try:
                txt = open(p).read()
            except OSError:
                continue
            txt = re.sub(r'//[^\n]*', '', txt)
            for m in re.finditer(r'\b(0x[0-9a-fA-F_]+|\d[\d_]*)(?:[ui](?:8|16|32|64|size))?\b', txt):
                s = m.group(1).replace('_', '')
                try:
                    ints.add(int(s, 16) if s.startswith('0x') else int(s))
                except ValueError:
                    pass
            for m in re.finditer(r'b?"((?:[^"\\]|\\.)*)"', txt):
                if 0 < len(m.group(1)) <= 64:
                    strs.add(m.group(1))
            for m in re.finditer(r"b'(\\?.)'", txt):
                strs.add(m.group(1))
    return ints, strs


def source_const_values(repo=None):
    """values of the constant sub-expressions of the crate's non-test sources (named constants and arithmetic over literals and
    constants, e.g. `1023 - 6 - Self::FIXED_LENGTH`), folded with the parser of py/rs2v; a source outside its subset yields
    what could be parsed"""
    out = set()
    try:
        sys.path.insert(0, os.path.join(VERIF, 'py'))
        from rs2v import build as _b, vec as _v
        crate = _b.load_crate(repo or REPO)
        tr = _v.VTr(crate, {})

        def walk(a, impl):
            if isinstance(a, tuple):
                if a and a[0] in ('bin', 'path', 'paren', 'cast'):
                    try:
                        v = tr.const_int(a, impl)
                    except Exception:
                        v = None
                    if isinstance(v, int) and 0 <= v < 2 ** 64:
                        out.add(v)
                        if a[0] != 'path':
                            return
                for x in a:
                    walk(x, impl)
            elif isinstance(a, list):
                for x in a:
                    walk(x, impl)
        for (impl, name), (ty, e) in crate['consts'].items():
            walk(e, impl)
        for (impl, name), fn in crate['fns'].items():
            walk(fn[4], impl)
    except Exception:
        pass
    return out


def new_literals():
    """literals of the current source that the validated tree did not contain -> (ints, byte strings)"""
    try:
        base = json.load(open(os.path.join(VERIF, 'src_baseline.json')))
        bi, bs = set(base.get('int_literals', [])), set(base.get('str_literals', []))
    except Exception:
        return [], []
    if not bi:
        return [], []
    ints, strs = source_literals()
    bc = set(base.get('const_values', []))
    if bc:
        ints = ints | (source_const_values() - bc)
    ni = sorted(x for x in ints - bi if x < 2 ** 64)
    ns = []
    for s in sorted(strs - bs):
        try:
            ns.append(s.encode('utf-8').decode('unicode_escape').encode('latin-1'))
        except Exception:
            ns.append(s.encode('utf-8', 'replace'))
    return ni[:200], ns[:50]
