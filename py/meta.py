"""Per-property claim metadata (level, technique, notes) shared by the manifest generator and the checks."""
CORR = ('Tie to the code: differential correspondence on every run (extracted model vs. crate, debug+release) over boundary-directed generators. ')
TB = ('Trusted: Coq 8.16.1 kernel incl. vm_compute; extraction (ExtrOcamlBasic only) + ocamlopt + driver.ml; Rust harness, Python generators/differ; '
      'modelled-not-verified: md5 crate, from_utf8, slice/Vec primitives, proc-macro expansions.')

def P(level, text, ref, technique, note):
    return {'level': level, 'text': text, 'design_ref': ref, 'technique': technique, 'note': note + ' ' + TB}

INTERIM = 'exploration'
INTERIM_TXT = ('INTERIM (theorem not yet landed): model-based differential testing of the implementation against the executable Coq model plus the '
               "property's own predicate evaluated on the implementation. ")
META = {}
for pid, title in [
    ('C01', 'decoding is total'), ('C02', 'no read outside the input'), ('C03', 'control/AVP round trip'), ('C04', 'data round trip'),
    ('C05', 'decoder = specification'), ('C06', 'encoder = specification'), ('C07', 'length fields exact'), ('C08', 'consumes declared length'),
    ('C09', 'encoding only appends'), ('C10', 're-encoding stable'), ('C11', 'hide/reveal identity'), ('C12', 'hidden value = RFC 2661 4.3'),
    ('C13', 'reveal total'), ('C14', 'validation options'), ('C15', 'error list'), ('C16', 'enumerations'), ('C17', 'bitmask AVPs'),
    ('C18', 'cursor and vector'), ('C20', 'error identity and rendering')]:
    META[pid] = P(INTERIM, INTERIM_TXT + title, 'DESIGN.md section 7 (%s)' % pid, 'differential testing against executable Coq model (proof pending)', CORR)
META['C19'] = P('other', 'Purity is claimed partially: the model is a function by construction (near-trivial theorems); what decides the property for the code is runtime '
                'monitoring (fd 1/2 capture of a silent worker, repetition, shuffling, 16 threads) plus differential comparison with the model.',
                'DESIGN.md section 7 (C19)', 'runtime monitoring + differential comparison with the Coq model',
                'Not exhibited by any model: thread interleavings not scheduled, output via other descriptors, state that matters only after more calls than run.')

PROOF_TECH = 'Rocq (Coq 8.16) proof over an executable model + differential correspondence check against the crate'
PROVED = {
 'C01': ('Theorems C01_message_total / C01_avps_total / C01_type_total / C01_loop_bound (coq/theories/Properties/C01.v): for every octet string and option set '
         'the Model decoder returns Val (Ok or non-empty Err) -- never Panic (incl. checked subtraction = debug overflow panic and release wrap), UB or OutOfFuel; '
         'corollaries of the refinement m_decode = s_decode. The per-case time bound is covered by a watchdog on generated inputs only (partial).'),
 'C02': ('Theorems C02_no_contract_violation and C02_program_parametric / C02_reader_parametric / C02_avps_parametric / C02_type_parametric: no run issues an '
         'out-of-contract reader call, and for every Reader implementation satisfying Conforms the decoder returns the same result and leaves the reader at the same '
         'suffix (one induction over decoder programs as a free monad over the Reader trait). reveal() builds its own SliceReader: covered by (a) only, see C13.'),
 'C05': ('Theorems C05_decode_refines_spec / C05_avps_refine_spec / C05_payload_refines_spec: the Model decoder equals the positional executable specification '
         'Spec/SpecDecode.v on complete results (value + remaining input, or the whole error list) for every octet string and option set.'),
}
for pid, txt in PROVED.items():
    META[pid] = P('proof', txt, 'DESIGN.md section 7 (%s)' % pid, PROOF_TECH, CORR)
NOT_APPLICABLE = []
