"""Per-property claim metadata (level, technique, notes) shared by the manifest generator and the checks."""
CORR = ('Tie to the code, both ways, on every run: (1) differential correspondence (extracted model vs. crate, debug+release) over boundary-directed '
        'generators (incl. four implementations of the Reader trait -- slice, contract-checking, limit, seam -- three of the Writer trait, 16-thread passes, refused calls interleaved), with a sample re-evaluated inside the kernel; (2) regeneration from the source text: tables/constants (py/srcfacts.py) and the '
        'control flow of 161 functions (py/rs2v translator: decoders, encoders, bitmask constructors/accessors, SliceReader, VecWriter, AVP::hide, AVP::reveal) are re-derived from '
        '/repo and kernel-checked against the Model; the linked regenerated decoder / encoder / reader / hide / reveal are proved equal to the Model on '
        'every input and the property theorems are re-proved of them (G_C01..G_C15, G_C17, G_C18). ')
TB = ('Trusted: Coq 8.16.1 kernel incl. vm_compute; extraction (ExtrOcamlBasic only) + ocamlopt + driver.ml; Rust harness, Python generators/differ; '
      'the translator py/rs2v and its representation tables; '
      'modelled-not-verified: md5 crate, from_utf8, slice/Vec primitives (their meaning is Model/VecOps.v), proc-macro expansions.')

def P(level, text, ref, technique, note):
    return {'level': level, 'text': text, 'design_ref': ref, 'technique': technique, 'note': note + ' ' + TB}

INTERIM = 'exploration'
INTERIM_TXT = ('INTERIM (theorem not yet landed): model-based differential testing of the implementation against the executable Coq model plus the '
               "property's own predicate evaluated on the implementation. ")
META = {}
for pid, title in [
    ('C01', 'decoding is total'), ('C02', 'no read outside the input'), ('C03', 'control/AVP round trip'), ('C04', 'data round trip'),
    ('C05', 'decoder = specification'), ('C06', 'encoder = specification'), ('C07', 'length fields exact'), ('C08', 'consumes declared length'),
    ('C09', 'encoding only appends'), ('C10', 're-encoding stable'), ('C11', 'hide/reveal identity'), ('C12', 'hidden value = RFC 2661 4.3'),
    ('C13', 'reveal total'), ('C14', 'validation options'), ('C15', 'error list'), ('C16', 'enumerations'), ('C17', 'bitmask AVPs'),
    ('C18', 'cursor and vector'), ('C20', 'error identity and rendering')]:
    META[pid] = P(INTERIM, INTERIM_TXT + title, 'DESIGN.md section 7 (%s)' % pid, 'differential testing against executable Coq model (proof pending)', CORR)
META['C19'] = P('other', 'Purity is claimed partially: the model is a function by construction (near-trivial theorems); what decides the property for the code is runtime '
                'monitoring (fd 1/2 capture of a silent worker, repetition, shuffling, 16 threads) plus differential comparison with the model.',
                'DESIGN.md section 7 (C19)', 'runtime monitoring + differential comparison with the Coq model',
                'Not exhibited by any model: thread interleavings not scheduled, output via other descriptors, state that matters only after more calls than run.')

PROOF_TECH = 'Rocq (Coq 8.16) proof over an executable model + differential correspondence check against the crate'
PROVED = {
 'C01': ('Theorems C01_message_total / C01_avps_total / C01_type_total / C01_loop_bound (coq/theories/Properties/C01.v): for every octet string and option set '
         'the Model decoder returns Val (Ok or non-empty Err) -- never Panic (incl. checked subtraction = debug overflow panic and release wrap), UB or OutOfFuel; '
         'corollaries of the refinement m_decode = s_decode. C01_work_linear / C01_avps_work_linear / C01_type_work_linear: under a cost semantics of decoder programs '
         '(one unit per reader operation, one per octet handed out by bytes()) the work is at most 3*|input|+12, so no input makes the decoder do super-linear work. '
         'Wall-clock time of the compiled code is outside the model: a watchdog covers it on generated inputs only (that part is partial).'),
 'C02': ('Theorems C02_no_contract_violation and C02_program_parametric / C02_reader_parametric / C02_avps_parametric / C02_type_parametric: no run issues an '
         'out-of-contract reader call, and for every Reader implementation satisfying Conforms the decoder returns the same result and leaves the reader at the same '
         'suffix (one induction over decoder programs as a free monad over the Reader trait). C02_bytes_always_available: the checked request bytes(n) is '
         'likewise only made for octets that remain (AVPReadError/MessageReadError are never reported). reveal() builds its own SliceReader: covered by (a) only, see C13.'),
 'C05': ('Theorems C05_decode_refines_spec / C05_avps_refine_spec / C05_payload_refines_spec: the Model decoder equals the positional executable specification '
         'Spec/SpecDecode.v on complete results (value + remaining input, or the whole error list) for every octet string and option set.'),
 'C06': ('Theorems C06_encode_refines_spec / C06_avp_refines_spec / C06_encode_writer: the Model encoder (placeholders back-patched through write_bytes_at) emits '
         'exactly p ++ s_encode v behind any prefix p when the value fits its length fields, and panics otherwise; s_encode is the layout stated once, declaratively.'),
 'C07': ('Theorems C07_lengths_exact (independent walker walk_ok over the emitted octets), C07_avp_length_field, C07_get_length, C07_oversize_avp, C07_oversize_msg. '
         'C07_hide_asserts.'),
 'C08': ('Theorems C08_suffix / C08_accepted_suffix (octets after the declared end change nothing but the remaining input, for every accepted control message and data '
         'message with a length field), C08_ctrl_consumes_declared, C08_avps_concat / C08_avps_records (well-delimited records decode independently). On the Spec, '
         'transported by C05. C08_back_to_back / C08_sequence: encoder-produced framed messages packed back to back decode one after another.'),
 'C09': ('Theorems C09_prefix_independent, C09_sequence, C09_overwrites_inside, C09_avp_overwrite: corollaries of the encoder refinement, including the overwrite log of the writer.'),
 'C14': ('Theorems C14_monotone, C14_reject_monotone, C14_version_exact, C14_reserved_exact, C14_unused_exact, C14_unused_data_inert, C14_bits_inert, C14_default on the Spec '
         '(transported by C05); the flag-word facts the refinement uses are proved for all 65536 words by vm_compute sweeps lifted with forallb_forall.'),
 'C15': ('Theorems C15_ctrl_result (the result of a control message over a concatenation of well-delimited records is determined record by record: all-or-nothing, errors of the '
         'undecodable records in wire order), C15_one_error_per_bad_record, C15_err_nonempty, C15_zlb_accepted, C15_stop_only_on_bad_length, C15_vendor_is_error.'),
 'C16': ('Theorems C16_message_type / error_type / proxy_authen_type / stop_ccn_code / cdn_code / attribute_types (exact acceptance sets over all of N), the five bijection theorems, '
         'C16_rfc_numbers, C16_dispatch_is_table, C16_result_code_raw; the correspondence sweeps all 65536 codes of each field through the implementation on every run.'),
 'C17': ('Theorems C17_constructor_accessors, C17_accessor_is_own_bit (for every word, via N.testbit lemmas), C17_distinct_bits, C17_raw_roundtrip.'),
 'C03': ('Theorems C03_ctrl_roundtrip / C03_avp_roundtrip (Model encoder then Model decoder under the strictest options returns the value with the length field set to the octets '
         'emitted, for every wf_ctrl / wf_avp value: all 39 kinds and Hidden), C03_payload_roundtrip, C03_record_roundtrip (on the Spec).'),
 'C04': ('Theorems C04_data_roundtrip (for every option set) and C04_data_roundtrip_spec over wf_data: 16 flag combinations, length absent or exact, offset n <= |data|-1; the decoded '
         'value reports no offset and the payload without its first n octets.'),
 'C11': ('Theorems C11_hide_reveal, C11_wire, C11_identity_on_other_variant, C11_hide_injective for every hash with a 16-octet result, and their MD5 instances (Base/Md5.v): '
         'the Model hide() then reveal() (and hide -> encode -> decode -> reveal) return the original AVP for every wf_avp value, secret, random vector and padding.'),
 'C12': ('Theorems C12_hide_is_rfc / C12_reveal_is_rfc (the in-place index loops of the Model equal the RFC 2661 4.3 block recursion of Spec/SpecHide.v, by loop invariants over the '
         'forward and the reverse loop), C12_hidden_length, C12_wire_form, C12_unused_padding_inert; MD5 instances. The md5 crate itself is modelled by Base/Md5.v '
         '(RFC 1321 suite proved as Examples) and tied differentially (MD5 channel + a third computation with hashlib).'),
 'C13': ('Theorems C13_reveal_total (Val always; an Ok result has the announced attribute type and is not hidden), C13_rejects, C13_reveal_classes (complete four-class characterisation with exact error values and exact accepted octets); MD5 instance. No Panic / UB for any octets, secret, random vector.'),
 'C18': ('Theorems C18_reader_refines_cursor (for every operation sequence, incl. nested sub-readers, whose preconditions hold the list reader returns the observations of the '
         'reference cursor and ends at its position), C18_bytes_too_long, C18_writer_is_vector, C18_overwrite_keeps_length, C18_overwrite_refused. The correspondence drives the REAL '
         'SliceReader / VecWriter with generated operation programs and compares with the model and with an independent Python reference.'),
 'C20': ('Theorems C20_fault_* (one per fault kind: version, unknown attribute type, vendor, unknown message type, error type, truncated payload, invalid UTF-8, offset), '
         'C20_single_fault, C20_render_total, C20_name_matches_dispatch (avp_name agrees with the dispatch table for every number), C20_decoded_kind_name, C20_render_shows_name. '
         'The rendered text is compared octet for octet for all 65536 numbers x 3 variants on every run.'),
 'C10': ('Theorems C10_reencode_ctrl / C10_reencode_data (for every accepted octet string, under any options: the decoded value is encodable, decode_strict(encode m) = m up to the control '
         'Length, which becomes the new size, and the second encoding is identical), with the key lemmas C10_decoded_avp_wf / C10_decoded_ctrl_wf (every value the decoder returns is in the '
         "encoder's domain and re-encodes to at most the octets it was read from)."),
}
for pid, txt in PROVED.items():
    META[pid] = P('proof', txt, 'DESIGN.md section 7 (%s)' % pid, PROOF_TECH, CORR)
NOT_APPLICABLE = []
