"""Source tie by translation (control flow): py/rs2v translates the decoder functions of the crate's current source
into `prog` terms; the kernel checks each against the hand-written Model -- as terms, or observationally on the list
reader.  Like py/srcfacts.py this never raises an alarm by itself: a function that no longer ties (or can no longer be
translated because the source left the supported subset) is reported in the evidence and makes the differential
search work harder."""
import hashlib, json, os, subprocess, sys
sys.path.insert(0, os.path.dirname(os.path.abspath(__file__)))
import lib
from rs2v import build

# which translated functions carry which property
DECODERS = ['gen_header_read', 'gen_flags_read', 'gen_decode_avp', 'gen_greedy', 'gen_data_read', 'gen_ctrl_read', 'gen_msg_read', 'gen_try_read']
PER_TYPE = ['gen_dec_%s' % k for k in sorted(build.MODEL_DEC)]
RELEVANT = {p: DECODERS + PER_TYPE for p in ('C01', 'C02', 'C05', 'C08', 'C10', 'C15', 'C20')}
RELEVANT['C14'] = ['gen_flags_read', 'gen_msg_read', 'gen_try_read', 'gen_ctrl_read', 'gen_data_read']
RELEVANT['C03'] = DECODERS + PER_TYPE
RELEVANT['C04'] = ['gen_flags_read', 'gen_msg_read', 'gen_data_read']
RELEVANT['C16'] = ['gen_decode_avp', 'gen_dec_MessageType', 'gen_dec_ResultCode', 'gen_dec_ProxyAuthenType']
RELEVANT['C13'] = ['gen_decode_avp'] + PER_TYPE
RELEVANT['C11'] = ['gen_decode_avp'] + PER_TYPE


def _coqc(path, qdir):
    return subprocess.Popen(['coqc', '-noglob', '-Q', os.path.join(lib.COQ, 'theories'), 'RL', '-Q', qdir, 'G', path],
                            stdout=subprocess.PIPE, stderr=subprocess.STDOUT, text=True)


def check(repo, names, workdir):
    """-> {function: status}"""
    try:
        defs, ties, fails = build.translate_all(repo)
    except Exception as e:   # the translator must never take a check down
        return {'translator': 'internal error: %s' % repr(e)[:200]}
    sup = os.path.join(lib.COQ, 'theories', 'Proofs', 'GenSupport.vo')
    stamp = str(os.path.getmtime(sup)) if os.path.exists(sup) else '0'
    key = hashlib.sha1((json.dumps(defs, sort_keys=True) + json.dumps(ties, sort_keys=True) + stamp).encode()).hexdigest()[:20]
    cdir = os.path.join(lib.CACHE, 'srctie')
    os.makedirs(cdir, exist_ok=True)
    cp = os.path.join(cdir, 'fn-' + key + '.json')
    if os.path.exists(cp):
        allres = json.load(open(cp))
    else:
        os.makedirs(workdir, exist_ok=True)
        allres = {}
        # one file per function: the generated definition followed by its tie lemma
        pending = {n: list(levels) for n, levels in ties.items()}
        while pending:
            procs = []
            for n, levels in pending.items():
                lvl, text = levels[0]
                tp = os.path.join(workdir, 'Tie_%s.v' % n)
                open(tp, 'w').write(build.HEADER + defs[n] + text)
                procs.append((n, lvl, tp, _coqc(tp, workdir)))
            nxt = {}
            for n, lvl, tp, pr in procs:
                try:
                    out, _ = pr.communicate(timeout=900)
                except subprocess.TimeoutExpired:
                    pr.kill()
                    out = 'timeout'
                if pr.returncode == 0:
                    allres[n] = 'tied (%s)' % lvl
                elif 'Lemma tie' not in out and 'tie' not in out.split('Error')[0][-40:] and ('Definition' in out or 'has type' in out) and False:
                    allres[n] = 'generated definition does not type-check'
                elif len(pending[n]) > 1:
                    nxt[n] = pending[n][1:]
                else:
                    allres[n] = 'differs from the Model'
            pending = nxt
        for n, why in fails.items():
            allres[n] = 'not translated: %s' % why[:160]
        json.dump(allres, open(cp, 'w'))
        for f in os.listdir(workdir):
            if f.startswith(('Tie_', 'Gen.', '.Tie_', '.Gen')):
                try:
                    os.remove(os.path.join(workdir, f))
                except OSError:
                    pass
    return {n: allres.get(n, 'not translated') for n in names}


if __name__ == '__main__':
    import time
    t0 = time.time()
    r = check(sys.argv[1] if len(sys.argv) > 1 else lib.REPO, DECODERS + PER_TYPE, os.path.join(lib.CACHE, 'work', 'srctie2-%d' % os.getpid()))
    print(json.dumps(r, indent=1), round(time.time() - t0, 1))
