"""Source tie by translation (control flow): py/rs2v translates the decoder functions of the crate's current source
into `prog` terms; the kernel checks each against the hand-written Model -- as terms, or observationally on the list
reader.  Like py/srcfacts.py this never raises an alarm by itself: a function that no longer ties (or can no longer be
translated because the source left the supported subset) is reported in the evidence and makes the differential
search work harder."""
import hashlib, json, os, subprocess, sys
sys.path.insert(0, os.path.dirname(os.path.abspath(__file__)))
import lib
from rs2v import build

# which translated functions carry which property
DECODERS = ['gen_header_read', 'gen_flags_read', 'gen_decode_avp', 'gen_greedy', 'gen_data_read', 'gen_ctrl_read', 'gen_msg_read', 'gen_try_read']
PER_TYPE = ['gen_dec_%s' % k for k in sorted(build.MODEL_DEC)]
KINDS = sorted(build.MODEL_DEC) + ['Hidden', 'SequencingRequired']
ENCODERS = ['gen_enc_avp', 'gen_enc_ctrl', 'gen_enc_data', 'gen_flags_new'] + ['gen_wr_%s' % k for k in KINDS] + ['gen_len_%s' % k for k in KINDS]
ALL = DECODERS + PER_TYPE + ENCODERS
from rs2v import vecbuild
READER = ['gen_sr_%s' % x[0] for x in vecbuild.SR]
WRITER = ['gen_vw_%s' % x[0] for x in vecbuild.VW]
HIDING = ['gen_hide', 'gen_reveal']
ALL = ALL + READER + WRITER + HIDING
RELEVANT = {p: DECODERS + PER_TYPE + (READER if p in ('C01', 'C02', 'C05') else []) for p in ('C01', 'C02', 'C05', 'C08', 'C15', 'C20')}
RELEVANT['C14'] = ['gen_flags_read', 'gen_msg_read', 'gen_try_read', 'gen_ctrl_read', 'gen_data_read']
RELEVANT['C03'] = ALL
RELEVANT['C10'] = ALL
RELEVANT['C04'] = ['gen_flags_read', 'gen_msg_read', 'gen_data_read', 'gen_enc_data', 'gen_flags_new']
RELEVANT['C06'] = ENCODERS
RELEVANT['C07'] = ENCODERS
RELEVANT['C09'] = ENCODERS
RELEVANT['C16'] = ['gen_decode_avp', 'gen_dec_MessageType', 'gen_dec_ResultCode', 'gen_dec_ProxyAuthenType', 'gen_wr_MessageType',
                   'gen_wr_ResultCode', 'gen_wr_ProxyAuthenType']
RELEVANT['C17'] = ['gen_dec_%s' % k for k in ('FramingCapabilities', 'BearerCapabilities', 'BearerType', 'FramingType')] + \
                  ['gen_wr_%s' % k for k in ('FramingCapabilities', 'BearerCapabilities', 'BearerType', 'FramingType')]
RELEVANT['C13'] = ['gen_decode_avp'] + PER_TYPE
RELEVANT['C11'] = ['gen_decode_avp', 'gen_enc_avp'] + PER_TYPE + ['gen_wr_%s' % k for k in KINDS]
RELEVANT['C12'] = ['gen_enc_avp'] + ['gen_wr_%s' % k for k in KINDS]
for _p in ('C11', 'C12', 'C13'):
    RELEVANT[_p] = RELEVANT[_p] + HIDING
for _p in ('C06', 'C07', 'C09'):
    RELEVANT[_p] = RELEVANT[_p] + WRITER
RELEVANT['C18'] = READER + WRITER
BITMASK = ['gen_bm_%s_%s' % (w, k) for k in ('FramingCapabilities', 'BearerCapabilities', 'BearerType', 'FramingType') for w in ('new', 'first', 'second')]
RELEVANT['C17'] = RELEVANT['C17'] + BITMASK
ALL = ALL + BITMASK


def _support_stamp():
    """the tie files import Proofs/GenSupport.vo and Proofs/GenVec.vo: build them when absent; their mtimes key the caches"""
    out = []
    for f in ('GenSupport', 'GenVec'):
        vo = os.path.join(lib.COQ, 'theories', 'Proofs', f + '.vo')
        if not os.path.exists(vo):
            try:
                lib.coq_build('theories/Proofs/%s.vo' % f)
            except Exception:
                pass
        out.append(str(os.path.getmtime(vo)) if os.path.exists(vo) else '0')
    return '/'.join(out)


def _coqc(path, qdir):
    return subprocess.Popen(['coqc', '-noglob', '-Q', os.path.join(lib.COQ, 'theories'), 'RL', '-Q', qdir, 'G', path],
                            stdout=subprocess.PIPE, stderr=subprocess.STDOUT, text=True)


def check(repo, names, workdir):
    """-> {function: status}"""
    try:
        defs, ties, fails = build.translate_all(repo)
    except Exception as e:   # the translator must never take a check down
        return {'translator': 'internal error: %s' % repr(e)[:200]}
    sup = os.path.join(lib.COQ, 'theories', 'Proofs', 'GenSupport.vo')
    stamp = _support_stamp()
    key = hashlib.sha1((json.dumps(defs, sort_keys=True) + json.dumps(ties, sort_keys=True) + json.dumps(fails, sort_keys=True) + stamp).encode()).hexdigest()[:20]
    cdir = os.path.join(lib.CACHE, 'srctie')
    os.makedirs(cdir, exist_ok=True)
    cp = os.path.join(cdir, 'fn-' + key + '.json')
    transient = []
    if os.path.exists(cp):
        allres = json.load(open(cp))
    else:
        os.makedirs(workdir, exist_ok=True)
        allres = {}
        transient = []
        # one file per function: the generated definition followed by its tie lemma; the verdict on one function is cached
        # under the text that was compiled, so that a change to the source recompiles only the functions it touches
        fdir = os.path.join(cdir, 'fn')
        os.makedirs(fdir, exist_ok=True)

        def fkey(n):
            return hashlib.sha1((build.HEADERS.get(n, build.HEADER) + defs[n] + json.dumps(ties[n]) + stamp).encode()).hexdigest()[:24]
        pending = {}
        for n, levels in ties.items():
            fp = os.path.join(fdir, fkey(n))
            if os.path.exists(fp):
                allres[n] = open(fp).read()
            else:
                pending[n] = list(levels)
        while pending:
            procs = []
            items = list(pending.items())
            running = []
            # at most NPROC compilations at a time

            def start(n, levels):
                lvl, text = levels[0]
                tp = os.path.join(workdir, 'Tie_%s.v' % n)
                open(tp, 'w').write(build.HEADERS.get(n, build.HEADER) + defs[n] + text)
                return (n, lvl, tp, _coqc(tp, workdir))
            outs = {}
            while items or running:
                while items and len(running) < lib.NPROC:
                    n, levels = items.pop(0)
                    running.append(start(n, levels))
                n, lvl, tp, pr = running.pop(0)
                try:
                    out, _ = pr.communicate(timeout=900)
                except subprocess.TimeoutExpired:
                    pr.kill()
                    out = 'timeout'
                outs[n] = out
                procs.append((n, lvl, tp, pr))
            nxt = {}
            for n, lvl, tp, pr in procs:
                out = outs[n]
                if pr.returncode is not None and pr.returncode < 0:
                    out += ' timeout (killed by signal %d)' % -pr.returncode
                if pr.returncode != 0 and any(x in out for x in ('inconsistent assumptions', 'Compiled library', 'Cannot load', 'bad version',
                                                                     'No such file', 'Cannot find a physical path', 'timeout', 'Out of memory')):
                    # the compiled theory was being rebuilt under us (another check), or a resource limit: once more, alone
                    with lib.Lock('coq'):
                        pr = _coqc(tp, workdir)
                        try:
                            out, _ = pr.communicate(timeout=900)
                        except subprocess.TimeoutExpired:
                            pr.kill()
                            out = 'timeout'
                    if pr.returncode != 0 and any(x in out for x in ('inconsistent assumptions', 'Compiled library', 'Cannot load', 'bad version',
                                                                         'No such file', 'Cannot find a physical path', 'timeout', 'Out of memory')):
                        allres[n] = 'not checked (coqc could not run: %s)' % ' '.join(out.split())[-120:]
                        transient.append(n)
                        continue
                if pr.returncode == 0:
                    allres[n] = 'tied (%s)' % lvl
                elif len(pending[n]) > 1:
                    nxt[n] = pending[n][1:]
                else:
                    allres[n] = 'differs from the Model'
                if n in allres:
                    open(os.path.join(fdir, fkey(n)), 'w').write(allres[n])
            pending = nxt
        for n, why in fails.items():
            allres[n] = 'not translated: %s' % why[:160]
        if not transient:
            json.dump(allres, open(cp, 'w'))
        for f in os.listdir(workdir):
            if f.startswith(('Tie_', 'Gen.', '.Tie_', '.Gen')):
                try:
                    os.remove(os.path.join(workdir, f))
                except OSError:
                    pass
    return {n: allres.get(n, 'not translated') for n in names}


def linked_check(repo, workdir):
    """-> status of the fully linked regenerated decoder and the theorems transported to it"""
    try:
        defs, ties, fails = build.translate_all(repo)
        text = build.linked_text(defs)
    except Exception as e:
        return {'status': 'translator: internal error %s' % repr(e)[:160]}
    if text is None:
        return {'status': 'not available: a decoder function could not be translated'}
    stamp = _support_stamp()
    key = hashlib.sha1((text + stamp).encode()).hexdigest()[:20]
    cdir = os.path.join(lib.CACHE, 'srctie')
    os.makedirs(cdir, exist_ok=True)
    cp = os.path.join(cdir, 'linked-' + key + '.json')
    if os.path.exists(cp):
        return json.load(open(cp))
    os.makedirs(workdir, exist_ok=True)
    p = os.path.join(workdir, 'Linked.v')
    open(p, 'w').write(text)
    transient = ('inconsistent assumptions', 'Compiled library', 'Cannot load', 'bad version', 'No such file', 'Cannot find a physical path')
    def once():
        pr = _coqc(p, workdir)
        try:
            out, _ = pr.communicate(timeout=1200)
        except subprocess.TimeoutExpired:
            pr.kill()
            out = 'timeout'
        return pr, out
    pr, out = once()
    if pr.returncode != 0 and any(x in out for x in transient):
        with lib.Lock('coq'):
            pr, out = once()
    closed = out.count('Closed under the global context')
    if pr.returncode == 0:
        res = {'status': 'holds', 'closed_under_global_context': closed,
               'theorems': ['regenerated_decoder_is_model : forall o b, run (genL_msg_read o) b = m_decode o b',
                            'regenerated_avps_is_model', 'G_C01_total', 'G_C02_no_contract_violation', 'G_C05_refines_spec'] +
                           (['regenerated_encoder_is_model : forall v p, genL_encode v p = m_encode v p', 'G_C03_ctrl_roundtrip',
                             'G_C04_data_roundtrip', 'G_C06_encode_refines_spec', 'G_C07_lengths_exact', 'G_C08_suffix', 'G_C08_back_to_back',
                             'G_C09_prefix_independent', 'G_C10_reencode_ctrl', 'G_C14_monotone', 'G_C15_err_nonempty']
                            if 'regenerated_encoder_is_model' in text else []),
               'meaning': 'the decoder and the encoder regenerated from the current source text, with every callee regenerated too, equal the '
                          'Model decoder / encoder on every input; C01, C02, C05, the round trips C03, C04, the layout C06, exact lengths C07, '
                          'framing C08, prefix independence C09, re-encoding C10, option monotonicity C14 and non-empty error lists C15 are '
                          're-proved of the regenerated programs'}
        json.dump(res, open(cp, 'w'))
    elif any(x in out for x in transient) or out == 'timeout':
        res = {'status': 'not checked (coqc could not run)'}
    else:
        res = {'status': 'does not hold for the current source', 'coqc': ' '.join(out.split())[-300:]}
        json.dump(res, open(cp, 'w'))
    for f in os.listdir(workdir):
        if f.startswith(('Linked.', '.Linked')):
            try:
                os.remove(os.path.join(workdir, f))
            except OSError:
                pass
    return res


def linked_vec_check(repo, workdir):
    """-> status of the regenerated SliceReader as a ReaderImpl, the regenerated hide/reveal and the theorems transported to them"""
    try:
        defs, ties, fails = build.translate_all(repo)
        text = vecbuild.linked_text(defs)
    except Exception as e:
        return {'status': 'translator: internal error %s' % repr(e)[:160]}
    if text is None:
        return {'status': 'not available: ' + '; '.join('%s: %s' % (k, v[:80]) for k, v in fails.items() if k in vecbuild.NAMES)[:300]}
    key = hashlib.sha1((text + _support_stamp()).encode()).hexdigest()[:20]
    cdir = os.path.join(lib.CACHE, 'srctie')
    os.makedirs(cdir, exist_ok=True)
    cp = os.path.join(cdir, 'linkedvec-' + key + '.json')
    if os.path.exists(cp):
        return json.load(open(cp))
    os.makedirs(workdir, exist_ok=True)
    p = os.path.join(workdir, 'LinkedVec.v')
    open(p, 'w').write(text)
    transient = ('inconsistent assumptions', 'Compiled library', 'Cannot load', 'bad version', 'No such file', 'Cannot find a physical path')

    def once():
        pr = _coqc(p, workdir)
        try:
            out, _ = pr.communicate(timeout=1200)
        except subprocess.TimeoutExpired:
            pr.kill()
            out = 'timeout'
        return pr, out
    pr, out = once()
    if pr.returncode != 0 and any(x in out for x in transient):
        with lib.Lock('coq'):
            pr, out = once()
    if pr.returncode == 0 and 'Axioms:' not in out:
        res = {'status': 'holds', 'closed_under_global_context': out.count('Closed under the global context'),
               'theorems': ['regenerated_reader_is_list_reader : forall A (p : prog A) l, grun GenSliceReader p l = run p l',
                            'G_decode_on_regenerated_reader', 'G_C02_on_regenerated_reader', 'G_C18_reader_refines_cursor', 'G_C18_writer_step',
                            'G_C17_FramingCapabilities / _BearerCapabilities / _BearerType / _FramingType',
                            'regenerated_hide_is_model : forall a secret rv lp ap, gen_hide a secret rv lp ap = m_hide md5 a secret rv lp ap',
                            'regenerated_reveal_is_model', 'G_C11_hide_reveal', 'G_C12_hide_is_rfc', 'G_C12_reveal_is_rfc', 'G_C13_reveal_total'],
               'meaning': 'SliceReader (src/common/slice_reader.rs) regenerated from the current source is, as an implementation of the '
                          'Reader trait, the list reader every decoder theorem is stated on; AVP::hide / AVP::reveal regenerated from '
                          'src/message/avp.rs equal the Model on every input, and C11, C12, C13 are re-proved of the regenerated functions; the bitmask '
                          'constructors/accessors and the cursor refinement (C17, C18) likewise'}
        json.dump(res, open(cp, 'w'))
    elif any(x in out for x in transient) or out == 'timeout':
        res = {'status': 'not checked (coqc could not run)'}
    else:
        res = {'status': 'does not hold for the current source', 'coqc': ' '.join(out.split())[-300:]}
        json.dump(res, open(cp, 'w'))
    for f in os.listdir(workdir):
        if f.startswith(('LinkedVec.', '.LinkedVec')):
            try:
                os.remove(os.path.join(workdir, f))
            except OSError:
                pass
    return res


if __name__ == '__main__':
    import time
    t0 = time.time()
    r = check(sys.argv[1] if len(sys.argv) > 1 else lib.REPO, ALL, os.path.join(lib.CACHE, 'work', 'srctie2-%d' % os.getpid()))
    print(json.dumps(r, indent=1), round(time.time() - t0, 1))
    print(json.dumps(linked_check(sys.argv[1] if len(sys.argv) > 1 else lib.REPO, os.path.join(lib.CACHE, 'work', 'linked-%d' % os.getpid())), indent=1), round(time.time() - t0, 1))
    print(json.dumps(linked_vec_check(sys.argv[1] if len(sys.argv) > 1 else lib.REPO, os.path.join(lib.CACHE, 'work', 'linkedvec-%d' % os.getpid())), indent=1), round(time.time() - t0, 1))
