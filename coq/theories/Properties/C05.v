(** C05 -- placeholder while the proofs are built *)
From RL Require Import Model.Decode.
Theorem C05_placeholder : m_decode strict_opts [] = Val (Err [IncompleteFlags], []).
Proof. reflexivity. Qed.
Print Assumptions C05_placeholder.
