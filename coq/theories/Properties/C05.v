(** C05 -- The decoder accepts exactly the specified language with the specified
    values.  [s_decode] / [s_avps] (Spec/SpecDecode.v) is the independent
    executable specification: positional fields, the crate's flag-bit numbering,
    the 39 payload formats as a table of shapes, UTF-8 and enumerated-code
    constraints; no reader, no guards-then-unchecked-reads, no failure outcome.
    The equality is on complete results: the accepted value and the remaining
    input, or the full error list. *)
From RL Require Import Model.Decode Spec.SpecDecode Proofs.RefineAvp Proofs.RefineDecode Proofs.Framing Proofs.Inert Proofs.Transport Proofs.Utf8Facts.

Theorem C05_decode_refines_spec : forall o b, bytes_ok b = true ->
  exists x, m_decode o b = Val x /\ obs_of x = s_decode o b.
Proof. exact decode_refines. Qed.

Theorem C05_avps_refine_spec : forall b, bytes_ok b = true -> m_avps b = Val (s_avps b).
Proof. exact avps_refines. Qed.

Theorem C05_payload_refines_spec : forall t p,
  exists rest, m_decode_avp t p = Val (s_payload t p, rest).
Proof. exact decode_avp_refines. Qed.

(** acceptance and rejection coincide exactly *)
Theorem C05_accepts_iff : forall o b m rest, bytes_ok b = true ->
  (m_decode o b = Val (Ok m, rest) <-> s_decode o b = Ok (m, rest)).
Proof. exact model_accepts_iff_spec. Qed.
Theorem C05_rejects_iff : forall o b es, bytes_ok b = true ->
  ((exists rest, m_decode o b = Val (Err es, rest)) <-> s_decode o b = Err es).
Proof. exact model_rejects_iff_spec. Qed.

(** the UTF-8 constraint of the specification is RFC 3629: exactly the concatenations of the
    shortest-form encodings of Unicode scalar values *)
Theorem C05_utf8_is_rfc3629 : forall l,
  utf8_valid l = true <-> exists cps, forallb scalar cps = true /\ l = flat_map enc_cp cps.
Proof. exact utf8_valid_iff. Qed.

(** Nothing outside the fields the specification names influences the result. *)
Theorem C05_avp_header_bits_inert : forall o1 o1' rest,
  o1 / 64 = o1' / 64 -> N.testbit o1 1 = N.testbit o1' 1 ->
  rec_length (o1 :: rest) = rec_length (o1' :: rest) /\ s_record (o1 :: rest) = s_record (o1' :: rest).
Proof. exact avp_header_bits_inert. Qed.

Theorem C05_short_tail_ignored : forall rs tail, forallb well_delimited rs = true -> len tail < 6 ->
  s_avps (concat rs ++ tail) = (map s_record rs, tail).
Proof. exact short_tail_ignored. Qed.

Theorem C05_surplus_ignored : forall t sh p extra, shape_of t = Some sh -> fixed_size sh = Some (len p) ->
  s_payload t (p ++ extra) = s_payload t p.
Proof. exact surplus_ignored. Qed.

Theorem C05_reserved_octets_inert :
  (forall a a' b rest, s_payload 32 (a :: b :: rest) = s_payload 32 (a' :: b :: rest)) /\
  (forall a b a' b' rest, s_payload 34 (a :: b :: rest) = s_payload 34 (a' :: b' :: rest)) /\
  (forall a b a' b' rest, s_payload 35 (a :: b :: rest) = s_payload 35 (a' :: b' :: rest)).
Proof. exact (conj reserved_octets_inert_32 (conj reserved_octets_inert_34 reserved_octets_inert_35)). Qed.

Theorem C05_vendor_payload_inert : forall hdr p p', len hdr = 6 -> rec_vendor hdr <> 0 ->
  s_record (hdr ++ p) = s_record (hdr ++ p').
Proof. exact vendor_payload_inert. Qed.

(** non-vacuity: a control message with reserved AVP bits set, M clear and surplus payload octets is accepted *)
Example C05_noncanonical_accepted :
  s_decode strict_opts [19;32;0;23; 0;1;0;2;0;3;0;4; 60;11;0;0;0;0;0;1;9;9;9] =
  Ok (Control {| c_length := 23; c_tunnel := 1; c_session := 2; c_ns := 3; c_nr := 4;
                 c_avps := [AMessageType StartControlConnectionRequest] |}, []).
Proof. vm_compute. reflexivity. Qed.

Print Assumptions C05_decode_refines_spec.
Print Assumptions C05_avps_refine_spec.
Print Assumptions C05_payload_refines_spec.
Print Assumptions C05_avp_header_bits_inert.
Print Assumptions C05_short_tail_ignored.
Print Assumptions C05_surplus_ignored.
Print Assumptions C05_reserved_octets_inert.
Print Assumptions C05_vendor_payload_inert.
Print Assumptions C05_accepts_iff.
Print Assumptions C05_rejects_iff.
Print Assumptions C05_utf8_is_rfc3629.
