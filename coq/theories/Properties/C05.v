(** C05 -- The decoder accepts exactly the specified language with the specified
    values.  [s_decode] / [s_avps] (Spec/SpecDecode.v) is the independent
    executable specification: positional fields, the crate's flag-bit numbering,
    the 39 payload formats as a table of shapes, UTF-8 and enumerated-code
    constraints; no reader, no guards-then-unchecked-reads, no failure outcome.
    The equality is on complete results: the accepted value and the remaining
    input, or the full error list. *)
From RL Require Import Model.Decode Spec.SpecDecode Proofs.RefineAvp Proofs.RefineDecode.

Theorem C05_decode_refines_spec : forall o b, bytes_ok b = true ->
  exists x, m_decode o b = Val x /\ obs_of x = s_decode o b.
Proof. exact decode_refines. Qed.

Theorem C05_avps_refine_spec : forall b, bytes_ok b = true -> m_avps b = Val (s_avps b).
Proof. exact avps_refines. Qed.

Theorem C05_payload_refines_spec : forall t p,
  exists rest, m_decode_avp t p = Val (s_payload t p, rest).
Proof. exact decode_avp_refines. Qed.

(** non-vacuity: a control message with reserved AVP bits set, M clear and surplus payload octets is accepted *)
Example C05_noncanonical_accepted :
  s_decode strict_opts [19;32;0;23; 0;1;0;2;0;3;0;4; 60;11;0;0;0;0;0;1;9;9;9] =
  Ok (Control {| c_length := 23; c_tunnel := 1; c_session := 2; c_ns := 3; c_nr := 4;
                 c_avps := [AMessageType StartControlConnectionRequest] |}, []).
Proof. vm_compute. reflexivity. Qed.

Print Assumptions C05_decode_refines_spec.
Print Assumptions C05_avps_refine_spec.
Print Assumptions C05_payload_refines_spec.
