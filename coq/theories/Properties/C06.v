(** C06 -- The encoder emits exactly the specified octets.  [s_encode] /
    [s_enc_avp] (Spec/SpecEncode.v) state the layout once: flag word, big-endian
    header fields in RFC 2661 order, AVP header with M set, vendor 0, H only on
    hidden AVPs, attribute type, reserved octets zero, value format per kind,
    lengths computed up front.  The Model encoder (placeholders back-patched with
    write_bytes_at) produces exactly that behind whatever the writer holds, or
    panics when the value does not fit its length field. *)
From RL Require Import Model.Encode Spec.SpecEncode Proofs.RefineEncode Proofs.EncodeFacts.

Theorem C06_encode_refines_spec : forall v p,
  m_encode v p = if encodable v then Val (p ++ s_encode v) else Panic PkAssert.
Proof. exact encode_octets. Qed.

Theorem C06_avp_refines_spec : forall a p,
  m_enc_avp a p = if avp_fits a then Val (p ++ s_enc_avp a) else Panic PkAssert.
Proof. exact enc_avp_octets. Qed.

(** with the writer's overwrite log *)
Theorem C06_encode_writer : forall v w,
  m_encode_w v w = if encodable v
                   then Val (mkw (w_data w ++ s_encode v) (w_log w ++ msg_log (w_len w) v))
                   else Panic PkAssert.
Proof. exact encode_refines. Qed.

(** the AVP header: M set, H only on hidden AVPs, reserved bits clear, vendor 0, exact 10-bit length *)
Theorem C06_avp_header : forall a, avp_fits a = true ->
  exists o1 rest, s_enc_avp a = o1 :: (avp_total a mod 256) :: 0 :: 0 :: rest /\
    rest = be16 (attr_type a) ++ s_value a /\
    N.testbit o1 0 = true /\ N.testbit o1 1 = is_hidden a /\
    N.testbit o1 2 = false /\ N.testbit o1 3 = false /\ N.testbit o1 4 = false /\ N.testbit o1 5 = false /\
    256 * (o1 / 64) + avp_total a mod 256 = avp_total a.
Proof. exact enc_avp_header. Qed.

Example C06_example :
  m_encode (Control {| c_length := 0; c_tunnel := 1; c_session := 2; c_ns := 3; c_nr := 4;
                       c_avps := [AMessageType Hello; ABytes HostName [97; 98; 99]] |}) [255]
  = Val [255; 19;32; 0;29; 0;1; 0;2; 0;3; 0;4; 1;8;0;0;0;0;0;6; 1;9;0;0;0;7;97;98;99].
Proof. vm_compute. reflexivity. Qed.

Print Assumptions C06_encode_refines_spec.
Print Assumptions C06_avp_refines_spec.
Print Assumptions C06_encode_writer.
Print Assumptions C06_avp_header.
