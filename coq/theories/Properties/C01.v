(** C01 -- Decoding is total: any octets, any options give Ok or a non-empty Err;
    never a panic, an arithmetic overflow, undefined behaviour or non-termination.
    [Val] excludes [Panic] (slice index, assert, and checked subtraction, which
    stands for both the debug-build overflow panic and the release-build wrap),
    [UB] (unchecked read outside the input) and [OutOfFuel] (the greedy loop not
    terminating within its fuel, S |input| iterations). *)
From RL Require Import Model.Decode Model.Cost Spec.SpecDecode Proofs.Totality Proofs.CostBound.

Theorem C01_message_total : forall o b, bytes_ok b = true ->
  exists r rest, m_decode o b = Val (r, rest) /\
                 (is_Ok r = true \/ exists e es, r = Err (e :: es)).
Proof. exact message_total. Qed.

Theorem C01_avps_total : forall b, bytes_ok b = true ->
  exists l rest, m_avps b = Val (l, rest).
Proof. exact avps_total. Qed.

Theorem C01_type_total : forall t p, exists r rest, m_decode_avp t p = Val (r, rest).
Proof. exact type_total. Qed.

(** iteration bound of the greedy loop: at most one record per 6 octets, plus one *)
Theorem C01_loop_bound : forall n r, N.of_nat (length (fst (s_avps_n n r))) <= len r / 6 + 1.
Proof. exact s_avps_n_count. Qed.

(** the work performed is linear in the input.  [cost] (Model/Cost.v) charges one unit per
    reader operation the decoder issues and one unit per octet handed out by [bytes(n)];
    for every octet string and option set it is at most 3 units per input octet plus 12.
    Together with [C01_message_total] (no [OutOfFuel]) this is the model-level content of
    "never fails to terminate": there is no input on which the decoder does super-linear
    work.  (Wall-clock time of the compiled code is outside any model; a watchdog covers it
    on generated inputs only.) *)
Theorem C01_work_linear : forall o b, bytes_ok b = true ->
  m_decode_cost o b <= 3 * len b + 12.
Proof. exact cost_message. Qed.

Theorem C01_avps_work_linear : forall b, bytes_ok b = true ->
  m_avps_cost b <= 3 * len b + 2.
Proof. exact cost_avps. Qed.

Theorem C01_type_work_linear : forall t p, cost (decode_avp t) p <= 8 + len p.
Proof. exact cost_decode_avp. Qed.

(** a concrete run: the 20-octet SCCRQ of the crate's documentation costs 21 units *)
Example C01_cost_example :
  m_decode_cost default_opts [19;32;0;20;0;2;0;3;0;4;0;5;0;8;0;0;0;0;0;1] = 21.
Proof. vm_compute. reflexivity. Qed.

(** non-vacuity: the D1 input of the pinned tree (Length = 4) is in the domain and is rejected *)
Example C01_D1_input :
  bytes_ok [19;32;0;4;0;0;0;0;0;0;0;0] = true /\
  m_decode default_opts [19;32;0;4;0;0;0;0;0;0;0;0] = Val (Err [IncompleteControlMessageHeader], []).
Proof. split; vm_compute; reflexivity. Qed.

Print Assumptions C01_message_total.
Print Assumptions C01_avps_total.
Print Assumptions C01_type_total.
Print Assumptions C01_loop_bound.
Print Assumptions C01_work_linear.
Print Assumptions C01_avps_work_linear.
Print Assumptions C01_type_work_linear.
