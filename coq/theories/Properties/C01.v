(** C01 -- decoding is total.  (placeholder while the refinement proofs are built) *)
From RL Require Import Model.Decode.

Theorem C01_model_runs_example :
  exists r rest, m_decode strict_opts [19;32;0;12;0;1;0;2;0;3;0;4] = Val (r, rest).
Proof. eexists; eexists; vm_compute; reflexivity. Qed.
Print Assumptions C01_model_runs_example.
