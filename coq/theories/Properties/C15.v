(** C15 -- Control messages: all-or-nothing acceptance and a complete, ordered
    error list.  For a body that is a concatenation of well-delimited records the
    result is determined record by record ([s_record]): accepted iff the first
    record (if any) is a Message Type and no record is undecodable; otherwise the
    error list is exactly the errors of the undecodable records in wire order. *)
From RL Require Import Model.Decode Spec.SpecDecode Proofs.Framing Proofs.Totality.

Theorem C15_ctrl_result : forall o hdr rs,
  ctrl_header_ok o hdr (len (concat rs)) -> forallb well_delimited rs = true ->
  s_ctrl o (hdr ++ concat rs) =
  let xs := map s_record rs in
  if negb (s_first_ok xs) then Err [ControlMessageTypeNotFirst]
  else if existsb is_err xs then Err (flat_map err_of_record rs)
  else Ok (Control {| c_length := fld 2 2 hdr; c_tunnel := fld 2 4 hdr; c_session := fld 2 6 hdr;
                      c_ns := fld 2 8 hdr; c_nr := fld 2 10 hdr; c_avps := oks_of xs |}, []).
Proof. exact ctrl_by_records. Qed.

Theorem C15_one_error_per_bad_record : forall rs,
  length (flat_map err_of_record rs) = length (filter (fun r => is_err (s_record r)) rs).
Proof. exact errs_count. Qed.

Theorem C15_err_nonempty : forall o b es, s_decode o b = Err es -> es <> [].
Proof. exact s_decode_err_nonempty. Qed.

Theorem C15_zlb_accepted : forall o hdr, ctrl_header_ok o hdr 0 ->
  exists m, s_ctrl o hdr = Ok (Control m, []) /\ c_avps m = [].
Proof. exact ctrl_zlb. Qed.

Theorem C15_stop_only_on_bad_length : forall rs bad, forallb well_delimited rs = true ->
  6 <= len bad -> (rec_length bad < 6 \/ len bad < rec_length bad) ->
  exists x, fst (s_avps (concat rs ++ bad)) = map s_record rs ++ [Err (InvalidAVPLength x)].
Proof. exact avps_stop_at_bad_length. Qed.

(** vendor-specific records are undecodable by definition of [s_record] *)
Theorem C15_vendor_is_error : forall r, rec_vendor r <> 0 ->
  s_record r = Err (UnsupportedVendorId (rec_vendor r)).
Proof.
  intros r H. unfold s_record. replace (rec_vendor r =? 0) with false by (symmetry; apply N.eqb_neq; exact H).
  reflexivity.
Qed.

Example C15_two_bad_records :
  s_decode default_opts
    [19;32;0;41; 0;1;0;2;0;3;0;4;  1;8;0;0;0;0;0;1;  1;6;0;0;0;20;  1;7;0;9;0;3;1;  1;8;0;0;0;6;0;5]
  = Err [UnknownAvp 20; UnsupportedVendorId 9].
Proof. vm_compute. reflexivity. Qed.

Print Assumptions C15_ctrl_result.
Print Assumptions C15_one_error_per_bad_record.
Print Assumptions C15_err_nonempty.
Print Assumptions C15_zlb_accepted.
Print Assumptions C15_stop_only_on_bad_length.
Print Assumptions C15_vendor_is_error.
