(** C10 -- Re-encoding a decoded message is stable: one round reaches a fixed
    point.  For every octet string the decoder accepts -- whatever the options,
    however non-canonical (reserved bits, M clear, surplus payload, short body
    tail, trailing octets) -- as a control message, or as a data message without
    an offset field: the decoded value is encodable, its encoding decodes (under the
    strictest options) to the same value up to the control Length field, which
    becomes the new size, and encoding that second value reproduces the same
    octets.  On the Spec; the Model decoder/encoder equal the Spec by C05/C06. *)
From RL Require Import Model.Decode Spec.SpecDecode Spec.SpecEncode Proofs.RoundTrip Proofs.DataRoundTrip Proofs.Reencode Proofs.Transport Model.Encode.

Theorem C10_reencode_ctrl : forall o b m rest, bytes_ok b = true ->
  s_decode o b = Ok (Control m, rest) ->
  encodable (Control m) = true /\
  s_decode strict_opts (s_encode (Control m)) = Ok (Control (with_length m (ctrl_total m)), []) /\
  s_encode (Control (with_length m (ctrl_total m))) = s_encode (Control m).
Proof. exact reencode_ctrl. Qed.

Theorem C10_reencode_data : forall o b d rest, bytes_ok b = true -> fw_O (fld 2 0 b) = false ->
  s_decode o b = Ok (Data d, rest) ->
  encodable (Data d) = true /\ s_decode strict_opts (s_encode (Data d)) = Ok (Data d, []).
Proof. exact reencode_data. Qed.

(** the chain on the Model: decode, encode, decode under the strictest options, encode *)
Theorem C10_model_reencode_ctrl : forall o b m rest, bytes_ok b = true ->
  m_decode o b = Val (Ok (Control m), rest) ->
  exists e, m_encode (Control m) [] = Val e /\
            m_decode strict_opts e = Val (Ok (Control (with_length m (len e))), []) /\
            m_encode (Control (with_length m (len e))) [] = Val e.
Proof. exact model_reencode_ctrl. Qed.

(** the key lemma: what the decoder returns lies in the encoder's domain *)
Theorem C10_decoded_avp_wf : forall t p a, bytes_ok p = true -> len p <= 1017 ->
  s_payload t p = Ok a -> wf_avp a = true /\ len (s_value a) <= len p.
Proof. exact decoded_avp_wf. Qed.

Theorem C10_decoded_ctrl_wf : forall o b m rest, bytes_ok b = true ->
  s_ctrl o b = Ok (Control m, rest) -> wf_ctrl m = true.
Proof. exact decoded_ctrl_wf. Qed.

(** non-vacuity: a non-canonical accepted input (reserved flag bit 13, M clear, reserved AVP bits,
    surplus payload octets, 3 trailing octets) is normalised in one step *)
Example C10_example :
  let b := [51;32;0;23; 0;1;0;2;0;3;0;4; 60;11;0;0;0;0;0;1;9;9;9; 7;7;7] in
  exists m, s_decode default_opts b = Ok (Control m, [7;7;7]) /\
            s_encode (Control m) = [19;32;0;20; 0;1;0;2;0;3;0;4; 1;8;0;0;0;0;0;1].
Proof. eexists. split; vm_compute; reflexivity. Qed.

Print Assumptions C10_reencode_ctrl.
Print Assumptions C10_reencode_data.
Print Assumptions C10_decoded_avp_wf.
Print Assumptions C10_decoded_ctrl_wf.
Print Assumptions C10_model_reencode_ctrl.
