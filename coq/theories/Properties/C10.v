(** C10 -- placeholder while the proofs are built *)
From RL Require Import Model.Decode.
Theorem C10_placeholder : m_decode strict_opts [] = Val (Err [IncompleteFlags], []).
Proof. reflexivity. Qed.
Print Assumptions C10_placeholder.
