(** C02 -- The decoder never reads outside its input, whatever reader backs it.
    (a) Every unchecked request lies within the octets that remain: the list
        reader is the contract monitor ([UB] on a short unchecked read, [Panic] on
        an out-of-range skip / sub-reader), and no run produces either.
    (b) For EVERY implementation [I] of the Reader trait that honours the contract
        ([Conforms I]: each operation, when its precondition holds, returns the
        octets the list reader returns and a state representing the new suffix;
        nothing is assumed outside the precondition) the decoder returns the same
        result and leaves the reader at the same place. *)
From RL Require Import Model.Decode Model.Reader Proofs.ReaderParam Proofs.Totality Proofs.PosReader
  Proofs.NoReadError.

Theorem C02_no_contract_violation : forall o b, bytes_ok b = true ->
  m_decode o b <> UB /\ (forall k, m_decode o b <> Panic k) /\ m_decode o b <> OutOfFuel.
Proof. exact decode_no_ub. Qed.

Theorem C02_program_parametric : forall I (C : Conforms I) A (p : prog A) r a l',
  run p (repr C r) = Val (a, l') ->
  exists r', grun I p r = Val (a, r') /\ repr C r' = l'.
Proof. exact grun_conforms. Qed.

Theorem C02_reader_parametric : forall I (C : Conforms I) o r, bytes_ok (repr C r) = true ->
  exists x r', m_decode o (repr C r) = Val x /\
               grun I (msg_read o) r = Val (fst x, r') /\ repr C r' = snd x.
Proof. exact decode_any_reader. Qed.

Theorem C02_avps_parametric : forall I (C : Conforms I) r, bytes_ok (repr C r) = true ->
  exists x r', m_avps (repr C r) = Val x /\
               grun I avps_read r = Val (fst x, r') /\ repr C r' = snd x.
Proof. exact avps_any_reader. Qed.

Theorem C02_type_parametric : forall I (C : Conforms I) t r,
  exists x r', m_decode_avp t (repr C r) = Val x /\
               grun I (decode_avp t) r = Val (fst x, r') /\ repr C r' = snd x.
Proof. exact type_any_reader. Qed.

(** the checked request [bytes(n)] is likewise only ever made for octets that remain: its [None]
    answer, which the source turns into [AVPReadError] / [MessageReadError], never occurs, so
    those two error variants are never reported *)
Theorem C02_bytes_always_available : forall o b, bytes_ok b = true ->
  forall es rest, m_decode o b = Val (Err es, rest) ->
  forallb (fun e => negb (is_read_error e)) es = true.
Proof. exact decode_no_read_error. Qed.

Theorem C02_bytes_always_available_avps : forall b, bytes_ok b = true ->
  forall l rest, m_avps b = Val (l, rest) -> forallb res_clean l = true.
Proof. exact avps_no_read_error. Qed.

(** a reader with a different representation (shared buffer + position + end, unchecked reads
    that check nothing) conforms, hence decodes identically *)
Theorem C02_pos_reader : forall o (r : pr), bytes_ok (p_repr r) = true ->
  exists x r', m_decode o (p_repr r) = Val x /\
               grun PosReader (msg_read o) r = Val (fst x, r') /\ p_repr r' = snd x.
Proof. intros o r B. exact (decode_any_reader PosReader PosReader_conforms o r B). Qed.

Example C02_pos_reader_runs :
  omap fst (grun PosReader (msg_read strict_opts)
        {| p_data := [9;9; 19;32;0;20; 0;1;0;2;0;3;0;4; 1;8;0;0;0;0;0;6; 7;7]; p_pos := 2; p_end := 22 |})
  = omap fst (m_decode strict_opts [19;32;0;20; 0;1;0;2;0;3;0;4; 1;8;0;0;0;0;0;6]).
Proof. vm_compute. reflexivity. Qed.

(** non-vacuity: [Conforms] is inhabited *)
Example C02_conforms_inhabited : Conforms ListReader.
Proof. exact ListReader_conforms. Qed.

Print Assumptions C02_no_contract_violation.
Print Assumptions C02_program_parametric.
Print Assumptions C02_reader_parametric.
Print Assumptions C02_avps_parametric.
Print Assumptions C02_type_parametric.
Print Assumptions C02_pos_reader.
Print Assumptions C02_bytes_always_available.
Print Assumptions C02_bytes_always_available_avps.
