(** C02 -- placeholder while the proofs are built *)
From RL Require Import Model.Decode.
Theorem C02_placeholder : m_decode strict_opts [] = Val (Err [IncompleteFlags], []).
Proof. reflexivity. Qed.
Print Assumptions C02_placeholder.
