(** C16 -- Enumerated protocol fields accept exactly their assigned code points,
    one-to-one, with the RFC 2661 numbers.  Statements are over all of N (hence
    over all 65536 wire values). *)
From RL Require Import Model.Decode Spec.SpecDecode Proofs.RefineAvp Proofs.Enums.

Theorem C16_message_type : forall x,
  is_some (mt_of_code x) = member x [1;2;3;4;6;7;8;9;10;11;12;14;15;16].
Proof. exact mt_accepts. Qed.
Theorem C16_error_type : forall x, is_some (et_of_code x) = member x [0;1;2;3;4;5;6;7;8].
Proof. exact et_accepts. Qed.
Theorem C16_proxy_authen_type : forall x, is_some (pa_of_code x) = member x [0;1;2;3;4;5].
Proof. exact pa_accepts. Qed.
Theorem C16_stop_ccn_code : forall x, is_some (sc_of_code x) = member x [0;1;2;3;4;5;6;7].
Proof. exact sc_accepts. Qed.
Theorem C16_cdn_code : forall x, is_some (cd_of_code x) = member x [0;1;2;3;4;5;6;7;8;9;10;11].
Proof. exact cd_accepts. Qed.
Theorem C16_attribute_types : forall t,
  is_some (shape_of t) = ((t <=? 19) || ((21 <=? t) && (t <=? 39))).
Proof. exact attr_accepts. Qed.
Theorem C16_dispatch_is_table : forall t,
  decode_avp t = Ret (Err (UnknownAvp t)) <-> is_some (shape_of t) = false.
Proof. exact dispatch_unknown_iff. Qed.

(** one-to-one *)
Theorem C16_mt_bijection : (forall t, mt_of_code (mt_code t) = Some t) /\
                           (forall x t, mt_of_code x = Some t -> mt_code t = x).
Proof. exact (conj mt_inv1 mt_inv2). Qed.
Theorem C16_et_bijection : (forall t, et_of_code (et_code t) = Some t) /\
                           (forall x t, et_of_code x = Some t -> et_code t = x).
Proof. exact (conj et_inv1 et_inv2). Qed.
Theorem C16_pa_bijection : (forall t, pa_of_code (pa_code t) = Some t) /\
                           (forall x t, pa_of_code x = Some t -> pa_code t = x).
Proof. exact (conj pa_inv1 pa_inv2). Qed.
Theorem C16_sc_bijection : (forall t, sc_of_code (sc_code t) = Some t) /\
                           (forall x t, sc_of_code x = Some t -> sc_code t = x).
Proof. exact (conj sc_inv1 sc_inv2). Qed.
Theorem C16_cd_bijection : (forall t, cd_of_code (cd_code t) = Some t) /\
                           (forall x t, cd_of_code x = Some t -> cd_code t = x).
Proof. exact (conj cd_inv1 cd_inv2). Qed.

(** RFC 2661 numbers of the named values *)
Theorem C16_rfc_numbers :
  map mt_code [StartControlConnectionRequest; StartControlConnectionReply; StartControlConnectionConnected;
               StopControlConnectionNotification; Hello; OutgoingCallRequest; OutgoingCallReply;
               OutgoingCallConnected; IncomingCallRequest; IncomingCallReply; IncomingCallConnected;
               CallDisconnectNotify; WanErrorNotify; SetLinkInfo]
    = [1;2;3;4;6;7;8;9;10;11;12;14;15;16]
  /\ map et_code [EtOk; NoControlConnectionExists; WrongLength; OutOfRangeOrBadReserved;
                  InsufficientResources; InvalidSessionId; Generic; TryAnotherDestination;
                  UnknownMandatoryAvp] = [0;1;2;3;4;5;6;7;8]
  /\ map pa_code [PaReserved; TextualUserNamePasswordExchange; PppChap; PppPap; NoAuthentication;
                  MicrosoftChapVersion1] = [0;1;2;3;4;5]
  /\ map sc_code [ScReserved; GeneralRequestToClearControlConnection; GeneralError;
                  ControlChannelAlreadyExists; RequesterNotAuthorizedToEstablishControlChannel;
                  RequesterProtocolVersionUnsupported; RequesterShutdown; FsmError] = [0;1;2;3;4;5;6;7]
  /\ map cd_code [CdReserved; CallDisconnectedLossOfCarrier; CallDisconnectedWithErrorCode;
                  CallDisconnectedAdministrative; CallFailedTemporarilyUnavailable;
                  CallFailedPermanentlyUnavailable; InvalidDestination; CallFailedNoCarrier;
                  CallFailedBusySignal; CallFailedNoDialTone; CallEstablishTimeout;
                  CallNoFramingDetected] = [0;1;2;3;4;5;6;7;8;9;10;11].
Proof. repeat split; reflexivity. Qed.

(** result codes are kept raw for every 16-bit value and re-encoded unchanged *)
Theorem C16_result_code_raw : forall p, 2 <= len p -> len p < 4 ->
  s_payload 1 p = Ok (AResultCode (fld 2 0 p) None).
Proof.
  intros p H2 H4. unfold s_payload. cbn [shape_of s_shape].
  replace (len p <? 2) with false by (symmetry; apply N.ltb_ge; exact H2).
  replace (len p <? 4) with true by (symmetry; apply N.ltb_lt; exact H4). reflexivity.
Qed.

Print Assumptions C16_message_type.
Print Assumptions C16_error_type.
Print Assumptions C16_proxy_authen_type.
Print Assumptions C16_stop_ccn_code.
Print Assumptions C16_cdn_code.
Print Assumptions C16_attribute_types.
Print Assumptions C16_dispatch_is_table.
Print Assumptions C16_mt_bijection.
Print Assumptions C16_rfc_numbers.
Print Assumptions C16_result_code_raw.
