(** C03 -- Control messages and all AVP kinds survive encode then decode
    unchanged.  [wf_avp] / [wf_ctrl] are the property's domain, as boolean
    predicates: field ranges, array sizes, non-empty variable payloads, valid UTF-8,
    optional tails never [Some ""], each AVP at most 1023 octets, the message at most
    65535, first AVP (if any) a Message Type.  The encoder is the Model encoder
    ([m_encode], proved equal to the Spec encoder in C06), the decoder the Model
    decoder under the strictest options. *)
From RL Require Import Model.Decode Model.Encode Spec.SpecDecode Spec.SpecEncode Proofs.RoundTrip.

Theorem C03_ctrl_roundtrip : forall m, wf_ctrl m = true ->
  exists b, m_encode (Control m) [] = Val b /\ b = s_enc_ctrl m /\
            m_decode strict_opts b = Val (Ok (Control (with_length m (len b))), []).
Proof. exact ctrl_roundtrip. Qed.

Theorem C03_avp_roundtrip : forall a, wf_avp a = true ->
  exists b, m_enc_avp a [] = Val b /\ b = s_enc_avp a /\ m_avps b = Val ([Ok a], []).
Proof. exact avp_roundtrip. Qed.

(** the same on the Spec, per payload format and per record *)
Theorem C03_payload_roundtrip : forall a, wf_avp a = true -> is_hidden a = false ->
  s_payload (attr_type a) (s_value a) = Ok a.
Proof. exact payload_roundtrip. Qed.

Theorem C03_record_roundtrip : forall a, wf_avp a = true ->
  Framing.well_delimited (s_enc_avp a) = true /\ s_record (s_enc_avp a) = Ok a.
Proof. exact record_roundtrip. Qed.

(** non-vacuity: the domain contains non-trivial values of several shapes *)
Example C03_domain_nonempty :
  wf_ctrl {| c_length := 0; c_tunnel := 65535; c_session := 0; c_ns := 1; c_nr := 2;
             c_avps := [AMessageType SetLinkInfo; AResultCode 65535 (Some (Generic, Some [206; 169]));
                        AHidden 40000 [1;2;3]; ACallErrors 1 2 3 4 5 4294967295;
                        AStr VendorName [240; 159; 146; 169]; ASequencingRequired] |} = true.
Proof. vm_compute. reflexivity. Qed.

Print Assumptions C03_ctrl_roundtrip.
Print Assumptions C03_avp_roundtrip.
Print Assumptions C03_payload_roundtrip.
Print Assumptions C03_record_roundtrip.
