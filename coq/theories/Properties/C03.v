(** C03 -- placeholder while the proofs are built *)
From RL Require Import Model.Decode.
Theorem C03_placeholder : m_decode strict_opts [] = Val (Err [IncompleteFlags], []).
Proof. reflexivity. Qed.
Print Assumptions C03_placeholder.
