(** C18 -- SliceReader and VecWriter behave as a plain cursor and a plain vector.
    [c_ops] (Spec/SpecCursor.v) is the reference: an immutable octet list plus a
    position; [Some] means every precondition along the sequence held.  The list
    reader (the Model of SliceReader: the unread suffix) returns exactly the
    reference's observations and ends at the suffix of the reference's position. *)
From RL Require Import Model.Reader Model.Encode Model.Ops Spec.SpecDecode Spec.SpecCursor Proofs.Cursor.

Theorem C18_reader_refines_cursor : forall ops d pos r pos', pos <= len d ->
  c_ops ops d pos = Some (r, pos') ->
  run_rops ops (dropN pos d) = Val (r, dropN pos' d) /\ pos' <= len d.
Proof. exact reader_refines_cursor. Qed.

Theorem C18_bytes_too_long : forall n l, len l < n -> run (bytes_ n) l = Val (None, l).
Proof. exact bytes_too_long. Qed.

Theorem C18_writer_is_vector : forall o w,
  wop_step w o =
  match o with
  | WU8 x => Val ({| w_data := w_data w ++ [x mod 256]; w_log := w_log w |}, None)
  | WU16 x => Val ({| w_data := w_data w ++ be16 x; w_log := w_log w |}, None)
  | WU32 x => Val ({| w_data := w_data w ++ be32 x; w_log := w_log w |}, None)
  | WU64 x => Val ({| w_data := w_data w ++ be64 x; w_log := w_log w |}, None)
  | WBytes b => Val ({| w_data := w_data w ++ b; w_log := w_log w |}, None)
  | WBytesAt b off =>
    match vec_at (w_data w) b off with
    | Some d => Val ({| w_data := d; w_log := w_log w ++ [(off, len b, len (w_data w))] |}, None)
    | None => Panic PkAssert
    end
  | WLen => Val (w, Some (ONum (len (w_data w))))
  | WIsEmpty => Val (w, Some (OBool (len (w_data w) =? 0)))
  end.
Proof. exact writer_is_vector. Qed.

Theorem C18_overwrite_keeps_length : forall buf bs off d, vec_at buf bs off = Some d -> len d = len buf.
Proof. exact overwrite_keeps_length. Qed.

Theorem C18_overwrite_refused : forall buf bs off, len buf < off + len bs -> vec_at buf bs off = None.
Proof. exact overwrite_refused. Qed.

(** non-vacuity: a nested program over 8 octets whose preconditions hold *)
Example C18_example :
  c_ops [RU8; RSub 3 [RU16; RLen]; RBytes 9; RLen; RBytes 4] [1;2;3;4;5;6;7;8] 0
  = Some ([ONum 1; OSub [ONum 515; ONum 1]; OBytes None; ONum 4; OBytes (Some [5;6;7;8])], 8).
Proof. vm_compute. reflexivity. Qed.

Print Assumptions C18_reader_refines_cursor.
Print Assumptions C18_bytes_too_long.
Print Assumptions C18_writer_is_vector.
Print Assumptions C18_overwrite_keeps_length.
Print Assumptions C18_overwrite_refused.
