(** C09 -- Encoding only appends: what the writer already holds is untouched,
    the appended octets do not depend on the position, sequences concatenate,
    and every positional overwrite lies inside the value being encoded. *)
From RL Require Import Model.Encode Spec.SpecEncode Proofs.RefineEncode Proofs.EncodeFacts.

Theorem C09_prefix_independent : forall v p, m_encode v p = omap (app p) (m_encode v []).
Proof. exact prefix_independent. Qed.

Theorem C09_sequence : forall vs w, forallb encodable vs = true ->
  m_encode_all_w vs w =
  Val (mkw (w_data w ++ concat (map s_encode vs)) (w_log w ++ msgs_log (w_len w) vs)).
Proof. exact encode_sequence. Qed.

Theorem C09_overwrites_inside : forall v p w', m_encode_w v (writer_of p) = Val w' ->
  w_data w' = p ++ s_encode v /\
  Forall (entry_inside (len p) (len (w_data w'))) (w_log w').
Proof. exact overwrites_inside. Qed.

(** per AVP: the single overwrite is the AVP's own first two octets *)
Theorem C09_avp_overwrite : forall a w, avp_fits a = true ->
  m_enc_avp_w a w = Val (mkw (w_data w ++ s_enc_avp a)
                             (w_log w ++ [(w_len w, 2, w_len w + len (s_enc_avp a))])).
Proof. intros a w F. rewrite enc_avp_ok by exact F. rewrite len_s_enc_avp. reflexivity. Qed.

Example C09_example :
  omap w_log (m_encode_w (Control {| c_length := 0; c_tunnel := 1; c_session := 2; c_ns := 3; c_nr := 4;
                       c_avps := [AMessageType Hello] |}) (writer_of [9; 9; 9]))
  = Val [(15, 2, 23); (5, 2, 23)].
Proof. vm_compute. reflexivity. Qed.

Print Assumptions C09_prefix_independent.
Print Assumptions C09_sequence.
Print Assumptions C09_overwrites_inside.
Print Assumptions C09_avp_overwrite.
