(** C12 -- Hidden values equal the RFC 2661 section 4.3 construction.
    [s_hide_value] / [s_reveal] (Spec/SpecHide.v) are the RFC text transcribed and
    share no definition with Model/Hide.v (one buffer, index arithmetic, forward
    loop over 1..n_chunks, reverse loop in reveal).  The MD5 used by the executors is
    Base/Md5.v, validated by the RFC 1321 test suite (Proofs/Md5Facts.v). *)
From RL Require Import Base.Md5 Model.Decode Model.Encode Model.Hide Spec.SpecEncode Spec.SpecDecode
  Spec.SpecHide Proofs.Hiding Proofs.Md5Facts.

Theorem C12_hide_is_rfc : forall (H : list N -> list N), (forall x, len (H x) = 16) ->
  forall a secret rv lp ap,
  is_hidden a = false -> avp_fits a = true -> attr_type a < 65536 -> len ap = 16 ->
  m_hide H a secret rv lp ap =
  Val (AHidden (attr_type a) (s_hide_value H (attr_type a) (s_value a) secret rv lp ap)).
Proof. exact hide_refines. Qed.

Theorem C12_hidden_length : forall (H : list N -> list N), (forall x, len (H x) = 16) ->
  forall t payload secret rv lp ap, 15 <= len ap ->
  len (s_hide_value H t payload secret rv lp ap) = 16 * ((2 + len payload + len lp + 15) / 16).
Proof. exact hide_value_length. Qed.

Theorem C12_reveal_is_rfc : forall (H : list N -> list N), (forall x, len (H x) = 16) ->
  forall t v secret rv, m_reveal H (AHidden t v) secret rv = Val (s_reveal H t v secret rv).
Proof. exact reveal_refines. Qed.

(** the wire form: H bit set (octet 0 = 64*(l/256) + 3), attribute type in clear *)
Theorem C12_wire_form : forall t v,
  s_enc_avp (AHidden t v) =
  [64 * ((6 + len v) / 256) + 3; (6 + len v) mod 256; 0; 0] ++ be16 t ++ v.
Proof. reflexivity. Qed.

(** the output depends on the alignment padding only through the octets actually used *)
Theorem C12_unused_padding_inert : forall (H : list N -> list N), (forall x, len (H x) = 16) ->
  forall t payload secret rv lp ap ap',
  let k := (16 - (2 + len payload + len lp) mod 16) mod 16 in
  takeN k ap = takeN k ap' ->
  s_hide_value H t payload secret rv lp ap = s_hide_value H t payload secret rv lp ap'.
Proof. exact padding_inert. Qed.

Theorem C12_hide_is_rfc_md5 : forall a secret rv lp ap,
  is_hidden a = false -> avp_fits a = true -> attr_type a < 65536 -> len ap = 16 ->
  m_hide md5 a secret rv lp ap =
  Val (AHidden (attr_type a) (s_hide_value md5 (attr_type a) (s_value a) secret rv lp ap)).
Proof. exact (hide_refines md5 md5_len). Qed.

Theorem C12_reveal_is_rfc_md5 : forall t v secret rv,
  m_reveal md5 (AHidden t v) secret rv = Val (s_reveal md5 t v secret rv).
Proof. exact (reveal_refines md5 md5_len). Qed.

Print Assumptions C12_hide_is_rfc.
Print Assumptions C12_hidden_length.
Print Assumptions C12_reveal_is_rfc.
Print Assumptions C12_wire_form.
Print Assumptions C12_unused_padding_inert.
Print Assumptions C12_hide_is_rfc_md5.
Print Assumptions C12_reveal_is_rfc_md5.
