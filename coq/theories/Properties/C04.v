(** C04 -- Data messages survive encode then decode.  [wf_data]: ids and
    sequence numbers 16-bit, non-empty payload, length absent or equal to the
    true total size, offset absent or n <= |data| - 1.  Holds under EVERY option
    set (the encoder emits version 2 and no reserved bit).  The decoded value
    reports no offset and the payload without its first n octets. *)
From RL Require Import Model.Decode Model.Encode Spec.SpecDecode Spec.SpecEncode Proofs.RoundTrip Proofs.DataRoundTrip.

Theorem C04_data_roundtrip : forall o d, wf_data d = true ->
  exists b, m_encode (Data d) [] = Val b /\ b = s_enc_data d /\
            m_decode o b = Val (Ok (Data (decoded_data d)), []).
Proof. exact data_roundtrip. Qed.

Theorem C04_data_roundtrip_spec : forall d, wf_data d = true ->
  s_data (s_enc_data d) = Ok (Data (decoded_data d), []).
Proof. exact data_roundtrip_spec. Qed.

(** the D6 instance of the pinned tree: O bit, offset size 0, one payload octet *)
Example C04_D6 :
  wf_data {| d_prio := true; d_length := None; d_tunnel := 1; d_session := 2; d_nsnr := None;
             d_offset := Some 0; d_data := [170] |} = true
  /\ m_decode strict_opts [192;32;0;1;0;2;0;0;170]
     = Val (Ok (Data {| d_prio := true; d_length := None; d_tunnel := 1; d_session := 2;
                        d_nsnr := None; d_offset := None; d_data := [170] |}), []).
Proof. split; vm_compute; reflexivity. Qed.

Print Assumptions C04_data_roundtrip.
Print Assumptions C04_data_roundtrip_spec.
