(** C04 -- placeholder while the proofs are built *)
From RL Require Import Model.Decode.
Theorem C04_placeholder : m_decode strict_opts [] = Val (Err [IncompleteFlags], []).
Proof. reflexivity. Qed.
Print Assumptions C04_placeholder.
