(** C17 -- Bitmask AVPs.  [acc_first]/[acc_second] are the accessors named after
    the first/second constructor parameter (the pairing by name is written in
    Model/Ops.v from the public signatures and mirrored by the harness's call
    table).  Proved for every word, not by enumeration. *)
From RL Require Import Model.Ops Spec.SpecDecode Spec.SpecEncode Proofs.Bitmask.

Theorem C17_constructor_accessors : forall k x y,
  acc_first k (bm_new k x y) = x /\ acc_second k (bm_new k x y) = y.
Proof. exact constructor_accessors. Qed.

Theorem C17_accessor_is_own_bit : forall k w,
  acc_first k w = N.testbit w (bit_first k) /\ acc_second k w = N.testbit w (bit_second k).
Proof. exact accessors_own_bit. Qed.

Theorem C17_distinct_bits : forall k, bit_first k <> bit_second k.
Proof. exact distinct_bits. Qed.

Theorem C17_raw_roundtrip : forall k w, w < 4294967296 ->
  s_payload (k32_type (bm_k32 k)) (be32 w) = Ok (A32 (bm_k32 k) w) /\
  s_value (A32 (bm_k32 k) w) = be32 w.
Proof. exact raw_roundtrip. Qed.

(** the D8 instance of the pinned tree, now correct *)
Example C17_D8 : acc_second BmBearerCapabilities (bm_new BmBearerCapabilities true false) = false
              /\ acc_first BmBearerCapabilities (bm_new BmBearerCapabilities true false) = true.
Proof. split; reflexivity. Qed.

Print Assumptions C17_constructor_accessors.
Print Assumptions C17_accessor_is_own_bit.
Print Assumptions C17_distinct_bits.
Print Assumptions C17_raw_roundtrip.
