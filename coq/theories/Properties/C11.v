(** C11 -- Hiding then revealing an AVP with the same secret and random vector
    returns it, directly and over the wire; identity on the other variant.
    Proved for EVERY hash function with a 16-octet result, then instantiated with
    the executable MD5 of Base/Md5.v (the md5 crate is modelled by it). *)
From RL Require Import Base.Md5 Model.Decode Model.Encode Model.Hide Spec.SpecEncode Spec.SpecHide
  Proofs.RoundTrip Proofs.Hiding Proofs.Md5Facts.

Theorem C11_hide_reveal : forall (H : list N -> list N), (forall x, len (H x) = 16) ->
  forall a secret rv lp ap, wf_avp a = true -> is_hidden a = false -> len ap = 16 ->
  exists h, m_hide H a secret rv lp ap = Val h /\ m_reveal H h secret rv = Val (Ok a).
Proof. exact hide_then_reveal. Qed.

Theorem C11_wire : forall (H : list N -> list N), (forall x, len (H x) = 16) ->
  (forall x, bytes_ok (H x) = true) ->
  forall a secret rv lp ap,
  wf_avp a = true -> is_hidden a = false -> len ap = 16 -> bytes_ok lp = true -> bytes_ok ap = true ->
  2 + len (s_value a) + len lp <= 1008 ->
  exists h b, m_hide H a secret rv lp ap = Val h /\ m_enc_avp h [] = Val b /\
              m_avps b = Val ([Ok h], []) /\ m_reveal H h secret rv = Val (Ok a).
Proof. exact hide_wire. Qed.

Theorem C11_identity_on_other_variant : forall (H : list N -> list N),
  (forall t v secret rv lp ap, m_hide H (AHidden t v) secret rv lp ap = Val (AHidden t v)) /\
  (forall a secret rv, is_hidden a = false -> m_reveal H a secret rv = Val (Ok a)).
Proof. intros H. split; [apply hide_hidden | apply reveal_nonhidden]. Qed.

(** a consequence worth stating on its own: hiding is injective on well-formed AVPs, whatever padding
    each side drew (so the round trip cannot be satisfied by a reveal that guesses) *)
Theorem C11_hide_injective : forall (H : list N -> list N), (forall x, len (H x) = 16) ->
  forall a b secret rv lp ap lp' ap',
  wf_avp a = true -> is_hidden a = false -> len ap = 16 ->
  wf_avp b = true -> is_hidden b = false -> len ap' = 16 ->
  m_hide H a secret rv lp ap = m_hide H b secret rv lp' ap' -> a = b.
Proof. exact hide_injective. Qed.

(** with MD5 *)
Theorem C11_hide_reveal_md5 : forall a secret rv lp ap,
  wf_avp a = true -> is_hidden a = false -> len ap = 16 ->
  exists h, m_hide md5 a secret rv lp ap = Val h /\ m_reveal md5 h secret rv = Val (Ok a).
Proof. exact (hide_then_reveal md5 md5_len). Qed.

Theorem C11_wire_md5 : forall a secret rv lp ap,
  wf_avp a = true -> is_hidden a = false -> len ap = 16 -> bytes_ok lp = true -> bytes_ok ap = true ->
  2 + len (s_value a) + len lp <= 1008 ->
  exists h b, m_hide md5 a secret rv lp ap = Val h /\ m_enc_avp h [] = Val b /\
              m_avps b = Val ([Ok h], []) /\ m_reveal md5 h secret rv = Val (Ok a).
Proof. exact (hide_wire md5 md5_len md5_bytes). Qed.

Example C11_example :
  omap (fun h => m_reveal md5 h [115] [1;2;3;4]) (m_hide md5 (ABytes HostName [97;98;99]) [115] [1;2;3;4] [170;187]
     [0;1;2;3;4;5;6;7;8;9;10;11;12;13;14;15]) = Val (Val (Ok (ABytes HostName [97;98;99]))).
Proof. vm_compute. reflexivity. Qed.

Print Assumptions C11_hide_reveal.
Print Assumptions C11_hide_injective.
Print Assumptions C11_wire.
Print Assumptions C11_identity_on_other_variant.
Print Assumptions C11_hide_reveal_md5.
Print Assumptions C11_wire_md5.
