(** C20 -- Decode errors identify the offending field and render with the right
    AVP name.  Fault theorems on the Spec (transported by C05): each fault kind
    yields the variant naming it with the offending value; a single undecodable
    record in an otherwise valid control message yields exactly that error
    (together with C15_ctrl_result).  Rendering ([render], the thiserror format
    strings transcribed) is total and non-empty and shows, for the three
    AVP-carrying variants, the name of the kind the dispatch table decodes that
    attribute number to -- the two hand-maintained tables of avp.rs agree for all
    numbers. *)
From Coq Require Import String.
From RL Require Import Model.Decode Model.Render Spec.SpecDecode Proofs.Framing Proofs.Options
  Proofs.RenderFacts Proofs.Errors20.

Theorem C20_fault_version : forall o b, 2 <= len b ->
  fw_version (fld 2 0 b) <> 2 ->
  s_decode (with_version true o) b = Err [InvalidVersion (fw_version (fld 2 0 b))].
Proof.
  intros o b L V. rewrite version_exact by exact L.
  replace (fw_version (fld 2 0 b) =? 2) with false by (symmetry; apply N.eqb_neq; exact V). reflexivity.
Qed.

Theorem C20_fault_unknown_type : forall r, rec_vendor r = 0 -> rec_hidden r = false ->
  shape_of (rec_type r) = None -> s_record r = Err (UnknownAvp (rec_type r)).
Proof. exact fault_unknown_type. Qed.

Theorem C20_fault_vendor : forall r, rec_vendor r <> 0 ->
  s_record r = Err (UnsupportedVendorId (rec_vendor r)).
Proof. exact fault_vendor. Qed.

Theorem C20_fault_unknown_message_type : forall p, 2 <= len p -> mt_of_code (fld 2 0 p) = None ->
  s_payload 0 p = Err (UnknownMessageType (fld 2 0 p)).
Proof. exact fault_unknown_message_type. Qed.

Theorem C20_fault_error_type : forall p, 4 <= len p -> et_of_code (fld 2 2 p) = None ->
  s_payload 1 p = Err (InvalidResultCodeErrorType (fld 2 2 p)).
Proof. exact fault_error_type. Qed.

Theorem C20_fault_truncated : forall t sh p, shape_of t = Some sh -> len p < min_len sh ->
  s_payload t p = Err (IncompleteAVP t).
Proof. exact fault_truncated. Qed.

Theorem C20_fault_utf8 : forall t k p, shape_of t = Some (ShStr k) -> len p <> 0 ->
  utf8_valid p = false -> s_payload t p = Err (InvalidUtf8 t).
Proof. exact fault_utf8. Qed.

Theorem C20_fault_offset : forall b, fw_O (fld 2 0 b) = true ->
  (let w := fld 2 0 b in
   let fixed := 2 + (if fw_L w then 2 else 0) + 4 + (if fw_S w then 4 else 0) + 2 in
   fixed <= len b /\ len b < fixed + fld 2 (fixed - 2) b) ->
  exists n, s_data b = Err (InvalidOffset n) /\
            n = fld 2 (2 + (if fw_L (fld 2 0 b) then 2 else 0) + 4 + (if fw_S (fld 2 0 b) then 4 else 0)) b.
Proof. exact fault_offset. Qed.

Theorem C20_single_fault : forall rs1 bad rs2 e,
  (forall r, In r (rs1 ++ rs2) -> is_err (s_record r) = false) -> s_record bad = Err e ->
  flat_map err_of_record (rs1 ++ bad :: rs2) = [e].
Proof. exact single_fault. Qed.

Theorem C20_render_total : forall e, render e <> EmptyString.
Proof. exact render_nonempty. Qed.

Theorem C20_name_matches_dispatch : forall t, avp_name t = name_of_type t.
Proof. exact name_matches_dispatch. Qed.

Theorem C20_decoded_kind_name : forall t p a, s_payload t p = Ok a -> kind_name a = name_of_type t.
Proof. exact kind_name_decoded. Qed.

Theorem C20_render_shows_name : forall t,
  render (IncompleteAVP t) = ("Incomplete AVP (" ++ name_of_type t ++ ")")%string /\
  render (InvalidUtf8 t) = ("AVP (" ++ name_of_type t ++ ") with invalid UTF-8 string payload")%string /\
  render (AVPReadError t) = ("Read error when parsing AVP (" ++ name_of_type t ++ ")")%string.
Proof. exact render_shows_name. Qed.

Example C20_example : render (IncompleteAVP 12) = "Incomplete AVP (Q931CauseCode)"%string
                   /\ render (InvalidUtf8 20) = "AVP (20) with invalid UTF-8 string payload"%string.
Proof. split; reflexivity. Qed.

Print Assumptions C20_fault_version.
Print Assumptions C20_fault_unknown_type.
Print Assumptions C20_fault_vendor.
Print Assumptions C20_fault_unknown_message_type.
Print Assumptions C20_fault_error_type.
Print Assumptions C20_fault_truncated.
Print Assumptions C20_fault_utf8.
Print Assumptions C20_fault_offset.
Print Assumptions C20_single_fault.
Print Assumptions C20_render_total.
Print Assumptions C20_name_matches_dispatch.
Print Assumptions C20_decoded_kind_name.
Print Assumptions C20_render_shows_name.
