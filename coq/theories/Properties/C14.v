(** C14 -- Validation options only restrict; each checks exactly its bits; the
    default entry point is version checking alone.  Stated on the Spec
    ([s_decode]); transported to the Model by C05 ([m_decode] = [s_decode] on
    every octet string). *)
From RL Require Import Model.Decode Spec.SpecDecode Proofs.Options Proofs.Transport.

Theorem C14_monotone : forall o o' b x, opts_le o o' = true ->
  s_decode o' b = Ok x -> s_decode o b = Ok x.
Proof. exact decode_monotone. Qed.

Theorem C14_reject_monotone : forall o o' b es, opts_le o o' = true ->
  s_decode o b = Err es -> exists es', s_decode o' b = Err es'.
Proof. exact reject_monotone. Qed.

Theorem C14_version_exact : forall o b, 2 <= len b ->
  s_decode (with_version true o) b =
  if fw_version (fld 2 0 b) =? 2 then s_decode (with_version false o) b
  else Err [InvalidVersion (fw_version (fld 2 0 b))].
Proof. exact version_exact. Qed.

Theorem C14_reserved_exact : forall o b, 2 <= len b ->
  (v_version o = false \/ fw_version (fld 2 0 b) = 2) ->
  s_decode (with_reserved true o) b =
  if fw_reserved_clear (fld 2 0 b) then s_decode (with_reserved false o) b
  else Err [InvalidReservedBits].
Proof. exact reserved_exact. Qed.

Theorem C14_unused_exact : forall o b,
  s_ctrl (with_unused true o) b =
  if fw_P (fld 2 0 b) then Err [ForbiddenControlMessagePriority]
  else if fw_O (fld 2 0 b) then Err [ForbiddenControlMessageOffset]
  else s_ctrl (with_unused false o) b.
Proof. exact unused_exact. Qed.

Theorem C14_unused_data_inert : forall o x b, fw_T (fld 2 0 b) = false ->
  s_decode (with_unused x o) b = s_decode o b.
Proof. exact unused_data_inert. Qed.

(** with a check switched off its bits do not affect the result: two flag words
    that agree on everything the options let the decoder look at give the same
    result over the same remainder *)
Theorem C14_bits_inert : forall o w w' rest, w < 65536 -> w' < 65536 -> same_view o w w' ->
  s_decode o (be16 w ++ rest) = s_decode o (be16 w' ++ rest).
Proof. exact bits_inert. Qed.

Theorem C14_default : default_opts = {| v_reserved := false; v_version := true; v_unused := false |}
  /\ forall b, m_try_read b = m_decode default_opts b.
Proof. exact default_is_version_only. Qed.

(** monotonicity on the Model decoder *)
Theorem C14_model_monotone : forall o o' b m rest, bytes_ok b = true -> opts_le o o' = true ->
  m_decode o' b = Val (Ok m, rest) -> m_decode o b = Val (Ok m, rest).
Proof. exact model_monotone. Qed.

(** non-vacuity: reserved bit 13 alone, version 2, control: rejected exactly by the reserved check *)
Example C14_bit13 :
  let b := [51;32;0;12;0;0;0;0;0;0;0;0] in
  is_Ok (s_decode {| v_reserved := false; v_version := true; v_unused := true |} b) = true /\
  s_decode strict_opts b = Err [InvalidReservedBits].
Proof. split; vm_compute; reflexivity. Qed.

Print Assumptions C14_monotone.
Print Assumptions C14_reject_monotone.
Print Assumptions C14_version_exact.
Print Assumptions C14_reserved_exact.
Print Assumptions C14_unused_exact.
Print Assumptions C14_unused_data_inert.
Print Assumptions C14_bits_inert.
Print Assumptions C14_default.
Print Assumptions C14_model_monotone.
