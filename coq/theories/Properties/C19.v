(** C19 -- Purity.  What a Gallina model can carry is near-trivial and says
    nothing about the Rust process: the Model is a function of its arguments, has
    no state between calls and no output channel.  The statements below record
    that over call histories; what DECIDES the property for the code is the
    runtime monitoring of the check (fd 1/2 capture, repetition, shuffling,
    threads).  Level claimed: other. *)
From RL Require Import Base.Md5 Model.Decode Model.Encode Model.Hide.

Inductive call :=
| CDecode (o : opts) (b : list N)
| CAvps (b : list N)
| CEncode (v : message) (p : list N)
| CHide (a : avp) (secret rv lp ap : list N)
| CReveal (a : avp) (secret rv : list N).

Inductive answer :=
| ADecode (r : outcome (mres * list N))
| AAvps (r : outcome (list (dres avp) * list N))
| AEncode (r : outcome (list N))
| AHide (r : outcome avp)
| AReveal (r : outcome (dres avp)).

Definition answer_of (c : call) : answer :=
  match c with
  | CDecode o b => ADecode (m_decode o b)
  | CAvps b => AAvps (m_avps b)
  | CEncode v p => AEncode (m_encode v p)
  | CHide a s rv lp ap => AHide (m_hide md5 a s rv lp ap)
  | CReveal a s rv => AReveal (m_reveal md5 a s rv)
  end.

(** the API as a state machine: the state is [unit], the output is always empty *)
Definition step (s : unit) (c : call) : unit * (answer * list N) := (tt, (answer_of c, [])).

Fixpoint run_history (s : unit) (h : list call) : list (answer * list N) :=
  match h with
  | [] => []
  | c :: t => let '(s', r) := step s c in r :: run_history s' t
  end.

Theorem C19_no_output : forall h, Forall (fun r => snd r = []) (run_history tt h).
Proof. induction h as [|c t IH]; cbn; constructor; [reflexivity|exact IH]. Qed.

Theorem C19_history_independent : forall h1 h2 c,
  nth (length h1) (run_history tt (h1 ++ c :: h2)) (answer_of c, []) = (answer_of c, []).
Proof. induction h1 as [|x t IH]; intros h2 c; cbn; [reflexivity|apply IH]. Qed.

Print Assumptions C19_no_output.
Print Assumptions C19_history_independent.
