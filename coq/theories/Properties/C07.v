(** C07 -- Every emitted length field is exact; oversize values are refused.
    [walk_ok] is an independent walker over the emitted octets: the Length field
    equals the number of octets, and records of the size each AVP header
    announces tile the body exactly. *)
From RL Require Import Model.Encode Model.Hide Spec.SpecEncode Spec.SpecDecode Proofs.RefineEncode Proofs.EncodeFacts Proofs.Hiding.

Theorem C07_lengths_exact : forall v p out, m_encode v p = Val out ->
  exists body, out = p ++ body /\ body = s_encode v /\
               match v with Control m => walk_ok body = true | Data _ => True end.
Proof. exact lengths_exact. Qed.

Theorem C07_avp_length_field : forall a rest, avp_fits a = true ->
  rec_length (s_enc_avp a ++ rest) = len (s_enc_avp a).
Proof. intros a rest F. rewrite rec_length_enc, len_s_enc_avp by exact F. reflexivity. Qed.

Theorem C07_get_length : forall a, arrays_ok a = true -> len (s_enc_avp a) = 6 + m_get_length a.
Proof. exact get_length_exact. Qed.

Theorem C07_oversize_avp : forall a p, 1023 < avp_total a -> m_enc_avp a p = Panic PkAssert.
Proof. exact oversize_avp. Qed.

Theorem C07_oversize_msg : forall m p,
  forallb avp_fits (c_avps m) = false \/ 65535 < ctrl_total m ->
  m_encode (Control m) p = Panic PkAssert.
Proof. exact oversize_msg. Qed.

(** hide() asserts that the original AVP fits before storing its length *)
Theorem C07_hide_asserts : forall (H : list N -> list N), (forall x, len (H x) = 16) -> forall a secret rv lp ap,
  is_hidden a = false -> 1023 < avp_total a -> m_hide H a secret rv lp ap = Panic PkAssert.
Proof. exact hide_oversize. Qed.

Example C07_boundary :
  avp_fits (ABytes HostName (repeat 0 1017)) = true /\ avp_fits (ABytes HostName (repeat 0 1018)) = false.
Proof. split; vm_compute; reflexivity. Qed.

Print Assumptions C07_lengths_exact.
Print Assumptions C07_avp_length_field.
Print Assumptions C07_get_length.
Print Assumptions C07_oversize_avp.
Print Assumptions C07_oversize_msg.
Print Assumptions C07_hide_asserts.
