(** C13 -- Revealing is total: any hidden octets, any secret, any random vector
    (including ill-sized ones) give Ok of the announced attribute type or Err; never
    Panic, never UB (reads stay inside the hidden value).  Rejection classes: empty,
    not a multiple of 16, decrypted length out of range or beyond the value. *)
From RL Require Import Base.Md5 Model.Decode Model.Hide Spec.SpecDecode Spec.SpecHide
  Proofs.Hiding Proofs.Md5Facts.

Theorem C13_reveal_total : forall (H : list N -> list N), (forall x, len (H x) = 16) ->
  forall t v secret rv,
  exists r, m_reveal H (AHidden t v) secret rv = Val r /\
            (forall a, r = Ok a -> attr_type a = t /\ is_hidden a = false).
Proof. exact reveal_total. Qed.

Theorem C13_rejects : forall (H : list N -> list N), (forall x, len (H x) = 16) -> forall t v secret rv,
  (len v = 0 \/ len v mod 16 <> 0 \/
   fld 2 0 (s_decrypt H t secret rv v) < 6 \/ 1023 < fld 2 0 (s_decrypt H t secret rv v) \/
   len (s_decrypt H t secret rv v) - 2 < fld 2 0 (s_decrypt H t secret rv v) - 6) ->
  exists e, s_reveal H t v secret rv = Err e.
Proof. exact reveal_rejects. Qed.

(** the complete classification: the four classes are exhaustive and exclusive, each with its
    exact error value (the reported length is the decrypted field itself) or, in the accepting
    class, exactly the announced octets handed to the format of the attribute type *)
Theorem C13_reveal_classes : forall (H : list N -> list N), (forall x, len (H x) = 16) ->
  forall t v secret rv,
  let p := s_decrypt H t secret rv v in
  let L := fld 2 0 p in
  (len v = 0 -> s_reveal H t v secret rv = Err EmptyHiddenAVP) /\
  (len v <> 0 -> len v mod 16 <> 0 -> s_reveal H t v secret rv = Err MisalignedHiddenAVP) /\
  (len v <> 0 -> len v mod 16 = 0 -> (L < 6 \/ 1023 < L \/ len p - 2 < L - 6) ->
     s_reveal H t v secret rv = Err (InvalidOriginalAVPLength L)) /\
  (len v <> 0 -> len v mod 16 = 0 -> 6 <= L -> L <= 1023 -> L - 6 <= len p - 2 ->
     s_reveal H t v secret rv = s_payload t (octs (L - 6) 2 p)).
Proof. exact reveal_cases. Qed.

Theorem C13_reveal_total_md5 : forall t v secret rv,
  exists r, m_reveal md5 (AHidden t v) secret rv = Val r /\
            (forall a, r = Ok a -> attr_type a = t /\ is_hidden a = false).
Proof. exact (reveal_total md5 md5_len). Qed.

(** the classification for the hash the crate uses, stated on the Model's reveal: every input lands in
    exactly one class and the Model returns that class's value *)
Theorem C13_reveal_classes_md5 : forall t v secret rv,
  let p := s_decrypt md5 t secret rv v in
  let L := fld 2 0 p in
  (len v = 0 -> m_reveal md5 (AHidden t v) secret rv = Val (Err EmptyHiddenAVP)) /\
  (len v <> 0 -> len v mod 16 <> 0 -> m_reveal md5 (AHidden t v) secret rv = Val (Err MisalignedHiddenAVP)) /\
  (len v <> 0 -> len v mod 16 = 0 -> (L < 6 \/ 1023 < L \/ len p - 2 < L - 6) ->
     m_reveal md5 (AHidden t v) secret rv = Val (Err (InvalidOriginalAVPLength L))) /\
  (len v <> 0 -> len v mod 16 = 0 -> 6 <= L -> L <= 1023 -> L - 6 <= len p - 2 ->
     m_reveal md5 (AHidden t v) secret rv = Val (s_payload t (octs (L - 6) 2 p))).
Proof.
  intros t v secret rv. cbv zeta. rewrite (reveal_refines md5 md5_len).
  destruct (reveal_cases md5 md5_len t v secret rv) as [A [B [C D]]].
  repeat split; intros; f_equal; auto.
Qed.

(** the D7 class of the pinned tree: 16 zero octets under a wrong key return, they do not panic *)
Example C13_D7 : exists r, m_reveal md5 (AHidden 7 (repeat 0 16)) [115] [0;0;0;37] = Val r.
Proof. eexists. vm_compute. reflexivity. Qed.

Print Assumptions C13_reveal_total.
Print Assumptions C13_rejects.
Print Assumptions C13_reveal_classes.
Print Assumptions C13_reveal_total_md5.
Print Assumptions C13_reveal_classes_md5.
