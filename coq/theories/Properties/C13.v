(** C13 -- placeholder while the proofs are built *)
From RL Require Import Model.Decode.
Theorem C13_placeholder : m_decode strict_opts [] = Val (Err [IncompleteFlags], []).
Proof. reflexivity. Qed.
Print Assumptions C13_placeholder.
