(** C08 -- Decoding consumes exactly the declared length; octets beyond it have
    no influence; AVP records are decoded only from their own octets.  Stated on
    the Spec and transported to the Model by C05.  (The back-to-back sequence
    statement is C08_sequence in Properties/C03.v's round-trip development once
    messages are produced by the encoder; here it is stated for arbitrary accepted
    inputs.) *)
From RL Require Import Model.Decode Spec.SpecDecode Spec.SpecEncode Proofs.Framing Proofs.Sequence Proofs.Transport.

(** the declared length fits: control (12 <= Length <= |b|) or data carrying L *)
Theorem C08_suffix : forall o b s, 2 <= len b ->
  (if fw_T (fld 2 0 b) then ctrl_declared_ok b else data_declared_ok b) ->
  s_decode o (b ++ s) = add_rest s (s_decode o b).
Proof. exact decode_suffix. Qed.

(** ... which is the case for every accepted control message and every accepted
    data message with a length field *)
Theorem C08_accepted_have_declared_length : forall o b x, s_decode o b = Ok x ->
  2 <= len b /\ (fw_T (fld 2 0 b) = true -> ctrl_declared_ok b) /\
  (fw_T (fld 2 0 b) = false -> fw_L (fld 2 0 b) = true -> data_declared_ok b).
Proof. exact accepted_declared_ok. Qed.

Corollary C08_accepted_suffix : forall o b s m rest,
  s_decode o b = Ok (m, rest) ->
  (fw_T (fld 2 0 b) = true \/ fw_L (fld 2 0 b) = true) ->
  s_decode o (b ++ s) = Ok (m, rest ++ s).
Proof.
  intros o b s m rest H TL.
  destruct (accepted_declared_ok o b _ H) as (H2 & HC & HD).
  rewrite decode_suffix; [rewrite H; reflexivity | exact H2 |].
  destruct (fw_T (fld 2 0 b)) eqn:T; [apply HC; reflexivity|].
  apply HD; [reflexivity|]. destruct TL as [X|X]; [discriminate|exact X].
Qed.

(** exactly the declared octets are consumed *)
Theorem C08_ctrl_consumes_declared : forall o b m rest,
  s_ctrl o b = Ok (m, rest) -> rest = dropN (fld 2 2 b) b.
Proof.
  intros o b m rest. unfold s_ctrl.
  repeat match goal with |- (if ?c then _ else _) = _ -> _ => destruct c; try discriminate end.
  intros H; inversion H; reflexivity.
Qed.

Theorem C08_avps_concat : forall rs, forallb well_delimited rs = true ->
  fst (s_avps (concat rs)) = concat (map (fun r => fst (s_avps r)) rs).
Proof. exact avps_concat_is_concat. Qed.

Theorem C08_avps_records : forall rs, forallb well_delimited rs = true ->
  s_avps (concat rs) = (map s_record rs, []).
Proof. exact avps_concat. Qed.

(** messages packed back to back decode one after another *)
Theorem C08_back_to_back : forall v rest, framed v = true ->
  s_decode strict_opts (s_encode v ++ rest) = Ok (canon v, rest).
Proof. exact back_to_back. Qed.

Theorem C08_sequence : forall vs, forallb framed vs = true ->
  map (fun r => match r with Ok (m, _) => Some m | Err _ => None end)
      (s_decode_seq (S (length vs)) strict_opts (concat (map s_encode vs)))
  = map (fun v => Some (canon v)) vs.
Proof. exact sequence_decodes. Qed.

(** the same on the Model decoder *)
Theorem C08_model_suffix : forall o b s m rest, bytes_ok b = true -> bytes_ok s = true ->
  m_decode o b = Val (Ok m, rest) ->
  (fw_T (fld 2 0 b) = true \/ fw_L (fld 2 0 b) = true) ->
  m_decode o (b ++ s) = Val (Ok m, rest ++ s).
Proof. exact model_suffix. Qed.
Theorem C08_model_back_to_back : forall v rest, framed v = true -> bytes_ok (s_encode v ++ rest) = true ->
  m_decode strict_opts (s_encode v ++ rest) = Val (Ok (canon v), rest).
Proof. exact model_back_to_back. Qed.

Example C08_example :
  s_decode strict_opts ([19;32;0;20; 0;1;0;2;0;3;0;4; 1;8;0;0;0;0;0;6] ++ [7;7;7]) =
  add_rest [7;7;7] (s_decode strict_opts [19;32;0;20; 0;1;0;2;0;3;0;4; 1;8;0;0;0;0;0;6]).
Proof. vm_compute. reflexivity. Qed.

Print Assumptions C08_suffix.
Print Assumptions C08_accepted_have_declared_length.
Print Assumptions C08_accepted_suffix.
Print Assumptions C08_ctrl_consumes_declared.
Print Assumptions C08_avps_concat.
Print Assumptions C08_avps_records.
Print Assumptions C08_back_to_back.
Print Assumptions C08_sequence.
Print Assumptions C08_model_suffix.
Print Assumptions C08_model_back_to_back.
