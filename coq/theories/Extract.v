(** Extraction of the executable Model to OCaml.  ExtrOcamlBasic only: its
    directives map bool/option/unit/list/prod/sumbool/sumor to the OCaml
    natives.  No Extract Constant; N / positive / nat stay inductive. *)
Require Extraction.
Require Import ExtrOcamlBasic.
From RL Require Import Base.Md5 Model.Decode Model.Cost Model.Encode Model.Hide Model.Ops Model.Render Model.Show.
Extraction Language OCaml.
Extraction "model.ml"
  m_decode m_avps m_decode_avp m_encode m_enc_avp m_get_length m_encode_w m_enc_avp_w
  m_encode_all_w writer_of m_hide m_reveal md5 run_rops run_wops
  bm_new acc_first acc_second bm_k32 render avp_name kind_name
  sc_of_code cd_of_code mt_of_code et_of_code pa_of_code mt_code et_code pa_code
  sc_code cd_code decode_avp run utf8_valid
  default_opts strict_opts len m_decode_cost m_avps_cost
  ch_dec ch_avps ch_dec_lim ch_avps_lim ch_dec_seam ch_avps_seam ch_type ch_enc ch_enca ch_hide ch_reveal ch_md5 show_avp show_msg show_err show_mres show_avpres show_dres
  N.of_nat N.to_nat N.add N.mul N.div_eucl N.eqb N.ltb.
