(** Values shared by Model and Spec: decode errors, enumerations, AVPs,
    messages, validation options.  Constructor names are the Rust variant
    names (the executors print them by name). *)
From RL Require Export Base.Bytes.

Inductive derr :=
| IncompleteAVP (t : N)
| UnknownMessageType (x : N)
| InvalidUtf8 (t : N)
| InvalidResultCodeErrorType (x : N)
| AVPReadError (t : N)
| InvalidAVPLength (x : N)
| UnknownAvp (x : N)
| EmptyHiddenAVP
| MisalignedHiddenAVP
| InvalidOriginalAVPLength (x : N)
| UnsupportedVendorId (x : N)
| InvalidVersion (x : N)
| InvalidReservedBits
| IncompleteFlags
| InvalidOffset (x : N)
| IncompleteDataMessageHeader
| IncompleteDataMessagePayload
| EmptyDataMessagePayload
| MessageReadError
| ForbiddenControlMessagePriority
| ForbiddenControlMessageOffset
| ControlMessageWithoutLength
| ControlMessageWithoutNsNr
| IncompleteControlMessageHeader
| IncompleteControlMessagePayload
| ControlMessageTypeNotFirst.

Inductive msg_type :=
| StartControlConnectionRequest | StartControlConnectionReply
| StartControlConnectionConnected | StopControlConnectionNotification
| Hello | OutgoingCallRequest | OutgoingCallReply | OutgoingCallConnected
| IncomingCallRequest | IncomingCallReply | IncomingCallConnected
| CallDisconnectNotify | WanErrorNotify | SetLinkInfo.

Inductive err_type :=
| EtOk | NoControlConnectionExists | WrongLength | OutOfRangeOrBadReserved
| InsufficientResources | InvalidSessionId | Generic | TryAnotherDestination
| UnknownMandatoryAvp.

Inductive pa_type :=
| PaReserved | TextualUserNamePasswordExchange | PppChap | PppPap
| NoAuthentication | MicrosoftChapVersion1.

Inductive stop_ccn_code :=
| ScReserved | GeneralRequestToClearControlConnection | GeneralError
| ControlChannelAlreadyExists | RequesterNotAuthorizedToEstablishControlChannel
| RequesterProtocolVersionUnsupported | RequesterShutdown | FsmError.

Inductive cdn_code :=
| CdReserved | CallDisconnectedLossOfCarrier | CallDisconnectedWithErrorCode
| CallDisconnectedAdministrative | CallFailedTemporarilyUnavailable
| CallFailedPermanentlyUnavailable | InvalidDestination | CallFailedNoCarrier
| CallFailedBusySignal | CallFailedNoDialTone | CallEstablishTimeout
| CallNoFramingDetected.

(** AVP kinds grouped by payload shape *)
Inductive k16 := FirmwareRevision | AssignedTunnelId | ReceiveWindowSize | AssignedSessionId.
Inductive k32 :=
| FramingCapabilities | BearerCapabilities | CallSerialNumber | MinimumBps
| MaximumBps | BearerType | FramingType | TxConnectSpeed | RxConnectSpeed.
Inductive kbytes :=
| HostName | Challenge | InitialReceivedLcpConfReq | LastSentLcpConfReq
| LastReceivedLcpConfReq | ProxyAuthenName | ProxyAuthenChallenge
| ProxyAuthenResponse | PrivateGroupId.
Inductive kstr := VendorName | CalledNumber | CallingNumber | SubAddress.
Inductive kfix := RandomVector | ChallengeResponse | PhysicalChannelId.

Inductive avp :=
| AMessageType (t : msg_type)
| AResultCode (code : N) (err : option (err_type * option (list N)))
| AProtocolVersion (ver rev : N)
| A32 (k : k32) (v : N)
| ATieBreaker (v : N)
| A16 (k : k16) (v : N)
| ABytes (k : kbytes) (v : list N)
| AStr (k : kstr) (v : list N)          (* UTF-8 octets of the String *)
| AFix (k : kfix) (v : list N)          (* fixed-size octet arrays *)
| AQ931CauseCode (cc cm : N) (adv : option (list N))
| AProxyAuthenType (t : pa_type)
| AProxyAuthenId (v : N)
| ACallErrors (crc fr hw buf tmo al : N)
| AAccm (snd rcv : list N)
| ASequencingRequired
| AHidden (t : N) (v : list N).

Record ctrl_msg := {
  c_length : N; c_tunnel : N; c_session : N; c_ns : N; c_nr : N;
  c_avps : list avp }.

Record data_msg := {
  d_prio : bool; d_length : option N; d_tunnel : N; d_session : N;
  d_nsnr : option (N * N); d_offset : option N; d_data : list N }.

Inductive message := Control (m : ctrl_msg) | Data (d : data_msg).

Record opts := { v_reserved : bool; v_version : bool; v_unused : bool }.
Definition default_opts := {| v_reserved := false; v_version := true; v_unused := false |}.
Definition strict_opts := {| v_reserved := true; v_version := true; v_unused := true |}.

Definition dres (A : Type) := result derr A.
Definition mres := result (list derr) message.

(** results of a list of AVP records *)
Definition is_err {A} (r : dres A) : bool := match r with Err _ => true | Ok _ => false end.
Fixpoint errs_of {A} (l : list (dres A)) : list derr :=
  match l with
  | [] => []
  | Err e :: t => e :: errs_of t
  | Ok _ :: t => errs_of t
  end.
Fixpoint oks_of {A} (l : list (dres A)) : list A :=
  match l with
  | [] => []
  | Ok a :: t => a :: oks_of t
  | Err _ :: t => oks_of t
  end.

(** enumeration code tables *)
Definition mt_code (t : msg_type) : N :=
  match t with
  | StartControlConnectionRequest => 1 | StartControlConnectionReply => 2
  | StartControlConnectionConnected => 3 | StopControlConnectionNotification => 4
  | Hello => 6 | OutgoingCallRequest => 7 | OutgoingCallReply => 8
  | OutgoingCallConnected => 9 | IncomingCallRequest => 10 | IncomingCallReply => 11
  | IncomingCallConnected => 12 | CallDisconnectNotify => 14 | WanErrorNotify => 15
  | SetLinkInfo => 16
  end.
Definition mt_of_code (x : N) : option msg_type :=
  match x with
  | 1 => Some StartControlConnectionRequest | 2 => Some StartControlConnectionReply
  | 3 => Some StartControlConnectionConnected | 4 => Some StopControlConnectionNotification
  | 6 => Some Hello | 7 => Some OutgoingCallRequest | 8 => Some OutgoingCallReply
  | 9 => Some OutgoingCallConnected | 10 => Some IncomingCallRequest
  | 11 => Some IncomingCallReply | 12 => Some IncomingCallConnected
  | 14 => Some CallDisconnectNotify | 15 => Some WanErrorNotify | 16 => Some SetLinkInfo
  | _ => None
  end.

Definition et_code (t : err_type) : N :=
  match t with
  | EtOk => 0 | NoControlConnectionExists => 1 | WrongLength => 2
  | OutOfRangeOrBadReserved => 3 | InsufficientResources => 4 | InvalidSessionId => 5
  | Generic => 6 | TryAnotherDestination => 7 | UnknownMandatoryAvp => 8
  end.
Definition et_of_code (x : N) : option err_type :=
  match x with
  | 0 => Some EtOk | 1 => Some NoControlConnectionExists | 2 => Some WrongLength
  | 3 => Some OutOfRangeOrBadReserved | 4 => Some InsufficientResources
  | 5 => Some InvalidSessionId | 6 => Some Generic | 7 => Some TryAnotherDestination
  | 8 => Some UnknownMandatoryAvp | _ => None
  end.

Definition pa_code (t : pa_type) : N :=
  match t with
  | PaReserved => 0 | TextualUserNamePasswordExchange => 1 | PppChap => 2
  | PppPap => 3 | NoAuthentication => 4 | MicrosoftChapVersion1 => 5
  end.
Definition pa_of_code (x : N) : option pa_type :=
  match x with
  | 0 => Some PaReserved | 1 => Some TextualUserNamePasswordExchange
  | 2 => Some PppChap | 3 => Some PppPap | 4 => Some NoAuthentication
  | 5 => Some MicrosoftChapVersion1 | _ => None
  end.

Definition sc_code (t : stop_ccn_code) : N :=
  match t with
  | ScReserved => 0 | GeneralRequestToClearControlConnection => 1 | GeneralError => 2
  | ControlChannelAlreadyExists => 3
  | RequesterNotAuthorizedToEstablishControlChannel => 4
  | RequesterProtocolVersionUnsupported => 5 | RequesterShutdown => 6 | FsmError => 7
  end.
Definition sc_of_code (x : N) : option stop_ccn_code :=
  match x with
  | 0 => Some ScReserved | 1 => Some GeneralRequestToClearControlConnection
  | 2 => Some GeneralError | 3 => Some ControlChannelAlreadyExists
  | 4 => Some RequesterNotAuthorizedToEstablishControlChannel
  | 5 => Some RequesterProtocolVersionUnsupported | 6 => Some RequesterShutdown
  | 7 => Some FsmError | _ => None
  end.

Definition cd_code (t : cdn_code) : N :=
  match t with
  | CdReserved => 0 | CallDisconnectedLossOfCarrier => 1
  | CallDisconnectedWithErrorCode => 2 | CallDisconnectedAdministrative => 3
  | CallFailedTemporarilyUnavailable => 4 | CallFailedPermanentlyUnavailable => 5
  | InvalidDestination => 6 | CallFailedNoCarrier => 7 | CallFailedBusySignal => 8
  | CallFailedNoDialTone => 9 | CallEstablishTimeout => 10 | CallNoFramingDetected => 11
  end.
Definition cd_of_code (x : N) : option cdn_code :=
  match x with
  | 0 => Some CdReserved | 1 => Some CallDisconnectedLossOfCarrier
  | 2 => Some CallDisconnectedWithErrorCode | 3 => Some CallDisconnectedAdministrative
  | 4 => Some CallFailedTemporarilyUnavailable
  | 5 => Some CallFailedPermanentlyUnavailable | 6 => Some InvalidDestination
  | 7 => Some CallFailedNoCarrier | 8 => Some CallFailedBusySignal
  | 9 => Some CallFailedNoDialTone | 10 => Some CallEstablishTimeout
  | 11 => Some CallNoFramingDetected | _ => None
  end.

(** attribute type numbers: each Rust type's ATTRIBUTE_TYPE constant *)
Definition k16_type (k : k16) : N :=
  match k with
  | FirmwareRevision => 6 | AssignedTunnelId => 9 | ReceiveWindowSize => 10
  | AssignedSessionId => 14
  end.
Definition k32_type (k : k32) : N :=
  match k with
  | FramingCapabilities => 3 | BearerCapabilities => 4 | CallSerialNumber => 15
  | MinimumBps => 16 | MaximumBps => 17 | BearerType => 18 | FramingType => 19
  | TxConnectSpeed => 24 | RxConnectSpeed => 38
  end.
Definition kbytes_type (k : kbytes) : N :=
  match k with
  | HostName => 7 | Challenge => 11 | InitialReceivedLcpConfReq => 26
  | LastSentLcpConfReq => 27 | LastReceivedLcpConfReq => 28 | ProxyAuthenName => 30
  | ProxyAuthenChallenge => 31 | ProxyAuthenResponse => 33 | PrivateGroupId => 37
  end.
Definition kstr_type (k : kstr) : N :=
  match k with
  | VendorName => 8 | CalledNumber => 21 | CallingNumber => 22 | SubAddress => 23
  end.
Definition kfix_type (k : kfix) : N :=
  match k with RandomVector => 36 | ChallengeResponse => 13 | PhysicalChannelId => 25 end.
Definition kfix_len (k : kfix) : N :=
  match k with RandomVector => 4 | ChallengeResponse => 16 | PhysicalChannelId => 4 end.

Definition attr_type (a : avp) : N :=
  match a with
  | AMessageType _ => 0 | AResultCode _ _ => 1 | AProtocolVersion _ _ => 2
  | A32 k _ => k32_type k | ATieBreaker _ => 5 | A16 k _ => k16_type k
  | ABytes k _ => kbytes_type k | AStr k _ => kstr_type k | AFix k _ => kfix_type k
  | AQ931CauseCode _ _ _ => 12 | AProxyAuthenType _ => 29 | AProxyAuthenId _ => 32
  | ACallErrors _ _ _ _ _ _ => 34 | AAccm _ _ => 35 | ASequencingRequired => 39
  | AHidden t _ => t
  end.

Definition is_hidden (a : avp) : bool :=
  match a with AHidden _ _ => true | _ => false end.
Definition is_msgtype (a : avp) : bool :=
  match a with AMessageType _ => true | _ => false end.
