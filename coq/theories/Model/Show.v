(** Canonical text of model values and results (the neutral syntax shared with the Rust
    executor), written in Gallina so that the extracted executor and evaluation inside the
    kernel ([vm_compute]) print through the same definitions.  Definitions only. *)
From Coq Require Import String Ascii.
From RL Require Export Model.Render Model.Decode.
Open Scope string_scope.

Definition hexdigit (x : N) : ascii :=
  match x with
  | 0 => "0" | 1 => "1" | 2 => "2" | 3 => "3" | 4 => "4" | 5 => "5" | 6 => "6" | 7 => "7"
  | 8 => "8" | 9 => "9" | 10 => "a" | 11 => "b" | 12 => "c" | 13 => "d" | 14 => "e" | _ => "f"
  end%N%char.
Fixpoint hex (l : list N) : string :=
  match l with
  | [] => ""
  | b :: t => String (hexdigit (b / 16)) (String (hexdigit (b mod 16)) (hex t))
  end.

Fixpoint sep_by (d : string) (l : list string) : string :=
  match l with
  | [] => ""
  | [x] => x
  | x :: t => x ++ d ++ sep_by d t
  end.

Definition mt_name (t : msg_type) : string :=
  match t with
  | StartControlConnectionRequest => "StartControlConnectionRequest"
  | StartControlConnectionReply => "StartControlConnectionReply"
  | StartControlConnectionConnected => "StartControlConnectionConnected"
  | StopControlConnectionNotification => "StopControlConnectionNotification"
  | Hello => "Hello" | OutgoingCallRequest => "OutgoingCallRequest"
  | OutgoingCallReply => "OutgoingCallReply" | OutgoingCallConnected => "OutgoingCallConnected"
  | IncomingCallRequest => "IncomingCallRequest" | IncomingCallReply => "IncomingCallReply"
  | IncomingCallConnected => "IncomingCallConnected" | CallDisconnectNotify => "CallDisconnectNotify"
  | WanErrorNotify => "WanErrorNotify" | SetLinkInfo => "SetLinkInfo"
  end.
Definition et_name (t : err_type) : string :=
  match t with
  | EtOk => "Ok" | NoControlConnectionExists => "NoControlConnectionExists"
  | WrongLength => "WrongLength" | OutOfRangeOrBadReserved => "OutOfRangeOrBadReserved"
  | InsufficientResources => "InsufficientResources" | InvalidSessionId => "InvalidSessionId"
  | Generic => "Generic" | TryAnotherDestination => "TryAnotherDestination"
  | UnknownMandatoryAvp => "UnknownMandatoryAvp"
  end.
Definition pa_name (t : pa_type) : string :=
  match t with
  | PaReserved => "Reserved" | TextualUserNamePasswordExchange => "TextualUserNamePasswordExchange"
  | PppChap => "PppChap" | PppPap => "PppPap" | NoAuthentication => "NoAuthentication"
  | MicrosoftChapVersion1 => "MicrosoftChapVersion1"
  end.
Definition sc_name (t : stop_ccn_code) : string :=
  match t with
  | ScReserved => "Reserved"
  | GeneralRequestToClearControlConnection => "GeneralRequestToClearControlConnection"
  | GeneralError => "GeneralError" | ControlChannelAlreadyExists => "ControlChannelAlreadyExists"
  | RequesterNotAuthorizedToEstablishControlChannel => "RequesterNotAuthorizedToEstablishControlChannel"
  | RequesterProtocolVersionUnsupported => "RequesterProtocolVersionUnsupported"
  | RequesterShutdown => "RequesterShutdown" | FsmError => "FsmError"
  end.
Definition cd_name (t : cdn_code) : string :=
  match t with
  | CdReserved => "Reserved" | CallDisconnectedLossOfCarrier => "CallDisconnectedLossOfCarrier"
  | CallDisconnectedWithErrorCode => "CallDisconnectedWithErrorCode"
  | CallDisconnectedAdministrative => "CallDisconnectedAdministrative"
  | CallFailedTemporarilyUnavailable => "CallFailedTemporarilyUnavailable"
  | CallFailedPermanentlyUnavailable => "CallFailedPermanentlyUnavailable"
  | InvalidDestination => "InvalidDestination" | CallFailedNoCarrier => "CallFailedNoCarrier"
  | CallFailedBusySignal => "CallFailedBusySignal" | CallFailedNoDialTone => "CallFailedNoDialTone"
  | CallEstablishTimeout => "CallEstablishTimeout" | CallNoFramingDetected => "CallNoFramingDetected"
  end.
Definition k16_name (k : k16) : string :=
  match k with
  | FirmwareRevision => "FirmwareRevision" | AssignedTunnelId => "AssignedTunnelId"
  | ReceiveWindowSize => "ReceiveWindowSize" | AssignedSessionId => "AssignedSessionId"
  end.
Definition k32_name (k : k32) : string :=
  match k with
  | FramingCapabilities => "FramingCapabilities" | BearerCapabilities => "BearerCapabilities"
  | CallSerialNumber => "CallSerialNumber" | MinimumBps => "MinimumBps" | MaximumBps => "MaximumBps"
  | BearerType => "BearerType" | FramingType => "FramingType" | TxConnectSpeed => "TxConnectSpeed"
  | RxConnectSpeed => "RxConnectSpeed"
  end.
Definition kbytes_name (k : kbytes) : string :=
  match k with
  | HostName => "HostName" | Challenge => "Challenge"
  | InitialReceivedLcpConfReq => "InitialReceivedLcpConfReq" | LastSentLcpConfReq => "LastSentLcpConfReq"
  | LastReceivedLcpConfReq => "LastReceivedLcpConfReq" | ProxyAuthenName => "ProxyAuthenName"
  | ProxyAuthenChallenge => "ProxyAuthenChallenge" | ProxyAuthenResponse => "ProxyAuthenResponse"
  | PrivateGroupId => "PrivateGroupId"
  end.
Definition kstr_name (k : kstr) : string :=
  match k with
  | VendorName => "VendorName" | CalledNumber => "CalledNumber" | CallingNumber => "CallingNumber"
  | SubAddress => "SubAddress"
  end.
Definition kfix_name (k : kfix) : string :=
  match k with
  | RandomVector => "RandomVector" | ChallengeResponse => "ChallengeResponse"
  | PhysicalChannelId => "PhysicalChannelId"
  end.

Definition show_opt_hex (o : option (list N)) : string :=
  match o with None => "-" | Some b => "x" ++ hex b end.

Definition show_avp (a : avp) : string :=
  match a with
  | AMessageType t => "MessageType(" ++ mt_name t ++ ")"
  | AResultCode c None => "ResultCode(" ++ dec c ++ ",-)"
  | AResultCode c (Some (et, m)) =>
    "ResultCode(" ++ dec c ++ "," ++ et_name et ++ "," ++ show_opt_hex m ++ ")"
  | AProtocolVersion v r => "ProtocolVersion(" ++ dec v ++ "," ++ dec r ++ ")"
  | A32 k v => k32_name k ++ "(" ++ dec v ++ ")"
  | ATieBreaker v => "TieBreaker(" ++ dec v ++ ")"
  | A16 k v => k16_name k ++ "(" ++ dec v ++ ")"
  | ABytes k v => kbytes_name k ++ "(" ++ hex v ++ ")"
  | AStr k v => kstr_name k ++ "(" ++ hex v ++ ")"
  | AFix k v => kfix_name k ++ "(" ++ hex v ++ ")"
  | AQ931CauseCode cc cm adv =>
    "Q931CauseCode(" ++ dec cc ++ "," ++ dec cm ++ "," ++ show_opt_hex adv ++ ")"
  | AProxyAuthenType t => "ProxyAuthenType(" ++ pa_name t ++ ")"
  | AProxyAuthenId v => "ProxyAuthenId(" ++ dec v ++ ")"
  | ACallErrors a b c d e f => "CallErrors(" ++ sep_by "," (map dec [a; b; c; d; e; f]) ++ ")"
  | AAccm s r => "Accm(" ++ hex s ++ "," ++ hex r ++ ")"
  | ASequencingRequired => "SequencingRequired()"
  | AHidden t v => "Hidden(" ++ dec t ++ "," ++ hex v ++ ")"
  end.

Definition show_err (e : derr) : string :=
  let p (n : string) (x : N) := n ++ "(" ++ dec x ++ ")" in
  match e with
  | IncompleteAVP t => p "IncompleteAVP" t
  | UnknownMessageType x => p "UnknownMessageType" x
  | InvalidUtf8 t => p "InvalidUtf8" t
  | InvalidResultCodeErrorType x => p "InvalidResultCodeErrorType" x
  | AVPReadError t => p "AVPReadError" t
  | InvalidAVPLength x => p "InvalidAVPLength" x
  | UnknownAvp x => p "UnknownAvp" x
  | EmptyHiddenAVP => "EmptyHiddenAVP"
  | MisalignedHiddenAVP => "MisalignedHiddenAVP"
  | InvalidOriginalAVPLength x => p "InvalidOriginalAVPLength" x
  | UnsupportedVendorId x => p "UnsupportedVendorId" x
  | InvalidVersion x => p "InvalidVersion" x
  | InvalidReservedBits => "InvalidReservedBits"
  | IncompleteFlags => "IncompleteFlags"
  | InvalidOffset x => p "InvalidOffset" x
  | IncompleteDataMessageHeader => "IncompleteDataMessageHeader"
  | IncompleteDataMessagePayload => "IncompleteDataMessagePayload"
  | EmptyDataMessagePayload => "EmptyDataMessagePayload"
  | MessageReadError => "MessageReadError"
  | ForbiddenControlMessagePriority => "ForbiddenControlMessagePriority"
  | ForbiddenControlMessageOffset => "ForbiddenControlMessageOffset"
  | ControlMessageWithoutLength => "ControlMessageWithoutLength"
  | ControlMessageWithoutNsNr => "ControlMessageWithoutNsNr"
  | IncompleteControlMessageHeader => "IncompleteControlMessageHeader"
  | IncompleteControlMessagePayload => "IncompleteControlMessagePayload"
  | ControlMessageTypeNotFirst => "ControlMessageTypeNotFirst"
  end.

Definition show_avps (l : list avp) : string := "[" ++ sep_by ";" (map show_avp l) ++ "]".

Definition show_msg (m : message) : string :=
  match m with
  | Control c =>
    "C(" ++ sep_by "," [dec (c_length c); dec (c_tunnel c); dec (c_session c); dec (c_ns c);
                        dec (c_nr c); show_avps (c_avps c)] ++ ")"
  | Data x =>
    "D(" ++ sep_by "," [
      (if d_prio x then "1" else "0");
      (match d_length x with None => "-" | Some l => dec l end);
      dec (d_tunnel x); dec (d_session x);
      (match d_nsnr x with None => "-" | Some (a, b) => dec a ++ ":" ++ dec b end);
      (match d_offset x with None => "-" | Some o => dec o end);
      hex (d_data x)] ++ ")"
  end.

Definition show_outcome {A} (f : A -> string) (o : outcome A) : string :=
  match o with
  | Val a => f a
  | Panic _ => "PANIC"
  | UB => "UB"
  | OutOfFuel => "NOFUEL"
  end.

Definition show_errs (es : list derr) : string := "[" ++ sep_by "," (map show_err es) ++ "]".
Definition show_mres (x : mres * list N) : string :=
  match fst x with
  | Ok m => "Ok " ++ show_msg m ++ " rem=" ++ dec (len (snd x))
  | Err es => "Err " ++ show_errs es
  end.
Definition show_dres {A} (f : A -> string) (r : dres A) : string :=
  match r with Ok a => "Ok(" ++ f a ++ ")" | Err e => "Err(" ++ show_err e ++ ")" end.
Definition show_avpres (x : list (dres avp) * list N) : string :=
  "[" ++ sep_by ";" (map (show_dres show_avp) (fst x)) ++ "] rem=" ++ dec (len (snd x)).
Definition show_typeres (x : dres avp * list N) : string :=
  show_dres show_avp (fst x) ++ " rem=" ++ dec (len (snd x)).
Definition show_bytes_ok (b : list N) : string := "Ok " ++ hex b.

(** the decode channels, as the executors run them *)
Definition ch_dec (o : opts) (b : list N) : string := show_outcome show_mres (m_decode o b).
Definition ch_avps (b : list N) : string := show_outcome show_avpres (m_avps b).

(** A reader that hands out at most [k] octets at a time: [bytes(n)] answers [None] for n > k although enough octets
    remain (the trait lets an implementation refuse -- a ring buffer across its wrap-around, a chunked source); every other
    operation is the list reader's.  The decoders' [ok_or(..ReadError)] arms are reachable only through such a reader. *)
Definition LimitReader (k : N) : ReaderImpl := {|
  R := list N;
  r_len := fun l => len l;
  r_is_empty := fun l => match l with [] => true | _ => false end;
  r_u8 := lr_read 1; r_u16 := lr_read 2; r_u32 := lr_read 4; r_u64 := lr_read 8;
  r_bytes := fun n l =>
    if andb (N.leb n k) (N.leb n (len l)) then Val (Some (takeN n l), dropN n l) else Val (None, l);
  r_skip := fun n l => if N.leb n (len l) then Val (dropN n l) else Panic PkIndex;
  r_sub := fun n l => if N.leb n (len l) then Val (takeN n l, dropN n l) else Panic PkIndex
|}.
(** A reader whose storage has a seam (a ring buffer across its wrap-around, a scatter/gather source): a [bytes(n)] request
    that would straddle the seam is refused although the octets are there; the state is the unread octets and the distance
    to the seam, if it is still ahead. *)
Definition seam_adv (n : N) (st : list N * option N) : list N * option N :=
  (dropN n (fst st), match snd st with Some x => if N.ltb n x then Some (N.sub x n) else None | None => None end).
Definition seam_read (k : nat) (st : list N * option N) : outcome (N * (list N * option N)) :=
  obind (lr_read k (fst st)) (fun '(x, _) => Val (x, seam_adv (N.of_nat k) st)).
Definition SeamReader : ReaderImpl := {|
  R := (list N * option N)%type;
  r_len := fun st => len (fst st);
  r_is_empty := fun st => match fst st with [] => true | _ => false end;
  r_u8 := seam_read 1; r_u16 := seam_read 2; r_u32 := seam_read 4; r_u64 := seam_read 8;
  r_bytes := fun n st =>
    if andb (N.leb n (len (fst st))) (negb (match snd st with Some x => N.ltb x n | None => false end))
    then Val (Some (takeN n (fst st)), seam_adv n st) else Val (None, st);
  r_skip := fun n st => if N.leb n (len (fst st)) then Val (seam_adv n st) else Panic PkIndex;
  r_sub := fun n st =>
    if N.leb n (len (fst st))
    then Val ((takeN n (fst st), match snd st with Some x => if N.ltb x n then Some x else None | None => None end), seam_adv n st)
    else Panic PkIndex
|}.
Definition seam_init (s : N) (b : list N) : list N * option N := (b, if N.eqb s 0 then None else Some s).
Definition ch_dec_seam (s : N) (o : opts) (b : list N) : string :=
  show_outcome (fun x => show_mres (fst x, fst (snd x))) (grun SeamReader (msg_read o) (seam_init s b)).
Definition ch_avps_seam (s : N) (b : list N) : string :=
  show_outcome (fun x => show_avpres (fst x, fst (snd x))) (grun SeamReader avps_read (seam_init s b)).

Definition ch_dec_lim (k : N) (o : opts) (b : list N) : string :=
  show_outcome show_mres (grun (LimitReader k) (msg_read o) b).
Definition ch_avps_lim (k : N) (b : list N) : string :=
  show_outcome show_avpres (grun (LimitReader k) avps_read b).
Definition ch_type (t : N) (b : list N) : string := show_outcome show_typeres (m_decode_avp t b).

(** the encode channels *)
From RL Require Export Model.Encode.
Definition ch_enc (v : message) (p : list N) : string := show_outcome show_bytes_ok (m_encode v p).
Definition ch_enca (a : avp) (p : list N) : string :=
  show_outcome show_bytes_ok (m_enc_avp a p) ++ " glen=" ++ dec (m_get_length a).

(** the hiding channels (MD5 from Base/Md5.v) *)
From RL Require Export Base.Md5 Model.Hide.
Definition ch_hide (a : avp) (s rv lp ap : list N) : string :=
  show_outcome (fun x => String.append "Ok " (show_avp x)) (m_hide md5 a s rv lp ap).
Definition ch_reveal (a : avp) (s rv : list N) : string :=
  show_outcome (fun r => match r with Ok x => String.append "Ok " (show_avp x) | Err e => String.append "Err " (show_err e) end)
               (m_reveal md5 a s rv).
Definition ch_md5 (b : list N) : string := hex (md5 b).
