(** AVP::hide / AVP::reveal following the Rust text: one buffer, index
    arithmetic, forward loop over 1..n_chunks, reverse loop in reveal.  The
    hash is a parameter ([md5] in the executors). *)
From RL Require Export Model.Decode Model.Encode.

Section Hide.
Variable H : list N -> list N.

(** input[a..b] *)
Definition slice (l : list N) (a b : N) : outcome (list N) :=
  if (a <=? b) && (b <=? len l) then Val (takeN (b - a) (dropN a l)) else Panic PkIndex.

(** for j in 0..16 { l[start + j] ^= k[j] } *)
Definition xor16_at (l : list N) (start : N) (k : list N) : outcome (list N) :=
  if start + 16 <=? len l then
    Val (takeN start l ++ xor_list (takeN 16 (dropN start l)) k ++ dropN (start + 16) l)
  else Panic PkIndex.

Fixpoint hide_loop (cnt : nat) (i : N) (secret input : list N) : outcome (list N) :=
  match cnt with
  | O => Val input
  | S c =>
    let prev_start := (i - 1) * 16 in
    let chunk_start := prev_start + 16 in
    obind (slice input prev_start chunk_start) (fun prev =>
    obind (xor16_at input chunk_start (H (secret ++ prev))) (fun input' =>
    hide_loop c (i + 1) secret input'))
  end.

Definition m_hide (a : avp) (secret rv lp ap : list N) : outcome avp :=
  match a with
  | AHidden _ _ => Val a
  | _ =>
    let w := wr_payload a (writer_of []) in
    if w_len w <? 2 then Panic PkAssert else
    let type_octets := takeN 2 (w_data w) in
    let length := w_len w + 6 - 2 in
    if 1023 <? length then Panic PkAssert else
    obind (w_bytes_at (be16 length) 0 w) (fun w' =>
    let input1 := w_data w' ++ lp in
    let cpl := (16 - len input1 mod 16) mod 16 in
    if len ap <? cpl then Panic PkIndex else
    let input2 := input1 ++ takeN cpl ap in
    let n_chunks := len input2 / 16 in
    obind (xor16_at input2 0 (H (type_octets ++ secret ++ rv))) (fun input3 =>
    obind (if 1 <? n_chunks then hide_loop (N.to_nat (n_chunks - 1)) 1 secret input3
           else Val input3) (fun out =>
    Val (AHidden (be_val 0 type_octets) out))))
  end.

(** for i in (1..n_chunks).rev() *)
Fixpoint reveal_loop (cnt : nat) (secret data : list N) : outcome (list N) :=
  match cnt with
  | O => Val data
  | S c =>
    let i := N.of_nat (S c) in
    let prev_start := (i - 1) * 16 in
    let chunk_start := prev_start + 16 in
    obind (slice data prev_start chunk_start) (fun prev =>
    obind (xor16_at data chunk_start (H (secret ++ prev))) (fun data' =>
    reveal_loop c secret data'))
  end.

Definition reveal_tail (t : N) : prog (dres avp) :=
  total <- u16_ ;;
  if (total <? 6) || (1023 <? total) then Ret (Err (InvalidOriginalAVPLength total)) else
  pl <- usub total 6 ;;
  n <- len_ ;;
  if n <? pl then Ret (Err (InvalidOriginalAVPLength total)) else
  sub_ pl (decode_avp t).

Definition m_reveal (a : avp) (secret rv : list N) : outcome (dres avp) :=
  match a with
  | AHidden t v =>
    match v with
    | [] => Val (Err EmptyHiddenAVP)
    | _ =>
      if negb (len v mod 16 =? 0) then Val (Err MisalignedHiddenAVP) else
      let n_chunks := len v / 16 in
      obind (if 1 <? n_chunks then reveal_loop (N.to_nat (n_chunks - 1)) secret v
             else Val v) (fun d1 =>
      obind (xor16_at d1 0 (H (be16 t ++ secret ++ rv))) (fun d2 =>
      omap fst (run (reveal_tail t) d2)))
    end
  | _ => Val (Ok a)
  end.
End Hide.
