(** Decoder programs over the public [Reader] trait, as a free monad, and their
    interpretation (a) on the list reader -- the unread suffix, exactly
    [SliceReader.data], which doubles as the contract monitor: an unchecked read
    with too few octets left yields [UB], an out-of-range [subreader]/[skip_bytes]
    yields [Panic] -- and (b) on an arbitrary reader implementation. *)
From RL Require Export Base.Bytes.

Inductive prog (A : Type) : Type :=
| Ret (a : A)
| Crash (k : panic_kind)            (* a panic raised by decoder code itself *)
| NoFuel
| Len (k : N -> prog A)             (* reader.len() *)
| IsEmpty (k : bool -> prog A)      (* reader.is_empty() *)
| U8 (k : N -> prog A)              (* unsafe read_u8_unchecked *)
| U16 (k : N -> prog A)             (* unsafe read_u16_be_unchecked *)
| U32 (k : N -> prog A)
| U64 (k : N -> prog A)
| Bytes (n : N) (k : option (list N) -> prog A)   (* reader.bytes(n) *)
| Skip (n : N) (k : prog A)                       (* reader.skip_bytes(n) *)
| Sub (B : Type) (n : N) (p : prog B) (k : B -> prog A).  (* reader.subreader(n), p runs on it *)
Arguments Ret {A} a.
Arguments Crash {A} k.
Arguments NoFuel {A}.
Arguments Len {A} k.
Arguments IsEmpty {A} k.
Arguments U8 {A} k.
Arguments U16 {A} k.
Arguments U32 {A} k.
Arguments U64 {A} k.
Arguments Bytes {A} n k.
Arguments Skip {A} n k.
Arguments Sub {A B} n p k.

Fixpoint bind {A B} (p : prog A) (f : A -> prog B) : prog B :=
  match p with
  | Ret a => f a
  | Crash k => Crash k
  | NoFuel => NoFuel
  | Len k => Len (fun x => bind (k x) f)
  | IsEmpty k => IsEmpty (fun x => bind (k x) f)
  | U8 k => U8 (fun x => bind (k x) f)
  | U16 k => U16 (fun x => bind (k x) f)
  | U32 k => U32 (fun x => bind (k x) f)
  | U64 k => U64 (fun x => bind (k x) f)
  | Bytes n k => Bytes n (fun x => bind (k x) f)
  | Skip n k => Skip n (bind k f)
  | Sub n q k => Sub n q (fun x => bind (k x) f)
  end.

Notation "x <- p ;; q" := (bind p (fun x => q))
  (at level 61, p at next level, right associativity).
Notation "' pat <- p ;; q" := (bind p (fun x => match x with pat => q end))
  (at level 61, pat pattern, p at next level, right associativity).

Definition len_ : prog N := Len Ret.
Definition is_empty_ : prog bool := IsEmpty Ret.
Definition u8_ : prog N := U8 Ret.
Definition u16_ : prog N := U16 Ret.
Definition u32_ : prog N := U32 Ret.
Definition u64_ : prog N := U64 Ret.
Definition bytes_ (n : N) : prog (option (list N)) := Bytes n Ret.
Definition skip_ (n : N) : prog unit := Skip n (Ret tt).
Definition sub_ {B} (n : N) (p : prog B) : prog B := Sub n p Ret.

(** The list reader *)
Definition lr_read (k : nat) (l : list N) : outcome (N * list N) :=
  if Nat.leb k (length l) then Val (be_val 0 (firstn k l), skipn k l) else UB.

Fixpoint run {A} (p : prog A) (l : list N) : outcome (A * list N) :=
  match p with
  | Ret a => Val (a, l)
  | Crash k => Panic k
  | NoFuel => OutOfFuel
  | Len k => run (k (len l)) l
  | IsEmpty k => run (k (match l with [] => true | _ => false end)) l
  | U8 k => obind (lr_read 1 l) (fun '(x, l') => run (k x) l')
  | U16 k => obind (lr_read 2 l) (fun '(x, l') => run (k x) l')
  | U32 k => obind (lr_read 4 l) (fun '(x, l') => run (k x) l')
  | U64 k => obind (lr_read 8 l) (fun '(x, l') => run (k x) l')
  | Bytes n k =>
    if n <=? len l then run (k (Some (takeN n l))) (dropN n l)
    else run (k None) l
  | Skip n k => if n <=? len l then run k (dropN n l) else Panic PkIndex
  | Sub n q k =>
    if n <=? len l then
      obind (run q (takeN n l)) (fun '(b, _) => run (k b) (dropN n l))
    else Panic PkIndex
  end.

(** An arbitrary implementation of the Reader trait *)
Record ReaderImpl := {
  R : Type;
  r_len : R -> N;
  r_is_empty : R -> bool;
  r_u8 : R -> outcome (N * R);
  r_u16 : R -> outcome (N * R);
  r_u32 : R -> outcome (N * R);
  r_u64 : R -> outcome (N * R);
  r_bytes : N -> R -> outcome (option (list N) * R);
  r_skip : N -> R -> outcome R;
  r_sub : N -> R -> outcome (R * R)   (* (sub-reader, advanced parent) *)
}.

Fixpoint grun (I : ReaderImpl) {A} (p : prog A) (r : R I) : outcome (A * R I) :=
  match p with
  | Ret a => Val (a, r)
  | Crash k => Panic k
  | NoFuel => OutOfFuel
  | Len k => grun I (k (r_len I r)) r
  | IsEmpty k => grun I (k (r_is_empty I r)) r
  | U8 k => obind (r_u8 I r) (fun '(x, r') => grun I (k x) r')
  | U16 k => obind (r_u16 I r) (fun '(x, r') => grun I (k x) r')
  | U32 k => obind (r_u32 I r) (fun '(x, r') => grun I (k x) r')
  | U64 k => obind (r_u64 I r) (fun '(x, r') => grun I (k x) r')
  | Bytes n k => obind (r_bytes I n r) (fun '(x, r') => grun I (k x) r')
  | Skip n k => obind (r_skip I n r) (fun r' => grun I k r')
  | Sub n q k =>
    obind (r_sub I n r) (fun '(s, r') =>
      obind (grun I q s) (fun '(b, _) => grun I (k b) r'))
  end.

(** The list reader as an implementation *)
Definition ListReader : ReaderImpl := {|
  R := list N;
  r_len := fun l => len l;
  r_is_empty := fun l => match l with [] => true | _ => false end;
  r_u8 := lr_read 1; r_u16 := lr_read 2; r_u32 := lr_read 4; r_u64 := lr_read 8;
  r_bytes := fun n l =>
    if n <=? len l then Val (Some (takeN n l), dropN n l) else Val (None, l);
  r_skip := fun n l => if n <=? len l then Val (dropN n l) else Panic PkIndex;
  r_sub := fun n l => if n <=? len l then Val (takeN n l, dropN n l) else Panic PkIndex
|}.
