(** The decoder, following the Rust text call by call (after the fix: commits).
    Every guard, unchecked read, sub-reader and skip of the source appears here
    in the same order.  Definitions only. *)
From RL Require Export Base.Utf8 Model.Values Model.Reader.

(** checked usize/u16 subtraction: debug builds panic, release builds wrap;
    both are represented by a crash, which the theorems show unreachable *)
Definition usub (a b : N) : prog N :=
  if b <=? a then Ret (a - b) else Crash PkOverflow.

(** * message flag word (src/message/flags.rs) *)
Definition get_bit (w i : N) : bool := N.testbit w i.
Definition f_is_control (w : N) : bool := get_bit w 8.
Definition f_has_length (w : N) : bool := get_bit w 9.
Definition f_has_ns_nr (w : N) : bool := get_bit w 12.
Definition f_has_offset (w : N) : bool := get_bit w 14.
Definition f_is_prioritized (w : N) : bool := get_bit w 15.
Definition f_version (w : N) : N := N.land (N.shiftr w 4) 15.
Definition f_reserved_ok (w : N) : bool :=
  forallb (fun i => negb (get_bit w i)) [0; 1; 2; 3; 10; 11; 13].

Definition flags_read : prog (dres N) :=
  n <- len_ ;;
  if n <? 2 then Ret (Err IncompleteFlags) else w <- u16_ ;; Ret (Ok w).

(** * per-type payload decoders (src/message/avp/types/*.rs) *)
Definition dec_message_type : prog (dres avp) :=
  n <- len_ ;;
  if n <? 2 then Ret (Err (IncompleteAVP 0)) else
  id <- u16_ ;;
  match mt_of_code id with
  | Some t => Ret (Ok (AMessageType t))
  | None => Ret (Err (UnknownMessageType id))
  end.

Definition dec_utf8_rest (t : N) (mk : list N -> avp) : prog (dres avp) :=
  n <- len_ ;;
  ob <- bytes_ n ;;
  match ob with
  | None => Ret (Err (AVPReadError t))
  | Some d => if utf8_valid d then Ret (Ok (mk d)) else Ret (Err (InvalidUtf8 t))
  end.

Definition dec_result_code : prog (dres avp) :=
  n <- len_ ;;
  if n <? 2 then Ret (Err (IncompleteAVP 1)) else
  code <- u16_ ;;
  n2 <- len_ ;;
  if 2 <=? n2 then
    er <- u16_ ;;
    match et_of_code er with
    | None => Ret (Err (InvalidResultCodeErrorType er))
    | Some et =>
      e <- is_empty_ ;;
      if negb e then dec_utf8_rest 1 (fun d => AResultCode code (Some (et, Some d)))
      else Ret (Ok (AResultCode code (Some (et, None))))
    end
  else Ret (Ok (AResultCode code None)).

Definition dec_protocol_version : prog (dres avp) :=
  n <- len_ ;;
  if n <? 2 then Ret (Err (IncompleteAVP 2)) else
  v <- u8_ ;; r <- u8_ ;; Ret (Ok (AProtocolVersion v r)).

Definition dec_u16 (k : k16) : prog (dres avp) :=
  n <- len_ ;;
  if n <? 2 then Ret (Err (IncompleteAVP (k16_type k))) else
  x <- u16_ ;; Ret (Ok (A16 k x)).

Definition dec_u32 (k : k32) : prog (dres avp) :=
  n <- len_ ;;
  if n <? 4 then Ret (Err (IncompleteAVP (k32_type k))) else
  x <- u32_ ;; Ret (Ok (A32 k x)).

Definition dec_tie_breaker : prog (dres avp) :=
  n <- len_ ;;
  if n <? 8 then Ret (Err (IncompleteAVP 5)) else
  x <- u64_ ;; Ret (Ok (ATieBreaker x)).

Definition dec_bytes (k : kbytes) : prog (dres avp) :=
  e <- is_empty_ ;;
  if e then Ret (Err (IncompleteAVP (kbytes_type k))) else
  n <- len_ ;;
  ob <- bytes_ n ;;
  match ob with
  | None => Ret (Err (AVPReadError (kbytes_type k)))
  | Some d => Ret (Ok (ABytes k d))
  end.

Definition dec_str (k : kstr) : prog (dres avp) :=
  e <- is_empty_ ;;
  if e then Ret (Err (IncompleteAVP (kstr_type k))) else
  dec_utf8_rest (kstr_type k) (AStr k).

(** [bytes(n)] then [try_into] a fixed-size array *)
Definition get_chunk (t n : N) : prog (dres (list N)) :=
  ob <- bytes_ n ;;
  match ob with
  | None => Ret (Err (AVPReadError t))
  | Some d => if len d =? n then Ret (Ok d) else Ret (Err (IncompleteAVP t))
  end.

Definition dec_fix (k : kfix) : prog (dres avp) :=
  n <- len_ ;;
  if n <? kfix_len k then Ret (Err (IncompleteAVP (kfix_type k))) else
  r <- get_chunk (kfix_type k) (kfix_len k) ;;
  match r with
  | Err e => Ret (Err e)
  | Ok d => Ret (Ok (AFix k d))
  end.

Definition dec_q931 : prog (dres avp) :=
  n <- len_ ;;
  if n <? 3 then Ret (Err (IncompleteAVP 12)) else
  cc <- u16_ ;; cm <- u8_ ;;
  e <- is_empty_ ;;
  if negb e then dec_utf8_rest 12 (fun d => AQ931CauseCode cc cm (Some d))
  else Ret (Ok (AQ931CauseCode cc cm None)).

Definition dec_proxy_authen_type : prog (dres avp) :=
  n <- len_ ;;
  if n <? 2 then Ret (Err (IncompleteAVP 29)) else
  x <- u16_ ;;
  match pa_of_code x with
  | Some t => Ret (Ok (AProxyAuthenType t))
  | None => Ret (Err (IncompleteAVP 29))
  end.

Definition dec_proxy_authen_id : prog (dres avp) :=
  n <- len_ ;;
  if n <? 2 then Ret (Err (IncompleteAVP 32)) else
  _ <- skip_ 1 ;; v <- u8_ ;; Ret (Ok (AProxyAuthenId v)).

Definition dec_call_errors : prog (dres avp) :=
  n <- len_ ;;
  if n <? 26 then Ret (Err (IncompleteAVP 34)) else
  _ <- skip_ 2 ;;
  a <- u32_ ;; b <- u32_ ;; c <- u32_ ;; d <- u32_ ;; e <- u32_ ;; f <- u32_ ;;
  Ret (Ok (ACallErrors a b c d e f)).

Definition dec_accm : prog (dres avp) :=
  n <- len_ ;;
  if n <? 10 then Ret (Err (IncompleteAVP 35)) else
  _ <- skip_ 2 ;;
  r1 <- get_chunk 35 4 ;;
  match r1 with
  | Err e => Ret (Err e)
  | Ok s =>
    r2 <- get_chunk 35 4 ;;
    match r2 with
    | Err e => Ret (Err e)
    | Ok r => Ret (Ok (AAccm s r))
    end
  end.

(** attribute-type dispatch (src/message/avp.rs decode_avp) *)
Definition decode_avp (t : N) : prog (dres avp) :=
  match t with
  | 0 => dec_message_type
  | 1 => dec_result_code
  | 2 => dec_protocol_version
  | 3 => dec_u32 FramingCapabilities
  | 4 => dec_u32 BearerCapabilities
  | 5 => dec_tie_breaker
  | 6 => dec_u16 FirmwareRevision
  | 7 => dec_bytes HostName
  | 8 => dec_str VendorName
  | 9 => dec_u16 AssignedTunnelId
  | 10 => dec_u16 ReceiveWindowSize
  | 11 => dec_bytes Challenge
  | 12 => dec_q931
  | 13 => dec_fix ChallengeResponse
  | 14 => dec_u16 AssignedSessionId
  | 15 => dec_u32 CallSerialNumber
  | 16 => dec_u32 MinimumBps
  | 17 => dec_u32 MaximumBps
  | 18 => dec_u32 BearerType
  | 19 => dec_u32 FramingType
  | 21 => dec_str CalledNumber
  | 22 => dec_str CallingNumber
  | 23 => dec_str SubAddress
  | 24 => dec_u32 TxConnectSpeed
  | 25 => dec_fix PhysicalChannelId
  | 26 => dec_bytes InitialReceivedLcpConfReq
  | 27 => dec_bytes LastSentLcpConfReq
  | 28 => dec_bytes LastReceivedLcpConfReq
  | 29 => dec_proxy_authen_type
  | 30 => dec_bytes ProxyAuthenName
  | 31 => dec_bytes ProxyAuthenChallenge
  | 32 => dec_proxy_authen_id
  | 33 => dec_bytes ProxyAuthenResponse
  | 34 => dec_call_errors
  | 35 => dec_accm
  | 36 => dec_fix RandomVector
  | 37 => dec_bytes PrivateGroupId
  | 38 => dec_u32 RxConnectSpeed
  | 39 => Ret (Ok ASequencingRequired)
  | x => Ret (Err (UnknownAvp x))
  end.

(** * AVP header (src/message/avp/header.rs) *)
Record avp_header := {
  h_flags : N; h_payload_length : N; h_vendor : N; h_type : N }.

Definition header_read : prog (option (dres avp_header)) :=
  n <- len_ ;;
  if n <? 6 then Ret None else
  o1 <- u8_ ;; o2 <- u8_ ;;
  let flags := N.land o1 63 in
  let msb := N.shiftr o1 6 in
  let length := N.lor (N.shiftl msb 8) o2 in
  vendor <- u16_ ;;
  at_ <- u16_ ;;
  if length <? 6 then Ret (Some (Err (InvalidAVPLength length))) else
  pl <- usub length 6 ;;
  Ret (Some (Ok {| h_flags := flags; h_payload_length := pl;
                   h_vendor := vendor; h_type := at_ |})).

(** * greedy AVP list (AVP::try_read_greedy), loop on explicit fuel *)
Fixpoint greedy (fuel : nat) : prog (list (dres avp)) :=
  match fuel with
  | O => NoFuel
  | S fuel' =>
    oh <- header_read ;;
    match oh with
    | None => Ret []
    | Some (Err e) => Ret [Err e]
    | Some (Ok h) =>
      n <- len_ ;;
      if n <? h_payload_length h then Ret [Err (InvalidAVPLength (h_payload_length h))]
      else if negb (h_vendor h =? 0) then
        _ <- skip_ (h_payload_length h) ;;
        rest <- greedy fuel' ;;
        Ret (Err (UnsupportedVendorId (h_vendor h)) :: rest)
      else if N.testbit (h_flags h) 1 then
        ob <- bytes_ (h_payload_length h) ;;
        let v := match ob with Some d => d | None => [] end in
        rest <- greedy fuel' ;;
        Ret (Ok (AHidden (h_type h) v) :: rest)
      else
        r <- sub_ (h_payload_length h) (decode_avp (h_type h)) ;;
        rest <- greedy fuel' ;;
        Ret (r :: rest)
    end
  end.

Definition avps_read : prog (list (dres avp)) :=
  n <- len_ ;; greedy (S (N.to_nat n)).

(** * control message (src/message/control_message.rs) *)
Definition first_ok (rs : list (dres avp)) : bool :=
  match rs with
  | [] => true
  | Ok (AMessageType _) :: _ => true
  | _ => false
  end.

Definition ctrl_read (w : N) (o : opts) : prog (result (list derr) ctrl_msg) :=
  if v_unused o && f_is_prioritized w then Ret (Err [ForbiddenControlMessagePriority]) else
  if v_unused o && f_has_offset w then Ret (Err [ForbiddenControlMessageOffset]) else
  if negb (f_has_length w) then Ret (Err [ControlMessageWithoutLength]) else
  if negb (f_has_ns_nr w) then Ret (Err [ControlMessageWithoutNsNr]) else
  n <- len_ ;;
  if n <? 10 then Ret (Err [IncompleteControlMessageHeader]) else
  length <- u16_ ;; tid <- u16_ ;; sid <- u16_ ;; ns <- u16_ ;; nr <- u16_ ;;
  if length <? 12 then Ret (Err [IncompleteControlMessageHeader]) else
  n2 <- len_ ;;
  if n2 + 12 <? length then Ret (Err [IncompleteControlMessagePayload]) else
  d <- usub length 12 ;;
  rs <- sub_ d avps_read ;;
  if negb (first_ok rs) then Ret (Err [ControlMessageTypeNotFirst]) else
  if existsb is_err rs then Ret (Err (errs_of rs)) else
  Ret (Ok {| c_length := length; c_tunnel := tid; c_session := sid;
             c_ns := ns; c_nr := nr; c_avps := oks_of rs |}).

(** * data message (src/message/data_message.rs) *)
Definition data_read (w : N) : prog (dres data_msg) :=
  let m1 := if f_has_length w then 4 + 2 else 4 in
  let m2 := if f_has_ns_nr w then m1 + 4 else m1 in
  let m3 := if f_has_offset w then m2 + 2 else m2 in
  n <- len_ ;;
  if n <? m3 then Ret (Err IncompleteDataMessageHeader) else
  ml <- (if f_has_length w then x <- u16_ ;; Ret (Some x) else Ret None) ;;
  tid <- u16_ ;; sid <- u16_ ;;
  mn <- (if f_has_ns_nr w then ns <- u16_ ;; nr <- u16_ ;; Ret (Some (ns, nr)) else Ret None) ;;
  rhl <- (if f_has_offset w then
            os <- u16_ ;;
            n1 <- len_ ;;
            if n1 <? os then Ret (Err (InvalidOffset os)) else
            _ <- skip_ os ;; Ret (Ok (m3 + 2 + os))
          else Ret (Ok (m3 + 2))) ;;
  match rhl with
  | Err e => Ret (Err e)
  | Ok hl =>
    rpl <- match ml with
           | Some length =>
             if length <? hl then Ret (Err IncompleteDataMessageHeader) else
             d <- usub length hl ;;
             n2 <- len_ ;;
             if n2 <? d then Ret (Err IncompleteDataMessagePayload) else Ret (Ok d)
           | None => n2 <- len_ ;; Ret (Ok n2)
           end ;;
    match rpl with
    | Err e => Ret (Err e)
    | Ok pl =>
      if pl =? 0 then Ret (Err EmptyDataMessagePayload) else
      ob <- bytes_ pl ;;
      match ob with
      | None => Ret (Err MessageReadError)
      | Some d =>
        Ret (Ok {| d_prio := f_is_prioritized w; d_length := ml; d_tunnel := tid;
                   d_session := sid; d_nsnr := mn; d_offset := None; d_data := d |})
      end
    end
  end.

(** * message (src/message.rs) *)
Definition msg_read (o : opts) : prog mres :=
  rf <- flags_read ;;
  match rf with
  | Err e => Ret (Err [e])
  | Ok w =>
    if v_version o && negb (f_version w =? 2) then Ret (Err [InvalidVersion (f_version w)]) else
    if v_reserved o && negb (f_reserved_ok w) then Ret (Err [InvalidReservedBits]) else
    if f_is_control w then
      r <- ctrl_read w o ;;
      match r with Ok m => Ret (Ok (Control m)) | Err es => Ret (Err es) end
    else
      r <- data_read w ;;
      match r with Ok d => Ret (Ok (Data d)) | Err e => Ret (Err [e]) end
  end.

Definition m_decode (o : opts) (b : list N) : outcome (mres * list N) := run (msg_read o) b.
Definition m_try_read (b : list N) := m_decode default_opts b.
Definition m_avps (b : list N) : outcome (list (dres avp) * list N) := run avps_read b.
Definition m_decode_avp (t : N) (p : list N) : outcome (dres avp * list N) := run (decode_avp t) p.
