(** A cost semantics for decoder programs on the list reader: one unit per reader
    operation the program performs, plus one unit per octet handed out by
    [bytes(n)] (the octets the decoder copies or validates).  Definitions only.
    The bound proved in Proofs/CostBound.v is the model-level content of "decoding
    never fails to terminate": the work is linear in the input. *)
From RL Require Export Model.Decode.

Fixpoint cost {A} (p : prog A) (l : list N) : N :=
  match p with
  | Ret _ => 0
  | Crash _ => 0
  | NoFuel => 0
  | Len k => 1 + cost (k (len l)) l
  | IsEmpty k => 1 + cost (k (match l with [] => true | _ => false end)) l
  | U8 k => 1 + match lr_read 1 l with Val (x, l') => cost (k x) l' | _ => 0 end
  | U16 k => 1 + match lr_read 2 l with Val (x, l') => cost (k x) l' | _ => 0 end
  | U32 k => 1 + match lr_read 4 l with Val (x, l') => cost (k x) l' | _ => 0 end
  | U64 k => 1 + match lr_read 8 l with Val (x, l') => cost (k x) l' | _ => 0 end
  | Bytes n k =>
    1 + (if n <=? len l then n + cost (k (Some (takeN n l))) (dropN n l)
         else cost (k None) l)
  | Skip n k => 1 + (if n <=? len l then cost k (dropN n l) else 0)
  | Sub n q k =>
    1 + (if n <=? len l then
           cost q (takeN n l) +
           match run q (takeN n l) with
           | Val (b, _) => cost (k b) (dropN n l)
           | _ => 0
           end
         else 0)
  end.

Definition m_decode_cost (o : opts) (b : list N) : N := cost (msg_read o) b.
Definition m_avps_cost (b : list N) : N := cost avps_read b.
