(** The encoder, following the Rust text: a writer holding the octets written
    so far plus a log of positional overwrites (offset, size, buffer length at
    the time), placeholders back-patched with [write_bytes_at]. *)
From RL Require Export Model.Values.

Record writer := { w_data : list N; w_log : list (N * N * N) }.
Definition writer_of (p : list N) : writer := {| w_data := p; w_log := [] |}.
Definition w_len (w : writer) : N := len (w_data w).
Definition w_bytes (bs : list N) (w : writer) : writer :=
  {| w_data := w_data w ++ bs; w_log := w_log w |}.
Definition w_u8 (x : N) := w_bytes [x mod 256].
Definition w_u16 (x : N) := w_bytes (be16 x).
Definition w_u32 (x : N) := w_bytes (be32 x).
Definition w_u64 (x : N) := w_bytes (be64 x).
(** VecWriter::write_bytes_at: assert!(offset + len <= data.len()), copy in place *)
Definition w_bytes_at (bs : list N) (off : N) (w : writer) : outcome writer :=
  if off + len bs <=? w_len w then
    Val {| w_data := takeN off (w_data w) ++ bs ++ dropN (off + len bs) (w_data w);
           w_log := w_log w ++ [(off, len bs, w_len w)] |}
  else Panic PkAssert.

Definition opt_bytes (o : option (list N)) : list N :=
  match o with Some b => b | None => [] end.

(** WritableAVP::write of each type: attribute type, then the fields *)
Definition wr_payload (a : avp) (w : writer) : writer :=
  match a with
  | AMessageType t => w_u16 (mt_code t) (w_u16 0 w)
  | AResultCode code err =>
    let w1 := w_u16 code (w_u16 1 w) in
    match err with
    | Some (et, msg) =>
      let w2 := w_u16 (et_code et) w1 in
      match msg with Some m => w_bytes m w2 | None => w2 end
    | None => w1
    end
  | AProtocolVersion v r => w_bytes [v; r] (w_u16 2 w)
  | A32 k v => w_u32 v (w_u16 (k32_type k) w)
  | ATieBreaker v => w_u64 v (w_u16 5 w)
  | A16 k v => w_u16 v (w_u16 (k16_type k) w)
  | ABytes k v => w_bytes v (w_u16 (kbytes_type k) w)
  | AStr k v => w_bytes v (w_u16 (kstr_type k) w)
  | AFix k v => w_bytes v (w_u16 (kfix_type k) w)
  | AQ931CauseCode cc cm adv =>
    let w1 := w_u8 cm (w_u16 cc (w_u16 12 w)) in
    match adv with Some s => w_bytes s w1 | None => w1 end
  | AProxyAuthenType t => w_u16 (pa_code t) (w_u16 29 w)
  | AProxyAuthenId v => w_bytes [0; v] (w_u16 32 w)
  | ACallErrors a b c d e f =>
    w_u32 f (w_u32 e (w_u32 d (w_u32 c (w_u32 b (w_u32 a
      (w_bytes [0; 0] (w_u16 34 w)))))))
  | AAccm s r => w_bytes r (w_bytes s (w_bytes [0; 0] (w_u16 35 w)))
  | ASequencingRequired => w_u16 39 w
  | AHidden t v => w_bytes v (w_u16 t w)
  end.

(** QueryableAVP::get_length of each type *)
Definition m_get_length (a : avp) : N :=
  match a with
  | AMessageType _ => 2
  | AResultCode _ err =>
    match err with
    | Some (_, msg) => 2 + 2 + match msg with Some m => len m | None => 0 end
    | None => 2
    end
  | AProtocolVersion _ _ => 2
  | A32 _ _ => 4
  | ATieBreaker _ => 8
  | A16 _ _ => 2
  | ABytes _ v => len v
  | AStr _ v => len v
  | AFix k _ => kfix_len k
  | AQ931CauseCode _ _ adv => match adv with Some s => 3 + len s | None => 3 end
  | AProxyAuthenType _ => 2
  | AProxyAuthenId _ => 2
  | ACallErrors _ _ _ _ _ _ => 26
  | AAccm _ _ => 10
  | ASequencingRequired => 0
  | AHidden _ v => len v
  end.

(** AVP::write *)
Definition m_enc_avp_w (a : avp) (w : writer) : outcome writer :=
  let start := w_len w in
  let w1 := w_bytes [0; 0] w in
  let w2 := w_u16 0 w1 in
  let w3 := wr_payload a w2 in
  let end_ := w_len w3 in
  if end_ <? start then Panic PkOverflow else
  let length := end_ - start in
  if 1023 <? length then Panic PkAssert else
  let msb := N.land (N.shiftr length 8) 3 in
  let lsb := length mod 256 in
  let o1 := N.lor (N.lor (N.shiftl msb 6) 1) (if is_hidden a then 2 else 0) in
  w_bytes_at [o1; lsb] start w3.

Fixpoint m_enc_avps_w (l : list avp) (w : writer) : outcome writer :=
  match l with
  | [] => Val w
  | a :: t => obind (m_enc_avp_w a w) (m_enc_avps_w t)
  end.

(** Flags::new *)
Definition set_bit (w i : N) : N := N.lor w (N.shiftl 1 i).
Definition flags_new (control has_length has_ns_nr has_offset prio : bool) (version : N)
  : outcome N :=
  let w0 := 0 in
  let w1 := if control then set_bit w0 8 else w0 in
  let w2 := if has_length then set_bit w1 9 else w1 in
  let w3 := if has_ns_nr then set_bit w2 12 else w2 in
  let w4 := if has_offset then set_bit w3 14 else w3 in
  let w5 := if prio then set_bit w4 15 else w4 in
  if 15 <? version then Panic PkAssert else
  Val (N.lor (N.land w5 65295) (N.shiftl (N.land version 15) 4)).

Definition is_some {A} (o : option A) : bool := match o with Some _ => true | None => false end.

(** ControlMessage::write *)
Definition m_enc_ctrl_w (m : ctrl_msg) (w : writer) : outcome writer :=
  let start := w_len w in
  obind (flags_new true true true false false 2) (fun fl =>
  let w1 := w_u16 fl w in
  let length_position := w_len w1 in
  let w2 := w_bytes [0; 0] w1 in
  let w3 := w_u16 (c_nr m) (w_u16 (c_ns m) (w_u16 (c_session m) (w_u16 (c_tunnel m) w2))) in
  obind (m_enc_avps_w (c_avps m) w3) (fun w4 =>
  let end_ := w_len w4 in
  if end_ <? start then Panic PkOverflow else
  let length := end_ - start in
  if 65535 <? length then Panic PkAssert else
  w_bytes_at (be16 length) length_position w4)).

(** DataMessage::write *)
Definition m_enc_data_w (d : data_msg) (w : writer) : outcome writer :=
  obind (flags_new false (is_some (d_length d)) (is_some (d_nsnr d))
           (is_some (d_offset d)) (d_prio d) 2) (fun fl =>
  let w1 := w_u16 fl w in
  let w2 := match d_length d with Some l => w_u16 l w1 | None => w1 end in
  let w3 := w_u16 (d_session d) (w_u16 (d_tunnel d) w2) in
  let w4 := match d_nsnr d with Some (ns, nr) => w_u16 nr (w_u16 ns w3) | None => w3 end in
  let w5 := match d_offset d with Some o => w_u16 o w4 | None => w4 end in
  Val (w_bytes (d_data d) w5)).

Definition m_encode_w (v : message) (w : writer) : outcome writer :=
  match v with
  | Control m => m_enc_ctrl_w m w
  | Data d => m_enc_data_w d w
  end.

Definition m_encode (v : message) (p : list N) : outcome (list N) :=
  omap w_data (m_encode_w v (writer_of p)).
Definition m_enc_avp (a : avp) (p : list N) : outcome (list N) :=
  omap w_data (m_enc_avp_w a (writer_of p)).

Fixpoint m_encode_all_w (vs : list message) (w : writer) : outcome writer :=
  match vs with
  | [] => Val w
  | v :: t => obind (m_encode_w v w) (m_encode_all_w t)
  end.
