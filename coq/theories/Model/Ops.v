(** Operation sequences on the reader and the writer (C18), bitmask
    constructors/accessors (C17), result-code views (C16). *)
From RL Require Export Model.Decode Model.Encode.

Inductive rop :=
| RLen | RIsEmpty | RU8 | RU16 | RU32 | RU64
| RBytes (n : N) | RSkip (n : N) | RSub (n : N) (ops : list rop).

Inductive obs :=
| ONum (n : N) | OBool (b : bool) | OBytes (b : option (list N)) | OUnit
| OSub (l : list obs).

Fixpoint rop_prog (o : rop) : prog obs :=
  match o with
  | RLen => n <- len_ ;; Ret (ONum n)
  | RIsEmpty => b <- is_empty_ ;; Ret (OBool b)
  | RU8 => x <- u8_ ;; Ret (ONum x)
  | RU16 => x <- u16_ ;; Ret (ONum x)
  | RU32 => x <- u32_ ;; Ret (ONum x)
  | RU64 => x <- u64_ ;; Ret (ONum x)
  | RBytes n => b <- bytes_ n ;; Ret (OBytes b)
  | RSkip n => _ <- skip_ n ;; Ret OUnit
  | RSub n ops =>
    x <- sub_ n ((fix go (l : list rop) : prog (list obs) :=
                    match l with
                    | [] => Ret []
                    | o :: t => a <- rop_prog o ;; r <- go t ;; Ret (a :: r)
                    end) ops) ;;
    Ret (OSub x)
  end.

Fixpoint rops_prog (l : list rop) : prog (list obs) :=
  match l with
  | [] => Ret []
  | o :: t => a <- rop_prog o ;; r <- rops_prog t ;; Ret (a :: r)
  end.

Definition run_rops (ops : list rop) (data : list N) : outcome (list obs * list N) :=
  run (rops_prog ops) data.

Inductive wop :=
| WU8 (x : N) | WU16 (x : N) | WU32 (x : N) | WU64 (x : N)
| WBytes (b : list N) | WBytesAt (b : list N) (off : N) | WLen | WIsEmpty.

Definition wop_step (w : writer) (o : wop) : outcome (writer * option obs) :=
  match o with
  | WU8 x => Val (w_u8 x w, None)
  | WU16 x => Val (w_u16 x w, None)
  | WU32 x => Val (w_u32 x w, None)
  | WU64 x => Val (w_u64 x w, None)
  | WBytes b => Val (w_bytes b w, None)
  | WBytesAt b off => omap (fun w' => (w', None)) (w_bytes_at b off w)
  | WLen => Val (w, Some (ONum (w_len w)))
  | WIsEmpty => Val (w, Some (OBool (match w_data w with [] => true | _ => false end)))
  end.

Fixpoint run_wops (ops : list wop) (w : writer) : outcome (writer * list obs) :=
  match ops with
  | [] => Val (w, [])
  | o :: t =>
    obind (wop_step w o) (fun '(w', ob) =>
    obind (run_wops t w') (fun '(w'', obs) =>
    Val (w'', match ob with Some x => x :: obs | None => obs end)))
  end.

(** * bitmask AVPs: constructors and the accessors named after each parameter *)
Inductive bm_kind := BmFramingCapabilities | BmBearerCapabilities | BmBearerType | BmFramingType.
Definition bm_k32 (k : bm_kind) : k32 :=
  match k with
  | BmFramingCapabilities => FramingCapabilities | BmBearerCapabilities => BearerCapabilities
  | BmBearerType => BearerType | BmFramingType => FramingType
  end.
Definition b2n (b : bool) : N := if b then 1 else 0.
(** X::new(first, second) *)
Definition bm_new (k : bm_kind) (x y : bool) : N :=
  match k with
  | BmFramingCapabilities => N.lor (N.shiftl (b2n x) 6) (N.shiftl (b2n y) 7)  (* async, sync *)
  | BmBearerCapabilities => N.lor (N.shiftl (b2n x) 7) (N.shiftl (b2n y) 6)   (* digital, analog *)
  | BmBearerType => N.lor (N.shiftl (b2n x) 6) (N.shiftl (b2n y) 7)           (* analog, digital *)
  | BmFramingType => N.lor (N.shiftl (b2n x) 6) (N.shiftl (b2n y) 7)          (* analog, digital *)
  end.
Definition bit_of (w i : N) : bool := negb (N.land (N.shiftr w i) 1 =? 0).
(** accessor named after the first / second constructor parameter *)
Definition acc_first (k : bm_kind) (w : N) : bool :=
  match k with
  | BmFramingCapabilities => bit_of w 6   (* is_async_framing_supported *)
  | BmBearerCapabilities => bit_of w 7    (* is_digital_access_supported *)
  | BmBearerType => bit_of w 6            (* is_analog_request *)
  | BmFramingType => bit_of w 6           (* is_analog_request *)
  end.
Definition acc_second (k : bm_kind) (w : N) : bool :=
  match k with
  | BmFramingCapabilities => bit_of w 7   (* is_sync_framing_supported *)
  | BmBearerCapabilities => bit_of w 6    (* is_analog_access_supported *)
  | BmBearerType => bit_of w 7            (* is_digital_request *)
  | BmFramingType => bit_of w 7           (* is_digital_request *)
  end.
