(** Display of DecodeError (thiserror format strings) and avp_name. *)
From Coq Require Import String Ascii DecimalString.
From RL Require Export Model.Values.
Open Scope string_scope.

Definition dec (n : N) : string := NilZero.string_of_uint (N.to_uint n).

Definition avp_name (t : N) : string :=
  match t with
  | 0 => "MessageType" | 1 => "ResultCode" | 2 => "ProtocolVersion"
  | 3 => "FramingCapabilities" | 4 => "BearerCapabilities" | 5 => "TieBreaker"
  | 6 => "FirmwareRevision" | 7 => "HostName" | 8 => "VendorName"
  | 9 => "AssignedTunnelId" | 10 => "ReceiveWindowSize" | 11 => "Challenge"
  | 12 => "Q931CauseCode" | 13 => "ChallengeResponse" | 14 => "AssignedSessionId"
  | 15 => "CallSerialNumber" | 16 => "MinimumBps" | 17 => "MaximumBps"
  | 18 => "BearerType" | 19 => "FramingType" | 21 => "CalledNumber"
  | 22 => "CallingNumber" | 23 => "SubAddress" | 24 => "TxConnectSpeed"
  | 25 => "PhysicalChannelId" | 26 => "InitialReceivedLcpConfReq"
  | 27 => "LastSentLcpConfReq" | 28 => "LastReceivedLcpConfReq"
  | 29 => "ProxyAuthenType" | 30 => "ProxyAuthenName" | 31 => "ProxyAuthenChallenge"
  | 32 => "ProxyAuthenId" | 33 => "ProxyAuthenResponse" | 34 => "CallErrors"
  | 35 => "Accm" | 36 => "RandomVector" | 37 => "PrivateGroupId"
  | 38 => "RxConnectSpeed" | 39 => "SequencingRequired"
  | x => dec x
  end%N.

Definition render (e : derr) : string :=
  match e with
  | IncompleteAVP t => "Incomplete AVP (" ++ avp_name t ++ ")"
  | UnknownMessageType x => "MessageType AVP with unknown message type (" ++ dec x ++ ")"
  | InvalidUtf8 t => "AVP (" ++ avp_name t ++ ") with invalid UTF-8 string payload"
  | InvalidResultCodeErrorType x => "Unknown error type (" ++ dec x ++ ") in ResultCode AVP"
  | AVPReadError t => "Read error when parsing AVP (" ++ avp_name t ++ ")"
  | InvalidAVPLength x => "AVP with invalid length (" ++ dec x ++ ")"
  | UnknownAvp x => "AVP with unknown type (" ++ dec x ++ ")"
  | EmptyHiddenAVP => "Hidden AVP with empty payload"
  | MisalignedHiddenAVP => "Hidden AVP with invalid alignment"
  | InvalidOriginalAVPLength x => "Hidden AVP with invalid original length (" ++ dec x ++ ")"
  | UnsupportedVendorId x => "AVP with unsupported vendor ID (" ++ dec x ++ ") encountered"
  | InvalidVersion x => "Message with invalid version field (" ++ dec x ++ ")"
  | InvalidReservedBits => "Message with invalid reserved bits"
  | IncompleteFlags => "Message with incomplete flags field"
  | InvalidOffset x => "Message with invalid offset (" ++ dec x ++ ")"
  | IncompleteDataMessageHeader => "Incomplete data message header"
  | IncompleteDataMessagePayload => "Incomplete data message payload"
  | EmptyDataMessagePayload => "Empty data message payload"
  | MessageReadError => "Read error when parsing message"
  | ForbiddenControlMessagePriority => "Control message with forbidden message priority present"
  | ForbiddenControlMessageOffset => "Control message with forbidden offset present"
  | ControlMessageWithoutLength => "Control message without required length field"
  | ControlMessageWithoutNsNr => "Control message without required NsNr field"
  | IncompleteControlMessageHeader => "Incomplete control message header"
  | IncompleteControlMessagePayload => "Incomplete control message payload"
  | ControlMessageTypeNotFirst => "First AVP of control message is not MessageType"
  end.

(** Debug name of the AVP variant that decode_avp builds for an attribute number *)
Definition kind_name (a : avp) : string :=
  match a with
  | AMessageType _ => "MessageType" | AResultCode _ _ => "ResultCode"
  | AProtocolVersion _ _ => "ProtocolVersion"
  | A32 k _ => match k with
    | FramingCapabilities => "FramingCapabilities" | BearerCapabilities => "BearerCapabilities"
    | CallSerialNumber => "CallSerialNumber" | MinimumBps => "MinimumBps"
    | MaximumBps => "MaximumBps" | BearerType => "BearerType" | FramingType => "FramingType"
    | TxConnectSpeed => "TxConnectSpeed" | RxConnectSpeed => "RxConnectSpeed" end
  | ATieBreaker _ => "TieBreaker"
  | A16 k _ => match k with
    | FirmwareRevision => "FirmwareRevision" | AssignedTunnelId => "AssignedTunnelId"
    | ReceiveWindowSize => "ReceiveWindowSize" | AssignedSessionId => "AssignedSessionId" end
  | ABytes k _ => match k with
    | HostName => "HostName" | Challenge => "Challenge"
    | InitialReceivedLcpConfReq => "InitialReceivedLcpConfReq"
    | LastSentLcpConfReq => "LastSentLcpConfReq"
    | LastReceivedLcpConfReq => "LastReceivedLcpConfReq"
    | ProxyAuthenName => "ProxyAuthenName" | ProxyAuthenChallenge => "ProxyAuthenChallenge"
    | ProxyAuthenResponse => "ProxyAuthenResponse" | PrivateGroupId => "PrivateGroupId" end
  | AStr k _ => match k with
    | VendorName => "VendorName" | CalledNumber => "CalledNumber"
    | CallingNumber => "CallingNumber" | SubAddress => "SubAddress" end
  | AFix k _ => match k with
    | RandomVector => "RandomVector" | ChallengeResponse => "ChallengeResponse"
    | PhysicalChannelId => "PhysicalChannelId" end
  | AQ931CauseCode _ _ _ => "Q931CauseCode" | AProxyAuthenType _ => "ProxyAuthenType"
  | AProxyAuthenId _ => "ProxyAuthenId" | ACallErrors _ _ _ _ _ _ => "CallErrors"
  | AAccm _ _ => "Accm" | ASequencingRequired => "SequencingRequired"
  | AHidden _ _ => "Hidden"
  end.
