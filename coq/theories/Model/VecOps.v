(** The meaning of the Rust slice / Vec operations that the translator (py/rs2v/vec.py) emits when it regenerates
    SliceReader, VecWriter, AVP::hide and AVP::reveal from the source.  Nothing in the property cones depends on this
    file; it is the target language of that translation, as [prog] is for the decoders.

    - a checked slice/index expression out of range panics; an unchecked one is undefined behaviour;
    - [for i in a..b] runs its body for i = a, a+1, ..., b-1 threading the changed variables; [(a..b).rev()] the same
      downwards. *)
From RL Require Export Model.Hide Base.Md5.

Definition is_nil {A} (l : list A) : bool := match l with [] => true | _ :: _ => false end.

(** &l[..n]   &l[n..]   &l[a..b] *)
Definition v_to (l : list N) (n : N) : outcome (list N) :=
  if n <=? len l then Val (takeN n l) else Panic PkIndex.
Definition v_from (l : list N) (n : N) : outcome (list N) :=
  if n <=? len l then Val (dropN n l) else Panic PkIndex.
Definition v_range (l : list N) (a b : N) : outcome (list N) := slice l a b.
(** l.get(..n) *)
Definition v_get_to (l : list N) (n : N) : option (list N) :=
  if n <=? len l then Some (takeN n l) else None.
(** l.get_unchecked(..n)   l.get_unchecked(i) *)
Definition v_unchecked_to (l : list N) (n : N) : outcome (list N) :=
  if n <=? len l then Val (takeN n l) else UB.
Definition v_unchecked_at (l : list N) (i : N) : outcome N :=
  match dropN i l with x :: _ => Val x | [] => UB end.
(** l[i]   l[i] = x *)
Definition v_at (l : list N) (i : N) : outcome N :=
  match dropN i l with x :: _ => Val x | [] => Panic PkIndex end.
Definition v_set (l : list N) (i x : N) : outcome (list N) :=
  if i <? len l then Val (takeN i l ++ x :: dropN (i + 1) l) else Panic PkIndex.
(** ptr::copy_nonoverlapping(s[soff..].as_ptr(), d[doff..].as_mut_ptr(), n) *)
Definition v_copy (d : list N) (doff : N) (s : list N) (soff n : N) : outcome (list N) :=
  if (soff + n <=? len s) && (doff + n <=? len d)
  then Val (takeN doff d ++ takeN n (dropN soff s) ++ dropN (doff + n) d) else UB.

Fixpoint for_loop {S} (cnt : nat) (i : N) (body : N -> S -> outcome S) (s : S) : outcome S :=
  match cnt with
  | O => Val s
  | S c => obind (body i s) (for_loop c (i + 1) body)
  end.
Definition for_range {S} (a b : N) (body : N -> S -> outcome S) (s : S) : outcome S :=
  for_loop (N.to_nat (b - a)) a body s.
Fixpoint for_loop_rev {S} (cnt : nat) (a : N) (body : N -> S -> outcome S) (s : S) : outcome S :=
  match cnt with
  | O => Val s
  | S c => obind (body (a + N.of_nat c) s) (for_loop_rev c a body)
  end.
Definition for_range_rev {S} (a b : N) (body : N -> S -> outcome S) (s : S) : outcome S :=
  for_loop_rev (N.to_nat (b - a)) a body s.

(** a total view of an outcome known to be a value (used to put a regenerated [fn len(&self)] into a [ReaderImpl]) *)
Definition unval {A} (d : A) (o : outcome A) : A := match o with Val a => a | _ => d end.
