(** The Model decoder computes the Spec, on every octet string: no UB, no Panic,
    no fuel exhaustion.  (C05; C01 and the first half of C02 are corollaries.) *)
From Coq Require Import Lia.
From RL Require Import Model.Decode Spec.SpecDecode Proofs.ReaderLemmas Proofs.RefineAvp Proofs.BytesLemmas.

Lemma fld_takeN k off L r : off + k <= L -> fld k off (takeN L r) = fld k off r.
Proof.
  intros H. unfold fld, octs. rewrite dropN_takeN, takeN_takeN by lia. reflexivity.
Qed.
Lemma octs_takeN k off L r : off + k <= L -> octs k off (takeN L r) = octs k off r.
Proof. intros H. unfold octs. rewrite dropN_takeN, takeN_takeN by lia. reflexivity. Qed.

(** * AVP header *)
Definition hdr_of (r : list N) : avp_header :=
  {| h_flags := N.land (fld 1 0 r) 63; h_payload_length := rec_length r - 6;
     h_vendor := rec_vendor r; h_type := rec_type r |}.

Lemma header_read_short r : len r < 6 -> run header_read r = Val (None, r).
Proof.
  intros H. unfold header_read. rlen.
  replace (len r <? 6) with true by (symmetry; apply N.ltb_lt; lia). reflexivity.
Qed.

Lemma header_read_ok r : bytes_ok r = true -> 6 <= len r ->
  run header_read r =
  Val (Some (if rec_length r <? 6 then Err (InvalidAVPLength (rec_length r)) else Ok (hdr_of r)),
       dropN 6 r).
Proof.
  intros B H. unfold header_read. rlen.
  replace (len r <? 6) with false by (symmetry; apply N.ltb_ge; lia).
  ru8. ru8. ru16. ru16. rewrite !dropN_dropN. nsimp.
  assert (EL : N.lor (N.shiftl (N.shiftr (be_val 0 (takeN 1 r)) 6) 8) (be_val 0 (takeN 1 (dropN 1 r)))
               = rec_length r).
  { unfold rec_length. rewrite avp_length_bits.
    - unfold fld, octs. rewrite dropN_0. reflexivity.
    - change (be_val 0 (takeN 1 r)) with (be_val 0 (takeN 1 (dropN 0 r))). apply (fld1_lt 1 0 r B). lia.
    - apply (fld1_lt 1 1 r B). lia. }
  rewrite EL. destruct (rec_length r <? 6) eqn:E6; [reflexivity|].
  unfold usub. replace (6 <=? rec_length r) with true by (symmetry; apply N.leb_le; grd; lia).
  rb. reflexivity.
Qed.

(** * greedy list *)
Lemma greedy_refines fuel : forall r, bytes_ok r = true -> (length r < fuel)%nat ->
  run (greedy fuel) r = Val (s_avps_n fuel r).
Proof.
  induction fuel as [|fuel IH]; intros r B F; [lia|].
  cbn [greedy s_avps_n]. rb.
  destruct (len r <? 6) eqn:E6.
  - rewrite header_read_short by (grd; lia). reflexivity.
  - rewrite header_read_ok by (grd; auto; lia). cbn [obind].
    destruct (rec_length r <? 6) eqn:EL; [reflexivity|].
    rlen. cbn [hdr_of h_payload_length h_vendor h_type h_flags]. rewrite len_dropN.
    assert (Hl : (len r - 6 <? rec_length r - 6) = (len r <? rec_length r)).
    { grd. destruct (len r <? rec_length r) eqn:X; grd; [apply N.ltb_lt | apply N.ltb_ge]; lia. }
    rewrite Hl. destruct (len r <? rec_length r) eqn:ER; [reflexivity|].
    assert (BD : bytes_ok (dropN (rec_length r) r) = true) by (apply bytes_ok_dropN, B).
    assert (FD : (length (dropN (rec_length r) r) < fuel)%nat).
    { unfold dropN. rewrite skipn_length. grd. unfold len in *. lia. }
    specialize (IH _ BD FD).
    assert (DD : dropN (rec_length r - 6) (dropN 6 r) = dropN (rec_length r) r).
    { rewrite dropN_dropN. f_equal. grd. lia. }
    unfold s_record.
    assert (RV : rec_vendor (takeN (rec_length r) r) = rec_vendor r)
      by (unfold rec_vendor; apply fld_takeN; grd; lia).
    assert (RT : rec_type (takeN (rec_length r) r) = rec_type r)
      by (unfold rec_type; apply fld_takeN; grd; lia).
    assert (RH : rec_hidden (takeN (rec_length r) r) = rec_hidden r)
      by (unfold rec_hidden; rewrite fld_takeN by (grd; lia); reflexivity).
    assert (PL : dropN 6 (takeN (rec_length r) r) = takeN (rec_length r - 6) (dropN 6 r))
      by apply dropN_takeN.
    rewrite RV, RT, RH, PL.
    destruct (negb (rec_vendor r =? 0)) eqn:EV.
    + rskip. rewrite DD. rb. rewrite IH. cbn [obind].
      destruct (s_avps_n fuel _) as [xs tl]. reflexivity.
    + rewrite hidden_bit. unfold rec_hidden. destruct (N.testbit (fld 1 0 r) 1) eqn:EH.
      * rbytes. rewrite DD. rb. rewrite IH. cbn [obind].
        destruct (s_avps_n fuel _) as [xs tl]. reflexivity.
      * rb. rewrite run_sub_ by (grd; lens).
        destruct (decode_avp_refines (rec_type r) (takeN (rec_length r - 6) (dropN 6 r))) as [r' Hr].
        rewrite Hr. cbn [obind]. rewrite DD. rb. rewrite IH. cbn [obind].
        destruct (s_avps_n fuel _) as [xs tl]. reflexivity.
Qed.

Theorem avps_refines r : bytes_ok r = true -> m_avps r = Val (s_avps r).
Proof.
  intros B. unfold m_avps, avps_read, s_avps. rlen.
  unfold len. rewrite Nnat.Nat2N.id. apply greedy_refines; [assumption|lia].
Qed.

(** * control message *)
Definition lift_ctrl (x : sres) : result (list derr) ctrl_msg * list N -> Prop :=
  fun '(r, rest) =>
    match x, r with
    | Ok (Control m, tl), Ok m' => m = m' /\ rest = tl
    | Err es, Err es' => es = es'
    | _, _ => False
    end.

Lemma first_ok_eq rs : first_ok rs = s_first_ok rs.
Proof. reflexivity. Qed.

Lemma ctrl_refines o b : bytes_ok b = true -> 2 <= len b ->
  exists x, run (ctrl_read (fld 2 0 b) o) (dropN 2 b) = Val x /\ lift_ctrl (s_ctrl o b) x.
Proof.
  intros B H2. unfold ctrl_read, s_ctrl. change first_ok with s_first_ok.
  change (f_is_prioritized (fld 2 0 b)) with (fw_P (fld 2 0 b)).
  change (f_has_offset (fld 2 0 b)) with (fw_O (fld 2 0 b)).
  change (f_has_length (fld 2 0 b)) with (fw_L (fld 2 0 b)).
  change (f_has_ns_nr (fld 2 0 b)) with (fw_S (fld 2 0 b)).
  destruct (v_unused o && fw_P (fld 2 0 b)); [eexists; split; [reflexivity|reflexivity]|].
  destruct (v_unused o && fw_O (fld 2 0 b)); [eexists; split; [reflexivity|reflexivity]|].
  destruct (negb (fw_L (fld 2 0 b))); [eexists; split; [reflexivity|reflexivity]|].
  destruct (negb (fw_S (fld 2 0 b))); [eexists; split; [reflexivity|reflexivity]|].
  rlen. rewrite len_dropN.
  assert (E10 : (len b - 2 <? 10) = (len b <? 12)).
  { destruct (len b <? 12) eqn:X; grd; [apply N.ltb_lt | apply N.ltb_ge]; lia. }
  rewrite E10. destruct (len b <? 12) eqn:E12; [eexists; split; [reflexivity|reflexivity]|].
  ru16. ru16. ru16. ru16. ru16. rewrite !dropN_dropN. nsimp.
  change (be_val 0 (takeN 2 (dropN 2 b))) with (fld 2 2 b).
  change (be_val 0 (takeN 2 (dropN 4 b))) with (fld 2 4 b).
  change (be_val 0 (takeN 2 (dropN 6 b))) with (fld 2 6 b).
  change (be_val 0 (takeN 2 (dropN 8 b))) with (fld 2 8 b).
  change (be_val 0 (takeN 2 (dropN 10 b))) with (fld 2 10 b).
  destruct (fld 2 2 b <? 12) eqn:EL; [eexists; split; [reflexivity|reflexivity]|].
  rlen. rewrite len_dropN.
  assert (EP : (len b - 12 + 12 <? fld 2 2 b) = (len b <? fld 2 2 b)).
  { replace (len b - 12 + 12) with (len b) by (grd; lia). reflexivity. }
  rewrite EP. destruct (len b <? fld 2 2 b) eqn:ELb; [eexists; split; [reflexivity|reflexivity]|].
  unfold usub. replace (12 <=? fld 2 2 b) with true by (symmetry; apply N.leb_le; grd; lia).
  rb. rewrite run_ret. cbn [obind]. rb. rewrite run_sub_ by (grd; lens).
  pose proof (avps_refines (takeN (fld 2 2 b - 12) (dropN 12 b))
                (bytes_ok_takeN _ _ (bytes_ok_dropN 12 _ B))) as HA.
  unfold m_avps in HA. rewrite HA. cbn [obind]. unfold octs.
  destruct (s_avps (takeN (fld 2 2 b - 12) (dropN 12 b))) as [rs tl]. cbn [fst].
  assert (DD : dropN (fld 2 2 b - 12) (dropN 12 b) = dropN (fld 2 2 b) b).
  { rewrite dropN_dropN. f_equal. grd. lia. }
  rewrite DD. cbn [obind].
  destruct (negb (s_first_ok rs)); [eexists; split; [reflexivity|reflexivity]|].
  destruct (existsb is_err rs); [eexists; split; [reflexivity|reflexivity]|].
  eexists; split; [reflexivity|]. cbn. split; reflexivity.
Qed.

(** * data message *)
Ltac step1 := first
 [ rewrite run_bind; cbn [obind]
 | rewrite run_ret; cbn [obind]
 | rewrite run_len_; cbn [obind]
 | rewrite run_u16_ by (grd; lens); cbn [obind]
 | rewrite run_skip_ by (grd; lens); cbn [obind]
 | rewrite run_bytes_ok by (grd; lens); cbn [obind]
 | progress (rewrite ?dropN_dropN, ?len_dropN; nsimp)
 | match goal with
   | |- context [usub ?a ?b] =>
     unfold usub; replace (b <=? a) with true by (symmetry; apply N.leb_le; grd; lia)
   end ].
Ltac refld :=
  repeat match goal with
         | |- context [be_val 0 (takeN ?k (dropN ?o ?l))] =>
           change (be_val 0 (takeN k (dropN o l))) with (fld k o l)
         end.
Ltac steps := repeat step1; refld.

Definition lift_data (x : result derr (message * list N)) : dres data_msg * list N -> Prop :=
  fun '(r, rest) =>
    match x, r with
    | Ok (Data d, tl), Ok d' => d = d' /\ rest = tl
    | Err e, Err e' => e = e'
    | _, _ => False
    end.

Ltac gd :=
  match goal with
  | |- context [run (if ?a <? ?b then _ else _) _] => destruct (a <? b) eqn:?
  | |- context [lift_data (if ?a <? ?b then _ else _) _] => destruct (a <? b) eqn:?
  | |- context [lift_data (match (if ?a <? ?b then _ else _) with Ok _ => _ | Err _ => _ end) _] =>
    destruct (a <? b) eqn:?
  | |- context [run (if ?a =? ?b then _ else _) _] => destruct (a =? b) eqn:?
  | |- context [lift_data (if ?a =? ?b then _ else _) _] => destruct (a =? b) eqn:?
  end; try (exfalso; grd; lia).

Lemma data_refines b : bytes_ok b = true -> 2 <= len b ->
  exists x, run (data_read (fld 2 0 b)) (dropN 2 b) = Val x /\ lift_data (s_data b) x.
Proof.
  intros B H2. unfold data_read, s_data.
  change (f_is_prioritized (fld 2 0 b)) with (fw_P (fld 2 0 b)).
  change (f_has_offset (fld 2 0 b)) with (fw_O (fld 2 0 b)).
  change (f_has_length (fld 2 0 b)) with (fw_L (fld 2 0 b)).
  change (f_has_ns_nr (fld 2 0 b)) with (fw_S (fld 2 0 b)).
  destruct (fw_L (fld 2 0 b)), (fw_S (fld 2 0 b)), (fw_O (fld 2 0 b)); cbv beta iota zeta; nsimp.
  all: rlen; rewrite len_dropN.
  all: steps.
  all: repeat (gd; steps).
  all: unfold octs; eexists; (split; [reflexivity|]); cbn [lift_data]; try reflexivity;
    try (split; reflexivity).
Qed.

(** * message *)
Definition obs_of (x : mres * list N) : sres :=
  match x with
  | (Ok m, rest) => Ok (m, rest)
  | (Err es, _) => Err es
  end.

Theorem decode_refines o b : bytes_ok b = true ->
  exists x, m_decode o b = Val x /\ obs_of x = s_decode o b.
Proof.
  intros B. unfold m_decode, msg_read, s_decode, flags_read.
  rb. rb. rewrite run_len_. cbn [obind].
  destruct (len b <? 2) eqn:E2.
  - rewrite run_ret. cbn [obind]. eexists; split; reflexivity.
  - rb. rewrite run_u16_ by (grd; lia). cbn [obind]. rewrite run_ret. cbn [obind].
    change (be_val 0 (takeN 2 b)) with (fld 2 0 b).
    rewrite version_bits. rewrite (reserved_bits (fld 2 0 b)) by (apply fld2_lt, B).
    destruct (v_version o && negb (fw_version (fld 2 0 b) =? 2)); [eexists; split; reflexivity|].
    destruct (v_reserved o && negb (fw_reserved_clear (fld 2 0 b))); [eexists; split; reflexivity|].
    change (f_is_control (fld 2 0 b)) with (fw_T (fld 2 0 b)).
    assert (H2 : 2 <= len b) by (grd; lia).
    destruct (fw_T (fld 2 0 b)).
    + destruct (ctrl_refines o b B H2) as [[r rest] [Hr Hl]]. rb. rewrite Hr. cbn [obind].
      unfold lift_ctrl in Hl. destruct (s_ctrl o b) as [[[m|d] tl]|es]; destruct r as [m'|es'];
        try contradiction.
      * destruct Hl as [-> ->].
        rewrite run_ret. eexists; split; reflexivity.
      * subst es'. rewrite run_ret. eexists; split; reflexivity.
    + destruct (data_refines b B H2) as [[r rest] [Hr Hl]]. rb. rewrite Hr. cbn [obind].
      unfold lift_data in Hl. destruct (s_data b) as [[[m|d] tl]|e]; destruct r as [d'|e'];
        try contradiction.
      * destruct Hl as [-> ->].
        rewrite run_ret. eexists; split; reflexivity.
      * subst e'. rewrite run_ret. eexists; split; reflexivity.
Qed.
