(** Reader parametricity: a decoder program run on ANY implementation of the
    Reader trait that honours the contract returns what the list reader
    returns, provided the list-reader run stays inside the contract (returns
    [Val]).  Outside their preconditions the operations of the implementation
    are unconstrained, so this is provable only because a [Val] run never
    issues an out-of-contract call.  One induction over programs. *)
From Coq Require Import Lia.
From RL Require Import Model.Reader Proofs.ReaderLemmas.

Record Conforms (I : ReaderImpl) : Type := {
  repr : R I -> list N;
  c_len : forall r, r_len I r = len (repr r);
  c_is_empty : forall r, r_is_empty I r = match repr r with [] => true | _ => false end;
  c_u8 : forall r, 1 <= len (repr r) ->
    exists r', r_u8 I r = Val (be_val 0 (takeN 1 (repr r)), r') /\ repr r' = dropN 1 (repr r);
  c_u16 : forall r, 2 <= len (repr r) ->
    exists r', r_u16 I r = Val (be_val 0 (takeN 2 (repr r)), r') /\ repr r' = dropN 2 (repr r);
  c_u32 : forall r, 4 <= len (repr r) ->
    exists r', r_u32 I r = Val (be_val 0 (takeN 4 (repr r)), r') /\ repr r' = dropN 4 (repr r);
  c_u64 : forall r, 8 <= len (repr r) ->
    exists r', r_u64 I r = Val (be_val 0 (takeN 8 (repr r)), r') /\ repr r' = dropN 8 (repr r);
  c_bytes : forall n r,
    exists r', r_bytes I n r =
               Val (if n <=? len (repr r) then Some (takeN n (repr r)) else None, r')
               /\ repr r' = if n <=? len (repr r) then dropN n (repr r) else repr r;
  c_skip : forall n r, n <= len (repr r) ->
    exists r', r_skip I n r = Val r' /\ repr r' = dropN n (repr r);
  c_sub : forall n r, n <= len (repr r) ->
    exists s r', r_sub I n r = Val (s, r') /\ repr s = takeN n (repr r) /\ repr r' = dropN n (repr r)
}.
Arguments repr {I} _ _.

Lemma lr_read_val k l x l' : lr_read k l = Val (x, l') ->
  N.of_nat k <= len l /\ x = be_val 0 (takeN (N.of_nat k) l) /\ l' = dropN (N.of_nat k) l.
Proof.
  intros H. destruct (N.le_gt_cases (N.of_nat k) (len l)) as [Hle|Hgt].
  - rewrite lr_read_ok in H by assumption. inversion H. auto.
  - rewrite lr_read_short in H by lia. discriminate.
Qed.

Theorem grun_conforms I (C : Conforms I) A (p : prog A) :
  forall r a l', run p (repr C r) = Val (a, l') ->
  exists r', grun I p r = Val (a, r') /\ repr C r' = l'.
Proof.
  induction p as [A a|A k|A|A k IH|A k IH|A k IH|A k IH|A k IH|A k IH|A n k IH|A n k IH|A B n q IHq k IH];
    intros r a0 l' H; cbn [run grun] in *.
  - inversion H; subst. eexists; split; reflexivity.
  - discriminate.
  - discriminate.
  - rewrite (c_len I C). apply IH, H.
  - rewrite (c_is_empty I C). apply IH, H.
  - destruct (lr_read 1 (repr C r)) as [[x l1]| | |] eqn:E; try discriminate. cbn [obind] in H.
    apply lr_read_val in E. destruct E as [Hle [-> ->]].
    destruct (c_u8 I C r Hle) as [r1 [E1 R1]]. rewrite E1. cbn [obind].
    apply IH. rewrite R1. exact H.
  - destruct (lr_read 2 (repr C r)) as [[x l1]| | |] eqn:E; try discriminate. cbn [obind] in H.
    apply lr_read_val in E. destruct E as [Hle [-> ->]].
    destruct (c_u16 I C r Hle) as [r1 [E1 R1]]. rewrite E1. cbn [obind].
    apply IH. rewrite R1. exact H.
  - destruct (lr_read 4 (repr C r)) as [[x l1]| | |] eqn:E; try discriminate. cbn [obind] in H.
    apply lr_read_val in E. destruct E as [Hle [-> ->]].
    destruct (c_u32 I C r Hle) as [r1 [E1 R1]]. rewrite E1. cbn [obind].
    apply IH. rewrite R1. exact H.
  - destruct (lr_read 8 (repr C r)) as [[x l1]| | |] eqn:E; try discriminate. cbn [obind] in H.
    apply lr_read_val in E. destruct E as [Hle [-> ->]].
    destruct (c_u64 I C r Hle) as [r1 [E1 R1]]. rewrite E1. cbn [obind].
    apply IH. rewrite R1. exact H.
  - destruct (c_bytes I C n r) as [r1 [E1 R1]]. rewrite E1. cbn [obind].
    destruct (n <=? len (repr C r)); apply IH; rewrite R1; exact H.
  - destruct (n <=? len (repr C r)) eqn:E; [|discriminate]. apply N.leb_le in E.
    destruct (c_skip I C n r E) as [r1 [E1 R1]]. rewrite E1. cbn [obind].
    apply IH. rewrite R1. exact H.
  - destruct (n <=? len (repr C r)) eqn:E; [|discriminate]. apply N.leb_le in E.
    destruct (c_sub I C n r E) as [s [r1 [E1 [Rs R1]]]]. rewrite E1. cbn [obind].
    destruct (run q (takeN n (repr C r))) as [[b lq]| | |] eqn:Eq; try discriminate.
    cbn [obind] in H. rewrite <- Rs in Eq.
    destruct (IHq s b lq Eq) as [s' [Es _]]. rewrite Es. cbn [obind].
    apply IH. rewrite R1. exact H.
Qed.

(** The list reader itself conforms (non-vacuity of [Conforms]). *)
Definition ListReader_conforms : Conforms ListReader.
Proof.
  refine {| repr := fun l : R ListReader => l |}; cbn [ListReader r_len r_is_empty r_u8 r_u16 r_u32 r_u64 r_bytes r_skip r_sub R].
  - reflexivity.
  - reflexivity.
  - intros r H. eexists; split; [apply (lr_read_ok 1); exact H|reflexivity].
  - intros r H. eexists; split; [apply (lr_read_ok 2); exact H|reflexivity].
  - intros r H. eexists; split; [apply (lr_read_ok 4); exact H|reflexivity].
  - intros r H. eexists; split; [apply (lr_read_ok 8); exact H|reflexivity].
  - intros n r. destruct (n <=? len r); eexists; split; reflexivity.
  - intros n r H. replace (n <=? len r) with true by (symmetry; apply N.leb_le; exact H).
    eexists; split; reflexivity.
  - intros n r H. replace (n <=? len r) with true by (symmetry; apply N.leb_le; exact H).
    eexists; eexists; split; [reflexivity|split; reflexivity].
Defined.
