(** SliceReader (list reader) refines the reference cursor for every operation
    sequence whose preconditions hold; VecWriter is a plain vector (C18). *)
From Coq Require Import Lia.
From RL Require Import Model.Reader Model.Encode Model.Ops Spec.SpecDecode Spec.SpecCursor
  Proofs.ReaderLemmas Proofs.RefineAvp.

Lemma c_op_sub_go n pos d ops p :
  (fix go (l : list rop) (p : N) : option (list obs * N) :=
     match l with
     | [] => Some ([], p)
     | o :: t =>
       match c_op o (octs n pos d) p with
       | Some (a, p') =>
         match go t p' with Some (r, p'') => Some (a :: r, p'') | None => None end
       | None => None
       end
     end) ops p = c_ops ops (octs n pos d) p.
Proof.
  revert p. induction ops as [|o t IH]; intros p; [reflexivity|]. cbn [c_ops].
  destruct (c_op o (octs n pos d) p) as [[a p']|]; [|reflexivity]. rewrite IH. reflexivity.
Qed.

Lemma rop_prog_sub_go ops :
  (fix go (l : list rop) : prog (list obs) :=
     match l with
     | [] => Ret []
     | o :: t => a <- rop_prog o ;; r <- go t ;; Ret (a :: r)
     end) ops = rops_prog ops.
Proof. induction ops as [|o t IH]; [reflexivity|]. cbn [rops_prog]. rewrite IH. reflexivity. Qed.

Definition op_ok (o : rop) : Prop :=
  forall d pos a pos', pos <= len d -> c_op o d pos = Some (a, pos') ->
  run (rop_prog o) (dropN pos d) = Val (a, dropN pos' d) /\ pos' <= len d.

Lemma ops_ok_of l : Forall op_ok l ->
  forall d pos r pos', pos <= len d -> c_ops l d pos = Some (r, pos') ->
  run (rops_prog l) (dropN pos d) = Val (r, dropN pos' d) /\ pos' <= len d.
Proof.
  induction 1 as [|o t Ho Ht IH]; intros d pos r pos' L E; cbn [c_ops rops_prog] in *.
  - inversion E; subst. split; [reflexivity|exact L].
  - destruct (c_op o d pos) as [[a p1]|] eqn:E1; [|discriminate].
    destruct (c_ops t d p1) as [[r1 p2]|] eqn:E2; [|discriminate]. inversion E; subst.
    destruct (Ho d pos a p1 L E1) as [R1 L1]. destruct (IH d p1 r1 pos' L1 E2) as [R2 L2].
    rb. rewrite R1. cbn [obind]. rb. rewrite R2. cbn [obind]. split; [reflexivity|exact L2].
Qed.

Ltac rd_case k :=
  match goal with E : (if ?c then _ else _) = Some _ |- _ =>
    destruct c eqn:G; [|discriminate]; inversion E; subst; apply N.leb_le in G end;
  rb; first [rewrite run_u8_ by (rewrite len_dropN; lia)
            | rewrite run_u16_ by (rewrite len_dropN; lia)
            | rewrite run_u32_ by (rewrite len_dropN; lia)
            | rewrite run_u64_ by (rewrite len_dropN; lia)];
  cbn [obind]; rewrite dropN_dropN; split; [reflexivity|lia].

Theorem rop_refines : forall o, op_ok o.
Proof.
  fix IH 1. intros o. destruct o as [| | | | | |n|n|n ops]; unfold op_ok; intros d pos a pos' L E; cbn [c_op rop_prog] in *.
  - inversion E; subst. rb. rewrite run_len_. cbn [obind]. rewrite len_dropN. split; [reflexivity|exact L].
  - inversion E; subst. rb. rewrite run_is_empty_. cbn [obind]. rewrite len_dropN. split; [reflexivity|exact L].
  - rd_case 1.
  - rd_case 2.
  - rd_case 4.
  - rd_case 8.
  - destruct (pos + n <=? len d) eqn:G; inversion E; subst.
    + apply N.leb_le in G. rb. rewrite run_bytes_ok by (rewrite len_dropN; lia). cbn [obind].
      rewrite dropN_dropN. split; [reflexivity|lia].
    + apply N.leb_gt in G. rb. rewrite run_bytes_. rewrite len_dropN.
      match goal with |- context [n <=? ?x] => replace (n <=? x) with false by (symmetry; apply N.leb_gt; lia) end. cbn [obind].
      split; [reflexivity|exact L].
  - destruct (pos + n <=? len d) eqn:G; [|discriminate]. inversion E; subst. apply N.leb_le in G.
    rb. rewrite run_skip_ by (rewrite len_dropN; lia). cbn [obind]. rewrite dropN_dropN.
    split; [reflexivity|lia].
  - destruct (pos + n <=? len d) eqn:G; [|discriminate]. apply N.leb_le in G.
    rewrite c_op_sub_go in E. rewrite rop_prog_sub_go.
    destruct (c_ops ops (octs n pos d) 0) as [[r p]|] eqn:E1; [|discriminate]. inversion E; subst.
    assert (F : Forall op_ok ops).
    { clear - IH. induction ops as [|x t IHt]; constructor; [apply IH|exact IHt]. }
    destruct (ops_ok_of ops F (octs n pos d) 0 r p ltac:(lia) E1) as [R _].
    rewrite dropN_0 in R.
    rb. rewrite run_sub_ by (rewrite len_dropN; lia). unfold octs in R. rewrite R. cbn [obind].
    rewrite dropN_dropN. split; [reflexivity|lia].
Qed.

Theorem reader_refines_cursor ops d pos r pos' : pos <= len d ->
  c_ops ops d pos = Some (r, pos') ->
  run_rops ops (dropN pos d) = Val (r, dropN pos' d) /\ pos' <= len d.
Proof.
  intros L E. unfold run_rops. apply ops_ok_of; try assumption.
  clear. induction ops as [|o t IH]; constructor; [apply rop_refines|exact IH].
Qed.

(** bytes(n) with n beyond what remains returns None and does not move (D4) *)
Theorem bytes_too_long n l : len l < n -> run (bytes_ n) l = Val (None, l).
Proof.
  intros H. rewrite run_bytes_. replace (n <=? len l) with false by (symmetry; apply N.leb_gt; lia). reflexivity.
Qed.

(** * the writer *)
Theorem writer_is_vector o w :
  wop_step w o =
  match o with
  | WU8 x => Val ({| w_data := w_data w ++ [x mod 256]; w_log := w_log w |}, None)
  | WU16 x => Val ({| w_data := w_data w ++ be16 x; w_log := w_log w |}, None)
  | WU32 x => Val ({| w_data := w_data w ++ be32 x; w_log := w_log w |}, None)
  | WU64 x => Val ({| w_data := w_data w ++ be64 x; w_log := w_log w |}, None)
  | WBytes b => Val ({| w_data := w_data w ++ b; w_log := w_log w |}, None)
  | WBytesAt b off =>
    match vec_at (w_data w) b off with
    | Some d => Val ({| w_data := d; w_log := w_log w ++ [(off, len b, len (w_data w))] |}, None)
    | None => Panic PkAssert
    end
  | WLen => Val (w, Some (ONum (len (w_data w))))
  | WIsEmpty => Val (w, Some (OBool (len (w_data w) =? 0)))
  end.
Proof.
  destruct o; cbn [wop_step]; try reflexivity.
  - unfold w_bytes_at, vec_at, w_len. destruct (off + len b <=? len (w_data w)); reflexivity.
  - rewrite is_nil_len. reflexivity.
Qed.

Theorem overwrite_keeps_length buf bs off d : vec_at buf bs off = Some d -> len d = len buf.
Proof.
  unfold vec_at. destruct (off + len bs <=? len buf) eqn:G; [|discriminate]. apply N.leb_le in G.
  intros E. inversion E; subst. rewrite !len_app, len_takeN, len_dropN. lia.
Qed.

Theorem overwrite_refused buf bs off : len buf < off + len bs -> vec_at buf bs off = None.
Proof.
  intros H. unfold vec_at. replace (off + len bs <=? len buf) with false by (symmetry; apply N.leb_gt; lia).
  reflexivity.
Qed.
