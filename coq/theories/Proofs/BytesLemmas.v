(** Facts about octets: ranges of big-endian fields, the 10-bit AVP length,
    flag-word views.  Finite facts are proved by exhaustive evaluation
    ([forallb ... = true] by vm_compute, lifted with [forallb_forall]); the bound
    is in each statement. *)
From Coq Require Import Lia.
From RL Require Import Model.Decode Spec.SpecDecode Proofs.ReaderLemmas.

Lemma bytes_ok_app a b : bytes_ok (a ++ b) = bytes_ok a && bytes_ok b.
Proof. apply forallb_app. Qed.
Lemma bytes_ok_takeN n l : bytes_ok l = true -> bytes_ok (takeN n l) = true.
Proof.
  intros H. rewrite <- (takeN_dropN n l), bytes_ok_app in H.
  apply andb_prop in H. tauto.
Qed.
Lemma bytes_ok_dropN n l : bytes_ok l = true -> bytes_ok (dropN n l) = true.
Proof.
  intros H. rewrite <- (takeN_dropN n l), bytes_ok_app in H.
  apply andb_prop in H. tauto.
Qed.
Lemma bytes_ok_octs k off l : bytes_ok l = true -> bytes_ok (octs k off l) = true.
Proof. intros. apply bytes_ok_takeN, bytes_ok_dropN; assumption. Qed.

Lemma be_val_bound l : forall acc, bytes_ok l = true ->
  be_val acc l < (acc + 1) * 256 ^ len l.
Proof.
  induction l as [|b t IH]; intros acc H.
  - cbn [be_val]. rewrite len_nil. change (256 ^ 0) with 1. lia.
  - cbn [be_val]. cbn [bytes_ok forallb] in H. apply andb_prop in H. destruct H as [Hb Ht].
    unfold byte_ok in Hb. apply N.ltb_lt in Hb.
    specialize (IH (256 * acc + b) Ht). rewrite len_cons.
    rewrite N.pow_add_r. change (256 ^ 1) with 256. nia.
Qed.

Lemma fld1_lt k off l : bytes_ok l = true -> k <= 1 -> fld k off l < 256.
Proof.
  intros H Hk. unfold fld. pose proof (be_val_bound (octs k off l) 0 (bytes_ok_octs _ _ _ H)) as B.
  assert (len (octs k off l) <= 1) by (unfold octs; rewrite len_takeN; lia).
  assert (256 ^ len (octs k off l) <= 256 ^ 1) by (apply N.pow_le_mono_r; lia).
  change (256 ^ 1) with 256 in *. lia.
Qed.
Lemma fld2_lt off l : bytes_ok l = true -> fld 2 off l < 65536.
Proof.
  intros H. unfold fld. pose proof (be_val_bound (octs 2 off l) 0 (bytes_ok_octs _ _ _ H)) as B.
  assert (len (octs 2 off l) <= 2) by (unfold octs; rewrite len_takeN; lia).
  assert (256 ^ len (octs 2 off l) <= 256 ^ 2) by (apply N.pow_le_mono_r; lia).
  change (256 ^ 2) with 65536 in *. lia.
Qed.

(** enumeration of a finite range, by binary iteration (no unary numbers) *)
Definition nrange_step (p : N * list N) : N * list N := (fst p + 1, fst p :: snd p).
Definition upto (n : N) : list N := snd (N.iter n nrange_step (0, [])).
Lemma upto_spec n :
  fst (N.iter n nrange_step (0, [])) = n /\
  forall x, x < n -> In x (snd (N.iter n nrange_step (0, []))).
Proof.
  induction n as [|n [IH1 IH2]] using N.peano_ind.
  - split; [reflexivity|]. intros x Hx. lia.
  - rewrite N.iter_succ. unfold nrange_step at 1 3. cbn [fst snd]. rewrite IH1. split; [lia|].
    intros x Hx. destruct (N.eq_dec x n) as [->|Hne]; [left; reflexivity|].
    right. apply IH2. lia.
Qed.
Lemma forall_upto (P : N -> bool) n :
  forallb P (upto n) = true -> forall x, x < n -> P x = true.
Proof. intros H x Hx. rewrite forallb_forall in H. apply H. apply upto_spec, Hx. Qed.

(** 10-bit AVP length: (octet0 >> 6) << 8 | octet1, for octets *)
Lemma avp_length_bits o1 o2 : o1 < 256 -> o2 < 256 ->
  N.lor (N.shiftl (N.shiftr o1 6) 8) o2 = 256 * (o1 / 64) + o2.
Proof.
  intros H1 H2.
  assert (E : forallb (fun a => forallb (fun b =>
              N.lor (N.shiftl (N.shiftr a 6) 8) b =? 256 * (a / 64) + b) (upto 256)) (upto 256) = true)
    by (vm_compute; reflexivity).
  pose proof (forall_upto _ _ E o1 H1) as E1. cbv beta in E1.
  pose proof (forall_upto _ _ E1 o2 H2) as E2. cbv beta in E2.
  apply N.eqb_eq in E2. exact E2.
Qed.

Lemma hidden_bit o1 : N.testbit (N.land o1 63) 1 = N.testbit o1 1.
Proof. rewrite N.land_spec. change (N.testbit 63 1) with true. apply andb_true_r. Qed.

(** flag word: version nibble and reserved-bit test, for 16-bit words *)
Lemma version_bits w : f_version w = fw_version w.
Proof.
  unfold f_version, fw_version. rewrite N.shiftr_div_pow2. change (2 ^ 4) with 16.
  change 15 with (N.ones 4). rewrite N.land_ones. reflexivity.
Qed.
Lemma reserved_bits w : w < 65536 -> f_reserved_ok w = fw_reserved_clear w.
Proof.
  intros H.
  assert (E : forallb (fun w => Bool.eqb (f_reserved_ok w) (fw_reserved_clear w)) (upto 65536) = true)
    by (vm_compute; reflexivity).
  pose proof (forall_upto _ _ E w H) as E1. cbv beta in E1.
  apply Bool.eqb_prop in E1. exact E1.
Qed.
