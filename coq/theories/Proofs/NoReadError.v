(** The decoder never reports [AVPReadError] or [MessageReadError]: those variants guard the
    [Option] returned by [reader.bytes(n)], and the decoder asks [bytes] only for octets that
    remain.  Proved on the Spec and transported by the refinement. *)
From Coq Require Import Lia.
From RL Require Import Model.Decode Spec.SpecDecode Proofs.RefineDecode Proofs.Totality.

Definition is_read_error (e : derr) : bool :=
  match e with AVPReadError _ => true | MessageReadError => true | _ => false end.

Definition res_clean (r : dres avp) : bool :=
  match r with Err e => negb (is_read_error e) | Ok _ => true end.

Lemma s_text_clean t p mk : res_clean (s_text t p mk) = true.
Proof. unfold s_text. destruct (utf8_valid p); reflexivity. Qed.

Lemma s_shape_clean t sh p : res_clean (s_shape t sh p) = true.
Proof.
  destruct sh; cbn [s_shape];
    repeat match goal with
           | |- res_clean (if ?c then _ else _) = true => destruct c
           | |- res_clean (match ?x with Some _ => _ | None => _ end) = true => destruct x
           end; try reflexivity; apply s_text_clean.
Qed.

Lemma s_payload_clean t p : res_clean (s_payload t p) = true.
Proof. unfold s_payload. destruct (shape_of t); [apply s_shape_clean | reflexivity]. Qed.

Lemma s_record_clean r : res_clean (s_record r) = true.
Proof.
  unfold s_record. destruct (negb _); [reflexivity|]. destruct (rec_hidden r); [reflexivity|].
  apply s_payload_clean.
Qed.

Lemma s_avps_n_clean n : forall r, forallb res_clean (fst (s_avps_n n r)) = true.
Proof.
  induction n as [|n IH]; intros r; cbn [s_avps_n]; [reflexivity|].
  destruct (len r <? 6); [reflexivity|].
  destruct (rec_length r <? 6); [reflexivity|].
  destruct (len r <? rec_length r); [reflexivity|].
  specialize (IH (dropN (rec_length r) r)).
  destruct (s_avps_n n (dropN (rec_length r) r)) as [xs tl]. cbn [fst forallb] in *.
  rewrite s_record_clean, IH. reflexivity.
Qed.

Lemma errs_of_clean (rs : list (dres avp)) : forallb res_clean rs = true ->
  forallb (fun e => negb (is_read_error e)) (errs_of rs) = true.
Proof.
  induction rs as [|[a|e] t IH]; cbn [forallb errs_of res_clean]; intros H.
  - reflexivity.
  - apply IH, H.
  - apply andb_prop in H. destruct H as [H1 H2]. rewrite H1, (IH H2). reflexivity.
Qed.

Lemma s_data_clean b e : s_data b = Err e -> is_read_error e = false.
Proof.
  unfold s_data.
  repeat match goal with |- context [if ?c then _ else _] => destruct c end;
    intros H; inversion H; reflexivity.
Qed.

Theorem s_decode_no_read_error o b es : s_decode o b = Err es ->
  forallb (fun e => negb (is_read_error e)) es = true.
Proof.
  unfold s_decode, s_ctrl.
  repeat match goal with
         | |- (if ?c then _ else _) = _ -> _ => destruct c
         | |- (match (if ?c then _ else _) with _ => _ end) = _ -> _ => destruct c
         | |- (match s_data ?b with _ => _ end) = _ -> _ =>
           let E := fresh "E" in destruct (s_data b) as [x|e] eqn:E; [|apply s_data_clean in E]
         end; intros H; inversion H; subst; try reflexivity.
  all: try (cbn [forallb]; rewrite E; reflexivity).
  all: try (apply errs_of_clean, s_avps_n_clean).
Qed.

Theorem decode_no_read_error o b : bytes_ok b = true ->
  forall es rest, m_decode o b = Val (Err es, rest) ->
  forallb (fun e => negb (is_read_error e)) es = true.
Proof.
  intros B es rest H. destruct (decode_refines o b B) as [[r rest'] [Hm Ho]].
  rewrite Hm in H. inversion H; subst. cbn [obs_of] in Ho. symmetry in Ho.
  apply (s_decode_no_read_error o b es Ho).
Qed.

Theorem avps_no_read_error b : bytes_ok b = true ->
  forall l rest, m_avps b = Val (l, rest) -> forallb res_clean l = true.
Proof.
  intros B l rest H. rewrite (avps_refines b B) in H. inversion H as [H1].
  change l with (fst (l, rest)). rewrite <- H1. unfold s_avps. apply s_avps_n_clean.
Qed.
