(** Validation options (C14), on the Spec: they only restrict; each check
    rejects exactly its bits; with a check off its bits do not matter. *)
From Coq Require Import Lia.
From RL Require Import Model.Decode Spec.SpecDecode Spec.SpecEncode Proofs.ReaderLemmas Proofs.BytesLemmas
  Proofs.RefineEncode Proofs.EncodeFacts Proofs.RefineDecode.

Definition opts_le (o o' : opts) : bool :=
  implb (v_reserved o) (v_reserved o') && implb (v_version o) (v_version o')
  && implb (v_unused o) (v_unused o').

Definition with_version (x : bool) (o : opts) := {| v_reserved := v_reserved o; v_version := x; v_unused := v_unused o |}.
Definition with_reserved (x : bool) (o : opts) := {| v_reserved := x; v_version := v_version o; v_unused := v_unused o |}.
Definition with_unused (x : bool) (o : opts) := {| v_reserved := v_reserved o; v_version := v_version o; v_unused := x |}.

Lemma ctrl_monotone o o' b x : implb (v_unused o) (v_unused o') = true ->
  s_ctrl o' b = Ok x -> s_ctrl o b = Ok x.
Proof.
  unfold s_ctrl. intros L.
  destruct (v_unused o), (v_unused o'); cbn [implb andb] in *; try discriminate; try (intros H; exact H).
  destruct (fw_P (fld 2 0 b)); [discriminate|]. destruct (fw_O (fld 2 0 b)); [discriminate|].
  intros H; exact H.
Qed.

Theorem decode_monotone o o' b x : opts_le o o' = true ->
  s_decode o' b = Ok x -> s_decode o b = Ok x.
Proof.
  unfold opts_le. intros L. apply andb_prop in L. destruct L as [L Lu]. apply andb_prop in L. destruct L as [Lr Lv].
  unfold s_decode. destruct (len b <? 2); [discriminate|].
  destruct (v_version o'), (v_version o); cbn [implb] in Lv; try discriminate; cbn [andb];
    destruct (negb (fw_version (fld 2 0 b) =? 2)); try discriminate;
  destruct (v_reserved o'), (v_reserved o); cbn [implb] in Lr; try discriminate; cbn [andb];
    destruct (negb (fw_reserved_clear (fld 2 0 b))); try discriminate;
  (destruct (fw_T (fld 2 0 b)); [apply ctrl_monotone, Lu | intros H; exact H]).
Qed.

(** rejection under stronger options: the contrapositive *)
Theorem reject_monotone o o' b es : opts_le o o' = true ->
  s_decode o b = Err es -> exists es', s_decode o' b = Err es'.
Proof.
  intros L H. destruct (s_decode o' b) as [x|es'] eqn:E; [|eauto].
  rewrite (decode_monotone o o' b x L E) in H. discriminate.
Qed.

(** each check rejects exactly the strings with its bits *)
Theorem version_exact o b : 2 <= len b ->
  s_decode (with_version true o) b =
  if fw_version (fld 2 0 b) =? 2 then s_decode (with_version false o) b
  else Err [InvalidVersion (fw_version (fld 2 0 b))].
Proof.
  intros H. unfold s_decode. replace (len b <? 2) with false by (symmetry; apply N.ltb_ge; exact H).
  cbn [with_version v_version v_reserved v_unused andb].
  destruct (fw_version (fld 2 0 b) =? 2); reflexivity.
Qed.

Theorem reserved_exact o b : 2 <= len b ->
  (v_version o = false \/ fw_version (fld 2 0 b) = 2) ->
  s_decode (with_reserved true o) b =
  if fw_reserved_clear (fld 2 0 b) then s_decode (with_reserved false o) b
  else Err [InvalidReservedBits].
Proof.
  intros H V. unfold s_decode. replace (len b <? 2) with false by (symmetry; apply N.ltb_ge; exact H).
  cbn [with_reserved v_version v_reserved v_unused andb].
  assert (E : v_version o && negb (fw_version (fld 2 0 b) =? 2) = false).
  { destruct V as [V|V]; [rewrite V; reflexivity|]. rewrite V. cbn. apply andb_false_r. }
  rewrite E. destruct (fw_reserved_clear (fld 2 0 b)); reflexivity.
Qed.

Theorem unused_exact o b :
  s_ctrl (with_unused true o) b =
  if fw_P (fld 2 0 b) then Err [ForbiddenControlMessagePriority]
  else if fw_O (fld 2 0 b) then Err [ForbiddenControlMessageOffset]
  else s_ctrl (with_unused false o) b.
Proof.
  unfold s_ctrl. cbn [with_unused v_unused andb].
  destruct (fw_P (fld 2 0 b)); [reflexivity|]. destruct (fw_O (fld 2 0 b)); reflexivity.
Qed.

(** the unused-field option is irrelevant to data messages *)
Theorem unused_data_inert o x b : fw_T (fld 2 0 b) = false ->
  s_decode (with_unused x o) b = s_decode o b.
Proof.
  intros T. unfold s_decode. cbn [with_unused v_version v_reserved]. rewrite T. reflexivity.
Qed.

(** the default entry point is version checking alone *)
Theorem default_is_version_only :
  default_opts = {| v_reserved := false; v_version := true; v_unused := false |}
  /\ forall b, m_try_read b = m_decode default_opts b.
Proof. split; reflexivity. Qed.

(** * bits of a disabled check do not matter *)
Lemma octs_skip2 k off w rest : 2 <= off ->
  octs k off (be16 w ++ rest) = octs k (off - 2) rest.
Proof.
  intros H. unfold octs. replace off with (len (be16 w) + (off - 2)) at 1 by (rewrite len_be16; lia).
  rewrite <- dropN_dropN, dropN_app. reflexivity.
Qed.
Lemma fld_skip2 k off w rest : 2 <= off -> fld k off (be16 w ++ rest) = fld k (off - 2) rest.
Proof. intros H. unfold fld. rewrite octs_skip2 by exact H. reflexivity. Qed.
Lemma dropN_skip2 n w rest : 2 <= n -> dropN n (be16 w ++ rest) = dropN (n - 2) rest.
Proof.
  intros H. replace n with (len (be16 w) + (n - 2)) at 1 by (rewrite len_be16; lia).
  rewrite <- dropN_dropN, dropN_app. reflexivity.
Qed.
Lemma fld_head w rest : w < 65536 -> fld 2 0 (be16 w ++ rest) = w.
Proof. intros H. apply (fld2_app_be16 [] w rest H). Qed.

(** what the decoder may see of a flag word under options [o] *)
Definition same_view (o : opts) (w w' : N) : Prop :=
  fw_T w = fw_T w' /\ fw_L w = fw_L w' /\ fw_S w = fw_S w' /\
  (v_version o = true -> fw_version w = fw_version w') /\
  (v_reserved o = true -> fw_reserved_clear w = fw_reserved_clear w') /\
  (fw_T w = false \/ v_unused o = true -> fw_P w = fw_P w' /\ fw_O w = fw_O w').

Lemma data_bits_inert w w' rest : w < 65536 -> w' < 65536 ->
  fw_L w = fw_L w' -> fw_S w = fw_S w' -> fw_P w = fw_P w' -> fw_O w = fw_O w' ->
  s_data (be16 w ++ rest) = s_data (be16 w' ++ rest).
Proof.
  intros Hw Hw' EL ES EP EO.
  unfold s_data. rewrite !len_app, !len_be16, !fld_head by assumption.
  rewrite <- EL, <- ES, <- EP, <- EO.
  set (oL := if fw_L w then 2 else 0). set (oS := if fw_S w then 4 else 0). set (oO := if fw_O w then 2 else 0).
  rewrite !fld_skip2 by (unfold oL, oS; destruct (fw_L w), (fw_S w); lia).
  set (osz := if fw_O w then fld 2 (2 + oL + 4 + oS - 2) rest else 0).
  destruct (2 + len rest <? 2 + oL + 4 + oS + oO); [reflexivity|].
  destruct (2 + len rest <? 2 + oL + 4 + oS + oO + osz); [reflexivity|].
  match goal with |- match ?c with Ok _ => _ | Err _ => _ end = _ => destruct c as [pl|e] end;
    [|reflexivity].
  destruct (pl =? 0); [reflexivity|].
  rewrite !octs_skip2, !dropN_skip2 by (unfold oL, oS, oO; destruct (fw_L w), (fw_S w), (fw_O w); lia).
  reflexivity.
Qed.

Theorem bits_inert o w w' rest : w < 65536 -> w' < 65536 -> same_view o w w' ->
  s_decode o (be16 w ++ rest) = s_decode o (be16 w' ++ rest).
Proof.
  intros Hw Hw' (ET & EL & ES & EV & ER & EU).
  unfold s_decode. rewrite !len_app, !len_be16, !fld_head by assumption.
  destruct (2 + len rest <? 2); [reflexivity|].
  assert (V : v_version o && negb (fw_version w =? 2) = v_version o && negb (fw_version w' =? 2)).
  { destruct (v_version o); [rewrite EV by reflexivity|]; reflexivity. }
  rewrite V. destruct (v_version o && negb (fw_version w' =? 2)) eqn:Vc.
  { destruct (v_version o); [|discriminate]. rewrite EV by reflexivity. reflexivity. }
  assert (R : v_reserved o && negb (fw_reserved_clear w) = v_reserved o && negb (fw_reserved_clear w')).
  { destruct (v_reserved o); [rewrite ER by reflexivity|]; reflexivity. }
  rewrite R. destruct (v_reserved o && negb (fw_reserved_clear w')); [reflexivity|].
  rewrite <- ET. destruct (fw_T w) eqn:T.
  - unfold s_ctrl. rewrite !len_app, !len_be16, !fld_head by assumption.
    rewrite <- EL, <- ES.
    assert (U1 : v_unused o && fw_P w = v_unused o && fw_P w').
    { destruct (v_unused o) eqn:U; [|reflexivity]. destruct (EU (or_intror eq_refl)) as [-> _]. reflexivity. }
    assert (U2 : v_unused o && fw_O w = v_unused o && fw_O w').
    { destruct (v_unused o) eqn:U; [|reflexivity]. destruct (EU (or_intror eq_refl)) as [_ ->]. reflexivity. }
    rewrite U1, U2.
    rewrite !fld_skip2 by lia.
    destruct (v_unused o && fw_P w'); [reflexivity|]. destruct (v_unused o && fw_O w'); [reflexivity|].
    destruct (negb (fw_L w)); [reflexivity|]. destruct (negb (fw_S w)); [reflexivity|].
    destruct (2 + len rest <? 12); [reflexivity|].
    destruct (fld 2 (2 - 2) rest <? 12) eqn:E12; [reflexivity|].
    destruct (2 + len rest <? fld 2 (2 - 2) rest); [reflexivity|].
    apply N.ltb_ge in E12.
    rewrite !octs_skip2, !dropN_skip2 by lia. reflexivity.
  - destruct (EU (or_introl eq_refl)) as [EP EO].
    rewrite (data_bits_inert w w' rest Hw Hw' EL ES EP EO). reflexivity.
Qed.
