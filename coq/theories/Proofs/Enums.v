(** Code tables (C16): exact acceptance sets, bijections, RFC 2661 numbers.
    Each table is a match on small numerals; facts are proved for all of N by
    an exhaustive evaluation below 64 plus the shape of larger binary numerals. *)
From Coq Require Import Lia.
From RL Require Import Model.Decode Spec.SpecDecode Proofs.ReaderLemmas Proofs.BytesLemmas Proofs.RefineAvp.

Definition is_some {A} (o : option A) : bool := match o with Some _ => true | None => false end.

(** a numeral of at least 7 bits *)
Ltac big_numeral t :=
  destruct t as [|p]; [exfalso; lia|];
  do 6 (destruct p as [p|p|]; try (exfalso; lia)); try reflexivity.

Lemma mt_large x : 64 <= x -> mt_of_code x = None. Proof. intros H. big_numeral x. Qed.
Lemma et_large x : 64 <= x -> et_of_code x = None. Proof. intros H. big_numeral x. Qed.
Lemma pa_large x : 64 <= x -> pa_of_code x = None. Proof. intros H. big_numeral x. Qed.
Lemma sc_large x : 64 <= x -> sc_of_code x = None. Proof. intros H. big_numeral x. Qed.
Lemma cd_large x : 64 <= x -> cd_of_code x = None. Proof. intros H. big_numeral x. Qed.
Lemma shape_large x : 64 <= x -> shape_of x = None. Proof. intros H. big_numeral x. Qed.

Definition member (x : N) (l : list N) : bool := existsb (N.eqb x) l.

Ltac table_sweep f set large x :=
  destruct (N.lt_ge_cases x 64) as [Hs|Hl];
  [ let E := fresh in
    assert (E : forallb (fun x => Bool.eqb (is_some (f x)) (member x set)) (upto 64) = true)
      by (vm_compute; reflexivity);
    let E1 := fresh in
    pose proof (forall_upto _ _ E x Hs) as E1; cbv beta in E1; apply Bool.eqb_prop in E1; exact E1
  | rewrite (large x Hl); symmetry; unfold member; cbn [existsb];
    repeat match goal with |- context [x =? ?k] =>
      replace (x =? k) with false by (symmetry; apply N.eqb_neq; lia) end; reflexivity ].

Lemma mt_accepts x : is_some (mt_of_code x) = member x [1;2;3;4;6;7;8;9;10;11;12;14;15;16].
Proof. table_sweep mt_of_code [1;2;3;4;6;7;8;9;10;11;12;14;15;16] mt_large x. Qed.
Lemma et_accepts x : is_some (et_of_code x) = member x [0;1;2;3;4;5;6;7;8].
Proof. table_sweep et_of_code [0;1;2;3;4;5;6;7;8] et_large x. Qed.
Lemma pa_accepts x : is_some (pa_of_code x) = member x [0;1;2;3;4;5].
Proof. table_sweep pa_of_code [0;1;2;3;4;5] pa_large x. Qed.
Lemma sc_accepts x : is_some (sc_of_code x) = member x [0;1;2;3;4;5;6;7].
Proof. table_sweep sc_of_code [0;1;2;3;4;5;6;7] sc_large x. Qed.
Lemma cd_accepts x : is_some (cd_of_code x) = member x [0;1;2;3;4;5;6;7;8;9;10;11].
Proof. table_sweep cd_of_code [0;1;2;3;4;5;6;7;8;9;10;11] cd_large x. Qed.

Lemma attr_accepts t : is_some (shape_of t) = ((t <=? 19) || ((21 <=? t) && (t <=? 39))).
Proof.
  destruct (N.lt_ge_cases t 64) as [Hs|Hl].
  - assert (E : forallb (fun t => Bool.eqb (is_some (shape_of t)) ((t <=? 19) || ((21 <=? t) && (t <=? 39))))
                  (upto 64) = true) by (vm_compute; reflexivity).
    pose proof (forall_upto _ _ E t Hs) as E1. cbv beta in E1. apply Bool.eqb_prop in E1. exact E1.
  - rewrite (shape_large t Hl). symmetry.
    replace (t <=? 19) with false by (symmetry; apply N.leb_gt; lia).
    replace (t <=? 39) with false by (symmetry; apply N.leb_gt; lia).
    rewrite andb_false_r. reflexivity.
Qed.

(** one-to-one: decode after encode, encode after decode *)
Lemma mt_inv1 t : mt_of_code (mt_code t) = Some t. Proof. destruct t; reflexivity. Qed.
Lemma et_inv1 t : et_of_code (et_code t) = Some t. Proof. destruct t; reflexivity. Qed.
Lemma pa_inv1 t : pa_of_code (pa_code t) = Some t. Proof. destruct t; reflexivity. Qed.
Lemma sc_inv1 t : sc_of_code (sc_code t) = Some t. Proof. destruct t; reflexivity. Qed.
Lemma cd_inv1 t : cd_of_code (cd_code t) = Some t. Proof. destruct t; reflexivity. Qed.

Ltac inv2 f code large x t :=
  intros H; destruct (N.lt_ge_cases x 64) as [Hs|Hl];
  [ let E := fresh in
    assert (E : forallb (fun x => match f x with Some t => code t =? x | None => true end) (upto 64) = true)
      by (vm_compute; reflexivity);
    let E1 := fresh in
    pose proof (forall_upto _ _ E x Hs) as E1; cbv beta in E1; rewrite H in E1; apply N.eqb_eq in E1; exact E1
  | rewrite (large x Hl) in H; discriminate ].

Lemma mt_inv2 x t : mt_of_code x = Some t -> mt_code t = x. Proof. inv2 mt_of_code mt_code mt_large x t. Qed.
Lemma et_inv2 x t : et_of_code x = Some t -> et_code t = x. Proof. inv2 et_of_code et_code et_large x t. Qed.
Lemma pa_inv2 x t : pa_of_code x = Some t -> pa_code t = x. Proof. inv2 pa_of_code pa_code pa_large x t. Qed.
Lemma sc_inv2 x t : sc_of_code x = Some t -> sc_code t = x. Proof. inv2 sc_of_code sc_code sc_large x t. Qed.
Lemma cd_inv2 x t : cd_of_code x = Some t -> cd_code t = x. Proof. inv2 cd_of_code cd_code cd_large x t. Qed.

(** the Model's dispatch knows exactly the attribute types of the table *)
Lemma dispatch_unknown_iff t :
  decode_avp t = Ret (Err (UnknownAvp t)) <-> is_some (shape_of t) = false.
Proof.
  destruct (dispatch_agrees t) as [E _]. rewrite E.
  destruct (shape_of t) as [sh|]; cbn [is_some]; split; intros H; try reflexivity; try discriminate.
  destruct sh as [| | |k| |k|k|k|k| | | | | | ]; try destruct k; cbn in H; discriminate.
Qed.
