(** RFC 1321 appendix A.5 test suite, checked by the kernel's evaluator. *)
From RL Require Import Base.Md5.
Example md5_rfc1321_0 : md5 [] = [212; 29; 140; 217; 143; 0; 178; 4; 233; 128; 9; 152; 236; 248; 66; 126].
Proof. vm_compute. reflexivity. Qed.
Example md5_rfc1321_1 : md5 [97] = [12; 193; 117; 185; 192; 241; 182; 168; 49; 195; 153; 226; 105; 119; 38; 97].
Proof. vm_compute. reflexivity. Qed.
Example md5_rfc1321_2 : md5 [97; 98; 99] = [144; 1; 80; 152; 60; 210; 79; 176; 214; 150; 63; 125; 40; 225; 127; 114].
Proof. vm_compute. reflexivity. Qed.
Example md5_rfc1321_3 : md5 [109; 101; 115; 115; 97; 103; 101; 32; 100; 105; 103; 101; 115; 116] = [249; 107; 105; 125; 124; 183; 147; 141; 82; 90; 47; 49; 170; 241; 97; 208].
Proof. vm_compute. reflexivity. Qed.
Example md5_rfc1321_4 : md5 [97; 98; 99; 100; 101; 102; 103; 104; 105; 106; 107; 108; 109; 110; 111; 112; 113; 114; 115; 116; 117; 118; 119; 120; 121; 122] = [195; 252; 211; 215; 97; 146; 228; 0; 125; 251; 73; 108; 202; 103; 225; 59].
Proof. vm_compute. reflexivity. Qed.
Example md5_rfc1321_5 : md5 [65; 66; 67; 68; 69; 70; 71; 72; 73; 74; 75; 76; 77; 78; 79; 80; 81; 82; 83; 84; 85; 86; 87; 88; 89; 90; 97; 98; 99; 100; 101; 102; 103; 104; 105; 106; 107; 108; 109; 110; 111; 112; 113; 114; 115; 116; 117; 118; 119; 120; 121; 122; 48; 49; 50; 51; 52; 53; 54; 55; 56; 57] = [209; 116; 171; 152; 210; 119; 217; 245; 165; 97; 28; 44; 159; 65; 157; 159].
Proof. vm_compute. reflexivity. Qed.
Example md5_rfc1321_6 : md5 [49; 50; 51; 52; 53; 54; 55; 56; 57; 48; 49; 50; 51; 52; 53; 54; 55; 56; 57; 48; 49; 50; 51; 52; 53; 54; 55; 56; 57; 48; 49; 50; 51; 52; 53; 54; 55; 56; 57; 48; 49; 50; 51; 52; 53; 54; 55; 56; 57; 48; 49; 50; 51; 52; 53; 54; 55; 56; 57; 48; 49; 50; 51; 52; 53; 54; 55; 56; 57; 48; 49; 50; 51; 52; 53; 54; 55; 56; 57; 48] = [87; 237; 244; 162; 43; 227; 201; 85; 172; 73; 218; 46; 33; 7; 182; 122].
Proof. vm_compute. reflexivity. Qed.

Lemma le32_length x : length (le32 x) = 4%nat. Proof. reflexivity. Qed.
Lemma md5_length l : length (md5 l) = 16%nat.
Proof.
  unfold md5. destruct (md5_blocks _ _ _) as [[[a b] c] d].
  rewrite !app_length, !le32_length. reflexivity.
Qed.

Lemma md5_len l : len (md5 l) = 16%N.
Proof. unfold len. rewrite md5_length. reflexivity. Qed.

Lemma bytes_ok_le32 x : bytes_ok (le32 x) = true.
Proof.
  unfold le32, bytes_ok, byte_ok. cbn [forallb].
  rewrite !andb_true_iff. repeat split; apply N.ltb_lt; apply N.mod_lt; discriminate.
Qed.
Lemma md5_bytes l : bytes_ok (md5 l) = true.
Proof.
  unfold md5. destruct (md5_blocks _ _ _) as [[[a b] c] d].
  unfold bytes_ok. rewrite !forallb_app. fold (bytes_ok (le32 a)) (bytes_ok (le32 b)) (bytes_ok (le32 c)) (bytes_ok (le32 d)).
  rewrite !bytes_ok_le32. reflexivity.
Qed.
