(** Consequences of the refinement: totality (C01), contract safety (C02),
    non-empty error lists (C15). *)
From Coq Require Import Lia ZArith Zify.
From RL Require Import Model.Decode Spec.SpecDecode Proofs.ReaderLemmas Proofs.RefineAvp
  Proofs.BytesLemmas Proofs.RefineDecode Proofs.ReaderParam.

Lemma errs_nonempty {A} (rs : list (dres A)) : existsb is_err rs = true -> errs_of rs <> [].
Proof.
  induction rs as [|[a|e] t IH]; cbn [existsb is_err errs_of orb]; intros H.
  - discriminate.
  - apply IH, H.
  - discriminate.
Qed.

Lemma s_ctrl_err_nonempty o b es : s_ctrl o b = Err es -> es <> [].
Proof.
  unfold s_ctrl.
  repeat match goal with
         | |- (if ?c then _ else _) = _ -> _ => destruct c eqn:?
         end; intros H; inversion H; subst; try discriminate.
  apply errs_nonempty. assumption.
Qed.

Theorem s_decode_err_nonempty o b es : s_decode o b = Err es -> es <> [].
Proof.
  unfold s_decode.
  repeat match goal with
         | |- (if ?c then _ else _) = _ -> _ => destruct c eqn:?
         end; try (intros H; inversion H; subst; discriminate).
  - apply s_ctrl_err_nonempty.
  - destruct (s_data b); intros H; inversion H; subst; discriminate.
Qed.

Theorem message_total o b : bytes_ok b = true ->
  exists r rest, m_decode o b = Val (r, rest) /\
                 (is_Ok r = true \/ exists e es, r = Err (e :: es)).
Proof.
  intros B. destruct (decode_refines o b B) as [[r rest] [Hm Ho]].
  exists r, rest. split; [exact Hm|].
  destruct r as [m|es]; [left; reflexivity|right].
  cbn [obs_of] in Ho. symmetry in Ho. apply s_decode_err_nonempty in Ho.
  destruct es as [|e es]; [contradiction|]. eauto.
Qed.

Theorem avps_total b : bytes_ok b = true -> exists l rest, m_avps b = Val (l, rest).
Proof.
  intros B. rewrite (avps_refines b B). destruct (s_avps b) as [l rest]. eauto.
Qed.

Theorem type_total t p : exists r rest, m_decode_avp t p = Val (r, rest).
Proof.
  destruct (decode_avp_refines t p) as [rest H]. unfold m_decode_avp. eauto.
Qed.

(** the number of loop iterations is bounded by the input: at most one record
    per 6 octets, plus the terminating step *)
Ltac Zify.zify_post_hook ::= Z.div_mod_to_equations.
Lemma s_avps_n_count n : forall r, N.of_nat (length (fst (s_avps_n n r))) <= len r / 6 + 1.
Proof.
  induction n as [|n IH]; intros r; cbn [s_avps_n].
  - cbn [fst length]. lia.
  - destruct (len r <? 6) eqn:E6; [cbn [fst length]; lia|].
    destruct (rec_length r <? 6) eqn:EL; [cbn [fst length]; lia|].
    destruct (len r <? rec_length r) eqn:ER; [cbn [fst length]; lia|].
    specialize (IH (dropN (rec_length r) r)).
    destruct (s_avps_n n (dropN (rec_length r) r)) as [xs tl]. cbn [fst length] in *.
    rewrite len_dropN in IH. apply N.ltb_ge in E6, EL, ER.
    assert ((len r - rec_length r) / 6 + 1 <= len r / 6).
    { replace (len r) with ((len r - rec_length r) + rec_length r) at 2 by lia.
      assert ((len r - rec_length r) / 6 + 1 = ((len r - rec_length r) + 1 * 6) / 6)
        by (rewrite N.div_add by lia; reflexivity).
      rewrite H. apply N.div_le_mono; lia. }
    lia.
Qed.

(** no run of the decoder ever leaves the reader contract *)
Theorem decode_no_ub o b : bytes_ok b = true ->
  m_decode o b <> UB /\ (forall k, m_decode o b <> Panic k) /\ m_decode o b <> OutOfFuel.
Proof.
  intros B. destruct (decode_refines o b B) as [x [Hm _]]. rewrite Hm.
  repeat split; try intros k; discriminate.
Qed.

(** identical result on every conforming reader *)
Theorem decode_any_reader I (C : Conforms I) o r : bytes_ok (repr C r) = true ->
  exists x r', m_decode o (repr C r) = Val x /\
               grun I (msg_read o) r = Val (fst x, r') /\ repr C r' = snd x.
Proof.
  intros B. destruct (decode_refines o _ B) as [[a l'] [Hm _]].
  destruct (grun_conforms I C _ (msg_read o) r a l' Hm) as [r' [Hg Hr]].
  exists (a, l'), r'. auto.
Qed.

Theorem avps_any_reader I (C : Conforms I) r : bytes_ok (repr C r) = true ->
  exists x r', m_avps (repr C r) = Val x /\
               grun I avps_read r = Val (fst x, r') /\ repr C r' = snd x.
Proof.
  intros B. destruct (avps_total _ B) as [a [l' Hm]].
  destruct (grun_conforms I C _ avps_read r a l' Hm) as [r' [Hg Hr]].
  exists (a, l'), r'. auto.
Qed.

Theorem type_any_reader I (C : Conforms I) t r :
  exists x r', m_decode_avp t (repr C r) = Val x /\
               grun I (decode_avp t) r = Val (fst x, r') /\ repr C r' = snd x.
Proof.
  destruct (type_total t (repr C r)) as [a [l' Hm]].
  destruct (grun_conforms I C _ (decode_avp t) r a l' Hm) as [r' [Hg Hr]].
  exists (a, l'), r'. auto.
Qed.
