(** Calculus for [run]: how each primitive evaluates on the list reader when its
    precondition holds, in terms of [len] / [takeN] / [dropN]. *)
From Coq Require Import Lia Arith PeanoNat.
From RL Require Import Model.Reader.
Arguments N.add : simpl never.
Arguments N.sub : simpl never.
Arguments N.mul : simpl never.
Arguments N.ltb : simpl never.
Arguments N.leb : simpl never.
Arguments N.eqb : simpl never.
Arguments N.div : simpl never.
Arguments N.modulo : simpl never.
Arguments N.of_nat : simpl never.
Arguments N.to_nat : simpl never.

Lemma len_nil {A} : len (@nil A) = 0. Proof. reflexivity. Qed.
Lemma len_cons {A} (a : A) l : len (a :: l) = 1 + len l.
Proof. unfold len. cbn [length]. lia. Qed.
Lemma len_app {A} (l1 l2 : list A) : len (l1 ++ l2) = len l1 + len l2.
Proof. unfold len. rewrite app_length. lia. Qed.
Lemma len_dropN {A} n (l : list A) : len (dropN n l) = len l - n.
Proof. unfold len, dropN. rewrite skipn_length. lia. Qed.
Lemma len_takeN {A} n (l : list A) : len (takeN n l) = N.min n (len l).
Proof. unfold len, takeN. rewrite firstn_length. lia. Qed.
Lemma len_takeN_le {A} n (l : list A) : n <= len l -> len (takeN n l) = n.
Proof. intros. rewrite len_takeN. lia. Qed.
Lemma takeN_dropN {A} n (l : list A) : takeN n l ++ dropN n l = l.
Proof. apply firstn_skipn. Qed.
Lemma skipn_skipn' {A} (a b : nat) (l : list A) : skipn a (skipn b l) = skipn (b + a) l.
Proof.
  revert l. induction b as [|b IH]; intros l; [reflexivity|].
  destruct l as [|x l]; cbn [skipn Nat.add]; [destruct a; reflexivity | apply IH].
Qed.
Lemma dropN_dropN {A} n m (l : list A) : dropN n (dropN m l) = dropN (m + n) l.
Proof. unfold dropN. rewrite skipn_skipn'. f_equal. lia. Qed.
Lemma dropN_0 {A} (l : list A) : dropN 0 l = l. Proof. reflexivity. Qed.
Lemma takeN_0 {A} (l : list A) : takeN 0 l = []. Proof. reflexivity. Qed.
Lemma takeN_all {A} n (l : list A) : len l <= n -> takeN n l = l.
Proof. unfold takeN, len. intros. apply firstn_all2. lia. Qed.
Lemma dropN_all {A} n (l : list A) : len l <= n -> dropN n l = [].
Proof. unfold dropN, len. intros. apply skipn_all2. lia. Qed.
Lemma takeN_app {A} (l1 l2 : list A) : takeN (len l1) (l1 ++ l2) = l1.
Proof.
  unfold takeN, len. rewrite Nnat.Nat2N.id.
  rewrite firstn_app, Nat.sub_diag, firstn_all. cbn. apply app_nil_r.
Qed.
Lemma dropN_app {A} (l1 l2 : list A) : dropN (len l1) (l1 ++ l2) = l2.
Proof.
  unfold dropN, len. rewrite Nnat.Nat2N.id.
  rewrite skipn_app, Nat.sub_diag, skipn_all. reflexivity.
Qed.
Lemma takeN_app_le {A} n (l1 l2 : list A) : n <= len l1 -> takeN n (l1 ++ l2) = takeN n l1.
Proof.
  unfold takeN, len. intros. rewrite firstn_app.
  replace (N.to_nat n - length l1)%nat with 0%nat by lia. cbn. apply app_nil_r.
Qed.
Lemma dropN_app_le {A} n (l1 l2 : list A) : n <= len l1 -> dropN n (l1 ++ l2) = dropN n l1 ++ l2.
Proof.
  unfold dropN, len. intros. rewrite skipn_app.
  replace (N.to_nat n - length l1)%nat with 0%nat by lia. reflexivity.
Qed.
Lemma takeN_takeN {A} n m (l : list A) : n <= m -> takeN n (takeN m l) = takeN n l.
Proof. unfold takeN. intros. rewrite firstn_firstn. f_equal. lia. Qed.
Lemma dropN_takeN {A} n m (l : list A) : dropN n (takeN m l) = takeN (m - n) (dropN n l).
Proof.
  unfold takeN, dropN. rewrite skipn_firstn_comm. f_equal. lia.
Qed.
Lemma len_0_nil {A} (l : list A) : len l = 0 -> l = [].
Proof. destruct l; [reflexivity|]. rewrite len_cons. lia. Qed.
Lemma is_nil_len {A} (l : list A) :
  (match l with [] => true | _ => false end) = (len l =? 0).
Proof. destruct l; [reflexivity|]. rewrite len_cons. symmetry. apply N.eqb_neq. lia. Qed.

Lemma run_bind {A B} (p : prog A) (f : A -> prog B) l :
  run (bind p f) l = obind (run p l) (fun '(a, l') => run (f a) l').
Proof.
  revert B f l. induction p as [A a|A k|A|A k IH|A k IH|A k IH|A k IH|A k IH|A k IH|A n k IH|A n k IH|A C n q IHq k IH];
    intros B f l; cbn [bind run]; try reflexivity.
  - apply IH.
  - apply IH.
  - destruct (lr_read 1 l) as [[x l']| | |]; cbn [obind]; [apply IH | reflexivity..].
  - destruct (lr_read 2 l) as [[x l']| | |]; cbn [obind]; [apply IH | reflexivity..].
  - destruct (lr_read 4 l) as [[x l']| | |]; cbn [obind]; [apply IH | reflexivity..].
  - destruct (lr_read 8 l) as [[x l']| | |]; cbn [obind]; [apply IH | reflexivity..].
  - destruct (n <=? len l); apply IH.
  - destruct (n <=? len l); [apply IH | reflexivity].
  - destruct (n <=? len l); [|reflexivity].
    destruct (run q (takeN n l)) as [[b r]| | |]; cbn [obind]; [apply IH | reflexivity..].
Qed.

Lemma run_ret {A} (a : A) l : run (Ret a) l = Val (a, l). Proof. reflexivity. Qed.
Lemma run_len_ l : run len_ l = Val (len l, l). Proof. reflexivity. Qed.
Lemma run_is_empty_ l : run is_empty_ l = Val (len l =? 0, l).
Proof. cbn. rewrite is_nil_len. reflexivity. Qed.

Lemma lr_read_ok k l : N.of_nat k <= len l ->
  lr_read k l = Val (be_val 0 (takeN (N.of_nat k) l), dropN (N.of_nat k) l).
Proof.
  unfold lr_read, len, takeN, dropN. intros H.
  rewrite Nnat.Nat2N.id. replace (Nat.leb k (length l)) with true; [reflexivity|].
  symmetry. apply Nat.leb_le. lia.
Qed.
Lemma lr_read_short k l : len l < N.of_nat k -> lr_read k l = UB.
Proof.
  unfold lr_read, len. intros H. replace (Nat.leb k (length l)) with false; [reflexivity|].
  symmetry. apply Nat.leb_gt. lia.
Qed.

Lemma run_u8_ l : 1 <= len l -> run u8_ l = Val (be_val 0 (takeN 1 l), dropN 1 l).
Proof. intros. cbn [run u8_]. rewrite (lr_read_ok 1) by (cbn; lia). reflexivity. Qed.
Lemma run_u16_ l : 2 <= len l -> run u16_ l = Val (be_val 0 (takeN 2 l), dropN 2 l).
Proof. intros. cbn [run u16_]. rewrite (lr_read_ok 2) by (cbn; lia). reflexivity. Qed.
Lemma run_u32_ l : 4 <= len l -> run u32_ l = Val (be_val 0 (takeN 4 l), dropN 4 l).
Proof. intros. cbn [run u32_]. rewrite (lr_read_ok 4) by (cbn; lia). reflexivity. Qed.
Lemma run_u64_ l : 8 <= len l -> run u64_ l = Val (be_val 0 (takeN 8 l), dropN 8 l).
Proof. intros. cbn [run u64_]. rewrite (lr_read_ok 8) by (cbn; lia). reflexivity. Qed.
Lemma run_bytes_ n l :
  run (bytes_ n) l = if n <=? len l then Val (Some (takeN n l), dropN n l) else Val (None, l).
Proof. cbn [run bytes_]. destruct (n <=? len l); reflexivity. Qed.
Lemma run_bytes_ok n l : n <= len l -> run (bytes_ n) l = Val (Some (takeN n l), dropN n l).
Proof. intros. rewrite run_bytes_. replace (n <=? len l) with true; [reflexivity|]. symmetry. apply N.leb_le. lia. Qed.
Lemma run_skip_ n l : n <= len l -> run (skip_ n) l = Val (tt, dropN n l).
Proof. intros. cbn [run skip_]. replace (n <=? len l) with true; [reflexivity|]. symmetry. apply N.leb_le. lia. Qed.
Lemma run_sub_ {B} n (p : prog B) l : n <= len l ->
  run (sub_ n p) l = obind (run p (takeN n l)) (fun '(b, _) => Val (b, dropN n l)).
Proof.
  intros. cbn [run sub_]. replace (n <=? len l) with true by (symmetry; apply N.leb_le; lia).
  destruct (run p (takeN n l)) as [[b r]| | |]; reflexivity.
Qed.

(** normalisation of [len] expressions, then linear arithmetic *)
Ltac lens :=
  repeat (rewrite ?len_dropN, ?len_app, ?len_cons, ?len_nil in * );
  repeat match goal with
         | |- context [len (takeN ?n ?l)] => rewrite (len_takeN n l)
         | H : context [len (takeN ?n ?l)] |- _ => rewrite (len_takeN n l) in H
         end;
  lia.

(** evaluate closed numeral sums *)
Ltac nsimp :=
  repeat match goal with
         | |- context [N.add (Npos ?a) (Npos ?b)] =>
           let v := eval vm_compute in (N.add (Npos a) (Npos b)) in
           change (N.add (Npos a) (Npos b)) with v
         | |- context [N.add 0 ?b] => change (N.add 0 b) with b
         | |- context [N.add (Npos ?a) 0] => change (N.add (Npos a) 0) with (Npos a)
         end.
