(** Each per-type payload decoder of the Model computes the Spec's [s_shape],
    never hits UB / Panic; the attribute-type dispatch agrees with [shape_of]. *)
From Coq Require Import Lia.
From RL Require Import Model.Decode Spec.SpecDecode Proofs.ReaderLemmas.

(** one monadic step: expose the next primitive *)
Ltac rb := rewrite run_bind; cbn [obind].
Ltac grd :=
  repeat match goal with
         | H : (_ <? _) = false |- _ => apply N.ltb_ge in H
         | H : (_ <? _) = true |- _ => apply N.ltb_lt in H
         | H : (_ <=? _) = true |- _ => apply N.leb_le in H
         | H : (_ <=? _) = false |- _ => apply N.leb_gt in H
         | H : (_ =? _) = true |- _ => apply N.eqb_eq in H
         | H : (_ =? _) = false |- _ => apply N.eqb_neq in H
         end.
Ltac rlen := rb; rewrite run_len_; cbn [obind].
Ltac rempty := rb; rewrite run_is_empty_; cbn [obind].
Ltac ru8 := rb; rewrite run_u8_ by (grd; lens); cbn [obind].
Ltac ru16 := rb; rewrite run_u16_ by (grd; lens); cbn [obind].
Ltac ru32 := rb; rewrite run_u32_ by (grd; lens); cbn [obind].
Ltac ru64 := rb; rewrite run_u64_ by (grd; lens); cbn [obind].
Ltac rskip := rb; rewrite run_skip_ by (grd; lens); cbn [obind].
Ltac rbytes := rb; rewrite run_bytes_ok by (grd; lens); cbn [obind].
Ltac fin := eexists; rewrite ?run_ret; reflexivity.
Ltac flds := unfold fld, octs; rewrite ?dropN_dropN, ?dropN_0; nsimp; try reflexivity.

Definition ok_as {A} (p : prog A) (l : list N) (v : A) : Prop := exists r, run p l = Val (v, r).

Lemma dropN_len_all {A} (l : list A) : dropN (len l) l = [].
Proof. apply dropN_all. lia. Qed.
Lemma takeN_len_all {A} (l : list A) : takeN (len l) l = l.
Proof. apply takeN_all. lia. Qed.

Lemma dec_utf8_rest_ok t mk p : ok_as (dec_utf8_rest t mk) p (s_text t p mk).
Proof.
  unfold ok_as, dec_utf8_rest, s_text. rlen. rbytes. rewrite takeN_len_all.
  destruct (utf8_valid p); fin.
Qed.

Lemma dec_message_type_ok p : ok_as dec_message_type p (s_shape 0 ShMsgType p).
Proof.
  unfold ok_as, dec_message_type, s_shape. rlen. destruct (len p <? 2) eqn:E; [fin|].
  ru16. flds. destruct (mt_of_code _); fin.
Qed.

Lemma dec_result_code_ok p : ok_as dec_result_code p (s_shape 1 ShResultCode p).
Proof.
  unfold ok_as, dec_result_code, s_shape. rlen. destruct (len p <? 2) eqn:E; [fin|].
  ru16. rlen. rewrite len_dropN.
  destruct (len p <? 4) eqn:E4.
  - replace (2 <=? len p - 2) with false by (symmetry; apply N.leb_gt; grd; lia).
    unfold fld, octs. rewrite dropN_0. fin.
  - replace (2 <=? len p - 2) with true by (symmetry; apply N.leb_le; grd; lia).
    ru16. unfold fld, octs. rewrite dropN_0, !dropN_dropN. nsimp.
    destruct (et_of_code _) as [et|]; [|fin].
    rempty. rewrite len_dropN.
    destruct (len p =? 4) eqn:E5.
    + replace (len p - 4 =? 0) with true by (symmetry; apply N.eqb_eq; grd; lia). cbn [negb]. fin.
    + replace (len p - 4 =? 0) with false by (symmetry; apply N.eqb_neq; grd; lia). cbn [negb].
      apply dec_utf8_rest_ok.
Qed.

Lemma dec_protocol_version_ok p : ok_as dec_protocol_version p (s_shape 2 ShProtoVer p).
Proof.
  unfold ok_as, dec_protocol_version, s_shape. rlen. destruct (len p <? 2) eqn:E; [fin|].
  ru8. ru8. flds. fin.
Qed.

Lemma dec_u16_ok k p : ok_as (dec_u16 k) p (s_shape (k16_type k) (Sh16 k) p).
Proof.
  unfold ok_as, dec_u16, s_shape. rlen. destruct (len p <? 2) eqn:E; [fin|].
  ru16. flds. fin.
Qed.

Lemma dec_u32_ok k p : ok_as (dec_u32 k) p (s_shape (k32_type k) (Sh32 k) p).
Proof.
  unfold ok_as, dec_u32, s_shape. rlen. destruct (len p <? 4) eqn:E; [fin|].
  ru32. flds. fin.
Qed.

Lemma dec_tie_breaker_ok p : ok_as dec_tie_breaker p (s_shape 5 ShTie p).
Proof.
  unfold ok_as, dec_tie_breaker, s_shape. rlen. destruct (len p <? 8) eqn:E; [fin|].
  ru64. flds. fin.
Qed.

Lemma dec_bytes_ok k p : ok_as (dec_bytes k) p (s_shape (kbytes_type k) (ShBytes k) p).
Proof.
  unfold ok_as, dec_bytes, s_shape. rempty. destruct (len p =? 0) eqn:E; [fin|].
  rlen. rbytes. rewrite takeN_len_all. fin.
Qed.

Lemma dec_str_ok k p : ok_as (dec_str k) p (s_shape (kstr_type k) (ShStr k) p).
Proof.
  unfold ok_as, dec_str, s_shape. rempty. destruct (len p =? 0) eqn:E; [fin|].
  apply dec_utf8_rest_ok.
Qed.

Lemma get_chunk_ok t n l : n <= len l ->
  run (get_chunk t n) l = Val (Ok (takeN n l), dropN n l).
Proof.
  intros H. unfold get_chunk. rbytes. rewrite len_takeN_le by lia. rewrite N.eqb_refl. reflexivity.
Qed.

Lemma dec_fix_ok k p : ok_as (dec_fix k) p (s_shape (kfix_type k) (ShFix k) p).
Proof.
  unfold ok_as, dec_fix, s_shape. rlen. destruct (len p <? kfix_len k) eqn:E; [fin|].
  rb. rewrite get_chunk_ok by (grd; lia). cbn [obind]. unfold octs. rewrite dropN_0. fin.
Qed.

Lemma dec_q931_ok p : ok_as dec_q931 p (s_shape 12 ShQ931 p).
Proof.
  unfold ok_as, dec_q931, s_shape. rlen. destruct (len p <? 3) eqn:E; [fin|].
  ru16. ru8. rempty. rewrite !len_dropN. unfold fld, octs. rewrite !dropN_0, !dropN_dropN. nsimp.
  destruct (len p =? 3) eqn:E3.
  - replace (len p - 2 - 1 =? 0) with true by (symmetry; apply N.eqb_eq; grd; lia). cbn [negb]. fin.
  - replace (len p - 2 - 1 =? 0) with false by (symmetry; apply N.eqb_neq; grd; lia). cbn [negb].
    apply dec_utf8_rest_ok.
Qed.

Lemma dec_proxy_authen_type_ok p : ok_as dec_proxy_authen_type p (s_shape 29 ShPaType p).
Proof.
  unfold ok_as, dec_proxy_authen_type, s_shape. rlen. destruct (len p <? 2) eqn:E; [fin|].
  ru16. flds. destruct (pa_of_code _); fin.
Qed.

Lemma dec_proxy_authen_id_ok p : ok_as dec_proxy_authen_id p (s_shape 32 ShPaId p).
Proof.
  unfold ok_as, dec_proxy_authen_id, s_shape. rlen. destruct (len p <? 2) eqn:E; [fin|].
  rskip. ru8. flds. fin.
Qed.

Lemma dec_call_errors_ok p : ok_as dec_call_errors p (s_shape 34 ShCallErrors p).
Proof.
  unfold ok_as, dec_call_errors, s_shape. rlen. destruct (len p <? 26) eqn:E; [fin|].
  rskip. ru32. ru32. ru32. ru32. ru32. ru32.
  unfold fld, octs. rewrite !dropN_dropN. nsimp. fin.
Qed.

Lemma dec_accm_ok p : ok_as dec_accm p (s_shape 35 ShAccm p).
Proof.
  unfold ok_as, dec_accm, s_shape. rlen. destruct (len p <? 10) eqn:E; [fin|].
  rskip. rb. rewrite get_chunk_ok by (grd; lens). cbn [obind].
  rb. rewrite get_chunk_ok by (grd; lens). cbn [obind].
  unfold octs. rewrite !dropN_dropN. nsimp. fin.
Qed.

(** the dispatch table of the Model agrees with the Spec's format table *)
Definition dec_of_shape (sh : shape) : prog (dres avp) :=
  match sh with
  | ShMsgType => dec_message_type | ShResultCode => dec_result_code
  | ShProtoVer => dec_protocol_version | Sh32 k => dec_u32 k | ShTie => dec_tie_breaker
  | Sh16 k => dec_u16 k | ShBytes k => dec_bytes k | ShStr k => dec_str k
  | ShFix k => dec_fix k | ShQ931 => dec_q931 | ShPaType => dec_proxy_authen_type
  | ShPaId => dec_proxy_authen_id | ShCallErrors => dec_call_errors | ShAccm => dec_accm
  | ShSeqReq => Ret (Ok ASequencingRequired)
  end.

Definition shape_type (sh : shape) : N :=
  match sh with
  | ShMsgType => 0 | ShResultCode => 1 | ShProtoVer => 2 | Sh32 k => k32_type k | ShTie => 5
  | Sh16 k => k16_type k | ShBytes k => kbytes_type k | ShStr k => kstr_type k
  | ShFix k => kfix_type k | ShQ931 => 12 | ShPaType => 29 | ShPaId => 32
  | ShCallErrors => 34 | ShAccm => 35 | ShSeqReq => 39
  end.

Lemma dec_of_shape_ok sh p : ok_as (dec_of_shape sh) p (s_shape (shape_type sh) sh p).
Proof.
  destruct sh; cbn [dec_of_shape shape_type];
    auto using dec_message_type_ok, dec_result_code_ok, dec_protocol_version_ok, dec_u32_ok,
      dec_tie_breaker_ok, dec_u16_ok, dec_bytes_ok, dec_str_ok, dec_fix_ok, dec_q931_ok,
      dec_proxy_authen_type_ok, dec_proxy_authen_id_ok, dec_call_errors_ok, dec_accm_ok.
  eexists; reflexivity.
Qed.

(** case analysis on a 16-bit-or-more number by its low bits: below 64 by
    enumeration, otherwise by the shape of the binary numeral *)
Lemma dispatch_agrees t :
  decode_avp t = match shape_of t with
                 | Some sh => dec_of_shape sh
                 | None => Ret (Err (UnknownAvp t))
                 end
  /\ match shape_of t with Some sh => shape_type sh = t | None => True end.
Proof.
  destruct t as [|p]; [split; reflexivity|].
  do 6 (try (destruct p as [p|p|])); try (split; reflexivity).
Qed.

Theorem decode_avp_refines t p : ok_as (decode_avp t) p (s_payload t p).
Proof.
  destruct (dispatch_agrees t) as [E T]. rewrite E. unfold s_payload.
  destruct (shape_of t) as [sh|].
  - rewrite <- T. apply dec_of_shape_ok.
  - eexists; reflexivity.
Qed.
