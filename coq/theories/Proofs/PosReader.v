(** A second implementation of the Reader trait: a shared buffer with a position
    and an end index (the representation of the harness's CheckedReader, and of any
    cursor-style reader).  Its unchecked reads do NOT check anything -- outside their
    precondition they return octets beyond the reader's end or zeros -- yet it
    satisfies [Conforms], so by C02 the decoder returns on it exactly what it returns
    on the list reader.  This makes the parametricity theorem non-vacuous for a
    representation that is not a list suffix. *)
From Coq Require Import Lia.
From RL Require Import Model.Reader Proofs.ReaderLemmas Proofs.ReaderParam.

Record pr := { p_data : list N; p_pos : N; p_end : N }.
Definition p_e (r : pr) : N := N.min (p_end r) (len (p_data r)).
Definition p_p (r : pr) : N := N.min (p_pos r) (p_e r).
Definition p_repr (r : pr) : list N := takeN (p_e r - p_p r) (dropN (p_p r) (p_data r)).
Definition p_adv (k : N) (r : pr) : pr := {| p_data := p_data r; p_pos := p_p r + k; p_end := p_e r |}.
Definition p_rd (k : N) (r : pr) : outcome (N * pr) :=
  Val (be_val 0 (takeN k (dropN (p_p r) (p_data r))), p_adv k r).

Definition PosReader : ReaderImpl := {|
  R := pr;
  r_len := fun r => p_e r - p_p r;
  r_is_empty := fun r => p_e r - p_p r =? 0;
  r_u8 := p_rd 1; r_u16 := p_rd 2; r_u32 := p_rd 4; r_u64 := p_rd 8;
  r_bytes := fun n r =>
    if n <=? p_e r - p_p r then Val (Some (takeN n (dropN (p_p r) (p_data r))), p_adv n r)
    else Val (None, r);
  r_skip := fun n r => Val (p_adv n r);
  r_sub := fun n r => Val ({| p_data := p_data r; p_pos := p_p r; p_end := p_p r + n |}, p_adv n r)
|}.

Lemma p_len r : len (p_repr r) = p_e r - p_p r.
Proof. unfold p_repr. rewrite len_takeN, len_dropN. unfold p_p, p_e. lia. Qed.

Lemma p_adv_repr k r : k <= p_e r - p_p r -> p_repr (p_adv k r) = dropN k (p_repr r).
Proof.
  intros H. unfold p_repr, p_adv, p_p, p_e in *. cbn [p_data p_pos p_end].
  set (e := N.min (p_end r) (len (p_data r))) in *. set (p := N.min (p_pos r) e) in *.
  replace (N.min e (len (p_data r))) with e by lia.
  replace (N.min (p + k) e) with (p + k) by lia.
  rewrite dropN_takeN, dropN_dropN. f_equal. lia.
Qed.

Lemma p_take k r : k <= p_e r - p_p r ->
  takeN k (dropN (p_p r) (p_data r)) = takeN k (p_repr r).
Proof. intros H. unfold p_repr. rewrite takeN_takeN by lia. reflexivity. Qed.

Lemma p_sub_repr n r : n <= p_e r - p_p r ->
  p_repr {| p_data := p_data r; p_pos := p_p r; p_end := p_p r + n |} = takeN n (p_repr r).
Proof.
  intros H. unfold p_repr, p_p, p_e in *. cbn [p_data p_pos p_end].
  set (e := N.min (p_end r) (len (p_data r))) in *. set (p := N.min (p_pos r) e) in *.
  replace (N.min (p + n) (len (p_data r))) with (p + n) by lia.
  replace (N.min p (p + n)) with p by lia.
  rewrite takeN_takeN by lia. f_equal. lia.
Qed.

Definition PosReader_conforms : Conforms PosReader.
Proof.
  refine {| repr := (p_repr : R PosReader -> list N) |};
    cbn [PosReader R r_len r_is_empty r_u8 r_u16 r_u32 r_u64 r_bytes r_skip r_sub].
  - intros r. symmetry. apply p_len.
  - intros r. rewrite is_nil_len, p_len. reflexivity.
  - intros r H. rewrite p_len in H. eexists. split; [unfold p_rd; rewrite p_take by lia; reflexivity|].
    apply p_adv_repr. lia.
  - intros r H. rewrite p_len in H. eexists. split; [unfold p_rd; rewrite p_take by lia; reflexivity|].
    apply p_adv_repr. lia.
  - intros r H. rewrite p_len in H. eexists. split; [unfold p_rd; rewrite p_take by lia; reflexivity|].
    apply p_adv_repr. lia.
  - intros r H. rewrite p_len in H. eexists. split; [unfold p_rd; rewrite p_take by lia; reflexivity|].
    apply p_adv_repr. lia.
  - intros n r. rewrite p_len. destruct (n <=? p_e r - p_p r) eqn:E.
    + apply N.leb_le in E. eexists. split; [rewrite p_take by lia; reflexivity|]. apply p_adv_repr. lia.
    + eexists. split; reflexivity.
  - intros n r H. rewrite p_len in H. eexists. split; [reflexivity|]. apply p_adv_repr. lia.
  - intros n r H. rewrite p_len in H. eexists. eexists. split; [reflexivity|]. split.
    + apply p_sub_repr. lia.
    + apply p_adv_repr. lia.
Defined.
