(** Transport of Spec-level statements to the Model decoder (by C05), and the
    Model-level forms of the framing / options / re-encoding theorems. *)
From Coq Require Import Lia.
From RL Require Import Model.Decode Model.Encode Spec.SpecDecode Spec.SpecEncode Proofs.ReaderLemmas
  Proofs.BytesLemmas Proofs.RefineDecode Proofs.RefineEncode Proofs.EncodeFacts Proofs.Framing Proofs.Options
  Proofs.RoundTrip Proofs.DataRoundTrip Proofs.Reencode Proofs.Sequence.

Theorem model_accepts_iff_spec o b m rest : bytes_ok b = true ->
  (m_decode o b = Val (Ok m, rest) <-> s_decode o b = Ok (m, rest)).
Proof.
  intros B. destruct (decode_refines o b B) as [[r tl] [Hm Ho]]. rewrite Hm. split.
  - intros E. inversion E; subst. cbn [obs_of] in Ho. symmetry. exact Ho.
  - intros E. rewrite E in Ho. destruct r as [m'|es]; cbn [obs_of] in Ho; inversion Ho; subst. reflexivity.
Qed.

Theorem model_rejects_iff_spec o b es : bytes_ok b = true ->
  ((exists rest, m_decode o b = Val (Err es, rest)) <-> s_decode o b = Err es).
Proof.
  intros B. destruct (decode_refines o b B) as [[r tl] [Hm Ho]]. rewrite Hm. split.
  - intros [rest E]. inversion E; subst. cbn [obs_of] in Ho. symmetry. exact Ho.
  - intros E. rewrite E in Ho. destruct r as [m'|es']; cbn [obs_of] in Ho; inversion Ho; subst. eauto.
Qed.

(** C08 on the Model: octets after the declared end have no influence *)
Theorem model_suffix o b s m rest : bytes_ok b = true -> bytes_ok s = true ->
  m_decode o b = Val (Ok m, rest) ->
  (fw_T (fld 2 0 b) = true \/ fw_L (fld 2 0 b) = true) ->
  m_decode o (b ++ s) = Val (Ok m, rest ++ s).
Proof.
  intros B Bs E TL. apply (model_accepts_iff_spec o b m rest B) in E.
  apply model_accepts_iff_spec; [rewrite bytes_ok_app, B, Bs; reflexivity|].
  destruct (accepted_declared_ok o b _ E) as (H2 & HC & HD).
  rewrite decode_suffix; [rewrite E; reflexivity | exact H2 |].
  destruct (fw_T (fld 2 0 b)) eqn:T; [apply HC; reflexivity|].
  apply HD; [reflexivity|]. destruct TL as [X|X]; [discriminate|exact X].
Qed.

(** C14 on the Model: accepted under stronger options => accepted with the same value under weaker ones *)
Theorem model_monotone o o' b m rest : bytes_ok b = true -> opts_le o o' = true ->
  m_decode o' b = Val (Ok m, rest) -> m_decode o b = Val (Ok m, rest).
Proof.
  intros B L E. apply (model_accepts_iff_spec o' b m rest B) in E.
  apply (model_accepts_iff_spec o b m rest B). exact (decode_monotone o o' b _ L E).
Qed.

(** C10 on the Model: decode, encode, decode-strict, encode *)
Theorem model_reencode_ctrl o b m rest : bytes_ok b = true ->
  m_decode o b = Val (Ok (Control m), rest) ->
  exists e, m_encode (Control m) [] = Val e /\
            m_decode strict_opts e = Val (Ok (Control (with_length m (len e))), []) /\
            m_encode (Control (with_length m (len e))) [] = Val e.
Proof.
  intros B E. apply (model_accepts_iff_spec o b _ rest B) in E.
  destruct (reencode_ctrl o b m rest B E) as (EN & RT & SAME).
  pose proof (decoded_ctrl_wf o b m rest B) as W.
  assert (EC : s_ctrl o b = Ok (Control m, rest)).
  { unfold s_decode in E.
    destruct (len b <? 2); [discriminate|].
    destruct (v_version o && _); [discriminate|]. destruct (v_reserved o && _); [discriminate|].
    destruct (fw_T (fld 2 0 b)); [exact E|].
    destruct (s_data b) as [[[mm|dd] r]|e] eqn:ED; try discriminate.
    exfalso. unfold s_data in ED.
    repeat match type of ED with
           | (if ?c then _ else _) = _ => destruct c; try discriminate
           | match ?c with Ok _ => _ | Err _ => _ end = _ => destruct c; try discriminate
           end. }
  specialize (W EC).
  destruct (ctrl_roundtrip m W) as [e [He [-> Hd]]].
  exists (s_enc_ctrl m). split; [exact He|]. split; [exact Hd|].
  rewrite encode_octets.
  change (encodable (Control (with_length m (len (s_enc_ctrl m))))) with (encodable (Control m)).
  rewrite EN. reflexivity.
Qed.

(** C03/C08 on the Model: framed messages packed back to back decode one after another *)
Theorem model_back_to_back v rest : framed v = true -> bytes_ok (s_encode v ++ rest) = true ->
  m_decode strict_opts (s_encode v ++ rest) = Val (Ok (canon v), rest).
Proof.
  intros F B. apply model_accepts_iff_spec; [exact B|]. apply back_to_back, F.
Qed.
