(** Messages packed back to back decode one after another (C08, with C03/C04). *)
From Coq Require Import Lia.
From RL Require Import Model.Decode Model.Encode Spec.SpecDecode Spec.SpecEncode Proofs.ReaderLemmas
  Proofs.BytesLemmas Proofs.RefineEncode Proofs.EncodeFacts Proofs.Framing Proofs.RoundTrip Proofs.DataRoundTrip.

(** messages whose own octets delimit them: control messages, and data messages carrying a length field *)
Definition framed (v : message) : bool :=
  match v with
  | Control m => wf_ctrl m
  | Data d => wf_data d && match d_length d with Some _ => true | None => false end
  end.
Definition canon (v : message) : message :=
  match v with
  | Control m => Control (with_length m (ctrl_total m))
  | Data d => Data (decoded_data d)
  end.

Theorem back_to_back v rest : framed v = true ->
  s_decode strict_opts (s_encode v ++ rest) = Ok (canon v, rest).
Proof.
  intros F. destruct v as [m|d]; cbn [framed s_encode canon] in *.
  - pose proof (ctrl_roundtrip_spec m F) as R.
    destruct (accepted_declared_ok _ _ _ R) as (H2 & HC & _).
    assert (T : fw_T (fld 2 0 (s_enc_ctrl m)) = true).
    { unfold s_enc_ctrl. rewrite fld2_be16 by (vm_compute; reflexivity). reflexivity. }
    rewrite decode_suffix; [rewrite R; reflexivity | exact H2 | rewrite T; apply HC, T].
  - apply andb_prop in F. destruct F as [W HL].
    pose proof (data_decode_spec strict_opts d W) as R.
    destruct (accepted_declared_ok _ _ _ R) as (H2 & _ & HD).
    destruct (d_length d) as [l|] eqn:EL; [|discriminate].
    destruct (data_flags_view true (match d_nsnr d with Some _ => true | None => false end)
                (match d_offset d with Some _ => true | None => false end) (d_prio d)) as (Hw & HT & _ & _).
    assert (F0 : fld 2 0 (s_enc_data d) = s_flags false true (match d_nsnr d with Some _ => true | None => false end)
                (match d_offset d with Some _ => true | None => false end) (d_prio d) 2).
    { unfold s_enc_data. rewrite EL. apply fld2_be16, Hw. }
    assert (L : fw_L (fld 2 0 (s_enc_data d)) = true).
    { rewrite F0. destruct (d_nsnr d), (d_offset d), (d_prio d); reflexivity. }
    rewrite decode_suffix; [rewrite R; reflexivity | exact H2 |].
    rewrite F0, HT. apply HD; [rewrite F0; exact HT | exact L].
Qed.

(** decode repeatedly from one input until it is exhausted *)
Fixpoint s_decode_seq (n : nat) (o : opts) (b : list N) : list sres :=
  match n with
  | O => []
  | S n' =>
    match b with
    | [] => []
    | _ => match s_decode o b with
           | Ok (m, rest) => Ok (m, rest) :: s_decode_seq n' o rest
           | Err e => [Err e]
           end
    end
  end.

Lemma s_encode_nonempty v : s_encode v <> [].
Proof. destruct v as [m|d]; cbn [s_encode]; unfold s_enc_ctrl, s_enc_data, be16; cbn [app]; discriminate. Qed.

Theorem sequence_decodes vs : forallb framed vs = true ->
  map (fun r => match r with Ok (m, _) => Some m | Err _ => None end)
      (s_decode_seq (S (length vs)) strict_opts (concat (map s_encode vs)))
  = map (fun v => Some (canon v)) vs.
Proof.
  induction vs as [|v t IH]; intros F; [reflexivity|].
  cbn [forallb] in F. apply andb_prop in F. destruct F as [Fv Ft].
  cbn [map concat length]. remember (S (length t)) as n eqn:En.
  cbn [s_decode_seq].
  destruct (s_encode v ++ concat (map s_encode t)) eqn:E.
  { exfalso. apply app_eq_nil in E. destruct E as [E _]. apply (s_encode_nonempty v E). }
  rewrite <- E. rewrite (back_to_back v _ Fv). cbn [map]. f_equal. subst n. apply IH, Ft.
Qed.
