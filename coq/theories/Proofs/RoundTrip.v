(** Round trips (C03, C04, C10) on the Spec: decoding what the specification
    encoder emits returns the value, for every well-formed value. *)
From Coq Require Import Lia.
From RL Require Import Model.Decode Model.Encode Spec.SpecDecode Spec.SpecEncode Proofs.ReaderLemmas
  Proofs.BytesLemmas Proofs.RefineAvp Proofs.RefineEncode Proofs.EncodeFacts Proofs.Bitmask
  Proofs.Enums Proofs.Framing.

Definition u8 (x : N) := x <? 256.
Definition u16 (x : N) := x <? 65536.
Definition u32 (x : N) := x <? 4294967296.
Definition u64 (x : N) := x <? 18446744073709551616.
Definition text_ok (s : list N) : bool := negb (len s =? 0) && utf8_valid s && bytes_ok s.

(** the encodable domain of the property: field ranges, array sizes, non-empty
    variable payloads, valid UTF-8, optional tails never [Some ""], total <= 1023 *)
Definition wf_avp (a : avp) : bool :=
  avp_fits a &&
  match a with
  | AMessageType _ => true
  | AResultCode code err =>
    u16 code && match err with
                | None => true
                | Some (_, None) => true
                | Some (_, Some m) => text_ok m
                end
  | AProtocolVersion v r => u8 v && u8 r
  | A32 _ v => u32 v
  | ATieBreaker v => u64 v
  | A16 _ v => u16 v
  | ABytes _ v => negb (len v =? 0) && bytes_ok v
  | AStr _ v => text_ok v
  | AFix k v => (len v =? kfix_len k) && bytes_ok v
  | AQ931CauseCode cc cm adv =>
    u16 cc && u8 cm && match adv with None => true | Some s => text_ok s end
  | AProxyAuthenType _ => true
  | AProxyAuthenId v => u8 v
  | ACallErrors a b c d e f => u32 a && u32 b && u32 c && u32 d && u32 e && u32 f
  | AAccm s r => (len s =? 4) && (len r =? 4) && bytes_ok s && bytes_ok r
  | ASequencingRequired => true
  | AHidden t v => u16 t && bytes_ok v
  end.

Lemma be_val_be64 x : x < 18446744073709551616 -> be_val 0 (be64 x) = x.
Proof.
  intros H. unfold be64.
  assert (Hh : x / 4294967296 < 4294967296) by (apply N.div_lt_upper_bound; lia).
  rewrite (N.mod_small (x / 4294967296)) by exact Hh.
  assert (Hl : x mod 4294967296 < 4294967296) by (apply N.mod_lt; lia).
  assert (G : forall a l, be_val a (be32 l) = be_val 0 (be32 l) + 4294967296 * a).
  { intros a l. unfold be32. cbn [be_val]. lia. }
  assert (A : forall a l1 l2, be_val a (l1 ++ l2) = be_val (be_val a l1) l2).
  { intros a l1. revert a. induction l1 as [|y t IH]; intros a l2; [reflexivity|]. cbn [app be_val]. apply IH. }
  rewrite A, G, !be_val_be32 by assumption.
  pose proof (N.div_mod x 4294967296 ltac:(lia)). lia.
Qed.

(** evaluation of positional fields over literal octet lists *)
Ltac fld_eval :=
  cbv beta iota zeta delta [fld octs takeN dropN N.to_nat Pos.to_nat Pos.iter_op Nat.add skipn firstn].
Ltac len_eval := rewrite ?len_app, ?len_cons, ?len_nil, ?len_be16, ?len_be32, ?len_be64.
Ltac no_lt := match goal with |- context [?a <? ?b] =>
                replace (a <? b) with false by (symmetry; apply N.ltb_ge; lia) end.
Ltac no_eq := match goal with |- context [?a =? ?b] =>
                replace (a =? b) with false by (symmetry; apply N.eqb_neq; lia) end.
Ltac yes_lt := match goal with |- context [?a <? ?b] =>
                replace (a <? b) with true by (symmetry; apply N.ltb_lt; lia) end.

Lemma be32_join x : x < 4294967296 ->
  256 * (256 * (256 * (256 * 0 + x / 16777216 mod 256) + x / 65536 mod 256) + x / 256 mod 256) + x mod 256 = x.
Proof. exact (be_val_be32 x). Qed.

Lemma fld2_be16 x rest : x < 65536 -> fld 2 0 (be16 x ++ rest) = x.
Proof. intros H. apply (fld2_app_be16 [] x rest H). Qed.
Lemma fld2_be16_at pre x rest : x < 65536 -> fld 2 (len pre) (pre ++ be16 x ++ rest) = x.
Proof. apply fld2_app_be16. Qed.

Lemma mt_code_lt t : mt_code t < 65536. Proof. destruct t; cbn; lia. Qed.
Lemma et_code_lt t : et_code t < 65536. Proof. destruct t; cbn; lia. Qed.
Lemma pa_code_lt t : pa_code t < 65536. Proof. destruct t; cbn; lia. Qed.

Lemma text_ok_spec s : text_ok s = true -> len s <> 0 /\ utf8_valid s = true /\ bytes_ok s = true.
Proof.
  unfold text_ok. intros H. apply andb_prop in H. destruct H as [H B]. apply andb_prop in H. destruct H as [E U].
  apply negb_true_iff, N.eqb_neq in E. auto.
Qed.

Lemma s_text_ok t s mk : text_ok s = true -> s_text t s mk = Ok (mk s).
Proof. intros H. apply text_ok_spec in H. destruct H as (_ & U & _). unfold s_text. rewrite U. reflexivity. Qed.

Lemma shape_of_k16 k : shape_of (k16_type k) = Some (Sh16 k). Proof. destruct k; reflexivity. Qed.
Lemma shape_of_k32 k : shape_of (k32_type k) = Some (Sh32 k). Proof. destruct k; reflexivity. Qed.
Lemma shape_of_kbytes k : shape_of (kbytes_type k) = Some (ShBytes k). Proof. destruct k; reflexivity. Qed.
Lemma shape_of_kstr k : shape_of (kstr_type k) = Some (ShStr k). Proof. destruct k; reflexivity. Qed.
Lemma shape_of_kfix k : shape_of (kfix_type k) = Some (ShFix k). Proof. destruct k; reflexivity. Qed.

Ltac split_wf H :=
  repeat match type of H with
         | (_ && _) = true => let H1 := fresh H in apply andb_prop in H; destruct H as [H H1]; try split_wf H1
         end.

Theorem payload_roundtrip a : wf_avp a = true -> is_hidden a = false ->
  s_payload (attr_type a) (s_value a) = Ok a.
Proof.
  intros W NH. unfold wf_avp in W. apply andb_prop in W. destruct W as [_ W].
  destruct a as [t|code err|v r|k v|v|k v|k v|k v|k v|cc cm adv|t|v|c1 c2 c3 c4 c5 c6|s r| |t v];
    try discriminate; unfold s_payload; cbn [attr_type s_value];
    rewrite ?shape_of_k16, ?shape_of_k32, ?shape_of_kbytes, ?shape_of_kstr, ?shape_of_kfix;
    cbn [shape_of s_shape].
  - (* MessageType *)
    rewrite <- (app_nil_r (be16 (mt_code t))), fld2_be16 by apply mt_code_lt.
    len_eval. no_lt. rewrite mt_inv1. reflexivity.
  - (* ResultCode *)
    apply andb_prop in W. destruct W as [Wc We]. unfold u16 in Wc. apply N.ltb_lt in Wc.
    destruct err as [[et [m|]]|].
    + cbn [opt_octets]. apply text_ok_spec in We as We'. destruct We' as (Ne & _ & _).
      rewrite fld2_be16 by exact Wc. len_eval. no_lt. no_lt.
      change 2 with (len (be16 code)) at 2. rewrite fld2_be16_at by apply et_code_lt. rewrite et_inv1.
      no_eq.
      replace (dropN 4 (be16 code ++ be16 (et_code et) ++ m)) with m.
      2:{ rewrite app_assoc. change 4 with (len (be16 code ++ be16 (et_code et))). rewrite dropN_app. reflexivity. }
      apply s_text_ok, We.
    + cbn [opt_octets]. rewrite fld2_be16 by exact Wc. len_eval. no_lt. no_lt.
      change 2 with (len (be16 code)) at 2. rewrite fld2_be16_at by apply et_code_lt. rewrite et_inv1.
      reflexivity.
    + rewrite app_nil_r. rewrite <- (app_nil_r (be16 code)), fld2_be16 by exact Wc.
      len_eval. no_lt. yes_lt. reflexivity.
  - (* ProtocolVersion *)
    len_eval. no_lt. fld_eval. cbn [be_val]. repeat (f_equal; try lia).
  - (* u32 *)
    unfold u32 in W. apply N.ltb_lt in W. len_eval. no_lt.
    unfold fld, octs. change (takeN 4 (dropN 0 (be32 v))) with (be32 v). rewrite be_val_be32 by exact W. reflexivity.
  - (* TieBreaker *)
    unfold u64 in W. apply N.ltb_lt in W. len_eval. no_lt.
    unfold fld, octs. change (takeN 8 (dropN 0 (be64 v))) with (be64 v). rewrite be_val_be64 by exact W. reflexivity.
  - (* u16 *)
    unfold u16 in W. apply N.ltb_lt in W. len_eval. no_lt.
    rewrite <- (app_nil_r (be16 v)), fld2_be16 by exact W. reflexivity.
  - (* bytes *)
    apply andb_prop in W. destruct W as [Ne _]. rewrite negb_true_iff in Ne. rewrite Ne. reflexivity.
  - (* str *)
    apply text_ok_spec in W as W'. destruct W' as (Ne & _ & _).
    replace (len v =? 0) with false by (symmetry; apply N.eqb_neq; exact Ne). apply s_text_ok, W.
  - (* fix *)
    apply andb_prop in W. destruct W as [Wl _]. apply N.eqb_eq in Wl.
    replace (len v <? kfix_len k) with false by (symmetry; apply N.ltb_ge; lia).
    unfold octs. rewrite dropN_0, takeN_all by lia. reflexivity.
  - (* Q931 *)
    apply andb_prop in W. destruct W as [W Wa]. apply andb_prop in W. destruct W as [Wc Wm].
    unfold u16 in Wc. unfold u8 in Wm. apply N.ltb_lt in Wc, Wm.
    rewrite fld2_be16 by exact Wc.
    assert (F1 : fld 1 2 (be16 cc ++ [cm mod 256] ++ opt_octets adv) = cm).
    { unfold fld, octs. change 2 with (len (be16 cc)). rewrite dropN_app. cbn [app].
      change (takeN 1 (cm mod 256 :: opt_octets adv)) with [cm mod 256]. cbn [be_val].
      rewrite N.mod_small by exact Wm. lia. }
    rewrite F1. len_eval. no_lt.
    destruct adv as [s|]; cbn [opt_octets].
    + apply text_ok_spec in Wa as Wa'. destruct Wa' as (Ne & _ & _).
      no_eq.
      replace (dropN 3 (be16 cc ++ [cm mod 256] ++ s)) with s.
      2:{ rewrite app_assoc. change 3 with (len (be16 cc ++ [cm mod 256])). rewrite dropN_app. reflexivity. }
      apply s_text_ok, Wa.
    + reflexivity.
  - (* ProxyAuthenType *)
    rewrite <- (app_nil_r (be16 (pa_code t))), fld2_be16 by apply pa_code_lt.
    len_eval. no_lt. rewrite pa_inv1. reflexivity.
  - (* ProxyAuthenId *)
    unfold u8 in W. apply N.ltb_lt in W. len_eval. no_lt. fld_eval. cbn [be_val]. repeat (f_equal; try lia).
  - (* CallErrors *)
    split_wf W. unfold u32 in *.
    repeat match goal with H : (_ <? _) = true |- _ => apply N.ltb_lt in H end.
    len_eval. no_lt.
    cbv beta iota zeta delta [fld octs takeN dropN N.to_nat Pos.to_nat Pos.iter_op Nat.add skipn firstn app be32 be_val].
    rewrite !be32_join by assumption. reflexivity.
  - (* Accm *)
    apply andb_prop in W. destruct W as [W Br]. apply andb_prop in W. destruct W as [W Bs].
    apply andb_prop in W. destruct W as [Ls Lr]. apply N.eqb_eq in Ls, Lr.
    len_eval. no_lt. unfold octs.
    change 6 with (len [0; 0] + 4). rewrite <- dropN_dropN.
    change 2 with (len [0; 0]). rewrite !dropN_app.
    rewrite <- Ls. rewrite takeN_app, dropN_app. rewrite takeN_all by lia. reflexivity.
  - (* SequencingRequired *) reflexivity.
Qed.


(** * one record *)
Lemma attr_type_lt a : wf_avp a = true -> attr_type a < 65536.
Proof.
  intros W. destruct a as [t|code err|v r|k v|v|k v|k v|k v|k v|cc cm adv|t|v|c1 c2 c3 c4 c5 c6|s r| |t v];
    cbn [attr_type]; try (cbn; lia); try (destruct k; cbn; lia).
  unfold wf_avp in W. apply andb_prop in W. destruct W as [_ W]. apply andb_prop in W. destruct W as [W _].
  apply N.ltb_lt in W. exact W.
Qed.

Lemma hidden_bit_enc l h : l < 1024 -> h < 2 -> N.testbit (64 * (l / 256) + (2 * h + 1)) 1 = (h =? 1).
Proof.
  intros Hl Hh.
  assert (E : forallb (fun l => forallb (fun h =>
     Bool.eqb (N.testbit (64 * (l / 256) + (2 * h + 1)) 1) (h =? 1)) (upto 2)) (upto 1024) = true)
    by (vm_compute; reflexivity).
  pose proof (forall_upto _ _ E l Hl) as E1. cbv beta in E1.
  pose proof (forall_upto _ _ E1 h Hh) as E2. cbv beta in E2. apply Bool.eqb_prop in E2. exact E2.
Qed.

Lemma wf_fits a : wf_avp a = true -> avp_fits a = true.
Proof. unfold wf_avp. intros W. apply andb_prop in W. tauto. Qed.

Lemma enc_avp_shape a : s_enc_avp a =
  [64 * (avp_total a / 256) + (if is_hidden a then 3 else 1); avp_total a mod 256]
    ++ be16 0 ++ be16 (attr_type a) ++ s_value a.
Proof. reflexivity. Qed.

Theorem record_roundtrip a : wf_avp a = true ->
  well_delimited (s_enc_avp a) = true /\ s_record (s_enc_avp a) = Ok a.
Proof.
  intros W. pose proof (wf_fits a W) as F. pose proof (attr_type_lt a W) as T.
  assert (RL : rec_length (s_enc_avp a) = avp_total a)
    by (rewrite <- (app_nil_r (s_enc_avp a)); apply rec_length_enc, F).
  split.
  - unfold well_delimited. rewrite RL, len_s_enc_avp, N.eqb_refl. unfold avp_total.
    replace (6 <=? 6 + len (s_value a)) with true by (symmetry; apply N.leb_le; lia). reflexivity.
  - unfold s_record, rec_vendor, rec_type, rec_hidden. rewrite enc_avp_shape.
    set (o1 := 64 * (avp_total a / 256) + _). set (o2 := avp_total a mod 256).
    change 2 with (len [o1; o2]) at 2 4. rewrite !fld2_be16_at by lia.
    change (0 =? 0) with true. cbn [negb].
    assert (FT : fld 2 4 ([o1; o2] ++ be16 0 ++ be16 (attr_type a) ++ s_value a) = attr_type a).
    { rewrite (app_assoc [o1; o2]). change 4 with (len ([o1; o2] ++ be16 0)). apply fld2_be16_at, T. }
    rewrite FT.
    assert (D6 : dropN 6 ([o1; o2] ++ be16 0 ++ be16 (attr_type a) ++ s_value a) = s_value a).
    { rewrite (app_assoc [o1; o2]), (app_assoc ([o1; o2] ++ be16 0)).
      change 6 with (len (([o1; o2] ++ be16 0) ++ be16 (attr_type a))). apply dropN_app. }
    rewrite D6.
    assert (F1 : fld 1 0 ([o1; o2] ++ be16 0 ++ be16 (attr_type a) ++ s_value a) = o1).
    { unfold fld, octs. cbn [app]. rewrite dropN_0. change (takeN 1 (o1 :: _)) with [o1]. cbn [be_val]. lia. }
    rewrite F1. unfold o1. unfold avp_fits in F. apply N.leb_le in F.
    destruct (is_hidden a) eqn:H.
    + pose proof (hidden_bit_enc (avp_total a) 1 ltac:(lia) ltac:(lia)) as E.
      change (2 * 1 + 1) with 3 in E. rewrite E. change (1 =? 1) with true. cbv iota.
      destruct a; try discriminate. reflexivity.
    + pose proof (hidden_bit_enc (avp_total a) 0 ltac:(lia) ltac:(lia)) as E.
      change (2 * 0 + 1) with 1 in E. rewrite E. change (0 =? 1) with false. cbv iota.
      apply payload_roundtrip; assumption.
Qed.

(** * AVP lists and control messages *)
Theorem avps_roundtrip l : forallb wf_avp l = true ->
  s_avps (s_enc_avps l) = (map Ok l, []).
Proof.
  intros W. unfold s_enc_avps. rewrite avps_concat.
  - f_equal. rewrite map_map. apply map_ext_in. intros a Ha.
    rewrite forallb_forall in W. apply (record_roundtrip a (W a Ha)).
  - rewrite forallb_forall in *. intros r Hr. apply in_map_iff in Hr. destruct Hr as [a [<- Ha]].
    apply (record_roundtrip a (W a Ha)).
Qed.

Definition wf_ctrl (m : ctrl_msg) : bool :=
  forallb wf_avp (c_avps m) && (ctrl_total m <=? 65535)
  && match c_avps m with [] => true | a :: _ => is_msgtype a end
  && u16 (c_tunnel m) && u16 (c_session m) && u16 (c_ns m) && u16 (c_nr m).

Definition with_length (m : ctrl_msg) (l : N) : ctrl_msg :=
  {| c_length := l; c_tunnel := c_tunnel m; c_session := c_session m; c_ns := c_ns m;
     c_nr := c_nr m; c_avps := c_avps m |}.

Lemma oks_of_map_ok {A} (l : list A) : oks_of (map (@Ok derr A) l) = l.
Proof. induction l as [|a t IH]; [reflexivity|]. cbn [map oks_of]. rewrite IH. reflexivity. Qed.
Lemma no_err_map_ok {A} (l : list A) : existsb is_err (map (@Ok derr A) l) = false.
Proof. induction l as [|a t IH]; [reflexivity|]. cbn [map existsb is_err orb]. exact IH. Qed.

Theorem ctrl_roundtrip_spec m : wf_ctrl m = true ->
  s_decode strict_opts (s_enc_ctrl m) = Ok (Control (with_length m (ctrl_total m)), []).
Proof.
  intros W. unfold wf_ctrl in W.
  apply andb_prop in W. destruct W as [W Wnr]. apply andb_prop in W. destruct W as [W Wns].
  apply andb_prop in W. destruct W as [W Wsid]. apply andb_prop in W. destruct W as [W Wtid].
  apply andb_prop in W. destruct W as [W Wfirst]. apply andb_prop in W. destruct W as [Wa Wtot].
  unfold u16 in *. apply N.ltb_lt in Wnr, Wns, Wsid, Wtid. apply N.leb_le in Wtot.
  unfold s_decode.
  assert (L : len (s_enc_ctrl m) = ctrl_total m).
  { unfold s_enc_ctrl, ctrl_total. rewrite !len_app, !len_be16. lia. }
  rewrite L. replace (ctrl_total m <? 2) with false by (symmetry; apply N.ltb_ge; unfold ctrl_total; lia).
  assert (F0 : fld 2 0 (s_enc_ctrl m) = 4896) by (unfold s_enc_ctrl; apply fld2_be16; cbn; lia).
  rewrite F0. change (fw_version 4896 =? 2) with true. change (fw_reserved_clear 4896) with true.
  change (fw_T 4896) with true. cbn [strict_opts v_version v_reserved andb negb].
  set (hdr := be16 (s_flags true true true false false 2) ++ be16 (ctrl_total m)
      ++ be16 (c_tunnel m) ++ be16 (c_session m) ++ be16 (c_ns m) ++ be16 (c_nr m)).
  assert (E : s_enc_ctrl m = hdr ++ concat (map s_enc_avp (c_avps m))).
  { unfold s_enc_ctrl, hdr, s_enc_avps. rewrite <- !app_assoc. reflexivity. }
  rewrite E.
  assert (WD : forallb well_delimited (map s_enc_avp (c_avps m)) = true).
  { rewrite forallb_forall in *. intros r Hr. apply in_map_iff in Hr. destruct Hr as [a [<- Ha]].
    apply (record_roundtrip a (Wa a Ha)). }
  assert (F2 : fld 2 2 hdr = ctrl_total m).
  { unfold hdr. change 2 with (len (be16 (s_flags true true true false false 2))) at 2.
    apply fld2_be16_at. lia. }
  assert (HOK : ctrl_header_ok strict_opts hdr (len (concat (map s_enc_avp (c_avps m))))).
  { unfold ctrl_header_ok. assert (F0' : fld 2 0 hdr = 4896) by (unfold hdr; apply fld2_be16; cbn; lia).
    rewrite F0', F2. repeat split; try reflexivity. }
  rewrite (ctrl_by_records strict_opts hdr _ HOK WD). cbv zeta.
  assert (RS : map s_record (map s_enc_avp (c_avps m)) = map Ok (c_avps m)).
  { rewrite map_map. apply map_ext_in. intros a Ha. rewrite forallb_forall in Wa.
    apply (record_roundtrip a (Wa a Ha)). }
  rewrite RS, no_err_map_ok, oks_of_map_ok.
  assert (FO : s_first_ok (map Ok (c_avps m)) = true).
  { destruct (c_avps m) as [|a t]; [reflexivity|]. cbn [map s_first_ok]. destruct a; try discriminate. reflexivity. }
  rewrite FO. cbn [negb]. f_equal. f_equal. unfold with_length. rewrite F2.
  assert (F4 : fld 2 4 hdr = c_tunnel m).
  { unfold hdr. rewrite (app_assoc (be16 _) (be16 (ctrl_total m))).
    change 4 with (len (be16 (s_flags true true true false false 2) ++ be16 (ctrl_total m))).
    apply fld2_be16_at, Wtid. }
  assert (F6 : fld 2 6 hdr = c_session m).
  { unfold hdr. rewrite (app_assoc (be16 _) (be16 (ctrl_total m))), (app_assoc _ (be16 (c_tunnel m))).
    change 6 with (len ((be16 (s_flags true true true false false 2) ++ be16 (ctrl_total m)) ++ be16 (c_tunnel m))).
    apply fld2_be16_at, Wsid. }
  assert (F8 : fld 2 8 hdr = c_ns m).
  { unfold hdr. rewrite (app_assoc (be16 _) (be16 (ctrl_total m))), (app_assoc _ (be16 (c_tunnel m))),
      (app_assoc _ (be16 (c_session m))).
    change 8 with (len (((be16 (s_flags true true true false false 2) ++ be16 (ctrl_total m)) ++ be16 (c_tunnel m))
                          ++ be16 (c_session m))).
    apply fld2_be16_at, Wns. }
  assert (F10 : fld 2 10 hdr = c_nr m).
  { unfold hdr. rewrite (app_assoc (be16 _) (be16 (ctrl_total m))), (app_assoc _ (be16 (c_tunnel m))),
      (app_assoc _ (be16 (c_session m))), (app_assoc _ (be16 (c_ns m))).
    change 10 with (len ((((be16 (s_flags true true true false false 2) ++ be16 (ctrl_total m)) ++ be16 (c_tunnel m))
                          ++ be16 (c_session m)) ++ be16 (c_ns m))).
    rewrite <- (app_nil_r (be16 (c_nr m))). apply fld2_be16_at, Wnr. }
  rewrite F4, F6, F8, F10. reflexivity.
Qed.

(** * transport to the Model: emitted octets are octets; decode of encode *)
Lemma bytes_ok_be16 x : bytes_ok (be16 x) = true.
Proof.
  unfold be16, bytes_ok, byte_ok. cbn [forallb].
  rewrite !andb_true_iff. repeat split; apply N.ltb_lt; apply N.mod_lt; lia.
Qed.
Lemma bytes_ok_be32 x : bytes_ok (be32 x) = true.
Proof.
  unfold be32, bytes_ok, byte_ok. cbn [forallb].
  rewrite !andb_true_iff. repeat split; apply N.ltb_lt; apply N.mod_lt; lia.
Qed.
Lemma bytes_ok_be64 x : bytes_ok (be64 x) = true.
Proof. unfold be64. rewrite bytes_ok_app, !bytes_ok_be32. reflexivity. Qed.

Lemma bytes_ok_value a : wf_avp a = true -> bytes_ok (s_value a) = true.
Proof.
  intros W. unfold wf_avp in W. apply andb_prop in W. destruct W as [_ W].
  destruct a as [t|code err|v r|k v|v|k v|k v|k v|k v|cc cm adv|t|v|c1 c2 c3 c4 c5 c6|s r| |t v];
    cbn [s_value]; rewrite ?bytes_ok_app, ?bytes_ok_be16, ?bytes_ok_be32, ?bytes_ok_be64; try reflexivity.
  - apply andb_prop in W. destruct W as [_ We]. destruct err as [[et [m|]]|]; cbn [opt_octets];
      rewrite ?bytes_ok_app, ?bytes_ok_be16; try reflexivity.
    apply text_ok_spec in We. destruct We as (_ & _ & B). rewrite B. reflexivity.
  - apply andb_prop in W. destruct W as [Wv Wr]. unfold u8 in *. unfold bytes_ok, byte_ok. cbn [forallb].
    rewrite Wv, Wr. reflexivity.
  - apply andb_prop in W. tauto.
  - apply text_ok_spec in W. tauto.
  - apply andb_prop in W. tauto.
  - apply andb_prop in W. destruct W as [W Wa]. cbn [andb].
    assert (bytes_ok [cm mod 256] = true).
    { unfold bytes_ok, byte_ok. cbn [forallb]. rewrite andb_true_r. apply N.ltb_lt, N.mod_lt. lia. }
    rewrite H. destruct adv as [s|]; cbn [opt_octets]; [|reflexivity].
    apply text_ok_spec in Wa. destruct Wa as (_ & _ & B). rewrite B. reflexivity.
  - unfold u8 in W. unfold bytes_ok, byte_ok. cbn [forallb]. rewrite W. reflexivity.
  - apply andb_prop in W. destruct W as [W Br]. apply andb_prop in W. destruct W as [_ Bs].
    rewrite Bs, Br. reflexivity.
  - apply andb_prop in W. tauto.
Qed.

Lemma bytes_ok_enc_avp a : wf_avp a = true -> bytes_ok (s_enc_avp a) = true.
Proof.
  intros W. pose proof (wf_fits a W) as F. unfold avp_fits in F. apply N.leb_le in F.
  rewrite enc_avp_shape, !bytes_ok_app, !bytes_ok_be16, (bytes_ok_value a W).
  unfold bytes_ok, byte_ok. cbn [forallb]. rewrite !andb_true_r.
  apply andb_true_iff. split; apply N.ltb_lt; [|apply N.mod_lt; lia].
  assert (avp_total a / 256 <= 3) by (apply N.lt_succ_r; apply N.div_lt_upper_bound; lia).
  destruct (is_hidden a); lia.
Qed.

Lemma bytes_ok_enc_avps l : forallb wf_avp l = true -> bytes_ok (s_enc_avps l) = true.
Proof.
  induction l as [|a t IH]; intros W; [reflexivity|]. cbn [forallb] in W. apply andb_prop in W.
  destruct W as [Wa Wt]. cbn [s_enc_avps map concat]. fold (s_enc_avps t).
  rewrite bytes_ok_app, (bytes_ok_enc_avp a Wa), (IH Wt). reflexivity.
Qed.

Lemma wf_ctrl_encodable m : wf_ctrl m = true -> encodable (Control m) = true /\ forallb wf_avp (c_avps m) = true.
Proof.
  unfold wf_ctrl. intros W. do 5 (apply andb_prop in W; destruct W as [W _]).
  apply andb_prop in W. destruct W as [Wa Wt]. split; [|exact Wa].
  cbn [encodable]. rewrite Wt, andb_true_r. rewrite forallb_forall in *. intros a Ha. apply wf_fits, Wa, Ha.
Qed.

Theorem ctrl_roundtrip m : wf_ctrl m = true ->
  exists b, m_encode (Control m) [] = Val b /\ b = s_enc_ctrl m /\
            m_decode strict_opts b = Val (Ok (Control (with_length m (len b))), []).
Proof.
  intros W. destruct (wf_ctrl_encodable m W) as [E Wa].
  exists (s_enc_ctrl m). split; [rewrite encode_octets, E; reflexivity|]. split; [reflexivity|].
  assert (B : bytes_ok (s_enc_ctrl m) = true).
  { unfold s_enc_ctrl. rewrite !bytes_ok_app, !bytes_ok_be16, (bytes_ok_enc_avps _ Wa). reflexivity. }
  destruct (RefineDecode.decode_refines strict_opts _ B) as [[r rest] [Hm Ho]].
  rewrite (ctrl_roundtrip_spec m W) in Ho. rewrite Hm.
  assert (L : len (s_enc_ctrl m) = ctrl_total m).
  { unfold s_enc_ctrl, ctrl_total. rewrite !len_app, !len_be16. lia. }
  rewrite L. destruct r as [mm|es]; cbn [RefineDecode.obs_of] in Ho; inversion Ho; subst. reflexivity.
Qed.

Theorem avp_roundtrip a : wf_avp a = true ->
  exists b, m_enc_avp a [] = Val b /\ b = s_enc_avp a /\ m_avps b = Val ([Ok a], []).
Proof.
  intros W. exists (s_enc_avp a). split; [rewrite enc_avp_octets, (wf_fits a W); reflexivity|].
  split; [reflexivity|].
  rewrite (RefineDecode.avps_refines _ (bytes_ok_enc_avp a W)).
  destruct (record_roundtrip a W) as [WD R]. rewrite (avps_single _ WD), R. reflexivity.
Qed.
