(** Bitmask AVPs (C17): constructor/accessor agreement, each accessor reads
    exactly its own bit, all 32 bits survive decode then encode. *)
From Coq Require Import Lia.
From RL Require Import Model.Ops Spec.SpecDecode Spec.SpecEncode Proofs.ReaderLemmas Proofs.BytesLemmas.

Lemma bit_of_testbit w i : bit_of w i = N.testbit w i.
Proof.
  unfold bit_of. change 1 with (N.ones 1). rewrite N.land_ones. change (2 ^ 1) with 2.
  rewrite <- N.bit0_mod, N.shiftr_spec', N.add_0_l.
  destruct (N.testbit w i); reflexivity.
Qed.

Definition bit_first (k : bm_kind) : N :=
  match k with BmBearerCapabilities => 7 | _ => 6 end.
Definition bit_second (k : bm_kind) : N :=
  match k with BmBearerCapabilities => 6 | _ => 7 end.

Theorem accessors_own_bit k w :
  acc_first k w = N.testbit w (bit_first k) /\ acc_second k w = N.testbit w (bit_second k).
Proof. destruct k; cbn [acc_first acc_second bit_first bit_second]; rewrite !bit_of_testbit; split; reflexivity. Qed.

Theorem constructor_accessors k x y :
  acc_first k (bm_new k x y) = x /\ acc_second k (bm_new k x y) = y.
Proof. destruct k, x, y; split; vm_compute; reflexivity. Qed.

Theorem distinct_bits k : bit_first k <> bit_second k.
Proof. destruct k; cbn; discriminate. Qed.

Lemma be_val_be32 x : x < 4294967296 -> be_val 0 (be32 x) = x.
Proof.
  intros H. unfold be32. cbn [be_val].
  assert (x / 16777216 < 256) by (apply N.div_lt_upper_bound; lia).
  rewrite (N.mod_small (x / 16777216) 256) by assumption.
  pose proof (N.div_mod x 256 ltac:(lia)).
  pose proof (N.div_mod (x / 256) 256 ltac:(lia)).
  pose proof (N.div_mod (x / 256 / 256) 256 ltac:(lia)).
  rewrite !N.div_div in * by lia. change (256 * 256) with 65536 in *. change (65536 * 256) with 16777216 in *.
  lia.
Qed.

Theorem raw_roundtrip k w : w < 4294967296 ->
  s_payload (k32_type (bm_k32 k)) (be32 w) = Ok (A32 (bm_k32 k) w) /\
  s_value (A32 (bm_k32 k) w) = be32 w.
Proof.
  intros H. split; [|reflexivity].
  assert (E : fld 4 0 (be32 w) = w) by (unfold fld, octs; change (takeN 4 (dropN 0 (be32 w))) with (be32 w); apply be_val_be32, H).
  destruct k; unfold s_payload; cbn [bm_k32 k32_type shape_of s_shape];
    change (len (be32 w) <? 4) with false; cbv iota; rewrite E; reflexivity.
Qed.
