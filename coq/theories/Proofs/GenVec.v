(** Support for the source tie of the slice/Vec code (py/rs2v/vec.py): SliceReader, VecWriter, AVP::hide, AVP::reveal
    regenerated over [Model/VecOps.v].  Nothing in the property cones depends on this file. *)
From Coq Require Import Arith NArith List Bool Lia.
From RL Require Import Model.Decode Model.Encode Model.Hide Model.VecOps Proofs.ReaderLemmas Proofs.BytesLemmas Proofs.Md5Facts.
Import ListNotations. Open Scope N_scope.

(** * A reader implementation assembled from regenerated SliceReader methods
    (each takes the [data] field and returns the result together with the new [data]) *)
Definition mkSliceReader
  (f_len : list N -> outcome (N * list N)) (f_is_empty : list N -> outcome (bool * list N))
  (f_u8 f_u16 f_u32 f_u64 : list N -> outcome (N * list N))
  (f_bytes : list N -> N -> outcome (option (list N) * list N))
  (f_skip : list N -> N -> outcome (list N))
  (f_sub : list N -> N -> outcome (list N * list N)) : ReaderImpl := {|
  R := list N;
  r_len := fun l => fst (unval (0, l) (f_len l));
  r_is_empty := fun l => fst (unval (true, l) (f_is_empty l));
  r_u8 := f_u8; r_u16 := f_u16; r_u32 := f_u32; r_u64 := f_u64;
  r_bytes := fun n l => f_bytes l n;
  r_skip := fun n l => f_skip l n;
  r_sub := fun n l => f_sub l n |}.

Section MkReader.
Variables (f_len : list N -> outcome (N * list N)) (f_is_empty : list N -> outcome (bool * list N))
  (f_u8 f_u16 f_u32 f_u64 : list N -> outcome (N * list N))
  (f_bytes : list N -> N -> outcome (option (list N) * list N))
  (f_skip : list N -> N -> outcome (list N))
  (f_sub : list N -> N -> outcome (list N * list N)).
Hypothesis H_len : forall l, f_len l = Val (len l, l).
Hypothesis H_is_empty : forall l, f_is_empty l = Val (match l with [] => true | _ => false end, l).
Hypothesis H_u8 : forall l, f_u8 l = lr_read 1 l.
Hypothesis H_u16 : forall l, f_u16 l = lr_read 2 l.
Hypothesis H_u32 : forall l, f_u32 l = lr_read 4 l.
Hypothesis H_u64 : forall l, f_u64 l = lr_read 8 l.
Hypothesis H_bytes : forall l n, f_bytes l n = r_bytes ListReader n l.
Hypothesis H_skip : forall l n, f_skip l n = r_skip ListReader n l.
Hypothesis H_sub : forall l n, f_sub l n = r_sub ListReader n l.

Let I := mkSliceReader f_len f_is_empty f_u8 f_u16 f_u32 f_u64 f_bytes f_skip f_sub.

(** every decoder program behaves on the regenerated reader exactly as on the Model's list reader *)
Theorem mk_grun : forall A (p : prog A) (l : list N), grun I p l = run p l.
Proof.
  induction p as [A a|A k|A|A k IH|A k IH|A k IH|A k IH|A k IH|A k IH|A n k IH|A n k IH|A B n q IHq k IH];
    intros l; cbn [run grun I mkSliceReader r_len r_is_empty r_u8 r_u16 r_u32 r_u64 r_bytes r_skip r_sub R].
  - reflexivity.
  - reflexivity.
  - reflexivity.
  - rewrite H_len. cbn [unval fst]. apply IH.
  - rewrite H_is_empty. cbn [unval fst]. apply IH.
  - rewrite H_u8. destruct (lr_read 1 l) as [[x l1]| | |]; cbn [obind]; [apply IH|reflexivity..].
  - rewrite H_u16. destruct (lr_read 2 l) as [[x l1]| | |]; cbn [obind]; [apply IH|reflexivity..].
  - rewrite H_u32. destruct (lr_read 4 l) as [[x l1]| | |]; cbn [obind]; [apply IH|reflexivity..].
  - rewrite H_u64. destruct (lr_read 8 l) as [[x l1]| | |]; cbn [obind]; [apply IH|reflexivity..].
  - rewrite H_bytes. cbn [r_bytes ListReader]. destruct (n <=? len l); cbn [obind]; apply IH.
  - rewrite H_skip. cbn [r_skip ListReader]. destruct (n <=? len l); cbn [obind]; [apply IH|reflexivity].
  - rewrite H_sub. cbn [r_sub ListReader]. destruct (n <=? len l); cbn [obind]; [|reflexivity].
    rewrite IHq. destruct (run q (takeN n l)) as [[b l1]| | |]; cbn [obind]; [apply IH|reflexivity..].
Qed.
End MkReader.

(** * Facts used by the per-method ties *)
Lemma leb_len_nat k (l : list N) : (N.of_nat k <=? len l) = Nat.leb k (length l).
Proof.
  unfold len. destruct (Nat.leb k (length l)) eqn:E.
  - apply N.leb_le. apply Nat.leb_le in E. lia.
  - apply N.leb_gt. apply Nat.leb_gt in E. lia.
Qed.

Lemma lr_read_as_vec k (l : list N) :
  lr_read k l = obind (v_unchecked_to l (N.of_nat k)) (fun s => obind (v_from l (N.of_nat k)) (fun r => Val (be_val 0 s, r))).
Proof.
  unfold lr_read, v_unchecked_to, v_from. rewrite leb_len_nat.
  destruct (Nat.leb k (length l)); cbn [obind]; [|reflexivity].
  unfold takeN, dropN. rewrite Nnat.Nat2N.id. reflexivity.
Qed.

Lemma lr_read1_as_vec (l : list N) :
  lr_read 1 l = obind (v_unchecked_at l 0) (fun b => obind (v_from l 1) (fun r => Val (b, r))).
Proof.
  destruct l as [|x t]; [reflexivity|].
  unfold lr_read, v_unchecked_at, v_from. cbn [dropN skipn N.to_nat length Nat.leb obind].
  replace (1 <=? len (x :: t)) with true by (symmetry; apply N.leb_le; rewrite len_cons; lia).
  cbn [obind firstn be_val]. rewrite N.mul_0_r, N.add_0_l. reflexivity.
Qed.

Lemma lr_read2_as_vec (l : list N) :
  lr_read 2 l = obind (v_unchecked_to l 2) (fun s => obind (v_from l 2) (fun r => Val (be_val 0 s, r))).
Proof. exact (lr_read_as_vec 2 l). Qed.
Lemma lr_read4_as_vec (l : list N) :
  lr_read 4 l = obind (v_unchecked_to l 4) (fun s => obind (v_from l 4) (fun r => Val (be_val 0 s, r))).
Proof. exact (lr_read_as_vec 4 l). Qed.
Lemma lr_read8_as_vec (l : list N) :
  lr_read 8 l = obind (v_unchecked_to l 8) (fun s => obind (v_from l 8) (fun r => Val (be_val 0 s, r))).
Proof. exact (lr_read_as_vec 8 l). Qed.

Ltac vec_tie :=
  intros;
  repeat match goal with
         | |- context [lr_read 1 ?l] => rewrite (lr_read1_as_vec l)
         | |- context [lr_read 2 ?l] => rewrite (lr_read2_as_vec l)
         | |- context [lr_read 4 ?l] => rewrite (lr_read4_as_vec l)
         | |- context [lr_read 8 ?l] => rewrite (lr_read8_as_vec l)
         end;
  cbv [v_to v_from v_get_to v_unchecked_to r_bytes r_skip r_sub ListReader is_nil];
  repeat match goal with
         | |- context [if ?c then _ else _] => destruct c eqn:?; cbn [obind]
         end;
  try reflexivity.

(** VecWriter::write_bytes_at: the assert, the bounds check of [self.data[offset..]] and the raw copy together are the
    Model's [w_bytes_at] *)
Ltac vw_at_tie :=
  unfold w_bytes_at, w_len, omap, v_copy; cbn [w_data];
  let E := fresh "E" in
  match goal with |- context [?a + len ?b <=? len ?d] => destruct (a + len b <=? len d) eqn:E end; cbn [obind]; [|reflexivity];
  apply N.leb_le in E;
  repeat match goal with |- context [?x <=? ?y] => replace (x <=? y) with true by (symmetry; apply N.leb_le; lia) end;
  cbn [andb obind w_data]; rewrite dropN_0;
  match goal with |- context [takeN (len ?b) ?b] => rewrite (takeN_all (len b) b) by lia end; reflexivity.

(** * Indexing, the XOR loop *)

Lemma dropN_len_app (A B : list N) : dropN (len A) (A ++ B) = B.
Proof. apply dropN_app. Qed.

Lemma v_at_app (A : list N) x B i : len A = i -> v_at (A ++ x :: B) i = Val x.
Proof. intros <-. unfold v_at. rewrite dropN_app. reflexivity. Qed.
Lemma v_at_short (l : list N) i : len l <= i -> v_at l i = Panic PkIndex.
Proof. intros H. unfold v_at. rewrite dropN_all by exact H. reflexivity. Qed.
Lemma v_set_app (A : list N) x B i y : len A = i -> v_set (A ++ x :: B) i y = Val (A ++ y :: B).
Proof.
  intros <-. unfold v_set. rewrite len_app, len_cons.
  replace (len A <? len A + (1 + len B)) with true by (symmetry; apply N.ltb_lt; lia).
  rewrite takeN_app.
  replace (A ++ x :: B) with ((A ++ [x]) ++ B) by (rewrite <- app_assoc; reflexivity).
  replace (len A + 1) with (len (A ++ [x])) by (rewrite len_app, len_cons, len_nil; lia).
  rewrite dropN_app. reflexivity.
Qed.

(** the loop [for j in 0..16 { v[s + j] ^= key[j] }] *)
Definition xor_body (s : N) (key : list N) (j : N) (v : list N) : outcome (list N) :=
  obind (v_at key j) (fun b => obind (v_at v (s + j)) (fun o => v_set v (s + j) (N.lxor o b))).

Lemma xor_loop_ok s : forall c (A X B KA KY : list N) j0,
  length X = c -> length KY = c -> len A = s + j0 -> len KA = j0 ->
  for_loop c j0 (xor_body s (KA ++ KY)) (A ++ X ++ B) = Val (A ++ xor_list X KY ++ B).
Proof.
  induction c as [|c IH]; intros A X B KA KY j0 HX HK HA HKA.
  - destruct X; [|discriminate]. destruct KY; [|discriminate]. reflexivity.
  - destruct X as [|x X]; [discriminate|]. destruct KY as [|y KY]; [discriminate|].
    cbn [for_loop]. unfold xor_body at 1.
    rewrite (v_at_app KA y KY j0 HKA). cbn [obind app].
    rewrite (v_at_app A x (X ++ B) (s + j0) HA). cbn [obind].
    rewrite (v_set_app A x (X ++ B) (s + j0) _ HA). cbn [obind].
    replace (A ++ N.lxor x y :: X ++ B) with ((A ++ [N.lxor x y]) ++ X ++ B) by (rewrite <- app_assoc; reflexivity).
    replace (KA ++ y :: KY) with ((KA ++ [y]) ++ KY) by (rewrite <- app_assoc; reflexivity).
    rewrite IH.
    + cbn [xor_list app]. rewrite <- app_assoc. reflexivity.
    + injection HX; auto.
    + injection HK; auto.
    + rewrite len_app, len_cons, len_nil. lia.
    + rewrite len_app, len_cons, len_nil. lia.
Qed.

Lemma xor_loop_short s : forall c (A X KA KY : list N) j0,
  (length X < c)%nat -> length KY = c -> len A = s + j0 -> len KA = j0 ->
  for_loop c j0 (xor_body s (KA ++ KY)) (A ++ X) = Panic PkIndex.
Proof.
  induction c as [|c IH]; intros A X KA KY j0 HX HK HA HKA; [inversion HX|].
  destruct KY as [|y KY]; [discriminate|].
  cbn [for_loop]. unfold xor_body at 1.
  rewrite (v_at_app KA y KY j0 HKA). cbn [obind].
  destruct X as [|x X].
  - rewrite v_at_short; [reflexivity|]. rewrite app_nil_r. lia.
  - rewrite (v_at_app A x X (s + j0) HA). cbn [obind].
    rewrite (v_set_app A x X (s + j0) _ HA). cbn [obind].
    replace (A ++ N.lxor x y :: X) with ((A ++ [N.lxor x y]) ++ X) by (rewrite <- app_assoc; reflexivity).
    replace (KA ++ y :: KY) with ((KA ++ [y]) ++ KY) by (rewrite <- app_assoc; reflexivity).
    apply IH.
    + cbn [length] in HX. lia.
    + injection HK; auto.
    + rewrite len_app, len_cons, len_nil. lia.
    + rewrite len_app, len_cons, len_nil. lia.
Qed.

Lemma xor_loop_is_xor16_at (v key : list N) s : len key = 16 ->
  for_range 0 16 (xor_body s key) v = xor16_at v s key.
Proof.
  intros HK. unfold for_range, xor16_at. change (N.to_nat (16 - 0)) with 16%nat.
  destruct (s + 16 <=? len v) eqn:E.
  - apply N.leb_le in E.
    rewrite <- (takeN_dropN s v) at 1.
    rewrite <- (takeN_dropN 16 (dropN s v)) at 1.
    rewrite dropN_dropN.
    change key with ([] ++ key) at 1.
    rewrite (xor_loop_ok s 16 (takeN s v) (takeN 16 (dropN s v)) (dropN (s + 16) v) [] key 0).
    + reflexivity.
    + assert (H : len (takeN 16 (dropN s v)) = 16) by (rewrite len_takeN_le; [reflexivity|rewrite len_dropN; lia]).
      unfold len in H. lia.
    + unfold len in HK. lia.
    + rewrite len_takeN_le by lia. lia.
    + reflexivity.
  - apply N.leb_gt in E.
    destruct (N.le_gt_cases s (len v)) as [Hs|Hs].
    + rewrite <- (takeN_dropN s v) at 1.
      change key with ([] ++ key) at 1.
      apply (xor_loop_short s 16 (takeN s v) (dropN s v) [] key 0).
      * assert (H : len (dropN s v) = len v - s) by apply len_dropN. unfold len in *. lia.
      * unfold len in HK. lia.
      * rewrite len_takeN_le by lia. lia.
      * reflexivity.
    + destruct key as [|y key]; [rewrite len_nil in HK; lia|].
      cbn [for_loop]. unfold xor_body at 1. unfold v_at at 1. cbn [dropN skipn N.to_nat obind].
      rewrite v_at_short by lia. reflexivity.
Qed.

(** * The chunk loops of AVP::hide and AVP::reveal *)
Lemma obind_snd3 {A B C D} (x : outcome (A * B * C)) (G : C -> outcome D) :
  obind x (fun '(_, _, c) => G c) = obind (omap snd x) G.
Proof. destruct x as [[[? ?] ?]| | |]; reflexivity. Qed.
Lemma obind_snd2 {A C D} (x : outcome (A * C)) (G : C -> outcome D) :
  obind x (fun '(_, c) => G c) = obind (omap snd x) G.
Proof. destruct x as [[? ?]| | |]; reflexivity. Qed.

Definition hide_step (secret : list N) (i : N) (st : list N * list N * list N) : outcome (list N * list N * list N) :=
  let '(buffer, _, input) := st in
  if 1 <=? i then
    let prev_chunk_start := (i - 1) * 16 in
    let chunk_start := prev_chunk_start + 16 in
    obind (v_range input prev_chunk_start chunk_start) (fun s =>
      let key := md5 (takeN (len secret) buffer ++ s) in
      obind (for_range 0 16 (xor_body chunk_start key) input) (fun input' =>
        Val (takeN (len secret) buffer ++ s, key, input')))
  else Panic PkOverflow.

Lemma hide_outer secret : forall c i buf key inp, 1 <= i -> takeN (len secret) buf = secret ->
  omap snd (for_loop c i (hide_step secret) (buf, key, inp)) = hide_loop md5 c i secret inp.
Proof.
  induction c as [|c IH]; intros i buf key inp Hi Hb; [reflexivity|].
  cbn [for_loop hide_loop]. unfold hide_step at 1.
  replace (1 <=? i) with true by (symmetry; apply N.leb_le; exact Hi).
  cbv zeta. unfold v_range. rewrite Hb.
  destruct (slice inp ((i - 1) * 16) ((i - 1) * 16 + 16)) as [s| | |]; cbn [obind omap]; try reflexivity.
  rewrite xor_loop_is_xor16_at by apply Md5Facts.md5_len.
  destruct (xor16_at inp ((i - 1) * 16 + 16) (md5 (secret ++ s))) as [inp'| | |]; cbn [obind omap]; try reflexivity.
  apply IH; [lia|]. apply takeN_app.
Qed.

Definition reveal_step (secret : list N) (i : N) (st : list N * list N) : outcome (list N * list N) :=
  let '(buffer, value) := st in
  if 1 <=? i then
    let prev_chunk_start := (i - 1) * 16 in
    let chunk_start := prev_chunk_start + 16 in
    obind (v_range value prev_chunk_start chunk_start) (fun s =>
      let key := md5 (takeN (len secret) buffer ++ s) in
      obind (for_range 0 16 (xor_body chunk_start key) value) (fun value' =>
        Val (takeN (len secret) buffer ++ s, value')))
  else Panic PkOverflow.

Lemma reveal_outer secret : forall c buf v, takeN (len secret) buf = secret ->
  omap snd (for_loop_rev c 1 (reveal_step secret) (buf, v)) = reveal_loop md5 c secret v.
Proof.
  induction c as [|c IH]; intros buf v Hb; [reflexivity|].
  cbn [for_loop_rev reveal_loop]. unfold reveal_step at 1.
  replace (1 + N.of_nat c) with (N.of_nat (S c)) by lia.
  replace (1 <=? N.of_nat (S c)) with true by (symmetry; apply N.leb_le; lia).
  cbv zeta. unfold v_range. rewrite Hb.
  destruct (slice v ((N.of_nat (S c) - 1) * 16) ((N.of_nat (S c) - 1) * 16 + 16)) as [s| | |]; cbn [obind omap]; try reflexivity.
  rewrite xor_loop_is_xor16_at by apply Md5Facts.md5_len.
  destruct (xor16_at v ((N.of_nat (S c) - 1) * 16 + 16) (md5 (secret ++ s))) as [v'| | |]; cbn [obind omap]; try reflexivity.
  apply IH. apply takeN_app.
Qed.

(** [m_hide] with the variant test as a boolean (the translator renders [match &self { Hidden(_) => .., avp => .. }] so) *)
Lemma m_hide_if H a secret rv lp ap :
  m_hide H a secret rv lp ap =
  if is_hidden a then Val a else
    let w := wr_payload a (writer_of []) in
    if w_len w <? 2 then Panic PkAssert else
    let type_octets := takeN 2 (w_data w) in
    let length := w_len w + 6 - 2 in
    if 1023 <? length then Panic PkAssert else
    obind (w_bytes_at (be16 length) 0 w) (fun w' =>
    let input1 := w_data w' ++ lp in
    let cpl := (16 - len input1 mod 16) mod 16 in
    if len ap <? cpl then Panic PkIndex else
    let input2 := input1 ++ takeN cpl ap in
    let n_chunks := len input2 / 16 in
    obind (xor16_at input2 0 (H (type_octets ++ secret ++ rv))) (fun input3 =>
    obind (if 1 <? n_chunks then hide_loop H (N.to_nat (n_chunks - 1)) 1 secret input3
           else Val input3) (fun out =>
    Val (AHidden (be_val 0 type_octets) out)))).
Proof. destruct a; reflexivity. Qed.

