(** The Model encoder (placeholders + back-patching through write_bytes_at)
    emits exactly the Spec's octets when the value fits, panics otherwise (C06,
    C07), only appends to what the writer already holds, and every positional
    overwrite lies inside the value being encoded (C09). *)
From Coq Require Import Lia.
From RL Require Import Model.Encode Spec.SpecEncode Proofs.ReaderLemmas Proofs.BytesLemmas.

Definition mkw (d : list N) (l : list (N * N * N)) : writer := {| w_data := d; w_log := l |}.
Lemma writer_eta w : w = mkw (w_data w) (w_log w). Proof. destruct w; reflexivity. Qed.

Lemma len_be16 x : len (be16 x) = 2. Proof. reflexivity. Qed.
Lemma len_be32 x : len (be32 x) = 4. Proof. reflexivity. Qed.
Lemma len_be64 x : len (be64 x) = 8. Proof. reflexivity. Qed.

Lemma wr_payload_spec a w :
  wr_payload a w = mkw (w_data w ++ be16 (attr_type a) ++ s_value a) (w_log w).
Proof.
  destruct a as [t|code [[et [m|]]|]|v r|k v|v|k v|k v|k v|k v|cc cm [s|]|t|v|c1 c2 c3 c4 c5 c6|s r| |t v];
    unfold wr_payload, mkw, w_u8, w_u16, w_u32, w_u64, w_bytes; cbn [w_data w_log attr_type s_value opt_octets];
    f_equal; rewrite <- ?app_assoc; cbn [app]; rewrite ?app_nil_r; reflexivity.
Qed.

(** the two header octets: ((len >> 8) & 3) << 6 | M | H<<1 , len & 0xff *)
Lemma avp_octet1 l h : l < 1024 -> h < 2 ->
  N.lor (N.lor (N.shiftl (N.land (N.shiftr l 8) 3) 6) 1) (2 * h) = 64 * (l / 256) + (2 * h + 1).
Proof.
  intros Hl Hh.
  assert (E : forallb (fun l => forallb (fun h =>
     N.lor (N.lor (N.shiftl (N.land (N.shiftr l 8) 3) 6) 1) (2 * h) =? 64 * (l / 256) + (2 * h + 1))
     (upto 2)) (upto 1024) = true) by (vm_compute; reflexivity).
  pose proof (forall_upto _ _ E l Hl) as E1. cbv beta in E1.
  pose proof (forall_upto _ _ E1 h Hh) as E2. cbv beta in E2. apply N.eqb_eq in E2. exact E2.
Qed.

Definition avp_log_entry (start : N) (a : avp) : N * N * N := (start, 2, start + avp_total a).

Lemma patch_at {A} (d ph rest bs : list A) : len ph = len bs ->
  takeN (len d) (d ++ ph ++ rest) ++ bs ++ dropN (len d + len bs) (d ++ ph ++ rest) = d ++ bs ++ rest.
Proof.
  intros H. rewrite takeN_app. f_equal. f_equal.
  rewrite app_assoc. replace (len d + len bs) with (len (d ++ ph)) by (rewrite len_app; lia).
  apply dropN_app.
Qed.

Lemma enc_avp_ok a w : avp_fits a = true ->
  m_enc_avp_w a w = Val (mkw (w_data w ++ s_enc_avp a) (w_log w ++ [avp_log_entry (w_len w) a])).
Proof.
  intros F. unfold avp_fits in F. apply N.leb_le in F.
  unfold m_enc_avp_w. rewrite wr_payload_spec. unfold w_u16, w_bytes, w_len, mkw.
  cbn [w_data w_log].
  set (d := w_data w). set (v := s_value a). set (t := be16 (attr_type a)).
  assert (ED : ((d ++ [0; 0]) ++ be16 0) ++ t ++ v = d ++ [0; 0] ++ (be16 0 ++ t ++ v))
    by (rewrite <- !app_assoc; reflexivity).
  rewrite ED.
  assert (EL : len (d ++ [0; 0] ++ be16 0 ++ t ++ v) = len d + avp_total a).
  { rewrite !len_app. unfold t. rewrite !len_be16. unfold avp_total. fold v.
    change (len [0; 0]) with 2. lia. }
  rewrite EL.
  replace (len d + avp_total a <? len d) with false by (symmetry; apply N.ltb_ge; lia).
  replace (len d + avp_total a - len d) with (avp_total a) by lia.
  replace (1023 <? avp_total a) with false by (symmetry; apply N.ltb_ge; lia).
  unfold w_bytes_at, w_len. cbn [w_data w_log]. rewrite EL.
  set (o1 := N.lor _ _). set (o2 := avp_total a mod 256).
  change (len [o1; o2]) with 2.
  replace (len d + 2 <=? len d + avp_total a) with true
    by (symmetry; apply N.leb_le; unfold avp_total; lia).
  f_equal. unfold mkw, avp_log_entry, w_len. fold d. f_equal.
  change 2 with (len [o1; o2]) at 1.
  rewrite patch_at by reflexivity.
  f_equal. unfold s_enc_avp. fold v t. fold o2.
  change (be16 0) with [0; 0]. cbn [app]. f_equal.
  unfold o1. destruct (is_hidden a).
  - pose proof (avp_octet1 (avp_total a) 1 ltac:(lia) ltac:(lia)) as E.
    change (2 * 1) with 2 in E. change (2 + 1) with 3 in E. exact E.
  - pose proof (avp_octet1 (avp_total a) 0 ltac:(lia) ltac:(lia)) as E.
    change (2 * 0) with 0 in E. change (0 + 1) with 1 in E. exact E.
Qed.

Lemma enc_avp_oversize a w : avp_fits a = false -> m_enc_avp_w a w = Panic PkAssert.
Proof.
  intros F. unfold avp_fits in F. apply N.leb_gt in F.
  unfold m_enc_avp_w. rewrite wr_payload_spec. unfold w_u16, w_bytes, w_len, mkw.
  cbn [w_data w_log].
  set (d := w_data w). set (v := s_value a). set (t := be16 (attr_type a)).
  assert (EL : len (((d ++ [0; 0]) ++ be16 0) ++ t ++ v) = len d + avp_total a).
  { rewrite !len_app. unfold t. rewrite !len_be16. unfold avp_total. fold v.
    change (len [0; 0]) with 2. lia. }
  rewrite EL.
  replace (len d + avp_total a <? len d) with false by (symmetry; apply N.ltb_ge; lia).
  replace (len d + avp_total a - len d) with (avp_total a) by lia.
  replace (1023 <? avp_total a) with true by (symmetry; apply N.ltb_lt; lia).
  reflexivity.
Qed.

Lemma len_s_enc_avp a : len (s_enc_avp a) = avp_total a.
Proof.
  unfold s_enc_avp. rewrite !len_app, len_be16. unfold avp_total.
  change (len [_; _; _; _]) with 4. lia.
Qed.

Fixpoint avps_log (start : N) (l : list avp) : list (N * N * N) :=
  match l with
  | [] => []
  | a :: t => avp_log_entry start a :: avps_log (start + avp_total a) t
  end.

Lemma enc_avps_ok l : forall w, forallb avp_fits l = true ->
  m_enc_avps_w l w = Val (mkw (w_data w ++ s_enc_avps l) (w_log w ++ avps_log (w_len w) l)).
Proof.
  induction l as [|a t IH]; intros w F; cbn [m_enc_avps_w s_enc_avps map concat avps_log].
  - rewrite !app_nil_r. rewrite <- writer_eta. reflexivity.
  - cbn [forallb] in F. apply andb_prop in F. destruct F as [Fa Ft].
    rewrite (enc_avp_ok a w Fa). cbn [obind]. rewrite (IH _ Ft).
    unfold mkw, w_len. cbn [w_data w_log]. f_equal. f_equal.
    + rewrite <- app_assoc. reflexivity.
    + rewrite <- app_assoc. cbn [app]. rewrite len_app, len_s_enc_avp. reflexivity.
Qed.

Lemma enc_avps_oversize l : forall w, forallb avp_fits l = false ->
  m_enc_avps_w l w = Panic PkAssert.
Proof.
  induction l as [|a t IH]; intros w F; cbn [m_enc_avps_w forallb] in *; [discriminate|].
  destruct (avp_fits a) eqn:Fa.
  - rewrite (enc_avp_ok a w Fa). cbn [obind andb] in *. apply IH, F.
  - rewrite (enc_avp_oversize a w Fa). reflexivity.
Qed.

Lemma flags_ctrl : flags_new true true true false false 2 = Val (s_flags true true true false false 2).
Proof. vm_compute. reflexivity. Qed.

Lemma flags_data l s o p :
  flags_new false l s o p 2 = Val (s_flags false l s o p 2).
Proof. destruct l, s, o, p; vm_compute; reflexivity. Qed.

Definition ctrl_log (start : N) (m : ctrl_msg) : list (N * N * N) :=
  avps_log (start + 12) (c_avps m) ++ [(start + 2, 2, start + ctrl_total m)].

Lemma enc_ctrl_ok m w : encodable (Control m) = true ->
  m_enc_ctrl_w m w = Val (mkw (w_data w ++ s_enc_ctrl m) (w_log w ++ ctrl_log (w_len w) m)).
Proof.
  intros E. cbn [encodable] in E. apply andb_prop in E. destruct E as [Fa Ft]. apply N.leb_le in Ft.
  unfold m_enc_ctrl_w. rewrite flags_ctrl. cbn [obind].
  set (fl := s_flags true true true false false 2).
  unfold w_u16, w_bytes, w_len. cbn [w_data w_log].
  rewrite enc_avps_ok by exact Fa. cbn [obind]. unfold mkw, w_len. cbn [w_data w_log].
  set (d := w_data w). set (body := s_enc_avps (c_avps m)).
  set (hd := be16 (c_tunnel m) ++ be16 (c_session m) ++ be16 (c_ns m) ++ be16 (c_nr m)).
  assert (ED : ((((((d ++ be16 fl) ++ [0; 0]) ++ be16 (c_tunnel m)) ++ be16 (c_session m)) ++ be16 (c_ns m))
                  ++ be16 (c_nr m)) ++ body = (d ++ be16 fl) ++ [0; 0] ++ (hd ++ body)).
  { unfold hd. rewrite <- !app_assoc. reflexivity. }
  rewrite ED.
  assert (EL : len ((d ++ be16 fl) ++ [0; 0] ++ hd ++ body) = len d + ctrl_total m).
  { unfold hd, ctrl_total. fold body. rewrite !len_app, !len_be16. change (len [0; 0]) with 2. lia. }
  rewrite EL.
  replace (len d + ctrl_total m <? len d) with false by (symmetry; apply N.ltb_ge; lia).
  replace (len d + ctrl_total m - len d) with (ctrl_total m) by lia.
  replace (65535 <? ctrl_total m) with false by (symmetry; apply N.ltb_ge; lia).
  unfold w_bytes_at, w_len. cbn [w_data w_log]. rewrite EL.
  rewrite len_be16. rewrite len_app, len_be16.
  replace (len d + 2 + 2 <=? len d + ctrl_total m) with true
    by (symmetry; apply N.leb_le; unfold ctrl_total; lia).
  f_equal. unfold mkw. f_equal.
  - replace (len d + 2) with (len (d ++ be16 fl)) by (rewrite len_app, len_be16; reflexivity).
    replace (len (d ++ be16 fl) + 2) with (len (d ++ be16 fl) + len (be16 (ctrl_total m))) by reflexivity.
    rewrite patch_at by reflexivity.
    unfold s_enc_ctrl. fold fl body hd. unfold hd. rewrite <- !app_assoc. reflexivity.
  - unfold ctrl_log. rewrite <- !app_assoc. f_equal.
    f_equal. f_equal. rewrite !len_app, !len_be16. change (len [0; 0]) with 2. lia.
Qed.

Lemma enc_ctrl_oversize m w : encodable (Control m) = false ->
  m_enc_ctrl_w m w = Panic PkAssert.
Proof.
  intros E. cbn [encodable] in E.
  unfold m_enc_ctrl_w. rewrite flags_ctrl. cbn [obind].
  destruct (forallb avp_fits (c_avps m)) eqn:Fa.
  - cbn [andb] in E. apply N.leb_gt in E.
    rewrite enc_avps_ok by exact Fa. cbn [obind].
    unfold w_u16, w_bytes, w_len, mkw. cbn [w_data w_log].
    set (d := w_data w).
    assert (EL : len (((((((d ++ be16 (s_flags true true true false false 2)) ++ [0; 0]) ++ be16 (c_tunnel m))
                  ++ be16 (c_session m)) ++ be16 (c_ns m)) ++ be16 (c_nr m)) ++ s_enc_avps (c_avps m))
                 = len d + ctrl_total m).
    { unfold ctrl_total. rewrite !len_app, !len_be16. change (len [0; 0]) with 2. lia. }
    rewrite EL.
    replace (len d + ctrl_total m <? len d) with false by (symmetry; apply N.ltb_ge; lia).
    replace (len d + ctrl_total m - len d) with (ctrl_total m) by lia.
    replace (65535 <? ctrl_total m) with true by (symmetry; apply N.ltb_lt; lia).
    reflexivity.
  - rewrite enc_avps_oversize by exact Fa. reflexivity.
Qed.

Lemma enc_data_ok d w :
  m_enc_data_w d w = Val (mkw (w_data w ++ s_enc_data d) (w_log w)).
Proof.
  unfold m_enc_data_w, is_some. 
  rewrite flags_data. cbn [obind]. unfold s_enc_data, w_u16, w_bytes, mkw.
  destruct d as [p [l|] tid sid [[ns nr]|] [o|] data]; cbn [d_length d_nsnr d_offset d_prio d_tunnel d_session d_data w_data w_log];
    f_equal; f_equal; rewrite <- ?app_assoc; cbn [app]; reflexivity.
Qed.

Definition msg_log (start : N) (v : message) : list (N * N * N) :=
  match v with Control m => ctrl_log start m | Data _ => [] end.

Theorem encode_refines v w :
  m_encode_w v w = if encodable v
                   then Val (mkw (w_data w ++ s_encode v) (w_log w ++ msg_log (w_len w) v))
                   else Panic PkAssert.
Proof.
  destruct v as [m|d]; cbn [m_encode_w s_encode msg_log].
  - destruct (encodable (Control m)) eqn:E; [apply enc_ctrl_ok | apply enc_ctrl_oversize]; exact E.
  - cbn [encodable]. rewrite enc_data_ok, app_nil_r. reflexivity.
Qed.

Theorem enc_avp_refines a w :
  m_enc_avp_w a w = if avp_fits a
                    then Val (mkw (w_data w ++ s_enc_avp a) (w_log w ++ [avp_log_entry (w_len w) a]))
                    else Panic PkAssert.
Proof.
  destruct (avp_fits a) eqn:F; [apply enc_avp_ok | apply enc_avp_oversize]; exact F.
Qed.
