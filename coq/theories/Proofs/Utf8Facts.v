(** [utf8_valid] (the model of core::str::from_utf8's acceptance set) accepts
    exactly the concatenations of the shortest-form encodings of Unicode scalar
    values (RFC 3629): U+0000..U+D7FF and U+E000..U+10FFFF. *)
From Coq Require Import Lia ZArith Zify.
From RL Require Import Base.Utf8 Proofs.ReaderLemmas.
Ltac Zify.zify_post_hook ::= Z.div_mod_to_equations.

Definition enc_cp (c : N) : list N :=
  if c <? 128 then [c]
  else if c <? 2048 then [192 + c / 64; 128 + c mod 64]
  else if c <? 65536 then [224 + c / 4096; 128 + (c / 64) mod 64; 128 + c mod 64]
  else [240 + c / 262144; 128 + (c / 4096) mod 64; 128 + (c / 64) mod 64; 128 + c mod 64].

Definition scalar (c : N) : bool := (c <? 55296) || ((57343 <? c) && (c <? 1114112)).

Ltac bools :=
  unfold cont in *; unfold in_rng in *;
  repeat match goal with
         | H : (_ && _) = true |- _ => apply andb_prop in H; destruct H
         | H : (_ || _) = true |- _ => apply orb_prop in H; destruct H
         | H : (_ <? _) = true |- _ => apply N.ltb_lt in H
         | H : (_ <? _) = false |- _ => apply N.ltb_ge in H
         | H : (_ <=? _) = true |- _ => apply N.leb_le in H
         | H : (_ <=? _) = false |- _ => apply N.leb_gt in H
         | H : (_ =? _) = true |- _ => apply N.eqb_eq in H
         | H : (_ =? _) = false |- _ => apply N.eqb_neq in H
         end.

Ltac cmp :=
  match goal with
  | |- context [?a <? ?b] => destruct (a <? b) eqn:?
  | |- context [?a <=? ?b] => destruct (a <=? b) eqn:?
  | |- context [?a =? ?b] => destruct (a =? b) eqn:?
  end; bools; try (exfalso; lia); cbn [andb orb negb].

(** decomposition of a code point into 6-bit groups, without division in the goals *)
Lemma split64 c : exists m r, c = 64 * m + r /\ r < 64 /\ c / 64 = m /\ c mod 64 = r.
Proof.
  exists (c / 64), (c mod 64). pose proof (N.div_mod c 64 ltac:(lia)). pose proof (N.mod_lt c 64 ltac:(lia)).
  repeat split; lia.
Qed.

Lemma valid_enc_cp c rest : scalar c = true -> utf8_valid (enc_cp c ++ rest) = utf8_valid rest.
Proof.
  intros S. unfold scalar in S. unfold enc_cp.
  replace (c / 4096) with (c / 64 / 64) by (rewrite N.div_div by lia; reflexivity).
  replace (c / 262144) with (c / 64 / 64 / 64) by (rewrite !N.div_div by lia; reflexivity).
  destruct (split64 c) as (m & r0 & Ec & Hr0 & Dm & Mr0). rewrite Dm, Mr0.
  destruct (split64 m) as (q & r1 & Em & Hr1 & Dq & Mr1). rewrite Dq, Mr1.
  destruct (split64 q) as (p & r2 & Eq & Hr2 & Dp & Mr2). rewrite Dp, Mr2.
  clear Dm Mr0 Dq Mr1 Dp Mr2.
  destruct (c <? 128) eqn:E1; [|destruct (c <? 2048) eqn:E2; [|destruct (c <? 65536) eqn:E3]];
    bools; cbn [app utf8_valid]; unfold in_rng, cont; repeat cmp; reflexivity.
Qed.

Lemma div64 m r : r < 64 -> (64 * m + r) / 64 = m /\ (64 * m + r) mod 64 = r.
Proof.
  intros H. split.
  - symmetry. apply (N.div_unique (64 * m + r) 64 m r); [exact H|reflexivity].
  - symmetry. apply (N.mod_unique (64 * m + r) 64 m r); [exact H|reflexivity].
Qed.

Lemma enc_cp2 x y : 2 <= x -> x < 32 -> y < 64 -> enc_cp (64 * x + y) = [192 + x; 128 + y].
Proof.
  intros H1 H2 H3. unfold enc_cp. destruct (div64 x y H3) as [D M].
  replace (64 * x + y <? 128) with false by (symmetry; apply N.ltb_ge; lia).
  replace (64 * x + y <? 2048) with true by (symmetry; apply N.ltb_lt; lia).
  rewrite D, M. reflexivity.
Qed.

Lemma enc_cp3 x y z : x < 16 -> y < 64 -> z < 64 -> 2048 <= 64 * (64 * x + y) + z ->
  enc_cp (64 * (64 * x + y) + z) = [224 + x; 128 + y; 128 + z].
Proof.
  intros H1 H2 H3 H4. unfold enc_cp.
  destruct (div64 (64 * x + y) z H3) as [D M]. destruct (div64 x y H2) as [D2 M2].
  replace (64 * (64 * x + y) + z <? 128) with false by (symmetry; apply N.ltb_ge; lia).
  replace (64 * (64 * x + y) + z <? 2048) with false by (symmetry; apply N.ltb_ge; lia).
  replace (64 * (64 * x + y) + z <? 65536) with true by (symmetry; apply N.ltb_lt; lia).
  replace ((64 * (64 * x + y) + z) / 4096) with ((64 * (64 * x + y) + z) / 64 / 64)
    by (rewrite N.div_div by lia; reflexivity).
  rewrite D, M, D2, M2. reflexivity.
Qed.

Lemma enc_cp4 w x y z : w < 8 -> x < 64 -> y < 64 -> z < 64 -> 65536 <= 64 * (64 * (64 * w + x) + y) + z ->
  enc_cp (64 * (64 * (64 * w + x) + y) + z) = [240 + w; 128 + x; 128 + y; 128 + z].
Proof.
  intros H0 H1 H2 H3 H4. unfold enc_cp.
  destruct (div64 (64 * (64 * w + x) + y) z H3) as [D M]. destruct (div64 (64 * w + x) y H2) as [D2 M2].
  destruct (div64 w x H1) as [D3 M3].
  set (c := 64 * (64 * (64 * w + x) + y) + z) in *.
  replace (c <? 128) with false by (symmetry; apply N.ltb_ge; lia).
  replace (c <? 2048) with false by (symmetry; apply N.ltb_ge; lia).
  replace (c <? 65536) with false by (symmetry; apply N.ltb_ge; lia).
  replace (c / 262144) with (c / 64 / 64 / 64) by (rewrite !N.div_div by lia; reflexivity).
  replace (c / 4096) with (c / 64 / 64) by (rewrite N.div_div by lia; reflexivity).
  rewrite D, M, D2, M2, D3, M3. reflexivity.
Qed.

Lemma valid_decomp n : forall l, (length l <= n)%nat -> utf8_valid l = true ->
  exists cps, forallb scalar cps = true /\ l = flat_map enc_cp cps.
Proof.
  induction n as [|n IH]; intros l L V.
  - destruct l; [|cbn in L; lia]. exists []. split; reflexivity.
  - destruct l as [|b0 t]; [exists []; split; reflexivity|]. cbn [length] in L.
    cbn [utf8_valid] in V.
    destruct (b0 <? 128) eqn:E0.
    + destruct (IH t ltac:(lia) V) as [cps [S E]]. exists (b0 :: cps). bools. split.
      * cbn [forallb]. rewrite S. unfold scalar. replace (b0 <? 55296) with true by (symmetry; apply N.ltb_lt; lia). reflexivity.
      * cbn [flat_map]. unfold enc_cp at 1. replace (b0 <? 128) with true by (symmetry; apply N.ltb_lt; lia).
        rewrite <- E. reflexivity.
    + destruct (in_rng 194 223 b0) eqn:E2.
      * destruct t as [|b1 t1]; [discriminate|]. apply andb_prop in V. destruct V as [C1 V].
        destruct (IH t1 ltac:(cbn [length] in L; lia) V) as [cps [S E]].
        bools. exists (64 * (b0 - 192) + (b1 - 128) :: cps). split.
        -- cbn [forallb]. rewrite S. unfold scalar.
           replace (64 * (b0 - 192) + (b1 - 128) <? 55296) with true by (symmetry; apply N.ltb_lt; lia). reflexivity.
        -- cbn [flat_map]. rewrite enc_cp2 by lia. rewrite <- E. cbn [app]. f_equal; [lia|f_equal; lia].
      * destruct (in_rng 224 239 b0) eqn:E3.
        -- destruct t as [|b1 [|b2 t2]]; try discriminate.
           apply andb_prop in V. destruct V as [V1 V]. apply andb_prop in V1. destruct V1 as [C1 C2].
           destruct (IH t2 ltac:(cbn [length] in L; lia) V) as [cps [S E]].
           exists (64 * (64 * (b0 - 224) + (b1 - 128)) + (b2 - 128) :: cps).
           assert (R1 : 128 <= b1 /\ b1 <= 191 /\ (b0 = 224 -> 160 <= b1) /\ (b0 = 237 -> b1 <= 159)).
           { destruct (b0 =? 224) eqn:X; [|destruct (b0 =? 237) eqn:Y]; bools; repeat split; lia. }
           bools. split.
           ++ cbn [forallb]. rewrite S. unfold scalar.
              destruct (N.eq_dec b0 237) as [Z|Z].
              ** replace (64 * (64 * (b0 - 224) + (b1 - 128)) + (b2 - 128) <? 55296) with true
                   by (symmetry; apply N.ltb_lt; lia). reflexivity.
              ** destruct (N.lt_ge_cases b0 237).
                 --- replace (64 * (64 * (b0 - 224) + (b1 - 128)) + (b2 - 128) <? 55296) with true
                       by (symmetry; apply N.ltb_lt; lia). reflexivity.
                 --- replace (57343 <? 64 * (64 * (b0 - 224) + (b1 - 128)) + (b2 - 128)) with true
                       by (symmetry; apply N.ltb_lt; lia).
                     replace (64 * (64 * (b0 - 224) + (b1 - 128)) + (b2 - 128) <? 1114112) with true
                       by (symmetry; apply N.ltb_lt; lia).
                     rewrite orb_true_r. reflexivity.
           ++ cbn [flat_map]. rewrite enc_cp3 by lia. rewrite <- E. cbn [app].
              f_equal; [lia|f_equal; [lia|f_equal; lia]].
        -- destruct (in_rng 240 244 b0) eqn:E4; [|discriminate].
           destruct t as [|b1 [|b2 [|b3 t3]]]; try discriminate.
           apply andb_prop in V. destruct V as [V1 V]. apply andb_prop in V1. destruct V1 as [V1 C3].
           apply andb_prop in V1. destruct V1 as [C1 C2].
           destruct (IH t3 ltac:(cbn [length] in L; lia) V) as [cps [S E]].
           exists (64 * (64 * (64 * (b0 - 240) + (b1 - 128)) + (b2 - 128)) + (b3 - 128) :: cps).
           assert (R1 : 128 <= b1 /\ b1 <= 191 /\ (b0 = 240 -> 144 <= b1) /\ (b0 = 244 -> b1 <= 143)).
           { destruct (b0 =? 240) eqn:X; [|destruct (b0 =? 244) eqn:Y]; bools; repeat split; lia. }
           bools. split.
           ++ cbn [forallb]. rewrite S. unfold scalar.
              replace (57343 <? 64 * (64 * (64 * (b0 - 240) + (b1 - 128)) + (b2 - 128)) + (b3 - 128)) with true
                by (symmetry; apply N.ltb_lt; lia).
              replace (64 * (64 * (64 * (b0 - 240) + (b1 - 128)) + (b2 - 128)) + (b3 - 128) <? 1114112) with true
                by (symmetry; apply N.ltb_lt; lia).
              rewrite orb_true_r. reflexivity.
           ++ cbn [flat_map]. rewrite enc_cp4 by lia. rewrite <- E. cbn [app].
              f_equal; [lia|f_equal; [lia|f_equal; [lia|f_equal; lia]]].
Qed.

Theorem utf8_valid_iff l :
  utf8_valid l = true <-> exists cps, forallb scalar cps = true /\ l = flat_map enc_cp cps.
Proof.
  split.
  - apply (valid_decomp (length l)). lia.
  - intros [cps [S ->]]. induction cps as [|c t IH]; [reflexivity|].
    cbn [forallb] in S. apply andb_prop in S. destruct S as [Sc St].
    cbn [flat_map]. rewrite valid_enc_cp by exact Sc. apply IH, St.
Qed.
