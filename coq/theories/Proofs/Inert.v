(** Non-interference (C05, last sentence): octets outside the fields the
    specification names do not influence the result. *)
From Coq Require Import Lia.
From RL Require Import Model.Decode Spec.SpecDecode Proofs.ReaderLemmas Proofs.BytesLemmas Proofs.RefineAvp
  Proofs.Framing.

Lemma octs_tail k off x l : 1 <= off -> octs k off (x :: l) = octs k (off - 1) l.
Proof.
  intros H. unfold octs, dropN. replace (N.to_nat off) with (S (N.to_nat (off - 1))) by lia. reflexivity.
Qed.
Lemma fld_tail k off x l : 1 <= off -> fld k off (x :: l) = fld k (off - 1) l.
Proof. intros H. unfold fld. rewrite octs_tail by exact H. reflexivity. Qed.
Lemma fld1_head x l : fld 1 0 (x :: l) = x.
Proof. unfold fld, octs. rewrite dropN_0. change (takeN 1 (x :: l)) with [x]. cbn [be_val]. lia. Qed.

(** AVP header: the M bit and the four reserved bits of octet 0 are ignored *)
Theorem avp_header_bits_inert o1 o1' rest :
  o1 / 64 = o1' / 64 -> N.testbit o1 1 = N.testbit o1' 1 ->
  rec_length (o1 :: rest) = rec_length (o1' :: rest) /\ s_record (o1 :: rest) = s_record (o1' :: rest).
Proof.
  intros HL HH. unfold s_record, rec_length, rec_hidden, rec_vendor, rec_type.
  rewrite !fld1_head, !fld_tail by lia. rewrite HL, HH.
  change (dropN 6 (o1 :: rest)) with (dropN 5 rest). change (dropN 6 (o1' :: rest)) with (dropN 5 rest).
  split; reflexivity.
Qed.

(** a body tail shorter than an AVP header is ignored *)
Theorem short_tail_ignored rs tail : forallb well_delimited rs = true -> len tail < 6 ->
  s_avps (concat rs ++ tail) = (map s_record rs, tail).
Proof.
  induction rs as [|r t IH]; intros W L.
  - cbn [concat app map]. unfold s_avps. cbn [s_avps_n].
    replace (len tail <? 6) with true by (symmetry; apply N.ltb_lt; exact L). reflexivity.
  - cbn [forallb] in W. apply andb_prop in W. destruct W as [Wr Wt].
    cbn [concat map]. rewrite <- app_assoc, avps_cons_record by exact Wr. rewrite (IH Wt L). reflexivity.
Qed.

(** surplus payload octets after a fixed-size format are ignored *)
Definition fixed_size (sh : shape) : option N :=
  match sh with
  | ShMsgType => Some 2 | ShProtoVer => Some 2 | Sh32 _ => Some 4 | ShTie => Some 8 | Sh16 _ => Some 2
  | ShFix k => Some (kfix_len k) | ShPaType => Some 2 | ShPaId => Some 2 | ShCallErrors => Some 26
  | ShAccm => Some 10 | ShSeqReq => Some 0
  | _ => None
  end.

Lemma octs_app_l k off p x : off + k <= len p -> octs k off (p ++ x) = octs k off p.
Proof. apply octs_app. Qed.

Theorem surplus_ignored t sh p extra : shape_of t = Some sh -> fixed_size sh = Some (len p) ->
  s_payload t (p ++ extra) = s_payload t p.
Proof.
  intros S F. unfold s_payload. rewrite S.
  destruct sh; cbn [fixed_size] in F; try discriminate; inversion F as [F']; cbn [s_shape];
    rewrite ?len_app; unfold fld; rewrite ?octs_app by lia;
    repeat match goal with
           | |- context [len p + len extra <? ?k] =>
             replace (len p + len extra <? k) with false by (symmetry; apply N.ltb_ge; lia);
             replace (len p <? k) with false by (symmetry; apply N.ltb_ge; lia)
           end; reflexivity.
Qed.

(** reserved octets of the Proxy Authen Id (octet 0), Call Errors and ACCM (octets 0-1) payloads are ignored *)
Theorem reserved_octets_inert_32 a a' b rest :
  s_payload 32 (a :: b :: rest) = s_payload 32 (a' :: b :: rest).
Proof.
  unfold s_payload. cbn [shape_of s_shape]. rewrite !len_cons, !fld_tail by lia. reflexivity.
Qed.
Theorem reserved_octets_inert_34 a b a' b' rest :
  s_payload 34 (a :: b :: rest) = s_payload 34 (a' :: b' :: rest).
Proof.
  unfold s_payload. cbn [shape_of s_shape]. rewrite !len_cons. unfold fld.
  rewrite !octs_tail by lia. reflexivity.
Qed.
Theorem reserved_octets_inert_35 a b a' b' rest :
  s_payload 35 (a :: b :: rest) = s_payload 35 (a' :: b' :: rest).
Proof.
  unfold s_payload. cbn [shape_of s_shape]. rewrite !len_cons.
  rewrite !octs_tail by lia. reflexivity.
Qed.

(** the payload of a vendor-specific record does not matter *)
Theorem vendor_payload_inert hdr p p' : len hdr = 6 -> rec_vendor hdr <> 0 ->
  s_record (hdr ++ p) = s_record (hdr ++ p').
Proof.
  intros L V. unfold s_record, rec_vendor in *. rewrite !(fld_app 2 2) by lia.
  replace (fld 2 2 hdr =? 0) with false by (symmetry; apply N.eqb_neq; exact V). reflexivity.
Qed.
