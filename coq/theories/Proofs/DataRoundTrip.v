From Coq Require Import Lia.
From RL Require Import Model.Decode Model.Encode Spec.SpecDecode Spec.SpecEncode Proofs.ReaderLemmas
  Proofs.BytesLemmas Proofs.RefineAvp Proofs.RefineEncode Proofs.EncodeFacts Proofs.Bitmask
  Proofs.Enums Proofs.Framing Proofs.RoundTrip.

Definition opt_u16 (o : option N) : bool := match o with Some x => u16 x | None => true end.
Definition wf_data (d : data_msg) : bool :=
  u16 (d_tunnel d) && u16 (d_session d)
  && match d_nsnr d with Some (a, b) => u16 a && u16 b | None => true end
  && negb (len (d_data d) =? 0) && bytes_ok (d_data d)
  && match d_length d with Some l => (l =? len (s_enc_data d)) && u16 l | None => true end
  && match d_offset d with Some n => (n <? len (d_data d)) && u16 n | None => true end.

Definition decoded_data (d : data_msg) : data_msg :=
  {| d_prio := d_prio d; d_length := d_length d; d_tunnel := d_tunnel d; d_session := d_session d;
     d_nsnr := d_nsnr d; d_offset := None;
     d_data := dropN (match d_offset d with Some n => n | None => 0 end) (d_data d) |}.

Lemma be16_join x : x < 65536 -> 256 * (256 * 0 + x / 256 mod 256) + x mod 256 = x.
Proof. exact (be_val_be16 x). Qed.

Ltac eval_flds :=
  repeat match goal with
         | |- context [fld 2 ?k (?x :: ?l)] =>
           let e := eval cbv beta iota zeta delta [fld octs takeN dropN N.to_nat Pos.to_nat Pos.iter_op Nat.add skipn firstn be_val] in (fld 2 k (x :: l)) in
           change (fld 2 k (x :: l)) with e
         end.
Ltac eval_fw :=
  repeat match goal with
         | |- context [fw_L ?w] => let v := eval vm_compute in (fw_L w) in change (fw_L w) with v
         | |- context [fw_S ?w] => let v := eval vm_compute in (fw_S w) in change (fw_S w) with v
         | |- context [fw_O ?w] => let v := eval vm_compute in (fw_O w) in change (fw_O w) with v
         | |- context [fw_P ?w] => let v := eval vm_compute in (fw_P w) in change (fw_P w) with v
         end.

Ltac len_eval_in H := rewrite ?len_app, ?len_cons, ?len_nil, ?len_be16 in H.

Lemma octs_app_r {A} (H D : list A) off pl : len H <= off ->
  takeN pl (dropN off (H ++ D)) = takeN pl (dropN (off - len H) D).
Proof.
  intros L. replace off with (len H + (off - len H)) at 1 by lia.
  rewrite <- dropN_dropN, dropN_app. reflexivity.
Qed.
Lemma dropN_app_r {A} (H D : list A) off : len H <= off -> dropN off (H ++ D) = dropN (off - len H) D.
Proof.
  intros L. replace off with (len H + (off - len H)) at 1 by lia.
  rewrite <- dropN_dropN, dropN_app. reflexivity.
Qed.

Ltac data_case :=
  match goal with |- s_data (?H ++ ?D) = _ =>
    let n := eval vm_compute in (len H) in
    assert (LH : len H = n) by (vm_compute; reflexivity);
    unfold s_data; rewrite len_app, LH;
    rewrite (fld_app 2 0) by (rewrite LH; lia);
    (let v := eval vm_compute in (fld 2 0 H) in change (fld 2 0 H) with v);
    eval_fw; cbv beta iota zeta; nsimp;
    repeat match goal with |- context [fld 2 ?j (H ++ D)] =>
             rewrite (fld_app 2 j H D) by (rewrite LH; lia) end;
    repeat match goal with |- context [fld 2 ?j H] =>
             let e := eval cbv beta iota zeta delta [fld octs takeN dropN N.to_nat Pos.to_nat Pos.iter_op Nat.add skipn firstn be_val be16 app] in (fld 2 j H) in
             change (fld 2 j H) with e end;
    rewrite ?be16_join by lia
  end.

Theorem data_roundtrip_spec d : wf_data d = true ->
  s_data (s_enc_data d) = Ok (Data (decoded_data d), []).
Proof.
  intros W. unfold wf_data in W.
  apply andb_prop in W. destruct W as [W Wo]. apply andb_prop in W. destruct W as [W Wl].
  apply andb_prop in W. destruct W as [W Wb]. apply andb_prop in W. destruct W as [W Wne].
  apply andb_prop in W. destruct W as [W Wn]. apply andb_prop in W. destruct W as [Wt Ws].
  unfold u16 in *. apply N.ltb_lt in Wt, Ws. apply negb_true_iff, N.eqb_neq in Wne.
  destruct d as [p [l|] tid sid [[ns nr]|] [o|] data];
    cbn [d_prio d_length d_tunnel d_session d_nsnr d_offset d_data] in *;
    destruct p.
  all: try (apply andb_prop in Wn; destruct Wn as [Wn1 Wn2]; apply N.ltb_lt in Wn1, Wn2).
  all: try (apply andb_prop in Wo; destruct Wo as [Wo1 Wo2]; apply N.ltb_lt in Wo1, Wo2).
  all: try (apply andb_prop in Wl; destruct Wl as [Wl1 Wl2]; apply N.ltb_lt in Wl2; apply N.eqb_eq in Wl1).
  all: unfold s_enc_data, decoded_data in *;
    cbn [d_prio d_length d_tunnel d_session d_nsnr d_offset d_data] in *.
  all: match goal with |- context [be16 (s_flags ?a ?b ?c ?d ?e ?f)] =>
         let v := eval vm_compute in (s_flags a b c d e f) in change (s_flags a b c d e f) with v in *
       end.
  all: rewrite ?app_nil_l in *.
  all: rewrite !app_assoc in *.
  all: data_case.
  all: try (rewrite len_app in Wl1; match goal with LH : len _ = _ |- _ => rewrite LH in Wl1 end).
  all: repeat no_lt; cbv beta iota; no_eq.
  all: unfold octs; rewrite octs_app_r, dropN_app_r by (match goal with LH : len _ = _ |- _ => rewrite LH end; lia).
  all: match goal with LH : len _ = _ |- _ => rewrite LH end.
  all: rewrite takeN_all by (rewrite len_dropN; lia).
  all: repeat f_equal.
  all: try lia.
  all: try (apply dropN_all; lia).
Qed.

Lemma data_flags_view l s o p :
  let w := s_flags false l s o p 2 in
  w < 65536 /\ fw_T w = false /\ fw_version w = 2 /\ fw_reserved_clear w = true.
Proof. destruct l, s, o, p; vm_compute; repeat split; reflexivity. Qed.

Theorem data_decode_spec o d : wf_data d = true ->
  s_decode o (s_enc_data d) = Ok (Data (decoded_data d), []).
Proof.
  intros W. pose proof (data_roundtrip_spec d W) as R.
  unfold s_decode. 
  assert (L2 : 2 <= len (s_enc_data d)).
  { unfold s_enc_data. rewrite len_app, len_be16. lia. }
  replace (len (s_enc_data d) <? 2) with false by (symmetry; apply N.ltb_ge; exact L2).
  set (w := s_flags false (match d_length d with Some _ => true | None => false end)
                (match d_nsnr d with Some _ => true | None => false end)
                (match d_offset d with Some _ => true | None => false end) (d_prio d) 2).
  destruct (data_flags_view (match d_length d with Some _ => true | None => false end)
                (match d_nsnr d with Some _ => true | None => false end)
                (match d_offset d with Some _ => true | None => false end) (d_prio d)) as (Hw & HT & HV & HR).
  fold w in Hw, HT, HV, HR.
  assert (F0 : fld 2 0 (s_enc_data d) = w) by (unfold s_enc_data; fold w; apply fld2_be16, Hw).
  rewrite F0, HV, HR, HT. change (2 =? 2) with true. cbn [negb]. rewrite !andb_false_r.
  rewrite R. reflexivity.
Qed.

Lemma bytes_ok_enc_data d : wf_data d = true -> bytes_ok (s_enc_data d) = true.
Proof.
  intros W. unfold wf_data in W.
  apply andb_prop in W. destruct W as [W _]. apply andb_prop in W. destruct W as [W _].
  apply andb_prop in W. destruct W as [_ Wb].
  unfold s_enc_data. rewrite !bytes_ok_app, !bytes_ok_be16, Wb.
  destruct (d_length d), (d_nsnr d) as [[ns nr]|], (d_offset d);
    rewrite ?bytes_ok_app, ?bytes_ok_be16; reflexivity.
Qed.

Theorem data_roundtrip o d : wf_data d = true ->
  exists b, m_encode (Data d) [] = Val b /\ b = s_enc_data d /\
            m_decode o b = Val (Ok (Data (decoded_data d)), []).
Proof.
  intros W. exists (s_enc_data d). split; [rewrite encode_octets; reflexivity|]. split; [reflexivity|].
  destruct (RefineDecode.decode_refines o _ (bytes_ok_enc_data d W)) as [[r rest] [Hm Ho]].
  rewrite (data_decode_spec o d W) in Ho. rewrite Hm.
  destruct r as [mm|es]; cbn [RefineDecode.obs_of] in Ho; inversion Ho; subst. reflexivity.
Qed.
