(** The work the decoder performs is linear in its input: at most
    [3 * |input| + 12] reader operations and copied octets for a message, and at most
    [3 * |input| + 2] for a bare AVP list.  Each per-type decoder costs at most
    [8 + |payload|]; each iteration of the greedy loop consumes at least 6 octets and
    costs at most three units per octet consumed. *)
From Coq Require Import Lia.
From RL Require Import Model.Cost Spec.SpecDecode Proofs.ReaderLemmas Proofs.RefineAvp.

Definition after {A} (o : outcome (A * list N)) (f : A -> list N -> N) : N :=
  match o with Val (a, l') => f a l' | _ => 0 end.

Lemma cost_bind {A B} (p : prog A) (f : A -> prog B) l :
  cost (bind p f) l = cost p l + after (run p l) (fun a l' => cost (f a) l').
Proof.
  revert B f l.
  induction p as [A a|A k|A|A k IH|A k IH|A k IH|A k IH|A k IH|A k IH|A n k IH|A n k IH|A C n q IHq k IH];
    intros B f l; cbn [bind run cost after]; try reflexivity.
  - rewrite IH. lia.
  - rewrite IH. lia.
  - destruct (lr_read 1 l) as [[x l']| | |]; cbn [obind after]; [rewrite IH; lia | reflexivity..].
  - destruct (lr_read 2 l) as [[x l']| | |]; cbn [obind after]; [rewrite IH; lia | reflexivity..].
  - destruct (lr_read 4 l) as [[x l']| | |]; cbn [obind after]; [rewrite IH; lia | reflexivity..].
  - destruct (lr_read 8 l) as [[x l']| | |]; cbn [obind after]; [rewrite IH; lia | reflexivity..].
  - destruct (n <=? len l); rewrite IH; lia.
  - destruct (n <=? len l); [rewrite IH; lia | reflexivity].
  - destruct (n <=? len l); [|reflexivity].
    destruct (run q (takeN n l)) as [[b r]| | |]; cbn [obind after]; [rewrite IH; lia | lia..].
Qed.

Lemma cost_len_ l : cost len_ l = 1. Proof. reflexivity. Qed.
Lemma cost_is_empty_ l : cost is_empty_ l = 1. Proof. reflexivity. Qed.
Lemma cost_u8_ l : cost u8_ l = 1.
Proof. cbn [cost u8_]. destruct (lr_read 1 l) as [[x l']| | |]; reflexivity. Qed.
Lemma cost_u16_ l : cost u16_ l = 1.
Proof. cbn [cost u16_]. destruct (lr_read 2 l) as [[x l']| | |]; reflexivity. Qed.
Lemma cost_u32_ l : cost u32_ l = 1.
Proof. cbn [cost u32_]. destruct (lr_read 4 l) as [[x l']| | |]; reflexivity. Qed.
Lemma cost_u64_ l : cost u64_ l = 1.
Proof. cbn [cost u64_]. destruct (lr_read 8 l) as [[x l']| | |]; reflexivity. Qed.
Lemma cost_skip_ n l : cost (skip_ n) l = 1.
Proof. cbn [cost skip_]. destruct (n <=? len l); reflexivity. Qed.
Lemma cost_bytes_ok n l : n <= len l -> cost (bytes_ n) l = 1 + n.
Proof.
  intros H. cbn [cost bytes_]. replace (n <=? len l) with true by (symmetry; apply N.leb_le; lia).
  lia.
Qed.
Lemma cost_ret {A} (a : A) l : cost (Ret a) l = 0. Proof. reflexivity. Qed.

(** one monadic step of the cost calculus: split off the first primitive *)
Ltac cstep :=
  rewrite cost_bind;
  rewrite ?cost_len_, ?cost_is_empty_, ?cost_u8_, ?cost_u16_, ?cost_u32_, ?cost_u64_, ?cost_skip_.
Ltac clen := cstep; rewrite run_len_; cbn [after].
Ltac cempty := cstep; rewrite run_is_empty_; cbn [after].
Ltac cu8 := cstep; rewrite run_u8_ by (grd; lens); cbn [after].
Ltac cu16 := cstep; rewrite run_u16_ by (grd; lens); cbn [after].
Ltac cu32 := cstep; rewrite run_u32_ by (grd; lens); cbn [after].
Ltac cu64 := cstep; rewrite run_u64_ by (grd; lens); cbn [after].
Ltac cskip := cstep; rewrite run_skip_ by (grd; lens); cbn [after].
Ltac cbytes := cstep; rewrite cost_bytes_ok, run_bytes_ok by (grd; lens); cbn [after].
Ltac cfin := rewrite ?cost_ret; grd; lens.

Lemma cost_utf8_rest t mk p : cost (dec_utf8_rest t mk) p = 2 + len p.
Proof.
  unfold dec_utf8_rest. clen. cbytes. rewrite takeN_len_all.
  destruct (utf8_valid p); cfin.
Qed.

Lemma cost_message_type p : cost dec_message_type p <= 2.
Proof.
  unfold dec_message_type. clen. destruct (len p <? 2) eqn:E; [cfin|].
  cu16. destruct (mt_of_code _); cfin.
Qed.

Lemma cost_result_code p : cost dec_result_code p <= 8 + len p.
Proof.
  unfold dec_result_code. clen. destruct (len p <? 2) eqn:E; [cfin|].
  cu16. clen. rewrite len_dropN.
  destruct (2 <=? len p - 2) eqn:E4; [|cfin].
  cu16. destruct (et_of_code _) as [et|]; [|cfin].
  cempty. destruct (negb _); [|cfin].
  rewrite cost_utf8_rest. cfin.
Qed.

Lemma cost_protocol_version p : cost dec_protocol_version p <= 3.
Proof.
  unfold dec_protocol_version. clen. destruct (len p <? 2) eqn:E; [cfin|].
  cu8. cu8. cfin.
Qed.

Lemma cost_u16 k p : cost (dec_u16 k) p <= 2.
Proof. unfold dec_u16. clen. destruct (len p <? 2) eqn:E; [cfin|]. cu16. cfin. Qed.
Lemma cost_u32 k p : cost (dec_u32 k) p <= 2.
Proof. unfold dec_u32. clen. destruct (len p <? 4) eqn:E; [cfin|]. cu32. cfin. Qed.
Lemma cost_tie_breaker p : cost dec_tie_breaker p <= 2.
Proof. unfold dec_tie_breaker. clen. destruct (len p <? 8) eqn:E; [cfin|]. cu64. cfin. Qed.

Lemma cost_bytes k p : cost (dec_bytes k) p <= 3 + len p.
Proof.
  unfold dec_bytes. cempty. destruct (len p =? 0) eqn:E; [cfin|].
  clen. cbytes. cfin.
Qed.

Lemma cost_str k p : cost (dec_str k) p <= 3 + len p.
Proof.
  unfold dec_str. cempty. destruct (len p =? 0) eqn:E; [cfin|].
  rewrite cost_utf8_rest. lia.
Qed.

Lemma cost_get_chunk t n l : n <= len l -> cost (get_chunk t n) l = 1 + n.
Proof.
  intros H. unfold get_chunk. cbytes. destruct (len (takeN n l) =? n); cfin.
Qed.

Lemma cost_fix k p : cost (dec_fix k) p <= 2 + len p.
Proof.
  unfold dec_fix. clen. destruct (len p <? kfix_len k) eqn:E; [cfin|].
  rewrite cost_bind, cost_get_chunk, get_chunk_ok by (grd; lia). cbn [after]. cfin.
Qed.

Lemma cost_q931 p : cost dec_q931 p <= 6 + len p.
Proof.
  unfold dec_q931. clen. destruct (len p <? 3) eqn:E; [cfin|].
  cu16. cu8. cempty. destruct (negb _); [|cfin].
  rewrite cost_utf8_rest. cfin.
Qed.

Lemma cost_proxy_authen_type p : cost dec_proxy_authen_type p <= 2.
Proof.
  unfold dec_proxy_authen_type. clen. destruct (len p <? 2) eqn:E; [cfin|].
  cu16. destruct (pa_of_code _); cfin.
Qed.

Lemma cost_proxy_authen_id p : cost dec_proxy_authen_id p <= 3.
Proof.
  unfold dec_proxy_authen_id. clen. destruct (len p <? 2) eqn:E; [cfin|].
  cskip. cu8. cfin.
Qed.

Lemma cost_call_errors p : cost dec_call_errors p <= 8.
Proof.
  unfold dec_call_errors. clen. destruct (len p <? 26) eqn:E; [cfin|].
  cskip. cu32. cu32. cu32. cu32. cu32. cu32. cfin.
Qed.

Lemma cost_accm p : cost dec_accm p <= 12.
Proof.
  unfold dec_accm. clen. destruct (len p <? 10) eqn:E; [cfin|].
  cskip.
  rewrite cost_bind, cost_get_chunk, get_chunk_ok by (grd; lens). cbn [after].
  rewrite cost_bind, cost_get_chunk, get_chunk_ok by (grd; lens). cbn [after].
  cfin.
Qed.

Lemma cost_dec_of_shape sh p : cost (dec_of_shape sh) p <= 8 + len p.
Proof.
  destruct sh; cbn [dec_of_shape].
  - pose proof (cost_message_type p). lia.
  - apply cost_result_code.
  - pose proof (cost_protocol_version p). lia.
  - pose proof (cost_u32 k p). lia.
  - pose proof (cost_tie_breaker p). lia.
  - pose proof (cost_u16 k p). lia.
  - pose proof (cost_bytes k p). lia.
  - pose proof (cost_str k p). lia.
  - pose proof (cost_fix k p). lia.
  - pose proof (cost_q931 p). lia.
  - pose proof (cost_proxy_authen_type p). lia.
  - pose proof (cost_proxy_authen_id p). lia.
  - pose proof (cost_call_errors p). lia.
  - (* accm: 12 <= 8 + len p needs the guard; the short case costs 1 *)
    unfold dec_accm. clen. destruct (len p <? 10) eqn:E; [cfin|].
    cskip.
    rewrite cost_bind, cost_get_chunk, get_chunk_ok by (grd; lens). cbn [after].
    rewrite cost_bind, cost_get_chunk, get_chunk_ok by (grd; lens). cbn [after].
    cfin.
  - rewrite cost_ret. lia.
Qed.

Theorem cost_decode_avp t p : cost (decode_avp t) p <= 8 + len p.
Proof.
  destruct (dispatch_agrees t) as [E _]. rewrite E.
  destruct (shape_of t) as [sh|]; [apply cost_dec_of_shape | rewrite cost_ret; lia].
Qed.

(** * AVP header, greedy loop *)
From RL Require Import Proofs.BytesLemmas Proofs.RefineDecode.

Lemma after_ret0 {A B} (o : outcome (A * list N)) (g : A -> B) :
  after o (fun a l' => cost (Ret (g a)) l') = 0.
Proof. destruct o as [[a l']| | |]; reflexivity. Qed.

Lemma cost_sub_ {B} n (p : prog B) l : n <= len l -> cost (sub_ n p) l = 1 + cost p (takeN n l).
Proof.
  intros H. cbn [cost sub_]. replace (n <=? len l) with true by (symmetry; apply N.leb_le; lia).
  destruct (run p (takeN n l)) as [[b r]| | |]; cbn [cost]; lia.
Qed.

Lemma cost_header_short r : len r < 6 -> cost header_read r = 1.
Proof.
  intros H. unfold header_read. clen.
  replace (len r <? 6) with true by (symmetry; apply N.ltb_lt; lia). cfin.
Qed.

Lemma cost_header_long r : 6 <= len r -> cost header_read r = 5.
Proof.
  intros H. unfold header_read. clen.
  replace (len r <? 6) with false by (symmetry; apply N.ltb_ge; lia).
  cu8. cu8. cu16. cu16.
  match goal with |- context [if ?c then _ else _] => destruct c end; [cfin|].
  unfold usub. match goal with |- context [if ?c then _ else _] => destruct c end;
    cbn [bind cost]; lia.
Qed.

Lemma cost_greedy fuel : forall r, bytes_ok r = true -> (length r < fuel)%nat ->
  cost (greedy fuel) r <= 3 * len r + 1.
Proof.
  induction fuel as [|fuel IH]; intros r B F; [lia|].
  cbn [greedy]. rewrite cost_bind.
  destruct (len r <? 6) eqn:E6.
  - rewrite cost_header_short, header_read_short by (grd; lia). cbn [after]. cfin.
  - rewrite cost_header_long, header_read_ok by (grd; auto; lia). cbn [after].
    destruct (rec_length r <? 6) eqn:EL; [cfin|].
    clen. cbn [hdr_of h_payload_length h_vendor h_type h_flags]. rewrite len_dropN.
    destruct (len r - 6 <? rec_length r - 6) eqn:ER; [cfin|].
    assert (BD : bytes_ok (dropN (rec_length r) r) = true) by (apply bytes_ok_dropN, B).
    assert (FD : (length (dropN (rec_length r) r) < fuel)%nat).
    { unfold dropN. rewrite skipn_length. grd. unfold len in *. lia. }
    specialize (IH _ BD FD). rewrite len_dropN in IH.
    assert (DD : dropN (rec_length r - 6) (dropN 6 r) = dropN (rec_length r) r).
    { rewrite dropN_dropN. f_equal. grd. lia. }
    destruct (negb (rec_vendor r =? 0)).
    + cskip. rewrite DD. rewrite cost_bind, after_ret0. grd. lia.
    + destruct (N.testbit _ 1).
      * cbytes. rewrite DD. rewrite cost_bind, after_ret0. grd. lia.
      * rewrite cost_bind, cost_sub_, run_sub_ by (grd; lens).
        pose proof (cost_decode_avp (rec_type r) (takeN (rec_length r - 6) (dropN 6 r))) as CT.
        rewrite len_takeN, len_dropN in CT.
        destruct (run (decode_avp (rec_type r)) _) as [[b r']| | |]; cbn [obind after].
        -- rewrite DD. rewrite cost_bind, after_ret0. grd. lia.
        -- grd. lia.
        -- grd. lia.
        -- grd. lia.
Qed.

Theorem cost_avps b : bytes_ok b = true -> m_avps_cost b <= 3 * len b + 2.
Proof.
  intros B. unfold m_avps_cost, avps_read. clen.
  pose proof (cost_greedy (S (N.to_nat (len b))) b B) as H.
  unfold len in *. rewrite Nnat.Nat2N.id in *. lia.
Qed.

(** * messages *)
Lemma cost_ctrl w o l : bytes_ok l = true -> cost (ctrl_read w o) l <= 3 * len l + 10.
Proof.
  intros B. unfold ctrl_read.
  repeat match goal with
         | |- cost (if ?c then Ret _ else _) _ <= _ => destruct c; [cfin|]
         end.
  clen. destruct (len l <? 10) eqn:E10; [cfin|].
  cu16. cu16. cu16. cu16. cu16. rewrite !dropN_dropN. nsimp.
  match goal with |- context [if ?c then Ret _ else _] => destruct c eqn:EL; [cfin|] end.
  clen. rewrite len_dropN.
  match goal with |- context [if ?c then Ret _ else _] => destruct c eqn:EP; [cfin|] end.
  unfold usub.
  match goal with |- context [if ?c then Ret _ else Crash _] => destruct c eqn:EU end;
    [|cbn [bind cost]; lia].
  cbn [bind]. rewrite cost_bind, cost_sub_ by (grd; lens).
  match goal with |- context [cost avps_read (takeN ?d ?r)] =>
    pose proof (cost_avps (takeN d r) (bytes_ok_takeN _ _ (bytes_ok_dropN 10 _ B))) as CA;
    unfold m_avps_cost in CA; rewrite len_takeN, len_dropN in CA
  end.
  match goal with |- context [after ?o ?f] =>
    assert (AZ : after o f = 0)
  end.
  { match goal with |- after ?o _ = 0 => destruct o as [[rs tl]| | |] end; cbn [after]; try reflexivity.
    repeat match goal with
           | |- cost (if ?c then Ret _ else _) _ = 0 => destruct c; [reflexivity|]
           end. reflexivity. }
  rewrite AZ. grd. lia.
Qed.

(** compositional bound: the reader only shrinks, and a bind costs at most the sum *)
Lemma lr_read_shrinks k l x l' : lr_read k l = Val (x, l') -> len l' <= len l.
Proof.
  unfold lr_read. destruct (Nat.leb k (length l)); [|discriminate].
  intros H. inversion H; subst. unfold len. rewrite skipn_length. lia.
Qed.

Lemma run_shrinks {A} (p : prog A) : forall l a l', run p l = Val (a, l') -> len l' <= len l.
Proof.
  induction p as [A a|A k|A|A k IH|A k IH|A k IH|A k IH|A k IH|A k IH|A n k IH|A n k IH|A C n q IHq k IH];
    intros l a0 l'; cbn [run]; try discriminate.
  - intros H. inversion H; subst. lia.
  - apply IH.
  - apply IH.
  - destruct (lr_read 1 l) as [[x l1]| | |] eqn:E; cbn [obind]; try discriminate.
    intros H. apply IH in H. apply lr_read_shrinks in E. lia.
  - destruct (lr_read 2 l) as [[x l1]| | |] eqn:E; cbn [obind]; try discriminate.
    intros H. apply IH in H. apply lr_read_shrinks in E. lia.
  - destruct (lr_read 4 l) as [[x l1]| | |] eqn:E; cbn [obind]; try discriminate.
    intros H. apply IH in H. apply lr_read_shrinks in E. lia.
  - destruct (lr_read 8 l) as [[x l1]| | |] eqn:E; cbn [obind]; try discriminate.
    intros H. apply IH in H. apply lr_read_shrinks in E. lia.
  - destruct (n <=? len l); intros H; apply IH in H; rewrite ?len_dropN in H; lia.
  - destruct (n <=? len l); [|discriminate]. intros H; apply IH in H; rewrite ?len_dropN in H; lia.
  - destruct (n <=? len l); [|discriminate].
    destruct (run q (takeN n l)) as [[b r]| | |]; cbn [obind]; try discriminate.
    intros H; apply IH in H; rewrite ?len_dropN in H; lia.
Qed.

Lemma cost_bind_le {A B} (p : prog A) (f : A -> prog B) l a K :
  cost p l <= a ->
  (forall x l', run p l = Val (x, l') -> len l' <= len l -> cost (f x) l' + a <= K) ->
  a <= K ->
  cost (bind p f) l <= K.
Proof.
  intros Hp Hf HK. rewrite cost_bind.
  destruct (run p l) as [[x l']| | |] eqn:E; cbn [after]; try lia.
  specialize (Hf x l' eq_refl (run_shrinks p l x l' E)). lia.
Qed.

Lemma cost_opt_u16 (c : bool) l :
  cost (if c then x <- u16_ ;; Ret (Some x) else Ret None) l <= 1.
Proof.
  destruct c; [|cfin]. rewrite cost_bind, cost_u16_.
  destruct (run u16_ l) as [[a l']| | |]; cbn [after cost]; lia.
Qed.

Lemma cost_opt_u16x2 (c : bool) l :
  cost (if c then ns <- u16_ ;; nr <- u16_ ;; Ret (Some (ns, nr)) else Ret None) l <= 2.
Proof.
  destruct c; [|cfin]. rewrite cost_bind, cost_u16_.
  destruct (run u16_ l) as [[a l']| | |]; cbn [after]; [|lia..].
  rewrite cost_bind, cost_u16_.
  destruct (run u16_ l') as [[a' l'']| | |]; cbn [after cost]; lia.
Qed.

Lemma cost_bind_acc {A B} (p : prog A) (f : A -> prog B) l a c K :
  cost p l <= a ->
  (forall x l', run p l = Val (x, l') -> len l' <= len l -> cost (f x) l' + (a + c) <= K) ->
  a + c <= K ->
  cost (bind p f) l + c <= K.
Proof.
  intros Hp Hf HK. rewrite cost_bind.
  destruct (run p l) as [[x l']| | |] eqn:E; cbn [after]; try lia.
  specialize (Hf x l' eq_refl (run_shrinks p l x l' E)). lia.
Qed.

Lemma cost_data w l : cost (data_read w) l <= len l + 12.
Proof.
  unfold data_read.
  match goal with |- context [if f_has_offset w then ?x else ?y] => generalize (if f_has_offset w then x else y) end.
  intros m3.
  clen. destruct (len l <? m3); [cfin|].
  match goal with |- 1 + cost ?p ?l0 <= _ => assert (H : cost p l0 + 0 <= len l0 + 11);
    [|apply (N.le_trans _ (1 + (len l0 + 11))); [apply N.add_le_mono_l; rewrite N.add_0_r in H; exact H | lia]] end.
  eapply cost_bind_acc; [apply cost_opt_u16| |lia]. intros ml l1 _ L1.
  eapply cost_bind_acc; [rewrite cost_u16_; apply N.le_refl| |lia]. intros tid l2 _ L2.
  eapply cost_bind_acc; [rewrite cost_u16_; apply N.le_refl| |lia]. intros sid l3 _ L3.
  eapply cost_bind_acc; [apply cost_opt_u16x2| |lia]. intros mn l4 _ L4.
  eapply (cost_bind_acc _ _ _ 3); [| |lia].
  { destruct (f_has_offset w); [|cfin].
    rewrite cost_bind, cost_u16_.
    destruct (run u16_ l4) as [[os l5]| | |]; cbn [after]; [|lia..].
    clen. destruct (len l5 <? os); [cfin|].
    rewrite cost_bind, cost_skip_.
    destruct (run (skip_ os) l5) as [[u l6]| | |]; cbn [after cost]; lia. }
  intros rhl l5 _ L5. destruct rhl as [hl|e]; [|cfin].
  eapply (cost_bind_acc _ _ _ 1); [| |lia].
  { destruct ml as [length|].
    - destruct (length <? hl); [cfin|]. unfold usub.
      destruct (hl <=? length); cbn [bind]; [|cbn [cost]; lia].
      clen. destruct (len l5 <? length - hl); cfin.
    - clen. cfin. }
  intros rpl l7 _ L7. destruct rpl as [pl|e]; [|cfin].
  destruct (pl =? 0); [cfin|].
  cbn [bind bytes_ cost].
  destruct (pl <=? len l7) eqn:EP; cbn [cost]; grd; lia.
Qed.

Lemma cost_flags l : cost flags_read l <= 2.
Proof. unfold flags_read. clen. destruct (len l <? 2) eqn:E; [cfin|]. cu16. cfin. Qed.

Theorem cost_message o b : bytes_ok b = true -> m_decode_cost o b <= 3 * len b + 12.
Proof.
  intros B. unfold m_decode_cost, msg_read.
  rewrite <- (N.add_0_r (cost _ _)).
  eapply cost_bind_acc; [apply cost_flags| |lia]. intros rf l1 R1 L1.
  assert (B1 : bytes_ok l1 = true).
  { unfold flags_read in R1. rewrite run_bind, run_len_ in R1. cbn [obind] in R1.
    destruct (len b <? 2) eqn:E; [inversion R1; subst; exact B|].
    rewrite run_bind, run_u16_ in R1 by (grd; lia). cbn [obind] in R1.
    inversion R1; subst. apply bytes_ok_dropN, B. }
  assert (L2 : rf = Err IncompleteFlags \/ len l1 + 2 <= len b).
  { unfold flags_read in R1. rewrite run_bind, run_len_ in R1. cbn [obind] in R1.
    destruct (len b <? 2) eqn:E; [inversion R1; subst; left; reflexivity|].
    rewrite run_bind, run_u16_ in R1 by (grd; lia). cbn [obind] in R1.
    inversion R1; subst. right. rewrite len_dropN. grd. lia. }
  destruct rf as [w|e]; [|cfin].
  destruct L2 as [L2|L2]; [discriminate|].
  repeat match goal with
         | |- cost (if ?c then Ret _ else _) _ + _ <= _ => destruct c; [cfin|]
         end.
  destruct (f_is_control w).
  - rewrite cost_bind. pose proof (cost_ctrl w o l1 B1) as CC.
    destruct (run (ctrl_read w o) l1) as [[[m|es] l2]| | |]; cbn [after cost]; lia.
  - rewrite cost_bind. pose proof (cost_data w l1) as CD.
    destruct (run (data_read w) l1) as [[[m|es] l2]| | |]; cbn [after cost]; lia.
Qed.
