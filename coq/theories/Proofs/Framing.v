(** Framing (C08, C15) on the Spec: decoding a concatenation of well-delimited AVP
    records is the concatenation of decoding each alone; octets after the
    declared end of a message have no influence; the control-message result is
    determined record by record. *)
From Coq Require Import Lia.
From RL Require Import Model.Decode Spec.SpecDecode Proofs.ReaderLemmas Proofs.BytesLemmas Proofs.RefineAvp Proofs.RefineDecode.

(** fuel irrelevance: S |r| iterations are always enough *)
Lemma s_avps_n_fuel n : forall m r, (length r < n)%nat -> (length r < m)%nat ->
  s_avps_n n r = s_avps_n m r.
Proof.
  induction n as [|n IH]; intros m r Hn Hm; [lia|].
  destruct m as [|m]; [lia|]. cbn [s_avps_n].
  destruct (len r <? 6) eqn:E6; [reflexivity|].
  destruct (rec_length r <? 6) eqn:EL; [reflexivity|].
  destruct (len r <? rec_length r) eqn:ER; [reflexivity|].
  apply N.ltb_ge in E6, EL, ER.
  assert (length (dropN (rec_length r) r) < length r)%nat.
  { unfold dropN. rewrite skipn_length. unfold len in *. lia. }
  rewrite (IH m) by lia. reflexivity.
Qed.

Lemma s_avps_fuel n r : (length r < n)%nat -> s_avps_n n r = s_avps r.
Proof. intros H. unfold s_avps. apply s_avps_n_fuel; lia. Qed.

(** a well-delimited record: at least a header, and its own length field equals its size *)
Definition well_delimited (r : list N) : bool := (6 <=? len r) && (rec_length r =? len r).

Lemma rec_length_app r rest : 2 <= len r -> rec_length (r ++ rest) = rec_length r.
Proof.
  intros H. unfold rec_length, fld, octs.
  rewrite !dropN_app_le, !takeN_app_le by (rewrite ?len_dropN; lia). reflexivity.
Qed.

Theorem avps_cons_record r rest : well_delimited r = true ->
  s_avps (r ++ rest) = (s_record r :: fst (s_avps rest), snd (s_avps rest)).
Proof.
  intros W. unfold well_delimited in W. apply andb_prop in W. destruct W as [W6 WL].
  apply N.leb_le in W6. apply N.eqb_eq in WL.
  unfold s_avps at 1. cbn [s_avps_n]. rewrite len_app.
  replace (len r + len rest <? 6) with false by (symmetry; apply N.ltb_ge; lia).
  rewrite rec_length_app by lia. rewrite WL.
  replace (len r <? 6) with false by (symmetry; apply N.ltb_ge; lia).
  replace (len r + len rest <? len r) with false by (symmetry; apply N.ltb_ge; lia).
  rewrite takeN_app, dropN_app.
  rewrite s_avps_fuel by (rewrite app_length; unfold len in *; lia).
  destruct (s_avps rest) as [xs tl]. reflexivity.
Qed.

Theorem avps_concat rs : forallb well_delimited rs = true ->
  s_avps (concat rs) = (map s_record rs, []).
Proof.
  induction rs as [|r t IH]; intros W; [reflexivity|].
  cbn [forallb] in W. apply andb_prop in W. destruct W as [Wr Wt].
  cbn [concat map]. rewrite avps_cons_record by exact Wr. rewrite (IH Wt). reflexivity.
Qed.

Corollary avps_single r : well_delimited r = true -> s_avps r = ([s_record r], []).
Proof. intros W. pose proof (avps_concat [r]) as H. cbn in H. rewrite app_nil_r in H. apply H. rewrite W. reflexivity. Qed.

(** decode_avps(r1 ++ .. ++ rk) = decode_avps(r1) ++ .. ++ decode_avps(rk) *)
Theorem avps_concat_is_concat rs : forallb well_delimited rs = true ->
  fst (s_avps (concat rs)) = concat (map (fun r => fst (s_avps r)) rs).
Proof.
  intros W. rewrite (avps_concat rs W). cbn [fst].
  induction rs as [|r t IH]; [reflexivity|].
  cbn [forallb] in W. apply andb_prop in W. destruct W as [Wr Wt].
  cbn [map concat]. rewrite (avps_single r Wr). cbn [fst app]. f_equal. apply IH, Wt.
Qed.

(** parsing stops only at an unusable length field *)
Theorem avps_stop_at_bad_length rs bad : forallb well_delimited rs = true ->
  6 <= len bad -> (rec_length bad < 6 \/ len bad < rec_length bad) ->
  exists x, fst (s_avps (concat rs ++ bad)) = map s_record rs ++ [Err (InvalidAVPLength x)].
Proof.
  induction rs as [|r t IH]; intros W H6 HB.
  - cbn [concat app map]. unfold s_avps. cbn [s_avps_n].
    replace (len bad <? 6) with false by (symmetry; apply N.ltb_ge; lia).
    destruct (rec_length bad <? 6) eqn:E; [eexists; reflexivity|].
    apply N.ltb_ge in E. replace (len bad <? rec_length bad) with true by (symmetry; apply N.ltb_lt; lia).
    eexists; reflexivity.
  - cbn [forallb] in W. apply andb_prop in W. destruct W as [Wr Wt].
    cbn [concat map]. rewrite <- app_assoc, avps_cons_record by exact Wr.
    destruct (IH Wt H6 HB) as [x Hx]. exists x. cbn [fst app]. rewrite Hx. reflexivity.
Qed.

(** * octets after the declared end *)
Definition add_rest (s : list N) (x : sres) : sres :=
  match x with Ok (m, rest) => Ok (m, rest ++ s) | Err e => Err e end.

Lemma octs_app k off b s : off + k <= len b -> octs k off (b ++ s) = octs k off b.
Proof. intros H. unfold octs. rewrite dropN_app_le, takeN_app_le by (rewrite ?len_dropN; lia). reflexivity. Qed.
Lemma fld_app k off b s : off + k <= len b -> fld k off (b ++ s) = fld k off b.
Proof. intros H. unfold fld. rewrite octs_app by exact H. reflexivity. Qed.

Definition ctrl_declared_ok (b : list N) : Prop := 12 <= len b /\ fld 2 2 b <= len b.

Theorem ctrl_suffix o b s : ctrl_declared_ok b -> s_ctrl o (b ++ s) = add_rest s (s_ctrl o b).
Proof.
  intros [H12 HL]. unfold s_ctrl. rewrite len_app.
  rewrite !(fld_app 2) by lia.
  destruct (v_unused o && fw_P (fld 2 0 b)); [reflexivity|].
  destruct (v_unused o && fw_O (fld 2 0 b)); [reflexivity|].
  destruct (negb (fw_L (fld 2 0 b))); [reflexivity|].
  destruct (negb (fw_S (fld 2 0 b))); [reflexivity|].
  replace (len b + len s <? 12) with false by (symmetry; apply N.ltb_ge; lia).
  replace (len b <? 12) with false by (symmetry; apply N.ltb_ge; lia).
  destruct (fld 2 2 b <? 12) eqn:E12; [reflexivity|]. apply N.ltb_ge in E12.
  replace (len b + len s <? fld 2 2 b) with false by (symmetry; apply N.ltb_ge; lia).
  replace (len b <? fld 2 2 b) with false by (symmetry; apply N.ltb_ge; lia).
  rewrite octs_app by lia.
  destruct (negb (s_first_ok _)); [reflexivity|].
  destruct (existsb is_err _); [reflexivity|].
  cbn [add_rest]. rewrite dropN_app_le by lia. reflexivity.
Qed.

(** a data message that carries a length field, whose declared length covers
    the header and lies within the octets present *)
Definition data_hdr (b : list N) : N :=
  let w := fld 2 0 b in
  let oS := if fw_S w then 4 else 0 in
  let oO := if fw_O w then 2 else 0 in
  let fixed := 2 + 2 + 4 + oS + oO in
  fixed + (if fw_O w then fld 2 (2 + 2 + 4 + oS) b else 0).
Definition data_declared_ok (b : list N) : Prop :=
  fw_L (fld 2 0 b) = true /\ 2 <= len b /\
  (let w := fld 2 0 b in 2 + 2 + 4 + (if fw_S w then 4 else 0) + (if fw_O w then 2 else 0) <= len b) /\
  data_hdr b <= fld 2 2 b /\ fld 2 2 b <= len b.

Definition add_rest1 (s : list N) (x : result derr (message * list N)) :=
  match x with Ok (m, rest) => Ok (m, rest ++ s) | Err e => Err e end.

Theorem data_suffix b s : data_declared_ok b -> s_data (b ++ s) = add_rest1 s (s_data b).
Proof.
  intros (HL & H2 & Hf & Hh & Hl). unfold data_hdr in Hh.
  unfold s_data. rewrite len_app. rewrite (fld_app 2 0) by lia. rewrite HL in *.
  set (w := fld 2 0 b) in *.
  set (oS := if fw_S w then 4 else 0) in *. set (oO := if fw_O w then 2 else 0) in *.
  assert (oS <= 4 /\ oO <= 2) by (unfold oS, oO; destruct (fw_S w), (fw_O w); lia).
  replace (len b + len s <? 2 + 2 + 4 + oS + oO) with false by (symmetry; apply N.ltb_ge; lia).
  replace (len b <? 2 + 2 + 4 + oS + oO) with false by (symmetry; apply N.ltb_ge; lia).
  assert (EO : (if fw_O w then fld 2 (2 + 2 + 4 + oS) (b ++ s) else 0) = (if fw_O w then fld 2 (2 + 2 + 4 + oS) b else 0)).
  { unfold oO in *. destruct (fw_O w); [|reflexivity]. apply fld_app. lia. }
  rewrite EO. set (osz := if fw_O w then fld 2 (2 + 2 + 4 + oS) b else 0) in *.
  replace (len b + len s <? 2 + 2 + 4 + oS + oO + osz) with false by (symmetry; apply N.ltb_ge; lia).
  replace (len b <? 2 + 2 + 4 + oS + oO + osz) with false by (symmetry; apply N.ltb_ge; lia).
  rewrite !(fld_app 2) by lia.
  replace (fld 2 2 b <? 2 + 2 + 4 + oS + oO + osz) with false by (symmetry; apply N.ltb_ge; lia).
  replace (len b + len s <? fld 2 2 b) with false by (symmetry; apply N.ltb_ge; lia).
  replace (len b <? fld 2 2 b) with false by (symmetry; apply N.ltb_ge; lia).
  destruct (fld 2 2 b - (2 + 2 + 4 + oS + oO + osz) =? 0); [reflexivity|].
  cbn [add_rest1]. rewrite octs_app, dropN_app_le by lia.
  assert (ES : (if fw_S w then Some (fld 2 (2 + 2 + 4) (b ++ s), fld 2 (2 + 2 + 6) (b ++ s)) else None)
             = (if fw_S w then Some (fld 2 (2 + 2 + 4) b, fld 2 (2 + 2 + 6) b) else None)).
  { unfold oS in *. destruct (fw_S w); [|reflexivity]. rewrite !(fld_app 2) by lia. reflexivity. }
  rewrite ES. reflexivity.
Qed.

Theorem decode_suffix o b s : 2 <= len b ->
  (if fw_T (fld 2 0 b) then ctrl_declared_ok b else data_declared_ok b) ->
  s_decode o (b ++ s) = add_rest s (s_decode o b).
Proof.
  intros H2 D. unfold s_decode. rewrite len_app, (fld_app 2 0) by lia.
  replace (len b + len s <? 2) with false by (symmetry; apply N.ltb_ge; lia).
  replace (len b <? 2) with false by (symmetry; apply N.ltb_ge; lia).
  destruct (v_version o && negb (fw_version (fld 2 0 b) =? 2)); [reflexivity|].
  destruct (v_reserved o && negb (fw_reserved_clear (fld 2 0 b))); [reflexivity|].
  destruct (fw_T (fld 2 0 b)).
  - apply ctrl_suffix, D.
  - rewrite (data_suffix b s D). destruct (s_data b) as [[m r]|e]; reflexivity.
Qed.

(** every accepted control message, and every accepted data message that carries
    a length field, has a declared length in range: so the suffix theorem applies
    to exactly the inputs the property speaks of *)
Theorem accepted_declared_ok o b x : s_decode o b = Ok x ->
  2 <= len b /\ (fw_T (fld 2 0 b) = true -> ctrl_declared_ok b) /\
  (fw_T (fld 2 0 b) = false -> fw_L (fld 2 0 b) = true -> data_declared_ok b).
Proof.
  unfold s_decode. destruct (len b <? 2) eqn:E2; [discriminate|]. apply N.ltb_ge in E2.
  destruct (v_version o && _); [discriminate|]. destruct (v_reserved o && _); [discriminate|].
  destruct (fw_T (fld 2 0 b)) eqn:T; intros H; (split; [exact E2|]); split; intros; try discriminate.
  - unfold s_ctrl in H.
    repeat match type of H with (if ?c then _ else _) = _ => destruct c eqn:?; try discriminate end.
    unfold ctrl_declared_ok. grd. lia.
  - unfold s_data in H. unfold data_declared_ok, data_hdr.
    match goal with HL : fw_L _ = true |- _ => rewrite HL in * end.
    set (w := fld 2 0 b) in *.
    set (oS := if fw_S w then 4 else 0) in *. set (oO := if fw_O w then 2 else 0) in *.
    destruct (len b <? 2 + 2 + 4 + oS + oO) eqn:G1; [discriminate|].
    set (osz := if fw_O w then fld 2 (2 + 2 + 4 + oS) b else 0) in *.
    destruct (len b <? 2 + 2 + 4 + oS + oO + osz) eqn:G2; [discriminate|].
    destruct (fld 2 2 b <? 2 + 2 + 4 + oS + oO + osz) eqn:G3; [discriminate|].
    destruct (len b <? fld 2 2 b) eqn:G4; [discriminate|].
    grd. repeat split; lia.
Qed.

(** * C15: the control-message result, record by record *)
Definition ctrl_header_ok (o : opts) (hdr : list N) (body_len : N) : Prop :=
  len hdr = 12 /\ fw_L (fld 2 0 hdr) = true /\ fw_S (fld 2 0 hdr) = true /\
  v_unused o && fw_P (fld 2 0 hdr) = false /\ v_unused o && fw_O (fld 2 0 hdr) = false /\
  fld 2 2 hdr = 12 + body_len.

Definition err_of_record (r : list N) : list derr :=
  match s_record r with Err e => [e] | Ok _ => [] end.

Lemma errs_of_records rs : errs_of (map s_record rs) = flat_map err_of_record rs.
Proof.
  induction rs as [|r t IH]; [reflexivity|]. cbn [map flat_map errs_of]. unfold err_of_record at 1.
  destruct (s_record r); cbn [app]; rewrite IH; reflexivity.
Qed.

Theorem ctrl_by_records o hdr rs :
  ctrl_header_ok o hdr (len (concat rs)) -> forallb well_delimited rs = true ->
  s_ctrl o (hdr ++ concat rs) =
  let xs := map s_record rs in
  if negb (s_first_ok xs) then Err [ControlMessageTypeNotFirst]
  else if existsb is_err xs then Err (flat_map err_of_record rs)
  else Ok (Control {| c_length := fld 2 2 hdr; c_tunnel := fld 2 4 hdr; c_session := fld 2 6 hdr;
                      c_ns := fld 2 8 hdr; c_nr := fld 2 10 hdr; c_avps := oks_of xs |}, []).
Proof.
  intros (H12 & HL & HS & HP & HO & HLen) W. unfold s_ctrl.
  rewrite len_app, !(fld_app 2) by lia. rewrite HP, HO, HL, HS. cbn [negb].
  replace (len hdr + len (concat rs) <? 12) with false by (symmetry; apply N.ltb_ge; lia).
  replace (fld 2 2 hdr <? 12) with false by (symmetry; apply N.ltb_ge; lia).
  replace (len hdr + len (concat rs) <? fld 2 2 hdr) with false by (symmetry; apply N.ltb_ge; lia).
  assert (R : octs (fld 2 2 hdr - 12) 12 (hdr ++ concat rs) = concat rs).
  { unfold octs. rewrite <- H12, dropN_app. apply takeN_all. lia. }
  rewrite R, (avps_concat rs W). cbn [fst]. cbv zeta.
  destruct (negb (s_first_ok (map s_record rs))); [reflexivity|].
  destruct (existsb is_err (map s_record rs)); [rewrite errs_of_records; reflexivity|].
  f_equal. f_equal. apply dropN_all. rewrite len_app. lia.
Qed.

(** the error list has exactly one entry per undecodable record *)
Lemma errs_count rs :
  length (flat_map err_of_record rs) = length (filter (fun r => is_err (s_record r)) rs).
Proof.
  induction rs as [|r t IH]; [reflexivity|]. cbn [flat_map filter]. unfold err_of_record at 1.
  destruct (s_record r); cbn [is_err app length]; rewrite ?IH; reflexivity.
Qed.

(** a zero-length body is accepted *)
Corollary ctrl_zlb o hdr : ctrl_header_ok o hdr 0 ->
  exists m, s_ctrl o hdr = Ok (Control m, []) /\ c_avps m = [].
Proof.
  intros H. pose proof (ctrl_by_records o hdr [] H eq_refl) as E. cbn in E. rewrite app_nil_r in E.
  eexists. split; [exact E|reflexivity].
Qed.
