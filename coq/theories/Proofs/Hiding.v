(** AVP hiding (C11, C12, C13): the Model's in-place index loops compute the RFC
    2661 4.3 construction of Spec/SpecHide.v; revealing is total; hide then reveal is
    the identity.  Everything holds for EVERY hash with a 16-octet result. *)
From Coq Require Import Lia ZArith Zify.
From RL Require Import Model.Decode Model.Encode Model.Hide Spec.SpecDecode Spec.SpecEncode Spec.SpecHide
  Proofs.ReaderLemmas Proofs.BytesLemmas Proofs.RefineAvp Proofs.RefineDecode Proofs.RefineEncode
  Proofs.EncodeFacts Proofs.RoundTrip Proofs.Enums.
Ltac Zify.zify_post_hook ::= Z.div_mod_to_equations.

Lemma len_xor_list a : forall b, len (xor_list a b) = N.min (len a) (len b).
Proof.
  induction a as [|x a IH]; intros [|y b]; cbn [xor_list]; rewrite ?len_nil, ?len_cons; try lia.
  rewrite IH. lia.
Qed.

Lemma xor_list_involutive a : forall k, len a <= len k -> xor_list (xor_list a k) k = a.
Proof.
  induction a as [|x a IH]; intros [|y k] L; cbn [xor_list]; try reflexivity.
  - rewrite len_cons, len_nil in L. lia.
  - rewrite !len_cons in L. rewrite IH by lia. f_equal.
    rewrite N.lxor_assoc, N.lxor_nilpotent, N.lxor_0_r. reflexivity.
Qed.

Lemma takeN_app_exact {A} (l1 l2 : list A) n : len l1 = n -> takeN n (l1 ++ l2) = l1.
Proof. intros <-. apply takeN_app. Qed.
Lemma dropN_app_exact {A} (l1 l2 : list A) n : len l1 = n -> dropN n (l1 ++ l2) = l2.
Proof. intros <-. apply dropN_app. Qed.


Lemma dropN_takeN' {A} (l : list A) n m k : k = m - n -> takeN k (dropN n l) = dropN n (takeN m l).
Proof. intros ->. symmetry. apply dropN_takeN. Qed.

Section Hiding.
Variable H : list N -> list N.
Hypothesis H_len : forall x, len (H x) = 16.

Lemma slice_ok l a b : a <= b -> b <= len l -> slice l a b = Val (takeN (b - a) (dropN a l)).
Proof.
  intros H1 H2. unfold slice.
  replace ((a <=? b) && (b <=? len l)) with true; [reflexivity|].
  symmetry. apply andb_true_iff. split; apply N.leb_le; assumption.
Qed.

Lemma xor16_at_ok l start k : start + 16 <= len l ->
  xor16_at l start k =
  Val (takeN start l ++ xor_list (takeN 16 (dropN start l)) k ++ dropN (start + 16) l).
Proof.
  intros L. unfold xor16_at. replace (start + 16 <=? len l) with true; [reflexivity|].
  symmetry. apply N.leb_le. exact L.
Qed.

Lemma len_block_xor l x : 16 <= len l -> len (xor_list (takeN 16 l) (H x)) = 16.
Proof. intros L. rewrite len_xor_list, len_takeN, H_len. lia. Qed.

(** forward loop: blocks before [i] are ciphertext, the rest still plaintext *)
Lemma hide_loop_spec secret cnt : forall i done todo,
  len done = 16 * i -> 1 <= i -> 16 * N.of_nat cnt <= len todo ->
  hide_loop H cnt i secret (done ++ todo) =
  Val (done ++ enc_chain H cnt secret (dropN (len done - 16) done) todo ++ dropN (16 * N.of_nat cnt) todo).
Proof.
  induction cnt as [|cnt IH]; intros i done todo Ld Hi Lt.
  - cbn [hide_loop enc_chain app]. change (16 * N.of_nat 0) with 0. rewrite dropN_0. reflexivity.
  - cbn [hide_loop enc_chain].
    replace ((i - 1) * 16) with (len done - 16) by lia.
    replace (len done - 16 + 16) with (len done) by lia.
    rewrite slice_ok by (rewrite ?len_app; lia).
    replace (len done - (len done - 16)) with 16 by lia.
    assert (P : takeN 16 (dropN (len done - 16) (done ++ todo)) = dropN (len done - 16) done).
    { rewrite dropN_app_le by lia. apply takeN_app_exact. rewrite len_dropN. lia. }
    rewrite P. cbn [obind].
    rewrite xor16_at_ok by (rewrite len_app; lia). cbn [obind].
    rewrite takeN_app, dropN_app.
    replace (len done + 16) with (len (done ++ takeN 16 todo))
      by (rewrite len_app, len_takeN; lia).
    assert (D : dropN (len (done ++ takeN 16 todo)) (done ++ todo) = dropN 16 todo).
    { rewrite <- (takeN_dropN 16 todo) at 2. rewrite app_assoc. apply dropN_app. }
    rewrite D.
    set (c := xor_list (takeN 16 todo) (H (secret ++ dropN (len done - 16) done))).
    assert (Lc : len c = 16) by (apply len_block_xor; lia).
    rewrite app_assoc.
    rewrite (IH (i + 1) (done ++ c) (dropN 16 todo)) by (rewrite ?len_app, ?len_dropN; lia).
    f_equal. rewrite <- !app_assoc. f_equal.
    replace (len (done ++ c) - 16) with (len done) by (rewrite len_app; lia).
    rewrite dropN_app. f_equal. f_equal. rewrite dropN_dropN. f_equal. lia.
Qed.

(** * the plaintext is a positive multiple of 16 octets *)
Lemma hide_plain_len payload lp ap : 15 <= len ap ->
  len (hide_plain payload lp ap) mod 16 = 0 /\ 16 <= len (hide_plain payload lp ap).
Proof.
  intros La. unfold hide_plain. set (p0 := be16 (6 + len payload) ++ payload ++ lp).
  assert (2 <= len p0) by (unfold p0; rewrite len_app, len_be16; lia).
  rewrite len_app, len_takeN.
  assert (K : (16 - len p0 mod 16) mod 16 <= 15) by (apply N.lt_succ_r, N.mod_lt; lia).
  replace (N.min ((16 - len p0 mod 16) mod 16) (len ap)) with ((16 - len p0 mod 16) mod 16) by lia.
  pose proof (N.div_mod (len p0) 16 ltac:(lia)) as DM.
  pose proof (N.mod_lt (len p0) 16 ltac:(lia)) as ML.
  set (r := len p0 mod 16) in *. set (q := len p0 / 16) in *.
  destruct (N.eq_dec r 0) as [R0|R0].
  - rewrite R0 in *. change ((16 - 0) mod 16) with 0. rewrite N.add_0_r.
    split; [rewrite DM, N.add_0_r, N.mul_comm; apply N.mod_mul; lia | lia].
  - rewrite (N.mod_small (16 - r) 16) by lia.
    replace (len p0 + (16 - r)) with ((q + 1) * 16) by lia.
    split; [apply N.mod_mul; lia | lia].
Qed.

Lemma m_hide_nonhidden a secret rv lp ap : is_hidden a = false ->
  m_hide H a secret rv lp ap =
    let w := wr_payload a (writer_of []) in
    if w_len w <? 2 then Panic PkAssert else
    let type_octets := takeN 2 (w_data w) in
    let length := w_len w + 6 - 2 in
    if 1023 <? length then Panic PkAssert else
    obind (w_bytes_at (be16 length) 0 w) (fun w' =>
    let input1 := w_data w' ++ lp in
    let cpl := (16 - len input1 mod 16) mod 16 in
    if len ap <? cpl then Panic PkIndex else
    let input2 := input1 ++ takeN cpl ap in
    let n_chunks := len input2 / 16 in
    obind (xor16_at input2 0 (H (type_octets ++ secret ++ rv))) (fun input3 =>
    obind (if 1 <? n_chunks then hide_loop H (N.to_nat (n_chunks - 1)) 1 secret input3
           else Val input3) (fun out =>
    Val (AHidden (be_val 0 type_octets) out)))).
Proof. intros NH. destruct a; try discriminate; reflexivity. Qed.

Theorem hide_refines a secret rv lp ap :
  is_hidden a = false -> avp_fits a = true -> attr_type a < 65536 -> len ap = 16 ->
  m_hide H a secret rv lp ap =
  Val (AHidden (attr_type a) (s_hide_value H (attr_type a) (s_value a) secret rv lp ap)).
Proof.
  intros NH F T La. unfold avp_fits, avp_total in F. apply N.leb_le in F.
  rewrite (m_hide_nonhidden a secret rv lp ap NH). cbv zeta.
  rewrite wr_payload_spec; unfold mkw, w_len, writer_of; cbn [w_data w_log app].
  set (v := s_value a) in *; set (t := attr_type a) in *.
  rewrite len_app, len_be16.
  replace (2 + len v <? 2) with false by (symmetry; apply N.ltb_ge; lia).
  replace (1023 <? 2 + len v + 6 - 2) with false by (symmetry; apply N.ltb_ge; lia).
  unfold w_bytes_at, w_len; cbn [w_data w_log]; rewrite len_app, !len_be16.
  replace (0 + 2 <=? 2 + len v) with true by (symmetry; apply N.leb_le; lia).
  cbn [obind w_data].
  change (takeN 0 (be16 t ++ v)) with (@nil N); change (0 + 2) with (len (be16 t)); rewrite dropN_app.
  change (takeN 2 (be16 t ++ v)) with (be16 t).
  replace (2 + len v + 6 - 2) with (6 + len v) by lia.
  cbn [app].
  assert (EP : (be16 (6 + len v) ++ v) ++ lp = be16 (6 + len v) ++ v ++ lp) by (rewrite <- app_assoc; reflexivity).
  rewrite EP.
  set (p0 := be16 (6 + len v) ++ v ++ lp).
  assert (K : (16 - len p0 mod 16) mod 16 <= 15) by (apply N.lt_succ_r, N.mod_lt; lia).
  replace (len ap <? (16 - len p0 mod 16) mod 16) with false by (symmetry; apply N.ltb_ge; lia).
  change (p0 ++ takeN ((16 - len p0 mod 16) mod 16) ap) with (hide_plain v lp ap).
  destruct (hide_plain_len v lp ap ltac:(lia)) as [PM PL].
  set (plain := hide_plain v lp ap) in *.
  rewrite xor16_at_ok by lia; cbn [obind].
  change (takeN 0 plain) with (@nil N); rewrite dropN_0; cbn [app]; change (0 + 16) with 16.
  set (c1 := xor_list (takeN 16 plain) (H (be16 t ++ secret ++ rv))).
  assert (Lc : len c1 = 16) by (apply len_block_xor; lia).
  assert (BT : be_val 0 (be16 t) = t) by (apply be_val_be16, T).
  rewrite BT; unfold s_hide_value, s_encrypt; fold plain; fold c1.
  pose proof (N.div_mod (len plain) 16 ltac:(lia)) as DM. rewrite PM, N.add_0_r in DM.
  set (q := len plain / 16) in *.
  destruct (1 <? q) eqn:E1.
  - apply N.ltb_lt in E1. rewrite (hide_loop_spec secret (N.to_nat (q - 1)) 1 c1 (dropN 16 plain))
      by (rewrite ?len_dropN; lia). cbn [obind].
    rewrite Lc. change (dropN (16 - 16) c1) with c1.
    rewrite (dropN_all (16 * N.of_nat (N.to_nat (q - 1)))) by (rewrite len_dropN; lia).
    rewrite app_nil_r.
    replace (N.to_nat q - 1)%nat with (N.to_nat (q - 1)) by lia.
    reflexivity.
  - cbn [obind]. apply N.ltb_ge in E1.
    replace (N.to_nat q - 1)%nat with 0%nat by lia. cbn [enc_chain].
    rewrite (dropN_all 16 plain) by lia. reflexivity.
Qed.

(** * the reverse loop of reveal *)
Definition blk (k : N) (data : list N) : list N := takeN 16 (dropN (16 * k) data).
Definition Dn (secret : list N) (n : nat) (data : list N) : list N :=
  dec_chain H n secret (takeN 16 data) (dropN 16 data).

Lemma dec_chain_prefix secret n : forall prev c c',
  takeN (16 * N.of_nat n) c = takeN (16 * N.of_nat n) c' ->
  dec_chain H n secret prev c = dec_chain H n secret prev c'.
Proof.
  induction n as [|n IH]; intros prev c c' E; [reflexivity|].
  cbn [dec_chain].
  assert (E16 : takeN 16 c = takeN 16 c').
  { rewrite <- (takeN_takeN 16 (16 * N.of_nat (S n)) c), <- (takeN_takeN 16 (16 * N.of_nat (S n)) c') by lia.
    rewrite E. reflexivity. }
  rewrite E16. f_equal. apply IH.
  replace (16 * N.of_nat n) with (16 * N.of_nat (S n) - 16) by lia.
  rewrite <- !dropN_takeN. rewrite E. reflexivity.
Qed.

Lemma blk_shift k data : blk k (dropN 16 data) = blk (k + 1) data.
Proof. unfold blk. rewrite dropN_dropN. f_equal. f_equal. lia. Qed.

Lemma Dn_unfold secret n data :
  Dn secret (S n) data =
  xor_list (blk 1 data) (H (secret ++ blk 0 data)) ++ Dn secret n (dropN 16 data).
Proof. reflexivity. Qed.

Lemma Dn_snoc secret n : forall data,
  Dn secret (S n) data =
  Dn secret n data ++ xor_list (blk (N.of_nat n + 1) data) (H (secret ++ blk (N.of_nat n) data)).
Proof.
  induction n as [|n IH]; intros data.
  - rewrite Dn_unfold. cbn [Dn dec_chain]. rewrite app_nil_r. reflexivity.
  - rewrite Dn_unfold, IH, (Dn_unfold secret n data), !blk_shift, <- app_assoc.
    replace (N.of_nat (S n)) with (N.of_nat n + 1) by lia. reflexivity.
Qed.

Lemma reveal_loop_spec secret cnt : forall data,
  16 * (N.of_nat cnt + 1) <= len data ->
  reveal_loop H cnt secret data =
  Val (takeN 16 data ++ Dn secret cnt data ++ dropN (16 * (N.of_nat cnt + 1)) data).
Proof.
  induction cnt as [|cnt IH]; intros data L.
  - cbn [reveal_loop Dn dec_chain app]. change (16 * (N.of_nat 0 + 1)) with 16.
    rewrite takeN_dropN. reflexivity.
  - cbn [reveal_loop].
    replace ((N.of_nat (S cnt) - 1) * 16) with (16 * N.of_nat cnt) by lia.
    set (cs := 16 * N.of_nat cnt + 16).
    rewrite slice_ok by lia. replace (cs - 16 * N.of_nat cnt) with 16 by lia.
    change (takeN 16 (dropN (16 * N.of_nat cnt) data)) with (blk (N.of_nat cnt) data).
    cbn [obind]. rewrite xor16_at_ok by lia. cbn [obind].
    set (pb := xor_list (takeN 16 (dropN cs data)) (H (secret ++ blk (N.of_nat cnt) data))).
    assert (Lp : len pb = 16) by (apply len_block_xor; rewrite len_dropN; lia).
    set (data' := takeN cs data ++ pb ++ dropN (cs + 16) data).
    assert (Lt : len (takeN cs data) = cs) by (apply len_takeN_le; lia).
    assert (L' : len data' = len data).
    { unfold data'. rewrite !len_app, Lt, Lp, len_dropN. lia. }
    rewrite (IH data') by lia.
    assert (T16 : takeN 16 data' = takeN 16 data).
    { unfold data'. rewrite takeN_app_le by lia. apply takeN_takeN. lia. }
    assert (DD : Dn secret cnt data' = Dn secret cnt data).
    { unfold Dn. rewrite T16. apply dec_chain_prefix.
      unfold data'. rewrite dropN_app_le by lia.
      rewrite takeN_app_le by (rewrite len_dropN; lia).
      rewrite dropN_takeN. rewrite takeN_takeN by lia. f_equal. }
    assert (DR : dropN (16 * (N.of_nat cnt + 1)) data' = pb ++ dropN (cs + 16) data).
    { unfold data'. replace (16 * (N.of_nat cnt + 1)) with cs by lia.
      apply dropN_app_exact, Lt. }
    rewrite T16, DD, DR, Dn_snoc. f_equal. f_equal. rewrite <- app_assoc. f_equal. f_equal.
    + unfold pb, blk. f_equal. f_equal. f_equal. lia.
    + f_equal. lia.
Qed.

Lemma reveal_tail_spec t p : 2 <= len p ->
  omap fst (run (reveal_tail t) p) =
  Val (let L := fld 2 0 p in
       if (L <? 6) || (1023 <? L) then Err (InvalidOriginalAVPLength L) else
       if len p - 2 <? L - 6 then Err (InvalidOriginalAVPLength L) else
       s_payload t (octs (L - 6) 2 p)).
Proof.
  intros L2. unfold reveal_tail. cbv zeta.
  rb. rewrite run_u16_ by lia. cbn [obind].
  change (be_val 0 (takeN 2 p)) with (fld 2 0 p).
  destruct ((fld 2 0 p <? 6) || (1023 <? fld 2 0 p)) eqn:G; [reflexivity|].
  apply orb_false_iff in G. destruct G as [G1 G2]. apply N.ltb_ge in G1, G2.
  unfold usub. replace (6 <=? fld 2 0 p) with true by (symmetry; apply N.leb_le; lia).
  rb. rewrite run_ret. cbn [obind]. rb. rewrite run_len_. cbn [obind]. rewrite len_dropN.
  destruct (len p - 2 <? fld 2 0 p - 6) eqn:G3; [reflexivity|]. apply N.ltb_ge in G3.
  rewrite run_sub_ by (rewrite len_dropN; lia).
  destruct (decode_avp_refines t (takeN (fld 2 0 p - 6) (dropN 2 p))) as [r Hr].
  rewrite Hr. reflexivity.
Qed.

Lemma len_dec_chain secret n : forall prev c, 16 * N.of_nat n <= len c ->
  len (dec_chain H n secret prev c) = 16 * N.of_nat n.
Proof.
  induction n as [|n IH]; intros prev c L; [reflexivity|].
  cbn [dec_chain]. rewrite len_app, len_block_xor by lia.
  rewrite IH by (rewrite len_dropN; lia). lia.
Qed.

Theorem reveal_refines t v secret rv :
  m_reveal H (AHidden t v) secret rv = Val (s_reveal H t v secret rv).
Proof.
  unfold m_reveal, s_reveal.
  destruct v as [|x v'] eqn:EV; [reflexivity|]. rewrite <- EV.
  assert (NE : len v <> 0) by (rewrite EV, len_cons; lia).
  replace (len v =? 0) with false by (symmetry; apply N.eqb_neq; exact NE).
  destruct (negb (len v mod 16 =? 0)) eqn:M; [reflexivity|].
  apply negb_false_iff, N.eqb_eq in M.
  pose proof (N.div_mod (len v) 16 ltac:(lia)) as DM. rewrite M, N.add_0_r in DM.
  set (q := len v / 16) in *.
  set (key := H (be16 t ++ secret ++ rv)).
  assert (P : obind (if 1 <? q then reveal_loop H (N.to_nat (q - 1)) secret v else Val v)
                (fun d1 => xor16_at d1 0 key) = Val (s_decrypt H t secret rv v)).
  { unfold s_decrypt. fold q key.
    destruct (1 <? q) eqn:E1.
    - apply N.ltb_lt in E1.
      rewrite reveal_loop_spec by lia. cbn [obind].
      set (D := Dn secret (N.to_nat (q - 1)) v).
      assert (LD : len D = 16 * N.of_nat (N.to_nat (q - 1)))
        by (apply len_dec_chain; rewrite len_dropN; lia).
      rewrite xor16_at_ok by (rewrite !len_app, len_takeN; lia).
      change (takeN 0 _) with (@nil N). rewrite dropN_0. cbn [app]. change (0 + 16) with 16.
      rewrite (takeN_app_exact (takeN 16 v)) by (apply len_takeN_le; lia).
      rewrite (dropN_app_exact (takeN 16 v)) by (apply len_takeN_le; lia).
      rewrite (dropN_all (16 * (N.of_nat (N.to_nat (q - 1)) + 1)) v) by lia.
      rewrite app_nil_r. unfold D, Dn.
      replace (N.to_nat q - 1)%nat with (N.to_nat (q - 1)) by lia. reflexivity.
    - apply N.ltb_ge in E1. cbn [obind].
      rewrite xor16_at_ok by lia.
      change (takeN 0 v) with (@nil N). rewrite dropN_0. cbn [app]. change (0 + 16) with 16.
      replace (N.to_nat q - 1)%nat with 0%nat by lia. cbn [dec_chain].
      rewrite (dropN_all 16 v) by lia. reflexivity. }
  destruct (if 1 <? q then reveal_loop H (N.to_nat (q - 1)) secret v else Val v) as [d1| | |];
    cbn [obind] in P; try discriminate.
  cbn [obind]. rewrite P. cbn [obind].
  apply reveal_tail_spec.
  unfold s_decrypt. rewrite len_app, len_block_xor by lia. lia.
Qed.

Theorem reveal_nonhidden a secret rv : is_hidden a = false -> m_reveal H a secret rv = Val (Ok a).
Proof. intros NH. destruct a; try discriminate; reflexivity. Qed.

Theorem hide_hidden t v secret rv lp ap : m_hide H (AHidden t v) secret rv lp ap = Val (AHidden t v).
Proof. reflexivity. Qed.

(** * C13: revealing is total and returns the announced type *)
Lemma payload_type t p a : s_payload t p = Ok a -> attr_type a = t /\ is_hidden a = false.
Proof.
  unfold s_payload. destruct (dispatch_agrees t) as [_ T].
  destruct (shape_of t) as [sh|]; [|discriminate]. cbn in T.
  destruct sh as [| | |k| |k|k|k|k| | | | | | ]; cbn [s_shape shape_type] in *; unfold s_text;
    repeat match goal with
           | |- (if ?c then _ else _) = _ -> _ => destruct c
           | |- match ?x with Some _ => _ | None => _ end = _ -> _ => destruct x
           end; intros E; inversion E; subst; cbn [attr_type is_hidden]; split; try reflexivity; exact T.
Qed.

Theorem reveal_total t v secret rv :
  exists r, m_reveal H (AHidden t v) secret rv = Val r /\
            (forall a, r = Ok a -> attr_type a = t /\ is_hidden a = false).
Proof.
  exists (s_reveal H t v secret rv). split; [apply reveal_refines|].
  intros a. unfold s_reveal.
  repeat match goal with |- (if ?c then _ else _) = _ -> _ => destruct c; try discriminate end.
  apply payload_type.
Qed.

Theorem reveal_rejects t v secret rv :
  (len v = 0 \/ len v mod 16 <> 0 \/
   fld 2 0 (s_decrypt H t secret rv v) < 6 \/ 1023 < fld 2 0 (s_decrypt H t secret rv v) \/
   len (s_decrypt H t secret rv v) - 2 < fld 2 0 (s_decrypt H t secret rv v) - 6) ->
  exists e, s_reveal H t v secret rv = Err e.
Proof.
  intros C. unfold s_reveal.
  destruct (len v =? 0) eqn:E0; [eauto|]. apply N.eqb_neq in E0.
  destruct (negb (len v mod 16 =? 0)) eqn:EM; [eauto|]. apply negb_false_iff, N.eqb_eq in EM.
  cbv zeta. set (L := fld 2 0 (s_decrypt H t secret rv v)) in *.
  destruct ((L <? 6) || (1023 <? L)) eqn:G; [eauto|].
  apply orb_false_iff in G. destruct G as [G1 G2]. apply N.ltb_ge in G1, G2.
  destruct (len (s_decrypt H t secret rv v) - 2 <? L - 6) eqn:G3; [eauto|]. apply N.ltb_ge in G3.
  exfalso. destruct C as [C|[C|[C|[C|C]]]]; lia.
Qed.

(** the complete case split of [s_reveal]: which class an input falls in, with the exact error
    (and the exact octets handed to the per-type format) in each class; the four guards are
    exhaustive and mutually exclusive, so this characterises [s_reveal] entirely *)
Theorem reveal_cases t v secret rv :
  let p := s_decrypt H t secret rv v in
  let L := fld 2 0 p in
  (len v = 0 -> s_reveal H t v secret rv = Err EmptyHiddenAVP) /\
  (len v <> 0 -> len v mod 16 <> 0 -> s_reveal H t v secret rv = Err MisalignedHiddenAVP) /\
  (len v <> 0 -> len v mod 16 = 0 -> (L < 6 \/ 1023 < L \/ len p - 2 < L - 6) ->
     s_reveal H t v secret rv = Err (InvalidOriginalAVPLength L)) /\
  (len v <> 0 -> len v mod 16 = 0 -> 6 <= L -> L <= 1023 -> L - 6 <= len p - 2 ->
     s_reveal H t v secret rv = s_payload t (octs (L - 6) 2 p)).
Proof.
  cbv zeta. unfold s_reveal.
  destruct (len v =? 0) eqn:E0; [apply N.eqb_eq in E0|apply N.eqb_neq in E0].
  { repeat split; intros; try reflexivity; lia. }
  destruct (negb (len v mod 16 =? 0)) eqn:EM;
    [apply negb_true_iff, N.eqb_neq in EM|apply negb_false_iff, N.eqb_eq in EM].
  { repeat split; intros; try reflexivity; lia. }
  cbv zeta. set (L := fld 2 0 (s_decrypt H t secret rv v)) in *.
  destruct ((L <? 6) || (1023 <? L)) eqn:G.
  { apply orb_true_iff in G. rewrite !N.ltb_lt in G. repeat split; intros; try reflexivity; lia. }
  apply orb_false_iff in G. destruct G as [G1 G2]. apply N.ltb_ge in G1, G2.
  destruct (len (s_decrypt H t secret rv v) - 2 <? L - 6) eqn:G3;
    [apply N.ltb_lt in G3|apply N.ltb_ge in G3];
    repeat split; intros; try reflexivity; lia.
Qed.

(** * C11: decrypting what was encrypted *)
Lemma dec_enc_chain secret n : forall prev plain, len plain = 16 * N.of_nat n ->
  dec_chain H n secret prev (enc_chain H n secret prev plain) = plain.
Proof.
  induction n as [|n IH]; intros prev plain L.
  - cbn [enc_chain dec_chain]. symmetry. apply len_0_nil. lia.
  - cbn [enc_chain dec_chain].
    set (c := xor_list (takeN 16 plain) (H (secret ++ prev))).
    assert (Lc : len c = 16) by (apply len_block_xor; lia).
    rewrite (takeN_app_exact c) by exact Lc. rewrite (dropN_app_exact c) by exact Lc.
    unfold c at 1. rewrite xor_list_involutive by (rewrite len_takeN, H_len; lia).
    rewrite IH by (rewrite len_dropN; lia). apply takeN_dropN.
Qed.

Lemma len_enc_chain secret n : forall prev plain, 16 * N.of_nat n <= len plain ->
  len (enc_chain H n secret prev plain) = 16 * N.of_nat n.
Proof.
  induction n as [|n IH]; intros prev plain L; [reflexivity|].
  cbn [enc_chain]. rewrite len_app, len_block_xor by lia.
  rewrite IH by (rewrite len_dropN; lia). lia.
Qed.

Lemma len_encrypt t secret rv plain : len plain mod 16 = 0 -> 16 <= len plain ->
  len (s_encrypt H t secret rv plain) = len plain.
Proof.
  intros M L. pose proof (N.div_mod (len plain) 16 ltac:(lia)) as DM. rewrite M, N.add_0_r in DM.
  unfold s_encrypt. set (q := len plain / 16) in *.
  rewrite len_app, len_block_xor by lia.
  rewrite len_enc_chain by (rewrite len_dropN; lia). lia.
Qed.

Theorem decrypt_encrypt t secret rv plain : len plain mod 16 = 0 -> 16 <= len plain ->
  s_decrypt H t secret rv (s_encrypt H t secret rv plain) = plain.
Proof.
  intros M L. unfold s_decrypt. rewrite (len_encrypt t secret rv plain M L).
  pose proof (N.div_mod (len plain) 16 ltac:(lia)) as DM. rewrite M, N.add_0_r in DM.
  unfold s_encrypt. set (q := len plain / 16) in *.
  set (c1 := xor_list (takeN 16 plain) (H (be16 t ++ secret ++ rv))).
  assert (Lc : len c1 = 16) by (apply len_block_xor; lia).
  rewrite (takeN_app_exact c1) by exact Lc. rewrite (dropN_app_exact c1) by exact Lc.
  unfold c1 at 1. rewrite xor_list_involutive by (rewrite len_takeN, H_len; lia).
  rewrite dec_enc_chain by (rewrite len_dropN; lia). apply takeN_dropN.
Qed.

Theorem reveal_hide_value t payload secret rv lp ap :
  6 + len payload <= 1023 -> 15 <= len ap ->
  s_reveal H t (s_hide_value H t payload secret rv lp ap) secret rv = s_payload t payload.
Proof.
  intros F La. unfold s_reveal, s_hide_value.
  destruct (hide_plain_len payload lp ap La) as [PM PL].
  rewrite (len_encrypt t secret rv _ PM PL).
  replace (len (hide_plain payload lp ap) =? 0) with false by (symmetry; apply N.eqb_neq; lia).
  rewrite PM. change (negb (0 =? 0)) with false. cbv iota.
  rewrite (decrypt_encrypt t secret rv _ PM PL). cbv zeta.
  assert (F0 : fld 2 0 (hide_plain payload lp ap) = 6 + len payload).
  { unfold hide_plain. rewrite <- !app_assoc. apply fld2_be16. lia. }
  rewrite F0.
  replace ((6 + len payload <? 6) || (1023 <? 6 + len payload)) with false
    by (symmetry; apply orb_false_iff; split; apply N.ltb_ge; lia).
  assert (LP : 2 + len payload <= len (hide_plain payload lp ap)).
  { unfold hide_plain. rewrite !len_app, len_be16. lia. }
  replace (len (hide_plain payload lp ap) - 2 <? 6 + len payload - 6) with false
    by (symmetry; apply N.ltb_ge; lia).
  f_equal. replace (6 + len payload - 6) with (len payload) by lia.
  unfold octs, hide_plain. rewrite <- !app_assoc.
  change 2 with (len (be16 (6 + len payload))). rewrite dropN_app. apply takeN_app.
Qed.

Theorem hide_then_reveal a secret rv lp ap :
  wf_avp a = true -> is_hidden a = false -> len ap = 16 ->
  exists h, m_hide H a secret rv lp ap = Val h /\ m_reveal H h secret rv = Val (Ok a).
Proof.
  intros W NH La. eexists. split.
  - apply hide_refines; [exact NH | apply wf_fits, W | apply attr_type_lt, W | exact La].
  - rewrite reveal_refines, reveal_hide_value.
    + f_equal. apply payload_roundtrip; assumption.
    + pose proof (wf_fits a W) as F. unfold avp_fits, avp_total in F. apply N.leb_le in F. exact F.
    + lia.
Qed.

(** hiding loses nothing: under one secret and random vector two different well-formed AVPs never
    hide to the same value, whatever length padding and alignment padding each was given *)
Corollary hide_injective a b secret rv lp ap lp' ap' :
  wf_avp a = true -> is_hidden a = false -> len ap = 16 ->
  wf_avp b = true -> is_hidden b = false -> len ap' = 16 ->
  m_hide H a secret rv lp ap = m_hide H b secret rv lp' ap' -> a = b.
Proof.
  intros Wa Ha La Wb Hb Lb E.
  destruct (hide_then_reveal a secret rv lp ap Wa Ha La) as [h [E1 R1]].
  destruct (hide_then_reveal b secret rv lp' ap' Wb Hb Lb) as [h' [E2 R2]].
  rewrite E1, E2 in E. injection E as ->. rewrite R1 in R2. now injection R2.
Qed.

(** unused alignment padding is inert *)
Theorem padding_inert t payload secret rv lp ap ap' :
  let k := (16 - (2 + len payload + len lp) mod 16) mod 16 in
  takeN k ap = takeN k ap' ->
  s_hide_value H t payload secret rv lp ap = s_hide_value H t payload secret rv lp ap'.
Proof.
  cbv zeta. intros E. unfold s_hide_value, hide_plain.
  rewrite !len_app, len_be16.
  replace (2 + (len payload + len lp)) with (2 + len payload + len lp) by lia.
  rewrite E. reflexivity.
Qed.

Theorem hide_value_length t payload secret rv lp ap : 15 <= len ap ->
  len (s_hide_value H t payload secret rv lp ap) = 16 * ((2 + len payload + len lp + 15) / 16).
Proof.
  intros La. destruct (hide_plain_len payload lp ap La) as [PM PL].
  unfold s_hide_value. rewrite (len_encrypt t secret rv _ PM PL).
  unfold hide_plain in *. set (p0 := be16 (6 + len payload) ++ payload ++ lp) in *.
  assert (L0 : len p0 = 2 + len payload + len lp) by (unfold p0; rewrite !len_app, len_be16; lia).
  rewrite len_app, len_takeN in *.
  assert (K : (16 - len p0 mod 16) mod 16 <= 15) by (apply N.lt_succ_r, N.mod_lt; lia).
  replace (N.min ((16 - len p0 mod 16) mod 16) (len ap)) with ((16 - len p0 mod 16) mod 16) in * by lia.
  rewrite <- L0.
  pose proof (N.div_mod (len p0) 16 ltac:(lia)) as DM.
  pose proof (N.mod_lt (len p0) 16 ltac:(lia)) as ML.
  set (r := len p0 mod 16) in *. set (q := len p0 / 16) in *.
  destruct (N.eq_dec r 0) as [R0|R0].
  - rewrite R0 in *. change ((16 - 0) mod 16) with 0.
    replace (len p0 + 15) with (15 + q * 16) by lia. rewrite N.div_add by lia.
    change (15 / 16) with 0. lia.
  - rewrite (N.mod_small (16 - r) 16) by lia.
    replace (len p0 + 15) with ((r - 1) + (q + 1) * 16) by lia. rewrite N.div_add by lia.
    rewrite (N.div_small (r - 1) 16) by lia. lia.
Qed.

(** hide() asserts that the original AVP fits its length field (C07) *)
Theorem hide_oversize a secret rv lp ap : is_hidden a = false -> 1023 < avp_total a ->
  m_hide H a secret rv lp ap = Panic PkAssert.
Proof.
  intros NH O. unfold avp_total in O.
  rewrite (m_hide_nonhidden a secret rv lp ap NH). cbv zeta.
  rewrite wr_payload_spec; unfold mkw, w_len, writer_of; cbn [w_data w_log app].
  rewrite len_app, len_be16.
  replace (2 + len (s_value a) <? 2) with false by (symmetry; apply N.ltb_ge; lia).
  replace (1023 <? 2 + len (s_value a) + 6 - 2) with true by (symmetry; apply N.ltb_lt; lia).
  reflexivity.
Qed.

(** * the wire form of a hidden AVP *)
Hypothesis H_ok : forall x, bytes_ok (H x) = true.

Lemma lxor_byte x y : x < 256 -> y < 256 -> N.lxor x y < 256.
Proof.
  intros Hx Hy.
  assert (E : forallb (fun x => forallb (fun y => N.lxor x y <? 256) (upto 256)) (upto 256) = true)
    by (vm_compute; reflexivity).
  pose proof (forall_upto _ _ E x Hx) as E1. cbv beta in E1.
  pose proof (forall_upto _ _ E1 y Hy) as E2. cbv beta in E2. apply N.ltb_lt in E2. exact E2.
Qed.

Lemma bytes_ok_xor a : forall b, bytes_ok a = true -> bytes_ok b = true -> bytes_ok (xor_list a b) = true.
Proof.
  induction a as [|x a IH]; intros [|y b] Ba Bb; cbn [xor_list]; try reflexivity.
  cbn [bytes_ok forallb] in *. apply andb_prop in Ba, Bb. destruct Ba as [Bx Ba], Bb as [By Bb].
  unfold byte_ok in *. apply N.ltb_lt in Bx, By.
  apply andb_true_iff. split; [apply N.ltb_lt, lxor_byte; assumption | apply IH; assumption].
Qed.

Lemma bytes_ok_enc_chain secret n : forall prev plain, bytes_ok plain = true ->
  bytes_ok (enc_chain H n secret prev plain) = true.
Proof.
  induction n as [|n IH]; intros prev plain B; [reflexivity|].
  cbn [enc_chain]. rewrite bytes_ok_app, bytes_ok_xor, IH; auto using bytes_ok_takeN, bytes_ok_dropN.
Qed.

Lemma bytes_ok_hide_value t payload secret rv lp ap :
  bytes_ok payload = true -> bytes_ok lp = true -> bytes_ok ap = true ->
  bytes_ok (s_hide_value H t payload secret rv lp ap) = true.
Proof.
  intros Bp Bl Ba. unfold s_hide_value, s_encrypt.
  assert (B : bytes_ok (hide_plain payload lp ap) = true).
  { unfold hide_plain. rewrite !bytes_ok_app, bytes_ok_be16, Bp, Bl, (bytes_ok_takeN _ ap Ba). reflexivity. }
  rewrite bytes_ok_app, bytes_ok_xor, bytes_ok_enc_chain; auto using bytes_ok_takeN, bytes_ok_dropN.
Qed.

Theorem hide_wire a secret rv lp ap :
  wf_avp a = true -> is_hidden a = false -> len ap = 16 -> bytes_ok lp = true -> bytes_ok ap = true ->
  2 + len (s_value a) + len lp <= 1008 ->
  exists h b, m_hide H a secret rv lp ap = Val h /\ m_enc_avp h [] = Val b /\
              m_avps b = Val ([Ok h], []) /\ m_reveal H h secret rv = Val (Ok a).
Proof.
  intros W NH La Bl Ba Sz.
  destruct (hide_then_reveal a secret rv lp ap W NH La) as [h [Hh Hr]].
  pose proof (hide_refines a secret rv lp ap NH (wf_fits a W) (attr_type_lt a W) La) as Hh'.
  rewrite Hh' in Hh. inversion Hh; subst h. clear Hh.
  set (hv := s_hide_value H (attr_type a) (s_value a) secret rv lp ap) in *.
  assert (Wh : wf_avp (AHidden (attr_type a) hv) = true).
  { unfold wf_avp. apply andb_true_iff. split.
    - unfold avp_fits, avp_total. cbn [s_value]. apply N.leb_le.
      unfold hv. rewrite hide_value_length by lia.
      assert ((2 + len (s_value a) + len lp + 15) / 16 <= 63).
      { apply N.lt_succ_r. apply N.div_lt_upper_bound; lia. }
      lia.
    - apply andb_true_iff. split; [apply N.ltb_lt, attr_type_lt, W|].
      apply bytes_ok_hide_value; [apply bytes_ok_value, W | exact Bl | exact Ba]. }
  destruct (avp_roundtrip _ Wh) as [b [Eb [_ Db]]].
  exists (AHidden (attr_type a) hv), b. repeat split; assumption.
Qed.
End Hiding.
