(** Rendering of decode errors (C20): total, non-empty, and the name shown for an
    attribute number is the name of the AVP kind the dispatch table decodes that
    number to (the number itself when unassigned). *)
From Coq Require Import Lia String.
From RL Require Import Model.Decode Model.Render Spec.SpecDecode Proofs.ReaderLemmas
  Proofs.BytesLemmas Proofs.Enums.

(** a representative AVP of each payload format *)
Definition shape_repr (sh : shape) : avp :=
  match sh with
  | ShMsgType => AMessageType Hello | ShResultCode => AResultCode 0 None
  | ShProtoVer => AProtocolVersion 0 0 | Sh32 k => A32 k 0 | ShTie => ATieBreaker 0
  | Sh16 k => A16 k 0 | ShBytes k => ABytes k [] | ShStr k => AStr k [] | ShFix k => AFix k []
  | ShQ931 => AQ931CauseCode 0 0 None | ShPaType => AProxyAuthenType PaReserved
  | ShPaId => AProxyAuthenId 0 | ShCallErrors => ACallErrors 0 0 0 0 0 0
  | ShAccm => AAccm [] [] | ShSeqReq => ASequencingRequired
  end.

Definition name_of_type (t : N) : string :=
  match shape_of t with
  | Some sh => kind_name (shape_repr sh)
  | None => dec t
  end.

Lemma avp_name_large t : 64 <= t -> avp_name t = dec t.
Proof. intros H. big_numeral t. Qed.

Theorem name_matches_dispatch t : avp_name t = name_of_type t.
Proof.
  destruct (N.lt_ge_cases t 64) as [Hs|Hl].
  - assert (E : forallb (fun t => String.eqb (avp_name t) (name_of_type t)) (upto 64) = true)
      by (vm_compute; reflexivity).
    pose proof (forall_upto _ _ E t Hs) as E1. cbv beta in E1. apply String.eqb_eq in E1. exact E1.
  - rewrite (avp_name_large t Hl). unfold name_of_type. rewrite (shape_large t Hl). reflexivity.
Qed.

(** the kind name does not depend on the value carried *)
Lemma kind_name_decoded t p a : s_payload t p = Ok a -> kind_name a = name_of_type t.
Proof.
  unfold s_payload, name_of_type. destruct (shape_of t) as [sh|]; [|discriminate].
  destruct sh as [| | |k| |k|k|k|k| | | | | | ]; cbn [s_shape shape_repr]; unfold s_text;
    repeat match goal with
           | |- (if ?c then _ else _) = _ -> _ => destruct c
           | |- match ?x with Some _ => _ | None => _ end = _ -> _ => destruct x
           end; intros H; inversion H; subst; try reflexivity; destruct k; reflexivity.
Qed.

Theorem render_nonempty e : render e <> EmptyString.
Proof. destruct e; cbn [render append]; discriminate. Qed.

(** the rendered text of the three AVP-carrying variants shows exactly that name *)
Theorem render_shows_name t :
  render (IncompleteAVP t) = ("Incomplete AVP (" ++ name_of_type t ++ ")")%string /\
  render (InvalidUtf8 t) = ("AVP (" ++ name_of_type t ++ ") with invalid UTF-8 string payload")%string /\
  render (AVPReadError t) = ("Read error when parsing AVP (" ++ name_of_type t ++ ")")%string.
Proof. cbn [render]. rewrite name_matches_dispatch. repeat split. Qed.
