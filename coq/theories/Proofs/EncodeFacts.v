(** Consequences of the encoder refinement: octet-level statements (C06), exact
    length fields (C07), append-only encoding and in-range overwrites (C09). *)
From Coq Require Import Lia ZArith Zify.
From RL Require Import Model.Encode Spec.SpecEncode Spec.SpecDecode Proofs.ReaderLemmas
  Proofs.BytesLemmas Proofs.RefineEncode.
Ltac Zify.zify_post_hook ::= Z.div_mod_to_equations.

(** * C06 at the level of octet lists *)
Theorem encode_octets v p :
  m_encode v p = if encodable v then Val (p ++ s_encode v) else Panic PkAssert.
Proof.
  unfold m_encode. rewrite encode_refines. destruct (encodable v); reflexivity.
Qed.
Theorem enc_avp_octets a p :
  m_enc_avp a p = if avp_fits a then Val (p ++ s_enc_avp a) else Panic PkAssert.
Proof.
  unfold m_enc_avp. rewrite enc_avp_refines. destruct (avp_fits a); reflexivity.
Qed.

(** * C07: get_length, exact length fields *)
Lemma kfix_len_pos k : kfix_len k = match k with RandomVector => 4 | ChallengeResponse => 16 | PhysicalChannelId => 4 end.
Proof. destruct k; reflexivity. Qed.

(** get_length mirrors the writer for every value whose fixed-size arrays have
    their declared size (the Rust types force this: [u8; 4] / [u8; 16]) *)
Definition arrays_ok (a : avp) : bool :=
  match a with
  | AFix k v => len v =? kfix_len k
  | AAccm s r => (len s =? 4) && (len r =? 4)
  | _ => true
  end.

Lemma get_length_spec a : arrays_ok a = true -> m_get_length a = len (s_value a).
Proof.
  intros W.
  destruct a as [t|code [[et [m|]]|]|v r|k v|v|k v|k v|k v|k v|cc cm [s|]|t|v|c1 c2 c3 c4 c5 c6|s r| |t v];
    cbn [m_get_length s_value opt_octets arrays_ok] in *;
    rewrite ?len_app, ?len_be16, ?len_be32, ?len_be64, ?len_cons, ?len_nil; try reflexivity;
    try (apply andb_prop in W; destruct W as [W1 W2]; apply N.eqb_eq in W1, W2);
    try (apply N.eqb_eq in W); lia.
Qed.

Theorem get_length_exact a : arrays_ok a = true -> len (s_enc_avp a) = 6 + m_get_length a.
Proof. intros W. rewrite len_s_enc_avp, get_length_spec by exact W. reflexivity. Qed.

(** an independent walker over emitted octets: Length = |message|, then records
    of the size each header announces tiling the body exactly *)
Fixpoint walk_avps (n : nat) (body : list N) : bool :=
  match n with
  | O => false
  | S n' =>
    match body with
    | [] => true
    | _ =>
      (6 <=? rec_length body) && (rec_length body <=? len body)
      && walk_avps n' (dropN (rec_length body) body)
    end
  end.
Definition walk_ok (b : list N) : bool :=
  (12 <=? len b) && (fld 2 2 b =? len b) && walk_avps (S (length b)) (dropN 12 b).

Lemma be_val_be16 x : x < 65536 -> be_val 0 (be16 x) = x.
Proof.
  intros H. unfold be16. cbn [be_val].
  assert (x / 256 < 256) by (apply N.div_lt_upper_bound; lia).
  rewrite (N.mod_small (x / 256) 256) by assumption.
  pose proof (N.div_mod x 256 ltac:(lia)). lia.
Qed.

Lemma fld2_app_be16 (pre : list N) x rest : x < 65536 -> fld 2 (len pre) (pre ++ be16 x ++ rest) = x.
Proof.
  intros H. unfold fld, octs. rewrite dropN_app.
  change (takeN 2 (be16 x ++ rest)) with (be16 x). apply be_val_be16, H.
Qed.

Lemma length_bits_roundtrip l f : l < 1024 -> f < 4 ->
  256 * ((256 * 0 + (64 * (l / 256) + f)) / 64) + (256 * 0 + l mod 256) = l.
Proof.
  intros Hl Hf.
  assert (E : forallb (fun l => forallb (fun f =>
     256 * ((256 * 0 + (64 * (l / 256) + f)) / 64) + (256 * 0 + l mod 256) =? l) (upto 4)) (upto 1024) = true)
    by (vm_compute; reflexivity).
  pose proof (forall_upto _ _ E l Hl) as E1. cbv beta in E1.
  pose proof (forall_upto _ _ E1 f Hf) as E2. cbv beta in E2. apply N.eqb_eq in E2. exact E2.
Qed.

Lemma rec_length_enc a rest : avp_fits a = true -> rec_length (s_enc_avp a ++ rest) = avp_total a.
Proof.
  intros F. unfold avp_fits in F. apply N.leb_le in F.
  unfold rec_length, fld, octs, s_enc_avp. cbn [app]. rewrite dropN_0.
  change (takeN 1 (?a :: _)) with [a].
  match goal with |- context [dropN 1 (?x :: ?y :: ?r)] => change (dropN 1 (x :: y :: r)) with (y :: r) end.
  match goal with |- context [takeN 1 (?y :: ?r)] => change (takeN 1 (y :: r)) with [y] end.
  cbn [be_val]. destruct (is_hidden a); apply length_bits_roundtrip; lia.
Qed.

Lemma walk_avps_enc l : forall n rest, forallb avp_fits l = true ->
  (length l < n)%nat ->
  walk_avps n (s_enc_avps l ++ rest) = walk_avps (n - length l) rest.
Proof.
  induction l as [|a t IH]; intros n rest F Hn.
  - cbn [s_enc_avps map concat app length]. rewrite Nat.sub_0_r. reflexivity.
  - cbn [forallb] in F. apply andb_prop in F. destruct F as [Fa Ft].
    destruct n as [|n]; [cbn in Hn; lia|].
    cbn [s_enc_avps map concat]. fold (s_enc_avps t). rewrite <- app_assoc.
    cbn [walk_avps]. rewrite rec_length_enc by exact Fa.
    destruct (s_enc_avp a ++ s_enc_avps t ++ rest) eqn:E.
    { exfalso. assert (len (s_enc_avp a ++ s_enc_avps t ++ rest) = 0) by (rewrite E; reflexivity).
      rewrite len_app, len_s_enc_avp in H. unfold avp_total in H. lia. }
    rewrite <- E.
    replace (6 <=? avp_total a) with true by (symmetry; apply N.leb_le; unfold avp_total; lia).
    replace (avp_total a <=? len (s_enc_avp a ++ s_enc_avps t ++ rest)) with true
      by (symmetry; apply N.leb_le; rewrite len_app, len_s_enc_avp; lia).
    cbn [andb]. rewrite <- (len_s_enc_avp a), dropN_app.
    rewrite IH by (try exact Ft; cbn [length] in Hn; lia). reflexivity.
Qed.

Theorem encoded_ctrl_walks m : encodable (Control m) = true -> walk_ok (s_enc_ctrl m) = true.
Proof.
  intros E. cbn [encodable] in E. apply andb_prop in E. destruct E as [Fa Ft]. apply N.leb_le in Ft.
  unfold walk_ok.
  assert (L : len (s_enc_ctrl m) = ctrl_total m).
  { unfold s_enc_ctrl, ctrl_total. rewrite !len_app, !len_be16. lia. }
  rewrite L.
  replace (12 <=? ctrl_total m) with true by (symmetry; apply N.leb_le; unfold ctrl_total; lia).
  assert (F : fld 2 2 (s_enc_ctrl m) = ctrl_total m).
  { unfold s_enc_ctrl. change 2 with (len (be16 (s_flags true true true false false 2))) at 2.
    apply fld2_app_be16. lia. }
  rewrite F, N.eqb_refl. cbn [andb].
  assert (D : dropN 12 (s_enc_ctrl m) = s_enc_avps (c_avps m)).
  { unfold s_enc_ctrl. rewrite !app_assoc.
    match goal with |- dropN 12 (?p ++ _) = _ => change 12 with (len p) end.
    apply dropN_app. }
  rewrite D. rewrite <- (app_nil_r (s_enc_avps (c_avps m))).
  rewrite walk_avps_enc.
  - destruct (S (length (s_enc_ctrl m)) - length (c_avps m))%nat eqn:X; [|reflexivity].
    exfalso.
    assert (length (c_avps m) <= length (s_enc_avps (c_avps m)))%nat.
    { clear. induction (c_avps m) as [|a t IH]; [cbn; lia|].
      cbn [s_enc_avps map concat length]. fold (s_enc_avps t). rewrite app_length.
      unfold s_enc_avp at 1. rewrite app_length. cbn [length]. lia. }
    assert (length (s_enc_avps (c_avps m)) <= length (s_enc_ctrl m))%nat.
    { unfold s_enc_ctrl. rewrite !app_length. lia. }
    lia.
  - exact Fa.
  - assert (length (c_avps m) <= length (s_enc_avps (c_avps m)))%nat.
    { clear. induction (c_avps m) as [|a t IH]; [cbn; lia|].
      cbn [s_enc_avps map concat length]. fold (s_enc_avps t). rewrite app_length.
      unfold s_enc_avp at 1. rewrite app_length. cbn [length]. lia. }
    assert (length (s_enc_avps (c_avps m)) <= length (s_enc_ctrl m))%nat.
    { unfold s_enc_ctrl. rewrite !app_length. lia. }
    lia.
Qed.

Theorem lengths_exact v p out : m_encode v p = Val out ->
  exists body, out = p ++ body /\ body = s_encode v /\
               match v with Control m => walk_ok body = true | Data _ => True end.
Proof.
  rewrite encode_octets. destruct (encodable v) eqn:E; [|discriminate].
  intros H. inversion H; subst. exists (s_encode v). repeat split.
  destruct v as [m|d]; [apply encoded_ctrl_walks, E|exact I].
Qed.

Theorem oversize_avp a p : 1023 < avp_total a -> m_enc_avp a p = Panic PkAssert.
Proof.
  intros H. rewrite enc_avp_octets. unfold avp_fits.
  replace (avp_total a <=? 1023) with false by (symmetry; apply N.leb_gt; lia). reflexivity.
Qed.
Theorem oversize_msg m p : forallb avp_fits (c_avps m) = false \/ 65535 < ctrl_total m ->
  m_encode (Control m) p = Panic PkAssert.
Proof.
  intros H. rewrite encode_octets. cbn [encodable].
  destruct H as [H|H]; [rewrite H; reflexivity|].
  replace (ctrl_total m <=? 65535) with false by (symmetry; apply N.leb_gt; lia).
  rewrite andb_false_r. reflexivity.
Qed.

(** * C09: append only; sequences; overwrites inside the value being encoded *)
Theorem prefix_independent v p :
  m_encode v p = omap (app p) (m_encode v []).
Proof. rewrite !encode_octets. destruct (encodable v); reflexivity. Qed.

Fixpoint msgs_log (start : N) (vs : list message) : list (N * N * N) :=
  match vs with
  | [] => []
  | v :: t => msg_log start v ++ msgs_log (start + len (s_encode v)) t
  end.

Theorem encode_sequence vs : forall w, forallb encodable vs = true ->
  m_encode_all_w vs w = Val (mkw (w_data w ++ concat (map s_encode vs)) (w_log w ++ msgs_log (w_len w) vs)).
Proof.
  induction vs as [|v t IH]; intros w E; cbn [m_encode_all_w map concat msgs_log].
  - rewrite !app_nil_r, <- writer_eta. reflexivity.
  - cbn [forallb] in E. apply andb_prop in E. destruct E as [Ev Et].
    rewrite encode_refines, Ev. cbn [obind]. rewrite IH by exact Et.
    unfold mkw, w_len. cbn [w_data w_log]. rewrite <- !app_assoc, len_app. reflexivity.
Qed.

Definition entry_inside (lo hi : N) (e : N * N * N) : Prop :=
  let '(off, n, tot) := e in lo <= off /\ off + n <= tot /\ tot <= hi.

Lemma avps_log_inside l : forall start,
  Forall (entry_inside start (start + len (s_enc_avps l))) (avps_log start l).
Proof.
  induction l as [|a t IH]; intros start; cbn [avps_log]; [constructor|].
  cbn [s_enc_avps map concat]. fold (s_enc_avps t). rewrite len_app, len_s_enc_avp.
  constructor.
  - unfold avp_log_entry, entry_inside, avp_total. lia.
  - specialize (IH (start + avp_total a)).
    eapply Forall_impl; [|exact IH]. intros [[off n] tot]. unfold entry_inside. lia.
Qed.

Theorem msg_log_inside v start :
  Forall (entry_inside start (start + len (s_encode v))) (msg_log start v).
Proof.
  destruct v as [m|d]; cbn [msg_log s_encode]; [|constructor].
  unfold ctrl_log. apply Forall_app. split.
  - pose proof (avps_log_inside (c_avps m) (start + 12)) as H.
    eapply Forall_impl; [|exact H]. intros [[off n] tot]. unfold entry_inside.
    assert (len (s_enc_ctrl m) = 12 + len (s_enc_avps (c_avps m)))
      by (unfold s_enc_ctrl; rewrite !len_app, !len_be16; lia).
    lia.
  - constructor; [|constructor]. unfold entry_inside.
    assert (len (s_enc_ctrl m) = ctrl_total m)
      by (unfold s_enc_ctrl, ctrl_total; rewrite !len_app, !len_be16; lia).
    unfold ctrl_total in *. lia.
Qed.

Theorem overwrites_inside v p w' : m_encode_w v (writer_of p) = Val w' ->
  w_data w' = p ++ s_encode v /\
  Forall (entry_inside (len p) (len (w_data w'))) (w_log w').
Proof.
  rewrite encode_refines. destruct (encodable v); [|discriminate].
  intros H. inversion H; subst. cbn [mkw w_data w_log writer_of app w_len].
  split; [reflexivity|]. rewrite len_app. apply msg_log_inside.
Qed.

(** * the AVP header the specification encoder emits *)
Lemma header_octet_bits l h : l < 1024 -> h < 2 ->
  let o := 64 * (l / 256) + (2 * h + 1) in
  N.testbit o 0 = true /\ N.testbit o 1 = (h =? 1) /\
  N.testbit o 2 = false /\ N.testbit o 3 = false /\ N.testbit o 4 = false /\ N.testbit o 5 = false /\
  o / 64 = l / 256 /\ o < 256.
Proof.
  intros Hl Hh.
  assert (E : forallb (fun l => forallb (fun h =>
     let o := 64 * (l / 256) + (2 * h + 1) in
     N.testbit o 0 && Bool.eqb (N.testbit o 1) (h =? 1) && negb (N.testbit o 2) && negb (N.testbit o 3)
     && negb (N.testbit o 4) && negb (N.testbit o 5) && (o / 64 =? l / 256) && (o <? 256))
     (upto 2)) (upto 1024) = true) by (vm_compute; reflexivity).
  pose proof (forall_upto _ _ E l Hl) as E1. cbv beta in E1.
  pose proof (forall_upto _ _ E1 h Hh) as E2. cbv beta zeta in E2.
  repeat (apply andb_prop in E2; destruct E2 as [E2 ?]).
  repeat split; try assumption;
    try (apply negb_true_iff; assumption);
    try (apply Bool.eqb_prop; assumption);
    try (apply N.eqb_eq; assumption); try (apply N.ltb_lt; assumption).
Qed.

Theorem enc_avp_header a : avp_fits a = true ->
  exists o1 rest, s_enc_avp a = o1 :: (avp_total a mod 256) :: 0 :: 0 :: rest /\
    rest = be16 (attr_type a) ++ s_value a /\
    N.testbit o1 0 = true /\                       (* M bit set *)
    N.testbit o1 1 = is_hidden a /\                (* H bit only on hidden AVPs *)
    N.testbit o1 2 = false /\ N.testbit o1 3 = false /\ N.testbit o1 4 = false /\ N.testbit o1 5 = false /\
    256 * (o1 / 64) + avp_total a mod 256 = avp_total a.   (* the 10-bit length *)
Proof.
  intros F. unfold avp_fits in F. apply N.leb_le in F.
  eexists. eexists. split; [reflexivity|]. split; [reflexivity|].
  destruct (is_hidden a).
  - destruct (header_octet_bits (avp_total a) 1 ltac:(lia) ltac:(lia)) as (B0 & B1 & B2 & B3 & B4 & B5 & D & _).
    change (2 * 1 + 1) with 3 in *. repeat split; try assumption.
    rewrite D. pose proof (N.div_mod (avp_total a) 256 ltac:(lia)). lia.
  - destruct (header_octet_bits (avp_total a) 0 ltac:(lia) ltac:(lia)) as (B0 & B1 & B2 & B3 & B4 & B5 & D & _).
    change (2 * 0 + 1) with 1 in *. repeat split; try assumption.
    rewrite D. pose proof (N.div_mod (avp_total a) 256 ltac:(lia)). lia.
Qed.
