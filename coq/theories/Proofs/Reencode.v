(** Every value the decoder returns is in the encoder's domain, and re-encoding
    it is a fixed point after one round (C10), on the Spec. *)
From Coq Require Import Lia.
From RL Require Import Model.Decode Spec.SpecDecode Spec.SpecEncode Proofs.ReaderLemmas Proofs.BytesLemmas
  Proofs.RefineAvp Proofs.RefineEncode Proofs.EncodeFacts Proofs.Framing Proofs.RoundTrip Proofs.DataRoundTrip.

Lemma fld_lt k off l : bytes_ok l = true -> fld k off l < 256 ^ k.
Proof.
  intros B. unfold fld. pose proof (be_val_bound (octs k off l) 0 (bytes_ok_octs _ _ _ B)) as H.
  assert (len (octs k off l) <= k) by (unfold octs; rewrite len_takeN; lia).
  assert (256 ^ len (octs k off l) <= 256 ^ k) by (apply N.pow_le_mono_r; lia). lia.
Qed.

Lemma len_octs_le k off l : off + k <= len l -> len (octs k off l) = k.
Proof. intros H. unfold octs. rewrite len_takeN, len_dropN. lia. Qed.

Lemma s_text_inv t p mk a : s_text t p mk = Ok a -> utf8_valid p = true /\ a = mk p.
Proof. unfold s_text. destruct (utf8_valid p); intros H; inversion H; auto. Qed.

Lemma text_ok_intro s : len s <> 0 -> utf8_valid s = true -> bytes_ok s = true -> text_ok s = true.
Proof.
  intros N U B. unfold text_ok. rewrite U, B. replace (len s =? 0) with false by (symmetry; apply N.eqb_neq; exact N).
  reflexivity.
Qed.

(** what a payload decoder returns is well-formed and re-encodes to at most the octets it was read from *)
Theorem decoded_avp_wf t p a : bytes_ok p = true -> len p <= 1017 -> s_payload t p = Ok a ->
  wf_avp a = true /\ len (s_value a) <= len p.
Proof.
  intros B L. unfold s_payload. destruct (shape_of t) as [sh|]; [|discriminate].
  assert (U16 : forall off, fld 2 off p < 65536) by (intros; apply (fld_lt 2), B).
  assert (U8 : forall off, fld 1 off p < 256) by (intros; apply (fld_lt 1), B).
  assert (U32 : forall off, fld 4 off p < 4294967296) by (intros; apply (fld_lt 4), B).
  assert (U64 : forall off, fld 8 off p < 18446744073709551616) by (intros; apply (fld_lt 8), B).
  assert (FIT : forall x, len (s_value x) <= len p -> avp_fits x = true)
    by (intros x Hx; unfold avp_fits, avp_total; apply N.leb_le; lia).
  destruct sh as [| | |k| |k|k|k|k| | | | | | ]; cbn [s_shape].
  - destruct (len p <? 2) eqn:G; [discriminate|]. apply N.ltb_ge in G.
    destruct (mt_of_code _); intros E; inversion E; subst.
    assert (V : len (s_value (AMessageType m)) <= len p) by (cbn [s_value]; rewrite len_be16; lia).
    split; [|exact V]. unfold wf_avp. rewrite (FIT _ V). reflexivity.
  - destruct (len p <? 2) eqn:G; [discriminate|]. apply N.ltb_ge in G.
    destruct (len p <? 4) eqn:G4.
    + intros E; inversion E; subst. apply N.ltb_lt in G4.
      assert (V : len (s_value (AResultCode (fld 2 0 p) None)) <= len p)
        by (cbn [s_value]; rewrite app_nil_r, len_be16; lia).
      split; [|exact V]. unfold wf_avp. rewrite (FIT _ V). unfold u16.
      replace (fld 2 0 p <? 65536) with true by (symmetry; apply N.ltb_lt, U16). reflexivity.
    + apply N.ltb_ge in G4. destruct (et_of_code _) as [et|]; [|discriminate].
      destruct (len p =? 4) eqn:G5.
      * intros E; inversion E; subst. apply N.eqb_eq in G5.
        assert (V : len (s_value (AResultCode (fld 2 0 p) (Some (et, None)))) <= len p)
          by (cbn [s_value opt_octets]; rewrite !len_app, !len_be16, len_nil; lia).
        split; [|exact V]. unfold wf_avp. rewrite (FIT _ V). unfold u16.
        replace (fld 2 0 p <? 65536) with true by (symmetry; apply N.ltb_lt, U16). reflexivity.
      * apply N.eqb_neq in G5. intros E. apply s_text_inv in E. destruct E as [Uv ->].
        assert (V : len (s_value (AResultCode (fld 2 0 p) (Some (et, Some (dropN 4 p))))) <= len p)
          by (cbn [s_value opt_octets]; rewrite !len_app, !len_be16, len_dropN; lia).
        split; [|exact V]. unfold wf_avp. rewrite (FIT _ V). unfold u16.
        replace (fld 2 0 p <? 65536) with true by (symmetry; apply N.ltb_lt, U16).
        rewrite text_ok_intro; [reflexivity | rewrite len_dropN; lia | exact Uv | apply bytes_ok_dropN, B].
  - destruct (len p <? 2) eqn:G; [discriminate|]. apply N.ltb_ge in G. intros E; inversion E; subst.
    assert (V : len (s_value (AProtocolVersion (fld 1 0 p) (fld 1 1 p))) <= len p)
      by (cbn [s_value]; rewrite !len_cons, len_nil; lia).
    split; [|exact V]. unfold wf_avp. rewrite (FIT _ V). unfold u8.
    replace (fld 1 0 p <? 256) with true by (symmetry; apply N.ltb_lt, U8).
    replace (fld 1 1 p <? 256) with true by (symmetry; apply N.ltb_lt, U8). reflexivity.
  - destruct (len p <? 4) eqn:G; [discriminate|]. apply N.ltb_ge in G. intros E; inversion E; subst.
    assert (V : len (s_value (A32 k (fld 4 0 p))) <= len p) by (cbn [s_value]; rewrite len_be32; lia).
    split; [|exact V]. unfold wf_avp. rewrite (FIT _ V). unfold u32.
    replace (fld 4 0 p <? 4294967296) with true by (symmetry; apply N.ltb_lt, U32). reflexivity.
  - destruct (len p <? 8) eqn:G; [discriminate|]. apply N.ltb_ge in G. intros E; inversion E; subst.
    assert (V : len (s_value (ATieBreaker (fld 8 0 p))) <= len p) by (cbn [s_value]; rewrite len_be64; lia).
    split; [|exact V]. unfold wf_avp. rewrite (FIT _ V). unfold u64.
    replace (fld 8 0 p <? 18446744073709551616) with true by (symmetry; apply N.ltb_lt, U64). reflexivity.
  - destruct (len p <? 2) eqn:G; [discriminate|]. apply N.ltb_ge in G. intros E; inversion E; subst.
    assert (V : len (s_value (A16 k (fld 2 0 p))) <= len p) by (cbn [s_value]; rewrite len_be16; lia).
    split; [|exact V]. unfold wf_avp. rewrite (FIT _ V). unfold u16.
    replace (fld 2 0 p <? 65536) with true by (symmetry; apply N.ltb_lt, U16). reflexivity.
  - destruct (len p =? 0) eqn:G; [discriminate|]. intros E; inversion E; subst.
    assert (V : len (s_value (ABytes k p)) <= len p) by (cbn [s_value]; lia).
    split; [|exact V]. unfold wf_avp. rewrite (FIT _ V), G, B. reflexivity.
  - destruct (len p =? 0) eqn:G; [discriminate|]. apply N.eqb_neq in G.
    intros E. apply s_text_inv in E. destruct E as [Uv ->].
    assert (V : len (s_value (AStr k p)) <= len p) by (cbn [s_value]; lia).
    split; [|exact V]. unfold wf_avp. rewrite (FIT _ V). rewrite text_ok_intro by assumption. reflexivity.
  - destruct (len p <? kfix_len k) eqn:G; [discriminate|]. apply N.ltb_ge in G. intros E; inversion E; subst.
    assert (LO : len (octs (kfix_len k) 0 p) = kfix_len k) by (apply len_octs_le; lia).
    assert (V : len (s_value (AFix k (octs (kfix_len k) 0 p))) <= len p) by (cbn [s_value]; lia).
    split; [|exact V]. unfold wf_avp. rewrite (FIT _ V), LO, N.eqb_refl, bytes_ok_octs by exact B. reflexivity.
  - destruct (len p <? 3) eqn:G; [discriminate|]. apply N.ltb_ge in G.
    destruct (len p =? 3) eqn:G3.
    + intros E; inversion E; subst.
      assert (V : len (s_value (AQ931CauseCode (fld 2 0 p) (fld 1 2 p) None)) <= len p)
        by (cbn [s_value opt_octets]; rewrite !len_app, len_be16, len_cons, !len_nil; lia).
      split; [|exact V]. unfold wf_avp. rewrite (FIT _ V). unfold u16, u8.
      replace (fld 2 0 p <? 65536) with true by (symmetry; apply N.ltb_lt, U16).
      replace (fld 1 2 p <? 256) with true by (symmetry; apply N.ltb_lt, U8). reflexivity.
    + apply N.eqb_neq in G3. intros E. apply s_text_inv in E. destruct E as [Uv ->].
      assert (V : len (s_value (AQ931CauseCode (fld 2 0 p) (fld 1 2 p) (Some (dropN 3 p)))) <= len p)
        by (cbn [s_value opt_octets]; rewrite !len_app, len_be16, len_cons, len_nil, len_dropN; lia).
      split; [|exact V]. unfold wf_avp. rewrite (FIT _ V). unfold u16, u8.
      replace (fld 2 0 p <? 65536) with true by (symmetry; apply N.ltb_lt, U16).
      replace (fld 1 2 p <? 256) with true by (symmetry; apply N.ltb_lt, U8).
      rewrite text_ok_intro; [reflexivity | rewrite len_dropN; lia | exact Uv | apply bytes_ok_dropN, B].
  - destruct (len p <? 2) eqn:G; [discriminate|]. apply N.ltb_ge in G.
    destruct (pa_of_code _); intros E; inversion E; subst.
    assert (V : len (s_value (AProxyAuthenType p0)) <= len p) by (cbn [s_value]; rewrite len_be16; lia).
    split; [|exact V]. unfold wf_avp. rewrite (FIT _ V). reflexivity.
  - destruct (len p <? 2) eqn:G; [discriminate|]. apply N.ltb_ge in G. intros E; inversion E; subst.
    assert (V : len (s_value (AProxyAuthenId (fld 1 1 p))) <= len p)
      by (cbn [s_value]; rewrite !len_cons, len_nil; lia).
    split; [|exact V]. unfold wf_avp. rewrite (FIT _ V). unfold u8.
    replace (fld 1 1 p <? 256) with true by (symmetry; apply N.ltb_lt, U8). reflexivity.
  - destruct (len p <? 26) eqn:G; [discriminate|]. apply N.ltb_ge in G. intros E; inversion E; subst.
    match goal with |- wf_avp ?x = true /\ _ => assert (V : len (s_value x) <= len p)
      by (cbn [s_value]; rewrite !len_app, !len_be32, !len_cons, len_nil; lia) end.
    split; [|exact V]. unfold wf_avp. rewrite (FIT _ V). unfold u32.
    repeat match goal with |- context [fld 4 ?o p <? 4294967296] =>
      replace (fld 4 o p <? 4294967296) with true by (symmetry; apply N.ltb_lt, U32) end. reflexivity.
  - destruct (len p <? 10) eqn:G; [discriminate|]. apply N.ltb_ge in G. intros E; inversion E; subst.
    assert (L1 : len (octs 4 2 p) = 4) by (apply len_octs_le; lia).
    assert (L2 : len (octs 4 6 p) = 4) by (apply len_octs_le; lia).
    assert (V : len (s_value (AAccm (octs 4 2 p) (octs 4 6 p))) <= len p)
      by (cbn [s_value]; rewrite !len_app, !len_cons, len_nil; lia).
    split; [|exact V]. unfold wf_avp. rewrite (FIT _ V), L1, L2, !bytes_ok_octs by exact B. reflexivity.
  - intros E; inversion E; subst. split; [|cbn [s_value]; rewrite len_nil; lia].
    unfold wf_avp, avp_fits, avp_total. cbn [s_value]. reflexivity.
Qed.

Lemma rec_length_le r : bytes_ok r = true -> rec_length r <= 1023.
Proof.
  intros B. unfold rec_length. pose proof (fld1_lt 1 0 r B ltac:(lia)). pose proof (fld1_lt 1 1 r B ltac:(lia)).
  assert (fld 1 0 r / 64 <= 3) by (apply N.lt_succ_r, N.div_lt_upper_bound; lia). lia.
Qed.

Theorem decoded_record_wf r a : bytes_ok r = true -> 6 <= len r -> len r <= 1023 ->
  s_record r = Ok a -> wf_avp a = true /\ len (s_enc_avp a) <= len r.
Proof.
  intros B L6 L. unfold s_record.
  destruct (negb (rec_vendor r =? 0)); [discriminate|].
  destruct (rec_hidden r).
  - intros E; inversion E; subst. rewrite len_s_enc_avp. unfold avp_total. cbn [s_value]. rewrite len_dropN.
    split; [|lia]. unfold wf_avp, avp_fits, avp_total. cbn [s_value]. rewrite len_dropN.
    replace (6 + (len r - 6) <=? 1023) with true by (symmetry; apply N.leb_le; lia).
    unfold u16, rec_type. replace (fld 2 4 r <? 65536) with true by (symmetry; apply N.ltb_lt, fld2_lt, B).
    rewrite bytes_ok_dropN by exact B. reflexivity.
  - intros E. destruct (decoded_avp_wf _ _ _ (bytes_ok_dropN 6 r B) ltac:(rewrite len_dropN; lia) E) as [W V].
    split; [exact W|]. rewrite len_s_enc_avp. unfold avp_total. rewrite len_dropN in V. lia.
Qed.

Theorem decoded_list_wf n : forall r, bytes_ok r = true ->
  existsb is_err (fst (s_avps_n n r)) = false ->
  forallb wf_avp (oks_of (fst (s_avps_n n r))) = true /\
  len (s_enc_avps (oks_of (fst (s_avps_n n r)))) <= len r.
Proof.
  induction n as [|n IH]; intros r B NE; cbn [s_avps_n] in *.
  - cbn [fst oks_of forallb s_enc_avps map concat]. split; [reflexivity|apply N.le_0_l].
  - destruct (len r <? 6) eqn:G6; [cbn [fst oks_of forallb s_enc_avps map concat]; split; [reflexivity|apply N.le_0_l]|]. apply N.ltb_ge in G6.
    destruct (rec_length r <? 6) eqn:GL; [cbn in NE; discriminate|]. apply N.ltb_ge in GL.
    destruct (len r <? rec_length r) eqn:GR; [cbn in NE; discriminate|]. apply N.ltb_ge in GR.
    specialize (IH (dropN (rec_length r) r) (bytes_ok_dropN _ _ B)).
    destruct (s_avps_n n (dropN (rec_length r) r)) as [xs tl]. cbn [fst existsb] in *.
    apply orb_false_iff in NE. destruct NE as [N1 N2].
    destruct (s_record (takeN (rec_length r) r)) as [a|e] eqn:ER; [|discriminate].
    destruct (IH N2) as [W1 V1].
    assert (LT : len (takeN (rec_length r) r) = rec_length r) by (apply len_takeN_le; lia).
    destruct (decoded_record_wf _ a (bytes_ok_takeN _ _ B) ltac:(rewrite LT; lia)
                ltac:(rewrite LT; apply rec_length_le, B) ER) as [Wa Va].
    cbn [oks_of forallb s_enc_avps map concat]. fold (s_enc_avps (oks_of xs)).
    rewrite Wa, W1, len_app. split; [reflexivity|]. rewrite len_dropN in V1. lia.
Qed.

Lemma first_msgtype rs : existsb is_err rs = false -> s_first_ok rs = true ->
  match oks_of rs with [] => true | a :: _ => is_msgtype a end = true.
Proof.
  destruct rs as [|[a|e] t]; cbn; intros NE F; try reflexivity; try discriminate.
  destruct a; try discriminate; reflexivity.
Qed.

Theorem decoded_ctrl_wf o b m rest : bytes_ok b = true -> s_ctrl o b = Ok (Control m, rest) -> wf_ctrl m = true.
Proof.
  intros B. unfold s_ctrl.
  repeat match goal with |- (if ?c then _ else _) = _ -> _ => destruct c eqn:?; try discriminate end.
  intros E. inversion E; subst. clear E.
  set (L := fld 2 2 b) in *. grd.
  set (region := octs (L - 12) 12 b) in *.
  assert (BR : bytes_ok region = true) by (apply bytes_ok_octs, B).
  assert (LR : len region <= L - 12) by (unfold region, octs; rewrite len_takeN; lia).
  match goal with H : existsb is_err _ = false |- _ => rename H into NE end.
  unfold s_avps in *. destruct (decoded_list_wf (S (length region)) region BR NE) as [W V].
  unfold wf_ctrl, ctrl_total. cbn [c_avps c_tunnel c_session c_ns c_nr].
  unfold s_avps. rewrite W.
  assert (LL : L < 65536) by (apply fld2_lt, B).
  match goal with |- context [?e <=? 65535] => replace (e <=? 65535) with true by (symmetry; apply N.leb_le; lia) end.
  assert (FO : s_first_ok (fst (s_avps_n (S (length region)) region)) = true).
  { match goal with H : negb (s_first_ok _) = false |- _ => apply negb_false_iff in H; exact H end. }
  rewrite (first_msgtype _ NE FO).
  unfold u16. repeat match goal with |- context [fld 2 ?o b <? 65536] =>
    replace (fld 2 o b <? 65536) with true by (symmetry; apply N.ltb_lt, fld2_lt, B) end.
  reflexivity.
Qed.

Lemma enc_ctrl_ignores_length m x : s_enc_ctrl (with_length m x) = s_enc_ctrl m.
Proof. reflexivity. Qed.

(** control messages: one round reaches the fixed point *)
Theorem reencode_ctrl o b m rest : bytes_ok b = true -> s_decode o b = Ok (Control m, rest) ->
  encodable (Control m) = true /\
  s_decode strict_opts (s_encode (Control m)) = Ok (Control (with_length m (ctrl_total m)), []) /\
  s_encode (Control (with_length m (ctrl_total m))) = s_encode (Control m).
Proof.
  intros B E.
  assert (EC : s_ctrl o b = Ok (Control m, rest)).
  { unfold s_decode in E.
    destruct (len b <? 2); [discriminate|].
    destruct (v_version o && _); [discriminate|]. destruct (v_reserved o && _); [discriminate|].
    destruct (fw_T (fld 2 0 b)); [exact E|].
    destruct (s_data b) as [[[mm|dd] r]|e] eqn:ED; try discriminate.
    - exfalso. unfold s_data in ED.
      repeat match type of ED with
             | (if ?c then _ else _) = _ => destruct c; try discriminate
             | match ?c with Ok _ => _ | Err _ => _ end = _ => destruct c; try discriminate
             end. }
  pose proof (decoded_ctrl_wf o b m rest B EC) as W.
  split; [apply wf_ctrl_encodable, W|]. split; [apply ctrl_roundtrip_spec, W|reflexivity].
Qed.

(** data messages decoded from an input without the O bit *)
Theorem decoded_data_wf b d rest : bytes_ok b = true -> fw_O (fld 2 0 b) = false ->
  s_data b = Ok (Data d, rest) -> wf_data d = true /\ decoded_data d = d.
Proof.
  intros B O. unfold s_data. rewrite O.
  set (w := fld 2 0 b). set (oL := if fw_L w then 2 else 0). set (oS := if fw_S w then 4 else 0).
  cbv zeta. rewrite !N.add_0_r.
  destruct (len b <? 2 + oL + 4 + oS) eqn:G1; [discriminate|]. apply N.ltb_ge in G1.
  assert (U16 : forall off, fld 2 off b < 65536) by (intros; apply fld2_lt, B).
  assert (HL : oL = (if fw_L w then 2 else 0)) by reflexivity.
  assert (HS : oS = (if fw_S w then 4 else 0)) by reflexivity.
  destruct (fw_L w) eqn:EL.
  - destruct (fld 2 2 b <? 2 + oL + 4 + oS) eqn:G3; [discriminate|]. apply N.ltb_ge in G3.
    destruct (len b <? fld 2 2 b) eqn:G4; [discriminate|]. apply N.ltb_ge in G4.
    destruct (fld 2 2 b - (2 + oL + 4 + oS) =? 0) eqn:G5; [discriminate|]. apply N.eqb_neq in G5.
    intros E. inversion E; subst. clear E.
    assert (LD : len (octs (fld 2 2 b - (2 + oL + 4 + oS)) (2 + oL + 4 + oS) b) = fld 2 2 b - (2 + oL + 4 + oS))
      by (apply len_octs_le; lia).
    split; [|unfold decoded_data; cbn [d_offset d_data d_prio d_length d_tunnel d_session d_nsnr]; reflexivity].
    unfold wf_data. cbn [d_offset d_data d_prio d_length d_tunnel d_session d_nsnr].
    unfold u16. rewrite LD.
    repeat match goal with |- context [fld 2 ?o b <? 65536] =>
      replace (fld 2 o b <? 65536) with true by (symmetry; apply N.ltb_lt, U16) end.
    rewrite bytes_ok_octs by exact B.
    replace (fld 2 2 b - (2 + oL + 4 + oS) =? 0) with false by (symmetry; apply N.eqb_neq; exact G5).
    assert (LE : len (s_enc_data {| d_prio := fw_P w; d_length := Some (fld 2 2 b); d_tunnel := fld 2 (2 + oL) b;
                   d_session := fld 2 (2 + oL + 2) b;
                   d_nsnr := if fw_S w then Some (fld 2 (2 + oL + 4) b, fld 2 (2 + oL + 6) b) else None;
                   d_offset := None;
                   d_data := octs (fld 2 2 b - (2 + oL + 4 + oS)) (2 + oL + 4 + oS) b |}) = fld 2 2 b).
    { unfold s_enc_data. cbn [d_offset d_data d_prio d_length d_tunnel d_session d_nsnr].
      destruct (fw_S w); rewrite !len_app, !len_be16, ?len_nil, LD; lia. }
    rewrite LE, N.eqb_refl. destruct (fw_S w); cbn [andb negb];
      repeat match goal with |- context [fld 2 ?o b <? 65536] =>
        replace (fld 2 o b <? 65536) with true by (symmetry; apply N.ltb_lt, U16) end; reflexivity.
  - destruct (len b - (2 + oL + 4 + oS) =? 0) eqn:G5; [discriminate|]. apply N.eqb_neq in G5.
    intros E. inversion E; subst. clear E.
    assert (LD : len (octs (len b - (2 + oL + 4 + oS)) (2 + oL + 4 + oS) b) = len b - (2 + oL + 4 + oS))
      by (apply len_octs_le; lia).
    split; [|unfold decoded_data; cbn [d_offset d_data d_prio d_length d_tunnel d_session d_nsnr]; reflexivity].
    unfold wf_data. cbn [d_offset d_data d_prio d_length d_tunnel d_session d_nsnr].
    unfold u16. rewrite LD.
    repeat match goal with |- context [fld 2 ?o b <? 65536] =>
      replace (fld 2 o b <? 65536) with true by (symmetry; apply N.ltb_lt, U16) end.
    rewrite bytes_ok_octs by exact B.
    replace (len b - (2 + oL + 4 + oS) =? 0) with false by (symmetry; apply N.eqb_neq; exact G5).
    destruct (fw_S w); cbn [andb negb];
      repeat match goal with |- context [fld 2 ?o b <? 65536] =>
        replace (fld 2 o b <? 65536) with true by (symmetry; apply N.ltb_lt, U16) end; reflexivity.
Qed.

Theorem reencode_data o b d rest : bytes_ok b = true -> fw_O (fld 2 0 b) = false ->
  s_decode o b = Ok (Data d, rest) ->
  encodable (Data d) = true /\
  s_decode strict_opts (s_encode (Data d)) = Ok (Data d, []).
Proof.
  intros B O E.
  assert (ED : s_data b = Ok (Data d, rest)).
  { unfold s_decode in E.
    destruct (len b <? 2); [discriminate|].
    destruct (v_version o && _); [discriminate|]. destruct (v_reserved o && _); [discriminate|].
    destruct (fw_T (fld 2 0 b)).
    - exfalso. unfold s_ctrl in E.
      repeat match type of E with (if ?c then _ else _) = _ => destruct c; try discriminate end.
    - destruct (s_data b) as [[mm r]|e]; inversion E; reflexivity. }
  destruct (decoded_data_wf b d rest B O ED) as [W DD].
  split; [reflexivity|]. cbn [s_encode]. rewrite (data_decode_spec strict_opts d W), DD. reflexivity.
Qed.
