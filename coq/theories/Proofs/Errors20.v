(** Error identity (C20) on the Spec: each fault kind yields the variant that
    names it, carrying the offending value; a single bad record in an otherwise
    valid control message yields exactly that one error. *)
From Coq Require Import Lia.
From RL Require Import Model.Decode Spec.SpecDecode Proofs.ReaderLemmas Proofs.BytesLemmas Proofs.RefineAvp
  Proofs.Enums Proofs.Framing.

Theorem fault_unknown_type r : rec_vendor r = 0 -> rec_hidden r = false ->
  shape_of (rec_type r) = None -> s_record r = Err (UnknownAvp (rec_type r)).
Proof.
  intros V Hd S. unfold s_record, s_payload. rewrite V, Hd, S. reflexivity.
Qed.

Theorem fault_vendor r : rec_vendor r <> 0 -> s_record r = Err (UnsupportedVendorId (rec_vendor r)).
Proof.
  intros V. unfold s_record. replace (rec_vendor r =? 0) with false by (symmetry; apply N.eqb_neq; exact V).
  reflexivity.
Qed.

Theorem fault_unknown_message_type p : 2 <= len p -> mt_of_code (fld 2 0 p) = None ->
  s_payload 0 p = Err (UnknownMessageType (fld 2 0 p)).
Proof.
  intros L M. unfold s_payload. cbn [shape_of s_shape].
  replace (len p <? 2) with false by (symmetry; apply N.ltb_ge; exact L). rewrite M. reflexivity.
Qed.

Theorem fault_error_type p : 4 <= len p -> et_of_code (fld 2 2 p) = None ->
  s_payload 1 p = Err (InvalidResultCodeErrorType (fld 2 2 p)).
Proof.
  intros L M. unfold s_payload. cbn [shape_of s_shape].
  replace (len p <? 2) with false by (symmetry; apply N.ltb_ge; lia).
  replace (len p <? 4) with false by (symmetry; apply N.ltb_ge; lia). rewrite M. reflexivity.
Qed.

(** minimum payload length of each format *)
Definition min_len (sh : shape) : N :=
  match sh with
  | ShMsgType => 2 | ShResultCode => 2 | ShProtoVer => 2 | Sh32 _ => 4 | ShTie => 8 | Sh16 _ => 2
  | ShBytes _ => 1 | ShStr _ => 1 | ShFix k => kfix_len k | ShQ931 => 3 | ShPaType => 2 | ShPaId => 2
  | ShCallErrors => 26 | ShAccm => 10 | ShSeqReq => 0
  end.

Theorem fault_truncated t sh p : shape_of t = Some sh -> len p < min_len sh ->
  s_payload t p = Err (IncompleteAVP t).
Proof.
  intros S L. unfold s_payload. rewrite S.
  destruct sh; cbn [s_shape min_len] in *;
    try (replace (len p <? _) with true by (symmetry; apply N.ltb_lt; lia); reflexivity);
    try (replace (len p =? 0) with true by (symmetry; apply N.eqb_eq; lia); reflexivity).
  lia.
Qed.

Theorem fault_utf8 t k p : shape_of t = Some (ShStr k) -> len p <> 0 -> utf8_valid p = false ->
  s_payload t p = Err (InvalidUtf8 t).
Proof.
  intros S L U. unfold s_payload. rewrite S. cbn [s_shape].
  replace (len p =? 0) with false by (symmetry; apply N.eqb_neq; exact L).
  unfold s_text. rewrite U. reflexivity.
Qed.

Theorem fault_offset b : fw_O (fld 2 0 b) = true ->
  (let w := fld 2 0 b in
   let fixed := 2 + (if fw_L w then 2 else 0) + 4 + (if fw_S w then 4 else 0) + 2 in
   fixed <= len b /\ len b < fixed + fld 2 (fixed - 2) b) ->
  exists n, s_data b = Err (InvalidOffset n) /\
            n = fld 2 (2 + (if fw_L (fld 2 0 b) then 2 else 0) + 4 + (if fw_S (fld 2 0 b) then 4 else 0)) b.
Proof.
  cbv zeta. intros O [F L]. unfold s_data. rewrite O.
  set (oL := if fw_L (fld 2 0 b) then 2 else 0) in *. set (oS := if fw_S (fld 2 0 b) then 4 else 0) in *.
  replace (len b <? 2 + oL + 4 + oS + 2) with false by (symmetry; apply N.ltb_ge; lia).
  replace (2 + oL + 4 + oS + 2 - 2) with (2 + oL + 4 + oS) in L by lia.
  replace (len b <? 2 + oL + 4 + oS + 2 + fld 2 (2 + oL + 4 + oS) b) with true by (symmetry; apply N.ltb_lt; lia).
  eexists. split; reflexivity.
Qed.

(** a single undecodable record among decodable ones gives exactly its error *)
Theorem single_fault rs1 bad rs2 e :
  (forall r, In r (rs1 ++ rs2) -> is_err (s_record r) = false) -> s_record bad = Err e ->
  flat_map err_of_record (rs1 ++ bad :: rs2) = [e].
Proof.
  intros G B.
  assert (Z : forall l, (forall r, In r l -> is_err (s_record r) = false) -> flat_map err_of_record l = []).
  { induction l as [|r t IH]; intros Hl; [reflexivity|]. cbn [flat_map]. unfold err_of_record at 1.
    pose proof (Hl r (or_introl eq_refl)) as Hr. destruct (s_record r); [|discriminate].
    cbn [app]. apply IH. intros x Hx. apply Hl. right. exact Hx. }
  rewrite flat_map_app. cbn [flat_map]. unfold err_of_record at 2. rewrite B.
  rewrite (Z rs1), (Z rs2); [reflexivity| |]; intros r Hr; apply G, in_or_app; auto.
Qed.
