(** Support for the source tie by translation (py/rs2v; nothing in the property cones depends on this file): the generated decoder programs are compared with the
    hand-written Model either as terms ([vm_compute; reflexivity]) or observationally on the list reader
    ([run_eq]: both programs are decision trees over the same reader operations; execute both on an arbitrary
    input, splitting on every test either of them performs). *)
From Coq Require Import NArith List Bool Lia.
From RL Require Import Model.Decode Model.Encode Proofs.ReaderLemmas Proofs.RefineAvp.
Import ListNotations. Open Scope N_scope.

(** the source's [(data >> i) & 0x1 != 0] is the Model's [N.testbit data i] *)
Lemma get_bit_testbit w i : negb (N.land (N.shiftr w i) 1 =? 0) = N.testbit w i.
Proof.
  rewrite <- (N.add_0_l i) at 2. rewrite <- N.shiftr_spec by apply N.le_0_l.
  rewrite N.bit0_odd. change 1 with (N.ones 1). rewrite N.land_ones.
  change (2 ^ 1) with 2. rewrite <- N.bit0_mod, N.bit0_odd.
  destruct (N.odd (N.shiftr w i)); reflexivity.
Qed.

Ltac run_split :=
  match goal with
  | |- context [lr_read ?k ?l] =>
    lazymatch goal with
    | H : lr_read k l = _ |- _ => fail
    | _ => let E := fresh "ER" in destruct (lr_read k l) as [[? ?]| | |] eqn:E
    end
  | |- context [if ?c then _ else _] =>
    lazymatch c with
    | context [match _ with _ => _ end] => fail
    | _ => let E := fresh "EC" in destruct c eqn:E
    end
  | |- context [match ?x with Some _ => _ | None => _ end] =>
    lazymatch x with
    | context [match _ with _ => _ end] => fail
    | context [if _ then _ else _] => fail
    | _ => let E := fresh "EM" in destruct x eqn:E
    end
  | |- context [match ?x with Ok _ => _ | Err _ => _ end] =>
    lazymatch x with
    | context [match _ with _ => _ end] => fail
    | context [if _ then _ else _] => fail
    | _ => let E := fresh "EM" in destruct x eqn:E
    end
  end.
Ltac run_eq :=
  intros; rewrite ?get_bit_testbit;
  cbv [bind len_ is_empty_ u8_ u16_ u32_ u64_ bytes_ skip_ sub_ usub];
  cbn [run obind bind];
  repeat (first [reflexivity | run_split; cbn [run obind bind]]);
  try (exfalso; grd; rewrite ?len_takeN in *; lia).

Lemma land15_mod256 x : N.land x 15 mod 256 = N.land x 15.
Proof.
  change 15 with (N.ones 4). rewrite N.land_ones. apply N.mod_small.
  assert (x mod 2 ^ 4 < 2 ^ 4) by (apply N.mod_lt; discriminate).
  change (2 ^ 4) with 16 in *. lia.
Qed.

(** the reserved-bit test of the source, bit by bit, is the Model's *)
Lemma reserved_forallb w :
  forallb (fun i => negb (negb (N.land (N.shiftr w i) 1 =? 0))) [0; 1; 2; 3; 10; 11; 13] = f_reserved_ok w.
Proof.
  unfold f_reserved_ok, get_bit. cbn [forallb]. rewrite !get_bit_testbit. reflexivity.
Qed.

Ltac gen_norm :=
  rewrite ?reserved_forallb, ?land15_mod256, ?get_bit_testbit;
  cbv [f_is_control f_has_length f_has_ns_nr f_has_offset f_is_prioritized f_version get_bit].

(** programs that call other (separately tied) programs through [bind]: split on their result *)
Ltac bind_split :=
  match goal with
  | |- context [run (bind ?p _) ?l] =>
    rewrite !(run_bind p);
    lazymatch goal with
    | |- context [obind (run p l) _] => destruct (run p l) as [[? ?]| | |]; cbn [obind]
    end
  end.
Ltac obind_split :=
  match goal with
  | |- context [obind (run ?p ?l) _] => destruct (run p l) as [[? ?]| | |]; cbn [obind]
  end.
Ltac and_split :=
  match goal with
  | |- context [if (?a && ?b) then _ else _] =>
    lazymatch a with
    | context [match _ with _ => _ end] => fail
    | _ => let E := fresh "EA" in destruct a eqn:E; cbn [andb]
    end
  end.
Ltac run_eq2 :=
  intros; gen_norm;
  cbv [len_ is_empty_ u8_ u16_ u32_ u64_ bytes_ skip_ sub_ usub];
  cbn [run obind bind];
  repeat (first [reflexivity
                | progress gen_norm
                | and_split; cbn [run obind bind]
                | run_split; cbn [run obind bind]
                | bind_split; cbn [run obind bind]
                | obind_split; cbn [run obind bind]]);
  try (exfalso; grd; rewrite ?len_takeN in *; lia).

(** ControlMessage::try_read inspects the first record through [first()] and a nested match *)
Lemma first_ok_cases rs :
  first_ok rs = match hd_error rs with
                | Some (Ok a) => is_msgtype a
                | Some (Err _) => false
                | None => true
                end.
Proof. destruct rs as [|[a|e] t]; [reflexivity| |reflexivity]. destruct a; reflexivity. Qed.

Ltac unfold_model :=
  cbv [decode_avp dec_message_type dec_result_code dec_protocol_version dec_u16 dec_u32 dec_tie_breaker dec_bytes
       dec_str dec_utf8_rest get_chunk dec_fix dec_q931 dec_proxy_authen_type dec_proxy_authen_id dec_call_errors
       dec_accm kfix_len kfix_type k16_type k32_type kbytes_type kstr_type].

Ltac bool_close :=
  rewrite ?first_ok_cases in *;
  repeat match goal with H : hd_error _ = _ |- _ => rewrite H in * end;
  cbn [negb] in *; try congruence;
  repeat match goal with H : negb ?b = _ |- _ => destruct b eqn:?; cbn [negb] in H end; congruence.

Ltac loop_eq IH :=
  rewrite !run_bind;
  match goal with |- obind ?x _ = _ => destruct x as [[[[?|?]|] ?]| | |] end; cbn [obind]; try reflexivity;
  gen_norm; cbv [len_ skip_ bytes_ sub_]; cbn [run bind obind];
  repeat (first [reflexivity | progress (rewrite ?run_bind) | progress (rewrite ?IH)
                | run_split; cbn [run obind bind] | obind_split; cbn [run obind bind]]).

(** * encoders *)
Lemma land3_mod256 x : N.land x 3 mod 256 = N.land x 3.
Proof.
  change 3 with (N.ones 2). rewrite N.land_ones. apply N.mod_small.
  assert (x mod 2 ^ 2 < 2 ^ 2) by (apply N.mod_lt; discriminate).
  change (2 ^ 2) with 4 in *. lia.
Qed.
Lemma obind_val {A} (x : outcome A) : obind x (fun a => Val a) = x.
Proof. destruct x; reflexivity. Qed.
Lemma split16 x : x mod 65536 = x mod 256 + 256 * ((x / 256) mod 256).
Proof. change 65536 with (256 * 256). apply N.mod_mul_r; discriminate. Qed.
(** the source's [(length as u16).to_be_bytes()] after [assert!(length <= u16::MAX)] *)
Lemma be16_mod x : be16 (x mod 65536) = be16 x.
Proof.
  unfold be16. rewrite split16. f_equal; [|f_equal].
  - rewrite (N.mul_comm 256), N.div_add by discriminate.
    rewrite (N.div_small (x mod 256)) by (apply N.mod_lt; discriminate).
    rewrite N.add_0_l. apply N.mod_mod. discriminate.
  - rewrite (N.mul_comm 256), N.mod_add by discriminate. apply N.mod_mod. discriminate.
Qed.
(** split on a guard that the source writes as [a <= b] and the Model as [b < a] *)
Ltac guard2 c1 c2 :=
  let E1 := fresh "E" in let E2 := fresh "E" in
  destruct c1 eqn:E1; destruct c2 eqn:E2; grd; try lia; try reflexivity.

(** when a tie does not close: print the remaining goals -- each is a path on which the regenerated program and the
    Model differ, its hypotheses are the path condition (py/symsearch.py solves them for a concrete input) *)
Ltac dump_residual :=
  idtac "RESIDUAL";
  repeat match goal with
         | H : ?t |- _ => lazymatch type of t with Prop => idtac "HYP" t; clear H | _ => fail end
         end;
  match goal with |- ?g => idtac "GOAL" g end.
