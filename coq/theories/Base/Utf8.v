(** Acceptance set of [core::str::from_utf8] (RFC 3629 well-formed UTF-8):
    no overlong forms, no surrogates, at most U+10FFFF.  Modelled, not
    verified: tied to the implementation by the correspondence sweeps. *)
From RL Require Export Base.Bytes.

Definition in_rng (lo hi x : N) : bool := (lo <=? x) && (x <=? hi).
Definition cont (x : N) : bool := in_rng 128 191 x.

Fixpoint utf8_valid (l : list N) : bool :=
  match l with
  | [] => true
  | b0 :: t =>
    if b0 <? 128 then utf8_valid t
    else if in_rng 194 223 b0 then
      match t with
      | b1 :: t1 => cont b1 && utf8_valid t1
      | _ => false
      end
    else if in_rng 224 239 b0 then
      match t with
      | b1 :: b2 :: t2 =>
        (if b0 =? 224 then in_rng 160 191 b1
         else if b0 =? 237 then in_rng 128 159 b1
         else cont b1) && cont b2 && utf8_valid t2
      | _ => false
      end
    else if in_rng 240 244 b0 then
      match t with
      | b1 :: b2 :: b3 :: t3 =>
        (if b0 =? 240 then in_rng 144 191 b1
         else if b0 =? 244 then in_rng 128 143 b1
         else cont b1) && cont b2 && cont b3 && utf8_valid t3
      | _ => false
      end
    else false
  end.
