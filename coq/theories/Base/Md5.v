(** Executable RFC 1321 MD5 over octet lists.  The [md5] crate is modelled by
    this file; the tie is differential (MD5 channel and every HIDE/REVEAL case).
    The hiding theorems do not depend on it (hash is a section variable there). *)
From RL Require Export Base.Bytes.

Definition w32 : N := 4294967296.
Definition add32 (a b : N) : N := (a + b) mod w32.
Definition not32 (x : N) : N := N.lxor x 4294967295.
Definition rotl32 (x s : N) : N :=
  N.lor (N.shiftl x s mod w32) (N.shiftr x (32 - s)).

(** (round group, K[i], s[i], message word index g) for i = 0..63 *)
Definition md5_table : list (N * N * N * N) :=
  [(0, 3614090360, 7, 0);
   (0, 3905402710, 12, 1);
   (0, 606105819, 17, 2);
   (0, 3250441966, 22, 3);
   (0, 4118548399, 7, 4);
   (0, 1200080426, 12, 5);
   (0, 2821735955, 17, 6);
   (0, 4249261313, 22, 7);
   (0, 1770035416, 7, 8);
   (0, 2336552879, 12, 9);
   (0, 4294925233, 17, 10);
   (0, 2304563134, 22, 11);
   (0, 1804603682, 7, 12);
   (0, 4254626195, 12, 13);
   (0, 2792965006, 17, 14);
   (0, 1236535329, 22, 15);
   (1, 4129170786, 5, 1);
   (1, 3225465664, 9, 6);
   (1, 643717713, 14, 11);
   (1, 3921069994, 20, 0);
   (1, 3593408605, 5, 5);
   (1, 38016083, 9, 10);
   (1, 3634488961, 14, 15);
   (1, 3889429448, 20, 4);
   (1, 568446438, 5, 9);
   (1, 3275163606, 9, 14);
   (1, 4107603335, 14, 3);
   (1, 1163531501, 20, 8);
   (1, 2850285829, 5, 13);
   (1, 4243563512, 9, 2);
   (1, 1735328473, 14, 7);
   (1, 2368359562, 20, 12);
   (2, 4294588738, 4, 5);
   (2, 2272392833, 11, 8);
   (2, 1839030562, 16, 11);
   (2, 4259657740, 23, 14);
   (2, 2763975236, 4, 1);
   (2, 1272893353, 11, 4);
   (2, 4139469664, 16, 7);
   (2, 3200236656, 23, 10);
   (2, 681279174, 4, 13);
   (2, 3936430074, 11, 0);
   (2, 3572445317, 16, 3);
   (2, 76029189, 23, 6);
   (2, 3654602809, 4, 9);
   (2, 3873151461, 11, 12);
   (2, 530742520, 16, 15);
   (2, 3299628645, 23, 2);
   (3, 4096336452, 6, 0);
   (3, 1126891415, 10, 7);
   (3, 2878612391, 15, 14);
   (3, 4237533241, 21, 5);
   (3, 1700485571, 6, 12);
   (3, 2399980690, 10, 3);
   (3, 4293915773, 15, 10);
   (3, 2240044497, 21, 1);
   (3, 1873313359, 6, 8);
   (3, 4264355552, 10, 15);
   (3, 2734768916, 15, 6);
   (3, 1309151649, 21, 13);
   (3, 4149444226, 6, 4);
   (3, 3174756917, 10, 11);
   (3, 718787259, 15, 2);
   (3, 3951481745, 21, 9)].

Definition le32_of (l : list N) : N :=
  match l with
  | [b0; b1; b2; b3] => b0 + 256 * b1 + 65536 * b2 + 16777216 * b3
  | _ => 0
  end.
Definition le32 (x : N) : list N :=
  [x mod 256; x / 256 mod 256; x / 65536 mod 256; x / 16777216 mod 256].

Fixpoint words_of (n : nat) (l : list N) : list N :=
  match n with
  | O => []
  | S n' => le32_of (firstn 4 l) :: words_of n' (skipn 4 l)
  end.

Definition md5_round (m : list N) (st : N * N * N * N) (row : N * N * N * N)
  : N * N * N * N :=
  let '(a, b, c, d) := st in
  let '(grp, k, s, g) := row in
  let f :=
    match grp with
    | 0 => N.lor (N.land b c) (N.land (not32 b) d)
    | 1 => N.lor (N.land b d) (N.land c (not32 d))
    | 2 => N.lxor b (N.lxor c d)
    | _ => N.lxor c (N.lor b (not32 d))
    end in
  let f' := add32 (add32 (add32 f a) k) (nth (N.to_nat g) m 0) in
  (d, add32 b (rotl32 f' s), b, c).

Definition md5_block (st : N * N * N * N) (blk : list N) : N * N * N * N :=
  let m := words_of 16 blk in
  let '(a, b, c, d) := st in
  let '(a', b', c', d') := fold_left (md5_round m) md5_table st in
  (add32 a a', add32 b b', add32 c c', add32 d d').

Fixpoint md5_blocks (n : nat) (st : N * N * N * N) (l : list N) : N * N * N * N :=
  match n with
  | O => st
  | S n' => md5_blocks n' (md5_block st (firstn 64 l)) (skipn 64 l)
  end.

Definition md5_pad (l : list N) : list N :=
  let n := len l in
  let k := (119 - n mod 64) mod 64 in
  let bits := (8 * n) mod 18446744073709551616 in
  l ++ [128] ++ repeat 0 (N.to_nat k)
    ++ le32 (bits mod w32) ++ le32 (bits / w32).

Definition md5 (l : list N) : list N :=
  let p := md5_pad l in
  let '(a, b, c, d) :=
    md5_blocks (Nat.div (length p) 64)
      (1732584193, 4023233417, 2562383102, 271733878) p in
  le32 a ++ le32 b ++ le32 c ++ le32 d.
