(** Outcomes of model executions: a value, a Rust panic, undefined behaviour
    (an unchecked read outside its contract), or exhausted fuel. *)
From Coq Require Export List NArith Bool.
Export ListNotations.
Open Scope N_scope.

Inductive panic_kind := PkOverflow | PkIndex | PkAssert.

Inductive outcome (A : Type) : Type :=
| Val (a : A)
| Panic (k : panic_kind)
| UB
| OutOfFuel.
Arguments Val {A} a.
Arguments Panic {A} k.
Arguments UB {A}.
Arguments OutOfFuel {A}.

Definition obind {A B} (x : outcome A) (f : A -> outcome B) : outcome B :=
  match x with
  | Val a => f a
  | Panic k => Panic k
  | UB => UB
  | OutOfFuel => OutOfFuel
  end.

Definition omap {A B} (f : A -> B) (x : outcome A) : outcome B :=
  obind x (fun a => Val (f a)).

Inductive result (E A : Type) : Type :=
| Ok (a : A)
| Err (e : E).
Arguments Ok {E A} a.
Arguments Err {E A} e.

Definition is_Ok {E A} (r : result E A) : bool :=
  match r with Ok _ => true | Err _ => false end.
