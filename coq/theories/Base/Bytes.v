(** Octet strings are [list N]; big-endian integer encodings. *)
From RL Require Export Base.Outcome.

Definition len {A} (l : list A) : N := N.of_nat (length l).
Definition takeN {A} (n : N) (l : list A) : list A := firstn (N.to_nat n) l.
Definition dropN {A} (n : N) (l : list A) : list A := skipn (N.to_nat n) l.

Definition byte_ok (x : N) : bool := x <? 256.
Definition bytes_ok (l : list N) : bool := forallb byte_ok l.

(** big-endian value of an octet list *)
Fixpoint be_val (acc : N) (l : list N) : N :=
  match l with
  | [] => acc
  | b :: t => be_val (256 * acc + b) t
  end.

Definition be16 (x : N) : list N := [x / 256 mod 256; x mod 256].
Definition be32 (x : N) : list N :=
  [x / 16777216 mod 256; x / 65536 mod 256; x / 256 mod 256; x mod 256].
Definition be64 (x : N) : list N :=
  be32 (x / 4294967296 mod 4294967296) ++ be32 (x mod 4294967296).

Fixpoint xor_list (a b : list N) : list N :=
  match a, b with
  | x :: a', y :: b' => N.lxor x y :: xor_list a' b'
  | _, _ => []
  end.
