(** RFC 2661 section 4.3 hiding of AVP values, transcribed: the plaintext is the
    two-octet original length, the original value, the caller's length padding and
    just enough of the caller's alignment padding to reach a multiple of 16 octets;
    block 1 is XORed with H(attribute type ++ secret ++ random vector), block i with
    H(secret ++ ciphertext block i-1).  [H] is any hash (MD5 in the executors).
    Shares no definition with Model/Hide.v (which follows the Rust index loops). *)
From RL Require Export Base.Bytes Model.Values Spec.SpecEncode Spec.SpecDecode.

Section SpecHide.
Variable H : list N -> list N.

(** encrypt [n] further 16-octet blocks of [plain], chained on the previous ciphertext block *)
Fixpoint enc_chain (n : nat) (secret prev plain : list N) : list N :=
  match n with
  | O => []
  | S n' =>
    let c := xor_list (takeN 16 plain) (H (secret ++ prev)) in
    c ++ enc_chain n' secret c (dropN 16 plain)
  end.

(** decrypt [n] further blocks of [cipher]; each key comes from the previous CIPHERTEXT block *)
Fixpoint dec_chain (n : nat) (secret prev cipher : list N) : list N :=
  match n with
  | O => []
  | S n' =>
    xor_list (takeN 16 cipher) (H (secret ++ prev))
      ++ dec_chain n' secret (takeN 16 cipher) (dropN 16 cipher)
  end.

Definition hide_plain (payload lp ap : list N) : list N :=
  let p0 := be16 (6 + len payload) ++ payload ++ lp in
  p0 ++ takeN ((16 - len p0 mod 16) mod 16) ap.

Definition s_encrypt (t : N) (secret rv plain : list N) : list N :=
  let c1 := xor_list (takeN 16 plain) (H (be16 t ++ secret ++ rv)) in
  c1 ++ enc_chain (N.to_nat (len plain / 16) - 1) secret c1 (dropN 16 plain).

Definition s_decrypt (t : N) (secret rv cipher : list N) : list N :=
  xor_list (takeN 16 cipher) (H (be16 t ++ secret ++ rv))
    ++ dec_chain (N.to_nat (len cipher / 16) - 1) secret (takeN 16 cipher) (dropN 16 cipher).

Definition s_hide_value (t : N) (payload secret rv lp ap : list N) : list N :=
  s_encrypt t secret rv (hide_plain payload lp ap).

(** reveal: reject empty / misaligned values; decrypt; the first two octets are the
    original AVP length L (6..1023, and L-6 must fit in what follows); the value is
    the next L-6 octets, decoded with the format of the attribute type *)
Definition s_reveal (t : N) (v secret rv : list N) : dres avp :=
  if len v =? 0 then Err EmptyHiddenAVP else
  if negb (len v mod 16 =? 0) then Err MisalignedHiddenAVP else
  let p := s_decrypt t secret rv v in
  let L := fld 2 0 p in
  if (L <? 6) || (1023 <? L) then Err (InvalidOriginalAVPLength L) else
  if len p - 2 <? L - 6 then Err (InvalidOriginalAVPLength L) else
  s_payload t (octs (L - 6) 2 p).
End SpecHide.
