(** Executable specification of the crate's L2TPv2 wire layout, written
    positionally ("the field of width k at offset off") with no reader, no
    cursor state, no unchecked operation and no failure outcome.  It shares
    only the value types and code tables (Model/Values.v) with the Model. *)
From RL Require Export Base.Utf8 Model.Values.

(** big-endian field of [k] octets at offset [off]; octets [k] at [off] *)
Definition octs (k off : N) (b : list N) : list N := takeN k (dropN off b).
Definition fld (k off : N) (b : list N) : N := be_val 0 (octs k off b).

(** * payload formats of the 39 standard AVPs (RFC 2661 section 4.4) *)
Inductive shape :=
| ShMsgType | ShResultCode | ShProtoVer | Sh32 (k : k32) | ShTie | Sh16 (k : k16)
| ShBytes (k : kbytes) | ShStr (k : kstr) | ShFix (k : kfix) | ShQ931 | ShPaType
| ShPaId | ShCallErrors | ShAccm | ShSeqReq.

Definition shape_of (t : N) : option shape :=
  match t with
  | 0 => Some ShMsgType | 1 => Some ShResultCode | 2 => Some ShProtoVer
  | 3 => Some (Sh32 FramingCapabilities) | 4 => Some (Sh32 BearerCapabilities)
  | 5 => Some ShTie | 6 => Some (Sh16 FirmwareRevision) | 7 => Some (ShBytes HostName)
  | 8 => Some (ShStr VendorName) | 9 => Some (Sh16 AssignedTunnelId)
  | 10 => Some (Sh16 ReceiveWindowSize) | 11 => Some (ShBytes Challenge)
  | 12 => Some ShQ931 | 13 => Some (ShFix ChallengeResponse)
  | 14 => Some (Sh16 AssignedSessionId) | 15 => Some (Sh32 CallSerialNumber)
  | 16 => Some (Sh32 MinimumBps) | 17 => Some (Sh32 MaximumBps)
  | 18 => Some (Sh32 BearerType) | 19 => Some (Sh32 FramingType)
  | 21 => Some (ShStr CalledNumber) | 22 => Some (ShStr CallingNumber)
  | 23 => Some (ShStr SubAddress) | 24 => Some (Sh32 TxConnectSpeed)
  | 25 => Some (ShFix PhysicalChannelId) | 26 => Some (ShBytes InitialReceivedLcpConfReq)
  | 27 => Some (ShBytes LastSentLcpConfReq) | 28 => Some (ShBytes LastReceivedLcpConfReq)
  | 29 => Some ShPaType | 30 => Some (ShBytes ProxyAuthenName)
  | 31 => Some (ShBytes ProxyAuthenChallenge) | 32 => Some ShPaId
  | 33 => Some (ShBytes ProxyAuthenResponse) | 34 => Some ShCallErrors
  | 35 => Some ShAccm | 36 => Some (ShFix RandomVector) | 37 => Some (ShBytes PrivateGroupId)
  | 38 => Some (Sh32 RxConnectSpeed) | 39 => Some ShSeqReq
  | _ => None
  end.

Definition s_text (t : N) (p : list N) (mk : list N -> avp) : dres avp :=
  if utf8_valid p then Ok (mk p) else Err (InvalidUtf8 t).

(** decode payload [p] of attribute type [t] with format [sh]; surplus octets
    after a fixed-size format are ignored; reserved octets are ignored *)
Definition s_shape (t : N) (sh : shape) (p : list N) : dres avp :=
  let short := Err (IncompleteAVP t) in
  match sh with
  | ShMsgType =>
    if len p <? 2 then short else
    match mt_of_code (fld 2 0 p) with
    | Some m => Ok (AMessageType m)
    | None => Err (UnknownMessageType (fld 2 0 p))
    end
  | ShResultCode =>
    if len p <? 2 then short else
    if len p <? 4 then Ok (AResultCode (fld 2 0 p) None) else
    match et_of_code (fld 2 2 p) with
    | None => Err (InvalidResultCodeErrorType (fld 2 2 p))
    | Some et =>
      if len p =? 4 then Ok (AResultCode (fld 2 0 p) (Some (et, None)))
      else s_text t (dropN 4 p) (fun d => AResultCode (fld 2 0 p) (Some (et, Some d)))
    end
  | ShProtoVer => if len p <? 2 then short else Ok (AProtocolVersion (fld 1 0 p) (fld 1 1 p))
  | Sh32 k => if len p <? 4 then short else Ok (A32 k (fld 4 0 p))
  | ShTie => if len p <? 8 then short else Ok (ATieBreaker (fld 8 0 p))
  | Sh16 k => if len p <? 2 then short else Ok (A16 k (fld 2 0 p))
  | ShBytes k => if len p =? 0 then short else Ok (ABytes k p)
  | ShStr k => if len p =? 0 then short else s_text t p (AStr k)
  | ShFix k => if len p <? kfix_len k then short else Ok (AFix k (octs (kfix_len k) 0 p))
  | ShQ931 =>
    if len p <? 3 then short else
    if len p =? 3 then Ok (AQ931CauseCode (fld 2 0 p) (fld 1 2 p) None)
    else s_text t (dropN 3 p) (fun d => AQ931CauseCode (fld 2 0 p) (fld 1 2 p) (Some d))
  | ShPaType =>
    if len p <? 2 then short else
    match pa_of_code (fld 2 0 p) with
    | Some x => Ok (AProxyAuthenType x)
    | None => short
    end
  | ShPaId => if len p <? 2 then short else Ok (AProxyAuthenId (fld 1 1 p))
  | ShCallErrors =>
    if len p <? 26 then short else
    Ok (ACallErrors (fld 4 2 p) (fld 4 6 p) (fld 4 10 p) (fld 4 14 p) (fld 4 18 p) (fld 4 22 p))
  | ShAccm => if len p <? 10 then short else Ok (AAccm (octs 4 2 p) (octs 4 6 p))
  | ShSeqReq => Ok ASequencingRequired
  end.

Definition s_payload (t : N) (p : list N) : dres avp :=
  match shape_of t with
  | Some sh => s_shape t sh p
  | None => Err (UnknownAvp t)
  end.

(** * AVP records.  Header: octet 0 = LL..HM (top two bits: length bits 9-8, bit 1 = H,
    bit 0 = M), octet 1 = length bits 7-0, vendor at 2, attribute type at 4. *)
Definition rec_length (r : list N) : N := 256 * (fld 1 0 r / 64) + fld 1 1 r.
Definition rec_hidden (r : list N) : bool := N.testbit (fld 1 0 r) 1.
Definition rec_vendor (r : list N) : N := fld 2 2 r.
Definition rec_type (r : list N) : N := fld 2 4 r.

(** the value of one complete record (|r| = rec_length r >= 6) *)
Definition s_record (r : list N) : dres avp :=
  if negb (rec_vendor r =? 0) then Err (UnsupportedVendorId (rec_vendor r))
  else if rec_hidden r then Ok (AHidden (rec_type r) (dropN 6 r))
  else s_payload (rec_type r) (dropN 6 r).

(** greedy list over a region; [n] bounds the number of records (each is >= 6
    octets, so [S (length r)] is always enough: lemma [s_avps_fuel]) *)
Fixpoint s_avps_n (n : nat) (r : list N) : list (dres avp) * list N :=
  match n with
  | O => ([], r)
  | S n' =>
    if len r <? 6 then ([], r) else
    let L := rec_length r in
    if L <? 6 then ([Err (InvalidAVPLength L)], dropN 6 r) else
    if len r <? L then ([Err (InvalidAVPLength (L - 6))], dropN 6 r) else
    let (xs, tl) := s_avps_n n' (dropN L r) in
    (s_record (takeN L r) :: xs, tl)
  end.
Definition s_avps (r : list N) : list (dres avp) * list N := s_avps_n (S (length r)) r.

(** * message flag word: bit 8 = T, 9 = L, 12 = S, 14 = O, 15 = P, bits 4-7 = version,
    reserved = bits 0-3, 10, 11, 13 *)
Definition fw_T (w : N) := N.testbit w 8.
Definition fw_L (w : N) := N.testbit w 9.
Definition fw_S (w : N) := N.testbit w 12.
Definition fw_O (w : N) := N.testbit w 14.
Definition fw_P (w : N) := N.testbit w 15.
Definition fw_version (w : N) : N := (w / 16) mod 16.
Definition fw_reserved_clear (w : N) : bool := N.land w 11279 =? 0.   (* 0x2c0f *)

Definition sres := result (list derr) (message * list N).

Definition s_first_ok (rs : list (dres avp)) : bool :=
  match rs with
  | [] => true
  | Ok (AMessageType _) :: _ => true
  | _ => false
  end.

(** control message; [b] is the whole message including the flag word *)
Definition s_ctrl (o : opts) (b : list N) : sres :=
  let w := fld 2 0 b in
  if v_unused o && fw_P w then Err [ForbiddenControlMessagePriority] else
  if v_unused o && fw_O w then Err [ForbiddenControlMessageOffset] else
  if negb (fw_L w) then Err [ControlMessageWithoutLength] else
  if negb (fw_S w) then Err [ControlMessageWithoutNsNr] else
  if len b <? 12 then Err [IncompleteControlMessageHeader] else
  let L := fld 2 2 b in
  if L <? 12 then Err [IncompleteControlMessageHeader] else
  if len b <? L then Err [IncompleteControlMessagePayload] else
  let rs := fst (s_avps (octs (L - 12) 12 b)) in
  if negb (s_first_ok rs) then Err [ControlMessageTypeNotFirst] else
  if existsb is_err rs then Err (errs_of rs) else
  Ok (Control {| c_length := L; c_tunnel := fld 2 4 b; c_session := fld 2 6 b;
                 c_ns := fld 2 8 b; c_nr := fld 2 10 b; c_avps := oks_of rs |},
      dropN L b).

(** data message *)
Definition s_data (b : list N) : result derr (message * list N) :=
  let w := fld 2 0 b in
  let oL := if fw_L w then 2 else 0 in
  let oS := if fw_S w then 4 else 0 in
  let oO := if fw_O w then 2 else 0 in
  let fixed := 2 + oL + 4 + oS + oO in            (* header octets before the offset pad *)
  if len b <? fixed then Err IncompleteDataMessageHeader else
  let osz := if fw_O w then fld 2 (2 + oL + 4 + oS) b else 0 in
  if len b <? fixed + osz then Err (InvalidOffset osz) else
  let hdr := fixed + osz in
  let mlen := if fw_L w then Some (fld 2 2 b) else None in
  let check :=
    match mlen with
    | Some L => if L <? hdr then Err IncompleteDataMessageHeader
                else if len b <? L then Err IncompleteDataMessagePayload else Ok (L - hdr)
    | None => Ok (len b - hdr)
    end in
  match check with
  | Err e => Err e
  | Ok pl =>
    if pl =? 0 then Err EmptyDataMessagePayload else
    Ok (Data {| d_prio := fw_P w; d_length := mlen; d_tunnel := fld 2 (2 + oL) b;
                d_session := fld 2 (2 + oL + 2) b;
                d_nsnr := if fw_S w then Some (fld 2 (2 + oL + 4) b, fld 2 (2 + oL + 6) b) else None;
                d_offset := None; d_data := octs pl hdr b |},
        dropN (hdr + pl) b)
  end.

Definition s_decode (o : opts) (b : list N) : sres :=
  if len b <? 2 then Err [IncompleteFlags] else
  let w := fld 2 0 b in
  if v_version o && negb (fw_version w =? 2) then Err [InvalidVersion (fw_version w)] else
  if v_reserved o && negb (fw_reserved_clear w) then Err [InvalidReservedBits] else
  if fw_T w then s_ctrl o b
  else match s_data b with Ok x => Ok x | Err e => Err [e] end.
