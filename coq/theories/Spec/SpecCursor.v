(** The reference for SliceReader (C18): an immutable octet list and a position.
    Integer reads are the big-endian value of data[pos..pos+k); every operation
    advances the position by exactly the amount requested; a sub-reader is a cursor
    over exactly data[pos..pos+n); [bytes(n)] beyond the end returns None and does
    not move.  [None] = the operation's precondition does not hold (unchecked read,
    skip or sub-range past the end): the property leaves that case open. *)
From RL Require Export Base.Bytes Model.Ops Spec.SpecDecode.

Fixpoint c_op (o : rop) (d : list N) (pos : N) : option (obs * N) :=
  match o with
  | RLen => Some (ONum (len d - pos), pos)
  | RIsEmpty => Some (OBool (len d - pos =? 0), pos)
  | RU8 => if pos + 1 <=? len d then Some (ONum (fld 1 pos d), pos + 1) else None
  | RU16 => if pos + 2 <=? len d then Some (ONum (fld 2 pos d), pos + 2) else None
  | RU32 => if pos + 4 <=? len d then Some (ONum (fld 4 pos d), pos + 4) else None
  | RU64 => if pos + 8 <=? len d then Some (ONum (fld 8 pos d), pos + 8) else None
  | RBytes n =>
    if pos + n <=? len d then Some (OBytes (Some (octs n pos d)), pos + n)
    else Some (OBytes None, pos)
  | RSkip n => if pos + n <=? len d then Some (OUnit, pos + n) else None
  | RSub n ops =>
    if pos + n <=? len d then
      match (fix go (l : list rop) (p : N) : option (list obs * N) :=
               match l with
               | [] => Some ([], p)
               | o :: t =>
                 match c_op o (octs n pos d) p with
                 | Some (a, p') =>
                   match go t p' with Some (r, p'') => Some (a :: r, p'') | None => None end
                 | None => None
                 end
               end) ops 0 with
      | Some (obs, _) => Some (OSub obs, pos + n)
      | None => None
      end
    else None
  end.

Fixpoint c_ops (l : list rop) (d : list N) (p : N) : option (list obs * N) :=
  match l with
  | [] => Some ([], p)
  | o :: t =>
    match c_op o d p with
    | Some (a, p') =>
      match c_ops t d p' with Some (r, p'') => Some (a :: r, p'') | None => None end
    | None => None
    end
  end.

(** the reference for VecWriter: a byte vector *)
Definition vec_at (buf bs : list N) (off : N) : option (list N) :=
  if off + len bs <=? len buf then Some (takeN off buf ++ bs ++ dropN (off + len bs) buf) else None.
