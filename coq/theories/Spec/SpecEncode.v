(** Executable specification of the emitted octets: the layout stated once,
    declaratively, lengths computed up front (no placeholders, no back-patching). *)
From RL Require Export Model.Values.

Definition opt_octets (o : option (list N)) : list N := match o with Some b => b | None => [] end.

(** attribute value: the octets after the 6-octet AVP header *)
Definition s_value (a : avp) : list N :=
  match a with
  | AMessageType t => be16 (mt_code t)
  | AResultCode code err =>
    be16 code ++ match err with
                 | Some (et, msg) => be16 (et_code et) ++ opt_octets msg
                 | None => []
                 end
  | AProtocolVersion v r => [v; r]
  | A32 _ v => be32 v
  | ATieBreaker v => be64 v
  | A16 _ v => be16 v
  | ABytes _ v => v
  | AStr _ v => v
  | AFix _ v => v
  | AQ931CauseCode cc cm adv => be16 cc ++ [cm mod 256] ++ opt_octets adv
  | AProxyAuthenType t => be16 (pa_code t)
  | AProxyAuthenId v => [0; v]
  | ACallErrors a b c d e f => [0; 0] ++ be32 a ++ be32 b ++ be32 c ++ be32 d ++ be32 e ++ be32 f
  | AAccm s r => [0; 0] ++ s ++ r
  | ASequencingRequired => []
  | AHidden _ v => v
  end.

Definition avp_total (a : avp) : N := 6 + len (s_value a).
Definition avp_fits (a : avp) : bool := avp_total a <=? 1023.

(** AVP: M bit set, H bit only on hidden AVPs, reserved bits clear, 10-bit
    length split over the two octets, vendor 0, attribute type, value *)
Definition s_enc_avp (a : avp) : list N :=
  let l := avp_total a in
  [64 * (l / 256) + (if is_hidden a then 3 else 1); l mod 256; 0; 0]
    ++ be16 (attr_type a) ++ s_value a.

Definition s_enc_avps (l : list avp) : list N := concat (map s_enc_avp l).

(** flag word: T = bit 8, L = 9, S = 12, O = 14, P = 15, version in bits 4-7 *)
Definition b2N (b : bool) : N := if b then 1 else 0.
Definition s_flags (T L S O P : bool) (ver : N) : N :=
  256 * b2N T + 512 * b2N L + 4096 * b2N S + 16384 * b2N O + 32768 * b2N P + 16 * ver.

Definition ctrl_total (m : ctrl_msg) : N := 12 + len (s_enc_avps (c_avps m)).
Definition s_enc_ctrl (m : ctrl_msg) : list N :=
  be16 (s_flags true true true false false 2) ++ be16 (ctrl_total m)
    ++ be16 (c_tunnel m) ++ be16 (c_session m) ++ be16 (c_ns m) ++ be16 (c_nr m)
    ++ s_enc_avps (c_avps m).

Definition s_enc_data (d : data_msg) : list N :=
  be16 (s_flags false (match d_length d with Some _ => true | None => false end)
                (match d_nsnr d with Some _ => true | None => false end)
                (match d_offset d with Some _ => true | None => false end) (d_prio d) 2)
    ++ match d_length d with Some l => be16 l | None => [] end
    ++ be16 (d_tunnel d) ++ be16 (d_session d)
    ++ match d_nsnr d with Some (ns, nr) => be16 ns ++ be16 nr | None => [] end
    ++ match d_offset d with Some o => be16 o | None => [] end
    ++ d_data d.

Definition s_encode (v : message) : list N :=
  match v with Control m => s_enc_ctrl m | Data d => s_enc_data d end.

(** what can be encoded at all: every AVP fits 10 bits, the message fits 16 *)
Definition encodable (v : message) : bool :=
  match v with
  | Control m => forallb avp_fits (c_avps m) && (ctrl_total m <=? 65535)
  | Data _ => true
  end.
