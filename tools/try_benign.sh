#!/bin/bash
# tools/try_benign.sh <patch.diff> <name> : a behaviour-preserving refactoring must raise no alarm.
# scratch worktree of /repo HEAD + patch; the unedited suite must pass; then all 20 quick checks; prints the VIOLATION lines (none expected)
P=$(readlink -f "$1"); NAME=$2
V=$(cd "$(dirname "$0")/.." && pwd)
W=$(mktemp -d /tmp/bw-XXXXXX); rmdir $W
git -C /repo worktree add -q --detach $W HEAD && git -C $W apply "$P" || { echo "$NAME: patch does not apply"; exit 2; }
TAG=$(python3 -c "import hashlib,os,sys; print(hashlib.sha1(os.path.abspath(sys.argv[1]).encode()).hexdigest()[:8])" $W)
SUITE=$(cd $W && CARGO_NET_OFFLINE=true CARGO_TARGET_DIR=$W/target cargo test --offline 2>&1 | grep -E "^test result" | tr '\n' ' ')
ALARMS=""
for i in $(seq -w 1 20); do
  OUT=$(VERIF_REPO=$W $V/check C$i quick 2>&1 | grep -E "^VIOLATION")
  [ -n "$OUT" ] && ALARMS="$ALARMS C$i" && echo "$NAME C$i: $OUT" && cp $(echo "$OUT" | sed 's/.*replay=\([^ ]*\).*/\1/') $V/.cache/mutlogs/benign-$NAME-C$i.json 2>/dev/null
done
echo "BENIGN $NAME suite=[$SUITE] alarms=[$ALARMS ]"
git -C /repo worktree remove --force $W; rm -rf $W $V/.cache/harness-$TAG $V/.cache/target-$TAG $V/.cache/cargo-$TAG.lock $V/.cache/selftest-$TAG
