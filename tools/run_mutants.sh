#!/bin/bash
# tools/run_mutants.sh <parallelism> <ID> [<ID> ...] : evaluate $MUT_BASE/<ID>/out/patch{1,2,3} (default /tmp/mut)
# seeded/<ID>$MUT_SUFFIX-<k>/ receives the kept change
cd "$(dirname "$0")/.."
par=$1; shift
base=${MUT_BASE:-/tmp/mut}
suf=${MUT_SUFFIX:-}
mkdir -p .cache/mutlogs
for id in "$@"; do for k in 1 2 3; do
  [ -f $base/$id/out/patch$k.diff ] || continue
  [ -f seeded/$id$suf-$k/meta.json ] && continue
  echo "$id $k $base $suf"
done; done | xargs -P "$par" -L 1 bash -c 'python3 tools/try_mutant.py $2/$0/out $1 $0$3-$1 > .cache/mutlogs/$0$3-$1.log 2>&1; tail -1 .cache/mutlogs/$0$3-$1.log'
