#!/bin/bash
# tools/run_mutants.sh <parallelism> <ID> [<ID> ...] : evaluate /tmp/mut/<ID>/out/patch{1,2,3}
cd "$(dirname "$0")/.."
par=$1; shift
mkdir -p .cache/mutlogs
for id in "$@"; do for k in 1 2 3; do
  [ -f /tmp/mut/$id/out/patch$k.diff ] || continue
  [ -f seeded/$id-$k/meta.json ] && continue
  echo "$id $k"
done; done | xargs -P "$par" -L 1 bash -c 'python3 tools/try_mutant.py /tmp/mut/$0/out $1 $0-$1 > .cache/mutlogs/$0-$1.log 2>&1; tail -1 .cache/mutlogs/$0-$1.log'
