#!/usr/bin/env python3
"""Prints the markdown table of DESIGN.md section 9a from seeded/*/meta.json and the git history
of those files (first committed evaluation = detection before any strengthening)."""
import json, os, subprocess, collections
V = os.path.dirname(os.path.dirname(os.path.abspath(__file__)))
os.chdir(V)
rows = []
for d in sorted(os.listdir('seeded')):
    p = 'seeded/%s/meta.json' % d
    hs = subprocess.run(['git', 'log', '--diff-filter=A', '--format=%h', '--', p], capture_output=True, text=True).stdout.split()
    m1 = json.load(open(p))
    m0 = m1
    if hs:
        m0 = json.loads(subprocess.run(['git', 'show', '%s:%s' % (hs[-1], p)], capture_output=True, text=True).stdout)
    rows.append((d, m1['property'], bool(m0.get('caught_by_target')), m0.get('caught_by', []), m1.get('caught_by', []),
                 m1.get('no_failing_input_found', []), m1['summary']))
by = collections.defaultdict(list)
for r in rows:
    by[r[1]].append(r)
print('| property | kept changes | caught by its own check at first evaluation | caught now | other checks that also fire (union) |')
print('|---|---|---|---|---|')
for k in sorted(by):
    rs = by[k]
    others = sorted(set(sum([r[4] for r in rs], [])) - {k})
    print('| %s | %d | %d | %d | %s |' % (k, len(rs), sum(r[2] for r in rs), sum(k in r[4] for r in rs), ' '.join(others)))
print('| total | %d | %d | %d | |' % (len(rows), sum(r[2] for r in rows), sum(r[1] in r[4] for r in rows)))
print()
import re
def batch(name):
    m = re.match(r'C\d\d([a-z]?)-', name)
    return {'': '1', 'b': '2', 'c': '3', 'd': '4 (asked to be as hard to find as possible)', 'e': '5 (after all strengthening; same brief as 3)', 'f': '6 (as hard to find as possible, told of the newer generators)', 'g': '7 (as hard to find as possible, told of everything)'}[m.group(1)]
print('| batch | kept changes | caught by its own check at first evaluation | caught now |')
print('|---|---|---|---|')
for bname in ['1', '2', '3', '4 (asked to be as hard to find as possible)', '5 (after all strengthening; same brief as 3)', '6 (as hard to find as possible, told of the newer generators)', '7 (as hard to find as possible, told of everything)']:
    rs = [r for r in rows if batch(r[0]) == bname]
    print('| %s | %d | %d | %d |' % (bname, len(rs), sum(r[2] for r in rs), sum(r[1] in r[4] for r in rs)))
print()
print('Not caught by the target check now: ' + (', '.join('`%s`' % r[0] for r in rows if r[1] not in r[4]) or 'none'))
print()
print('Missed by the target check at first evaluation:')
print()
for r in rows:
    if not r[2]:
        print('* `%s` (%s; first evaluation fired %s): %s' % (r[0], r[1], ' '.join(r[3]) or 'nothing', r[6][:260]))
