#!/bin/bash
# Development aid, not a registered check: which regions of /repo/src do the correspondence inputs
# execute?  Builds the harness with -C instrument-coverage (nightly llvm-tools), runs the quick tier
# of the listed properties (default: all), merges the profiles and prints llvm-cov's report for the
# crate's own sources.  Evidence of these runs goes to .cache/selftest-*, never to evidence/.
cd "$(dirname "$0")/.."
BIN=$(ls -d ~/.rustup/toolchains/nightly-x86_64-unknown-linux-gnu/lib/rustlib/*/bin | head -1)
rm -rf .cache/cov; mkdir -p .cache/cov/raw
PROPS=${@:-C01 C02 C03 C04 C05 C06 C07 C08 C09 C10 C11 C12 C13 C14 C15 C16 C17 C18 C19 C20}
export VERIF_COV=1 VERIF_TIER=${VERIF_TIER:-quick}
printf '%s\n' $PROPS | xargs -P 4 -I{} bash -c './check {} $VERIF_TIER > .cache/cov/{}.log 2>&1; echo {} exit $?'
$BIN/llvm-profdata merge -sparse .cache/cov/raw/*.profraw -o .cache/cov/merged.profdata
OBJ=$(ls .cache/target-*-cov/debug/rl2tp_verif_harness | head -1)
$BIN/llvm-cov report $OBJ -instr-profile=.cache/cov/merged.profdata --ignore-filename-regex='(registry|rustc|harness|tests)' 2>/dev/null | tee .cache/cov/report.txt | tail -70
$BIN/llvm-cov show $OBJ -instr-profile=.cache/cov/merged.profdata --ignore-filename-regex='(registry|rustc|harness|tests)' --show-line-counts-or-regions 2>/dev/null > .cache/cov/show.txt
rm -rf .cache/cov/raw
