#!/usr/bin/env python3
"""Development aid: what do the two source ties (py/srcfacts.py tables, py/srctie2.py control flow) say about each seeded
change and each benign refactoring?  Works on a copy of /repo's sources with the patch applied (no build needed)."""
import json, os, shutil, subprocess, sys, tempfile
V = os.path.dirname(os.path.dirname(os.path.abspath(__file__)))
sys.path.insert(0, os.path.join(V, 'py'))
import srcfacts, srctie2
from concurrent.futures import ThreadPoolExecutor


def one(item):
    name, patch = item
    d = tempfile.mkdtemp(prefix='st-', dir='/tmp')
    try:
        shutil.copytree('/repo/src', os.path.join(d, 'src'))
        shutil.copy('/repo/Cargo.toml', d)
        subprocess.run(['git', 'init', '-q'], cwd=d)
        r = subprocess.run(['git', 'apply', patch], cwd=d, capture_output=True, text=True)
        if r.returncode:
            return name, {'apply': r.stderr[:100]}
        a = srcfacts.check(d, srcfacts.ALL_TIES, os.path.join(V, '.cache', 'work', 'sv-' + name))
        b = srctie2.check(d, srctie2.ALL, os.path.join(V, '.cache', 'work', 'sv2-' + name))
        bad = {k: v for k, v in list(a.items()) + list(b.items()) if not v.startswith('tied')}
        return name, bad
    finally:
        shutil.rmtree(d, ignore_errors=True)


items = []
for n in sorted(os.listdir(os.path.join(V, 'seeded'))):
    items.append((n, os.path.join(V, 'seeded', n, 'patch.diff')))
for b in sorted(os.listdir('/tmp/ben/out')) if os.path.isdir('/tmp/ben/out') else []:
    for k in (1, 2):
        p = '/tmp/ben/out/%s/patch%d.diff' % (b, k)
        if os.path.exists(p):
            items.append(('benign-%s-%d' % (b, k), p))
with ThreadPoolExecutor(4) as ex:
    for name, bad in ex.map(one, items):
        print(name, json.dumps(bad)[:400])
