#!/bin/bash
# tools/eval_batch.sh <outdir> <suffix> <id>...  : confirm and evaluate the changes a sub-agent left in
# <outdir>/<id>/{patch,demo,meta}{1,2}.*  as seeded/<id><suffix>-<k>   (PAR at a time, default 3).
# TARGET_ONLY=1 runs only the check of the property the change was written against.
cd "$(dirname "$0")/.."
OUT=$1; SUF=$2; shift 2
mkdir -p .cache/mutlogs
export OUT SUF TARGET_ONLY
for id in "$@"; do for k in 1 2 3; do [ -f $OUT/$id/patch$k.diff ] && echo "$id $k"; done; done |
  xargs -P ${PAR:-3} -L 1 bash -c 'P=""; [ -n "$TARGET_ONLY" ] && P="--props $0"; python3 tools/try_mutant.py $OUT/$0 $1 $0$SUF-$1 $P > .cache/mutlogs/$0$SUF-$1.log 2>&1; tail -1 .cache/mutlogs/$0$SUF-$1.log'
