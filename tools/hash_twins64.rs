// Parallel collision search (distinguished points) for 64-bit hashes of short octet strings.
// usage: sip <mode>   mode: sip_secret | sip_secret_len | sip_material | sip_material_len | fnv1a64
use std::collections::hash_map::DefaultHasher;
use std::collections::HashMap;
use std::hash::Hasher;
use std::sync::{Arc, Mutex, atomic::{AtomicBool, Ordering}};

fn material(mode: &str, x: u64) -> Vec<u8> {
    let s = x.to_be_bytes();
    match mode {
        "sip_secret" | "fnv1a64" => s.to_vec(),
        "sip_secret_len" => { let mut v = (8u64).to_le_bytes().to_vec(); v.extend_from_slice(&s); v }
        // attribute type 7 (Host Name), secret, random vector 01 02 03 04
        "sip_material" => { let mut v = vec![0u8, 7]; v.extend_from_slice(&s); v.extend_from_slice(&[1, 2, 3, 4]); v }
        "sip_material_len" => { let mut v = (14u64).to_le_bytes().to_vec(); v.extend_from_slice(&[0u8, 7]); v.extend_from_slice(&s); v.extend_from_slice(&[1, 2, 3, 4]); v }
        _ => panic!("mode"),
    }
}

fn h(mode: &str, x: u64) -> u64 {
    let m = material(mode, x);
    if mode == "fnv1a64" {
        let mut v: u64 = 0xcbf29ce484222325;
        for b in m { v ^= b as u64; v = v.wrapping_mul(0x100000001b3); }
        v
    } else {
        let mut hs = DefaultHasher::new();
        hs.write(&m);
        hs.finish()
    }
}

const DP_BITS: u32 = 18;

fn main() {
    let mode: &'static str = Box::leak(std::env::args().nth(1).unwrap().into_boxed_str());
    let table: Arc<Mutex<HashMap<u64, (u64, u64)>>> = Arc::new(Mutex::new(HashMap::new()));
    let done = Arc::new(AtomicBool::new(false));
    let mut hs = vec![];
    for t in 0..16u64 {
        let table = table.clone();
        let done = done.clone();
        hs.push(std::thread::spawn(move || {
            let mut seed = 0x9e3779b97f4a7c15u64.wrapping_mul(t + 1) ^ 0x1234567;
            while !done.load(Ordering::Relaxed) {
                seed = seed.wrapping_mul(6364136223846793005).wrapping_add(1442695040888963407);
                let start = seed;
                let mut x = start;
                let mut n = 0u64;
                loop {
                    x = h(mode, x);
                    n += 1;
                    if x >> (64 - DP_BITS) == 0 { break; }
                    if n > (1u64 << (DP_BITS + 5)) { n = 0; break; }
                }
                if n == 0 { continue; }
                let mut tb = table.lock().unwrap();
                if let Some(&(s2, n2)) = tb.get(&x) {
                    if s2 == start { continue; }
                    drop(tb);
                    // walk both chains to the merge point
                    let (mut a, mut la, mut b, mut lb) = (start, n, s2, n2);
                    while la > lb { a = h(mode, a); la -= 1; }
                    while lb > la { b = h(mode, b); lb -= 1; }
                    if a == b { continue; }   // one chain is a suffix of the other
                    loop {
                        let (na, nb) = (h(mode, a), h(mode, b));
                        if na == nb { break; }
                        a = na; b = nb;
                    }
                    if a != b && !done.swap(true, Ordering::SeqCst) {
                        let hex = |v: &[u8]| v.iter().map(|c| format!("{:02x}", c)).collect::<String>();
                        println!("{} {} {} hash={:016x} material_a={} material_b={}", mode, hex(&a.to_be_bytes()), hex(&b.to_be_bytes()), h(mode, a),
                                 hex(&material(mode, a)), hex(&material(mode, b)));
                    }
                } else {
                    tb.insert(x, (start, n));
                }
            }
        }));
    }
    for t in hs { t.join().unwrap(); }
}
