#!/usr/bin/env python3
"""Evaluate one seeded change: tools/try_mutant.py <srcdir> <k> <name> [--props C01,C05,...]
Confirms in a scratch worktree (outside /repo and /verif) that the patched crate builds, the
existing suite passes, the demonstration fails with the patch and passes without it; then runs
the checks against the patched worktree (VERIF_REPO) and records which ones raise a VIOLATION.
Writes /verif/seeded/<name>/{patch.diff,demo.rs,meta.json}. Removes the worktree and its build output."""
import json, os, shutil, subprocess, sys, tempfile, hashlib, time
VERIF = os.path.dirname(os.path.dirname(os.path.abspath(__file__)))
props = ['C%02d' % i for i in range(1, 21)]
if '--props' in sys.argv:
    props = sys.argv[sys.argv.index('--props') + 1].split(',')
if sys.argv[1] == '--seeded':
    # re-evaluate a kept change: tools/try_mutant.py --seeded <name>
    name = sys.argv[2]
    src = os.path.join(VERIF, 'seeded', name)
    shutil.copy(os.path.join(src, 'patch.diff'), os.path.join(src, '.patch.tmp'))
    shutil.copy(os.path.join(src, 'demo.rs'), os.path.join(src, '.demo.tmp'))
    patch, demo = os.path.join(src, '.patch.tmp'), os.path.join(src, '.demo.tmp')
    meta = json.load(open(os.path.join(src, 'meta.json')))
else:
    src, k, name = sys.argv[1], sys.argv[2], sys.argv[3]
    patch = os.path.join(src, 'patch%s.diff' % k)
    demo = os.path.join(src, 'demo%s.rs' % k)
    meta = json.load(open(os.path.join(src, 'meta%s.json' % k)))
wt = tempfile.mkdtemp(prefix='mw-', dir='/tmp')
os.rmdir(wt)
env = dict(os.environ, CARGO_NET_OFFLINE='true', CARGO_TARGET_DIR=os.path.join(wt, 'target'))
def sh(cmd, **kw):
    p = subprocess.run(cmd, shell=True, stdout=subprocess.PIPE, stderr=subprocess.STDOUT, text=True, env=env, **kw)
    return p.returncode, p.stdout
ran = {}
try:
    sh('git -C /repo worktree add -q --detach %s HEAD' % wt)
    rc, out = sh('git apply %s' % os.path.abspath(patch), cwd=wt)
    ran['apply'] = rc == 0
    rc, out = sh('cargo test --offline 2>&1 | grep -E "^test result"', cwd=wt)
    ran['suite_with_patch'] = out.strip().splitlines()
    suite_ok = rc == 0 and all(' 0 failed' in l for l in out.strip().splitlines()) and '98 passed' in out
    os.makedirs(os.path.join(wt, 'tests'), exist_ok=True)
    shutil.copy(demo, os.path.join(wt, 'tests', 'demo.rs'))
    rc1, out1 = sh('cargo test --offline --test demo 2>&1 | tail -5', cwd=wt)
    demo_fails_with = 'test result: FAILED' in out1 or 'error: test failed' in out1
    sh('git checkout -- src && git clean -fdq src', cwd=wt)     # (a patch may add files)
    rc2, out2 = sh('cargo test --offline --test demo 2>&1 | grep -E "^test result"', cwd=wt)
    demo_passes_without = 'test result: ok' in out2
    rc3, out3 = sh('git apply %s' % os.path.abspath(patch), cwd=wt)
    ran['reapply'] = rc3 == 0
    if rc3 != 0:
        raise SystemExit('patch could not be re-applied: ' + out3[:300])
    shutil.rmtree(os.path.join(wt, 'tests'))
    ran.update(suite_ok=suite_ok, demo_fails_with_patch=demo_fails_with, demo_passes_without_patch=demo_passes_without)
    results = {}
    env2 = dict(os.environ, VERIF_REPO=wt, CARGO_NET_OFFLINE='true')
    for p in props:
        t0 = time.time()
        q = subprocess.run([os.path.join(VERIF, 'check'), p, 'quick'], stdout=subprocess.PIPE, stderr=subprocess.STDOUT, text=True, env=env2)
        lines = [l for l in q.stdout.splitlines() if l.startswith('VIOLATION') or l.startswith('KNOWN')]
        results[p] = {'exit': q.returncode, 'lines': lines, 'wall_s': round(time.time() - t0, 1)}
        print(p, q.returncode, lines[:1], flush=True)
    caught = [p for p in props if results[p]['exit'] == 1]
    outdir = os.path.join(VERIF, 'seeded', name)
    os.makedirs(outdir, exist_ok=True)
    shutil.copy(patch, os.path.join(outdir, 'patch.diff'))
    shutil.copy(demo, os.path.join(outdir, 'demo.rs'))
    meta.update({'confirmed': ran, 'checks_run': props, 'caught_by': caught,
                 'caught_by_target': meta.get('property') in caught,
                 'no_failing_input_found': [p for p in caught if any('no-failing-input-found' in l for l in results[p]['lines'])],
                 'what_was_run': 'scratch worktree of /repo HEAD + patch: cargo test --offline (suite), tests/demo.rs with and without the patch, then VERIF_REPO=<worktree> ./check <id> quick for each listed property'})
    json.dump(meta, open(os.path.join(outdir, 'meta.json'), 'w'), indent=1)
    print('RESULT', name, 'suite_ok=%s demo_fails=%s demo_passes_clean=%s caught_by=%s' % (suite_ok, demo_fails_with, demo_passes_without, caught))
finally:
    tag = hashlib.sha1(os.path.abspath(wt).encode()).hexdigest()[:8]
    subprocess.run('git -C /repo worktree remove --force %s' % wt, shell=True, stdout=subprocess.DEVNULL, stderr=subprocess.DEVNULL)
    shutil.rmtree(wt, ignore_errors=True)
    for d in ('harness-', 'target-', 'selftest-'):
        shutil.rmtree(os.path.join(VERIF, '.cache', d + tag), ignore_errors=True)
    for f in (os.path.join(VERIF, '.cache', 'cargo-%s.lock' % tag), os.path.join(VERIF, 'seeded', name, '.patch.tmp'), os.path.join(VERIF, 'seeded', name, '.demo.tmp')):
        try:
            os.remove(f)
        except OSError:
            pass
