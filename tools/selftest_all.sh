#!/bin/bash
# Re-evaluates every kept change under seeded/ with the current machinery (3 in parallel) and
# rewrites each meta.json (caught_by, ...).  Development aid, not a registered check.
cd "$(dirname "$0")/.."
mkdir -p .cache/mutlogs
ls seeded | xargs -P "${1:-3}" -I{} bash -c 'python3 tools/try_mutant.py --seeded {} > .cache/mutlogs/re-{}.log 2>&1; tail -1 .cache/mutlogs/re-{}.log'
