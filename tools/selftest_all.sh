#!/bin/bash
# Re-evaluates kept changes under seeded/ with the current machinery (default 3 in parallel, all 20 checks each) and
# rewrites each meta.json (caught_by, ...).  Development aid, not a registered check.
#   tools/selftest_all.sh [parallel] [name filter regex]
cd "$(dirname "$0")/.."
mkdir -p .cache/mutlogs
ls seeded | grep -E "${2:-.}" | xargs -P "${1:-3}" -I{} bash -c 'python3 tools/try_mutant.py --seeded {} > .cache/mutlogs/re-{}.log 2>&1; tail -1 .cache/mutlogs/re-{}.log'
