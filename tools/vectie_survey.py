#!/usr/bin/env python3
"""Development aid: what does the slice/Vec source tie (py/rs2v/vecbuild.py) say about each seeded change and benign
refactoring that touches SliceReader, VecWriter, AVP::hide or AVP::reveal?  Works on a copy of /repo's sources."""
import json, os, shutil, subprocess, sys, tempfile
V = os.path.dirname(os.path.dirname(os.path.abspath(__file__)))
sys.path.insert(0, os.path.join(V, 'py'))
from rs2v import build, vecbuild
from concurrent.futures import ThreadPoolExecutor


def one(item):
    name, patch = item
    d = tempfile.mkdtemp(prefix='vt-', dir='/tmp')
    try:
        shutil.copytree('/repo/src', os.path.join(d, 'src'))
        subprocess.run(['git', 'init', '-q'], cwd=d)
        r = subprocess.run(['git', 'apply', patch], cwd=d, capture_output=True, text=True)
        if r.returncode:
            return name, {'apply': r.stderr[:100]}
        crate = build.load_crate(d)
        defs, ties, fails = vecbuild.translate(crate, d)
        base_defs = BASE[0]
        res = {k: 'not translated: ' + v[:100] for k, v in fails.items()}
        for n in defs:
            if defs[n] == base_defs.get(n):
                continue
            p = os.path.join(d, 'Tie_%s.v' % n)
            open(p, 'w').write(vecbuild.HEADER + defs[n] + ties[n][0][1])
            pr = subprocess.run(['coqc', '-noglob', '-Q', os.path.join(V, 'coq', 'theories'), 'RL', '-Q', d, 'G', p], capture_output=True, text=True, timeout=600)
            res[n] = 'changed, still tied' if pr.returncode == 0 else 'differs'
        return name, res
    finally:
        shutil.rmtree(d, ignore_errors=True)


BASE = [vecbuild.translate(build.load_crate('/repo'), '/repo')[0]]
items = []
for kind in ('seeded', 'benign'):
    for n in sorted(os.listdir(os.path.join(V, kind))):
        p = os.path.join(V, kind, n, 'patch.diff')
        if os.path.exists(p):
            t = open(p).read()
            if 'slice_reader.rs' in t or 'vec_writer.rs' in t or 'fn hide' in t or 'fn reveal' in t or 'src/message/avp.rs' in t:
                items.append((kind + '/' + n, p))
with ThreadPoolExecutor(4) as ex:
    for name, res in ex.map(one, items):
        print(name, json.dumps(res)[:300])
