import zlib, random, json
M=0xffffffff
def fnv1a(b):
    h=0x811c9dc5
    for c in b: h=((h^c)*16777619)&M
    return h
def fnv1(b):
    h=0x811c9dc5
    for c in b: h=((h*16777619)&M)^c
    return h
def djb2(b):
    h=5381
    for c in b: h=(h*33+c)&M
    return h
def djb2x(b):
    h=5381
    for c in b: h=((h*33)&M)^c
    return h
def sdbm(b):
    h=0
    for c in b: h=(c+(h<<6)+(h<<16)-h)&M
    return h
def oaat(b):
    h=0
    for c in b:
        h=(h+c)&M; h=(h+(h<<10))&M; h^=h>>6
    h=(h+(h<<3))&M; h^=h>>11; h=(h+(h<<15))&M
    return h
def crc(b): return zlib.crc32(b)
def adler(b): return zlib.adler32(b)
def poly131(b):
    h=0
    for c in b: h=(h*131+c)&M
    return h
def poly65599(b):
    h=0
    for c in b: h=(h*65599+c)&M
    return h
def rot5(b):
    h=0
    for c in b: h=(((h<<5)|(h>>27))&M)^c
    return h
H={'fnv1a32':fnv1a,'fnv1_32':fnv1,'djb2':djb2,'djb2_xor':djb2x,'sdbm':sdbm,'jenkins_oaat':oaat,'crc32':crc,'adler32':adler,'poly131':poly131,'poly65599':poly65599,'rotl5_xor':rot5}
out=[]
rng=random.Random(7)
for name,h in H.items():
    for mk in (lambda i: b'tunnel-secret-%06d'%i, lambda i: bytes.fromhex('%016x' % ((i*0x9e3779b97f4a7c15) & 0xffffffffffffffff))):
        seen={}
        found=None
        for i in range(1000000 if mk(0).startswith(b'tunnel') else 600000):
            s=mk(i); v=h(s)
            if v in seen and seen[v]!=s:
                found=(seen[v],s); break
            seen[v]=s
        if found:
            assert h(found[0])==h(found[1]) and len(found[0])==len(found[1]) and found[0]!=found[1]
            out.append((name,found[0].hex(),found[1].hex()))
            print(name,found)
        else: print(name,'none')
json.dump(out,open('twins.json','w'))
