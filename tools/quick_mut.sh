#!/bin/bash
# tools/quick_mut.sh <patch.diff> <property>... : run the quick checks against a scratch worktree of /repo HEAD + patch
# (development aid; evidence/replays of these runs go to .cache/selftest-*; worktree and caches removed afterwards)
P=$(readlink -f "$1"); shift
V=$(cd "$(dirname "$0")/.." && pwd)
W=$(mktemp -d /tmp/qm-XXXXXX); rmdir $W
git -C /repo worktree add -q --detach $W HEAD && git -C $W apply "$P" || { echo "patch does not apply"; exit 2; }
TAG=$(python3 -c "import hashlib,os,sys; print(hashlib.sha1(os.path.abspath(sys.argv[1]).encode()).hexdigest()[:8])" $W)
for p in "$@"; do
  VERIF_REPO=$W $V/check $p ${TIER:-quick} | grep -E "^(VIOLATION|KNOWN)" || echo "$p: no violation"
done
[ -n "$KEEP" ] || { git -C /repo worktree remove --force $W; rm -rf $W $V/.cache/harness-$TAG $V/.cache/target-$TAG $V/.cache/cargo-$TAG.lock; [ -n "$KEEPOUT" ] || rm -rf $V/.cache/selftest-$TAG; }
